#!/bin/bash
# Run every stored seeded change against the checks that are supposed to catch it (meta.json: caught_by).
# usage: tools/run_seeds.sh [name-filter]
cd ${VERIF_ROOT:-/verif}
for d in seeded/*/; do
  name=$(basename $d)
  [[ -n "$1" && "$name" != *$1* ]] && continue
  props=$(python3 -c "import json;print(' '.join(json.load(open('$d/meta.json'))['caught_by']))")
  echo "=== $name -> $props"
  tools/try_seed.sh ${VERIF_ROOT:-/verif}/$d/patch.diff $props 2>&1 | grep -E "^\[|VIOLATION" | cut -c1-150 | awk '/^\[/{print} /VIOLATION/{v++} END{print "   violations reported: " v+0}'
done
