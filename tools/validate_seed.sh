#!/bin/bash
# usage: tools/validate_seed.sh <Cxx> [name]  — confirm a seeded change produced in /tmp/wt-<Cxx> (+ /tmp/seedwork/<Cxx>):
#   existing tests pass with it, the demo fails with it and passes without it. Prints a summary; exit 0 if confirmed.
pid=$1; wt=/tmp/wt${SEED_ROUND}-$pid; sw=/tmp/seedwork${SEED_ROUND}/$pid
cd $wt || exit 2
export CARGO_NET_OFFLINE=true
git checkout -q -- src 2>/dev/null; git apply $sw/patch.diff || { echo "patch does not apply"; exit 2; }
cp $sw/seed_demo.rs tests/seed_demo.rs 2>/dev/null || { mkdir -p tests; cp $sw/seed_demo.rs tests/seed_demo.rs; }
echo "== existing suite with the change"; cargo test --offline --lib 2>&1 | grep "test result" ; r1=${PIPESTATUS[0]}
cargo test --offline --doc 2>&1 | grep "test result"; r1b=${PIPESTATUS[0]}
echo "== demo with the change (must fail)"; timeout 300 cargo test --offline --test seed_demo 2>&1 | grep -E "test result|FAILED|failed" | head -5; r2=${PIPESTATUS[0]}
git apply -R $sw/patch.diff
echo "== demo without the change (must pass)"; timeout 300 cargo test --offline --test seed_demo 2>&1 | grep -E "test result" ; r3=${PIPESTATUS[0]}
echo "suite_rc=$r1 doc_rc=$r1b demo_with=$r2 demo_without=$r3"
[ $r1 -eq 0 ] && [ $r1b -eq 0 ] && [ $r2 -ne 0 ] && [ $r3 -eq 0 ] && echo CONFIRMED
