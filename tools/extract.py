#!/usr/bin/env python3
"""Translator for the table-like part of micro-http: reads /repo/src as it is NOW and writes
lean/MicroHttp/Extracted.lean — the constants, the token / status / header-name tables, the 503 literal and
the fixed texts of the response writer, as Lean data. `Props/Tables.lean` then proves, by evaluation in the
kernel, that each extracted item equals what the hand-written model uses (`Tables.*`), so for these items the
theorems of C04/C05/C10/C15/C16/C18 are re-checked against what the code says on every run, not only sampled
by the correspondence.

An item the translator cannot find (the source was restructured) is written as `none`; the agreement theorems
have the form `item = none ∨ item = some <model value>`, so an unparsed item falls back to the correspondence
check (and is listed in the evidence) instead of raising an alarm, while a parsed item that differs breaks its
theorem.

usage: extract.py [<repo src dir>] [<output .lean>]   — prints a JSON summary {item: "ok" | "unparsed"}
"""
import json, os, re, sys

SRC = sys.argv[1] if len(sys.argv) > 1 else "/repo/src"
OUT = sys.argv[2] if len(sys.argv) > 2 else "/verif/lean/MicroHttp/Extracted.lean"


def read(rel):
    try:
        s = open(os.path.join(SRC, rel), encoding="utf-8").read()
    except OSError:
        return ""
    # drop the unit-test module
    m = re.search(r"^#\[cfg\(test\)\]\s*\n\s*(pub\s+)?mod\s+\w+\s*\{", s, flags=re.M)
    if m:
        s = s[:m.start()]
    return strip_comments(s)


def strip_comments(s):
    """drop `//` comments (doc examples contain look-alike code), leaving string literals intact"""
    out, i, in_str = [], 0, False
    while i < len(s):
        c = s[i]
        if in_str:
            out.append(c)
            if c == "\\" and i + 1 < len(s):
                out.append(s[i + 1])
                i += 2
                continue
            if c == '"':
                in_str = False
        elif c == '"':
            in_str = True
            out.append(c)
        elif c == "'" and i + 2 < len(s) and (s[i + 2] == "'" or (s[i + 1] == "\\" and i + 3 < len(s) and s[i + 3] == "'")):
            # a char literal such as '"' or '\\n': copy it whole so that its quote does not open a string
            n = 3 if s[i + 2] == "'" else 4
            out.append(s[i:i + n])
            i += n
            continue
        elif c == "/" and i + 1 < len(s) and s[i + 1] == "/":
            while i < len(s) and s[i] != "\n":
                i += 1
            continue
        else:
            out.append(c)
        i += 1
    return "".join(out)


def block_after(s, start):
    """text of the brace block opening at or after position `start`"""
    i = s.find("{", start)
    if i < 0:
        return None
    depth, j, in_str = 0, i, False
    while j < len(s):
        c = s[j]
        if in_str:
            if c == "\\":
                j += 2
                continue
            if c == '"':
                in_str = False
        else:
            if c == '"':
                in_str = True
            elif c == "{":
                depth += 1
            elif c == "}":
                depth -= 1
                if depth == 0:
                    return s[i:j + 1]
        j += 1
    return None


def impl_blocks(s, ty):
    out = []
    for m in re.finditer(r"\bimpl\s+" + re.escape(ty) + r"\s*\{", s):
        b = block_after(s, m.start())
        if b:
            out.append(b)
    return out


def fn_body(s, ty, fn):
    for b in impl_blocks(s, ty):
        m = re.search(r"\bfn\s+" + re.escape(fn) + r"\s*[<(]", b)
        if m:
            return block_after(b, m.start())
    return None


def unescape(lit):
    """bytes of a Rust (byte) string literal body"""
    out, i = bytearray(), 0
    while i < len(lit):
        c = lit[i]
        if c != "\\":
            out.extend(c.encode("utf-8"))
            i += 1
            continue
        n = lit[i + 1] if i + 1 < len(lit) else ""
        if n == "\n":
            # line continuation: skip the newline and the leading whitespace of the next line
            i += 2
            while i < len(lit) and lit[i] in " \t\n\r":
                i += 1
            continue
        if n == "x":
            out.append(int(lit[i + 2:i + 4], 16))
            i += 4
            continue
        table = {"n": 10, "r": 13, "t": 9, "\\": 92, '"': 34, "'": 39, "0": 0}
        if n in table:
            out.append(table[n])
            i += 2
            continue
        raise ValueError("escape \\" + n)
    return bytes(out)


STR = r'"((?:[^"\\]|\\.|\\\n)*)"'


def arms_variant_to_lit(body, byte_lit):
    """`Self::X => b"..."` / `Type::X => "..."` arms, in source order"""
    if body is None:
        return None
    pre = "b" if byte_lit else ""
    res = [(m.group(1), unescape(m.group(2))) for m in re.finditer(r"(?:Self|\w+)::(\w+)\s*=>\s*" + pre + STR, body)]
    return res or None


def arms_lit_to_variant(body, byte_lit):
    """`b"..." => Ok(Self::X)` arms, in source order"""
    if body is None:
        return None
    pre = "b" if byte_lit else ""
    res = [(unescape(m.group(1)), m.group(2)) for m in re.finditer(pre + STR + r"\s*=>\s*Ok\(\s*(?:Self|\w+)::(\w+)\s*\)", body)]
    return res or None


def const_nat(s, name):
    m = re.search(r"\b(?:const|static)\s+" + re.escape(name) + r"\s*:\s*[\w&\[\]' ]+=\s*([0-9_]+)\s*;", s)
    return int(m.group(1).replace("_", "")) if m else None


def const_bytes(s, name):
    m = re.search(r"\b(?:const|static)\s+" + re.escape(name) + r"\s*:\s*[^=;]+=\s*b?" + STR + r"\s*;", s)
    if not m:
        return None
    try:
        return unescape(m.group(1))
    except ValueError:
        return None


def lean_bytes(b):
    return "[" + ", ".join("0x%02X" % x for x in b) + "]"


def lean_str(t):
    return '"' + t.replace("\\", "\\\\").replace('"', '\\"') + '"'


def main():
    conn, srv, common, headers, resp, req = (read(x) for x in
                                             ("connection.rs", "server.rs", "common/mod.rs", "common/headers.rs", "response.rs", "request.rs"))
    items = []   # (lean name, lean type, value text or None)

    def nat(name, v):
        items.append((name, "Nat", None if v is None else str(v)))

    def byts(name, v):
        items.append((name, "List UInt8", None if v is None else lean_bytes(v)))

    def table_vb(name, v):   # variant -> bytes
        items.append((name, "List (String × List UInt8)",
                      None if v is None else "[" + ", ".join(f"({lean_str(k)}, {lean_bytes(b)})" for k, b in v) + "]"))

    def table_bv(name, v):   # bytes -> variant
        items.append((name, "List (List UInt8 × String)",
                      None if v is None else "[" + ", ".join(f"({lean_bytes(b)}, {lean_str(k)})" for b, k in v) + "]"))

    nat("BUFFER_SIZE", const_nat(conn, "BUFFER_SIZE"))
    nat("SCM_MAX_FD", const_nat(conn, "SCM_MAX_FD"))
    nat("MAX_CONNECTIONS", const_nat(srv, "MAX_CONNECTIONS"))
    nat("MAX_PAYLOAD_SIZE", const_nat(srv, "MAX_PAYLOAD_SIZE"))
    # `[epoll::EpollEvent::default(); MAX_CONNECTIONS + 2]`
    m = re.search(r"EpollEvent::default\(\)\s*;\s*MAX_CONNECTIONS\s*\+\s*([0-9]+)\s*\]", srv)
    nat("EVENT_ARRAY_EXTRA", int(m.group(1)) if m else None)
    # `if self.connections.len() == MAX_CONNECTIONS` — the capacity test is an equality
    nat("CAPACITY_TEST_IS_EQ", 1 if re.search(r"connections\.len\(\)\s*==\s*MAX_CONNECTIONS", srv) else None)
    byts("SERVER_FULL_ERROR_MESSAGE", const_bytes(srv, "SERVER_FULL_ERROR_MESSAGE"))
    byts("HTTP_SCHEME_PREFIX", const_bytes(req, "HTTP_SCHEME_PREFIX"))
    nat("CRLF_LEN", const_nat(common, "CRLF_LEN"))

    table_vb("methodRaw", arms_variant_to_lit(fn_body(common, "Method", "raw"), True))
    table_bv("methodTryFrom", arms_lit_to_variant(fn_body(common, "Method", "try_from"), True))
    table_vb("versionRaw", arms_variant_to_lit(fn_body(common, "Version", "raw"), True))
    table_bv("versionTryFrom", arms_lit_to_variant(fn_body(common, "Version", "try_from"), True))
    table_vb("statusRaw", arms_variant_to_lit(fn_body(resp, "StatusCode", "raw"), True))
    table_vb("mediaAsStr", arms_variant_to_lit(fn_body(headers, "MediaType", "as_str"), False))
    table_bv("mediaTryFrom", arms_lit_to_variant(fn_body(headers, "MediaType", "try_from"), False))
    table_vb("headerRaw", arms_variant_to_lit(fn_body(headers, "Header", "raw"), True))
    table_bv("headerTryFrom", arms_lit_to_variant(fn_body(headers, "Header", "try_from"), False))
    m = re.search(r"\bserver\s*:\s*String::from\(\s*" + STR + r"\s*\)", resp)
    byts("DEFAULT_SERVER", unescape(m.group(1)) if m else None)
    m = re.search(r"let\s+delimitator\s*=\s*b" + STR + r"\s*;", resp)
    byts("ALLOW_DELIMITER", unescape(m.group(1)) if m else None)
    # fixed texts of the response writer, in source order
    lits = [unescape(m.group(1)) for m in re.finditer(r"write_all\(\s*b" + STR + r"\s*\)", resp)]
    items.append(("responseLiterals", "List (List UInt8)", None if not lits else "[" + ", ".join(lean_bytes(b) for b in lits) + "]"))

    lines = ["/-",
             "  GENERATED by /verif/tools/extract.py from /repo/src on every run of `check` — do not edit.",
             "  `none` = the translator did not find the item in the source (see tools/extract.py).",
             "-/",
             "namespace MicroHttp.Extracted", ""]
    summary = {}
    for name, ty, val in items:
        summary[name] = "ok" if val is not None else "unparsed"
        if val is None:
            lines.append(f"def {name} : Option ({ty}) := none")
        else:
            lines.append(f"def {name} : Option ({ty}) := some {val}" if ty == "Nat" else f"def {name} : Option ({ty}) :=\n  some {val}")
    lines += ["", "end MicroHttp.Extracted", ""]
    text = "\n".join(lines)
    old = open(OUT).read() if os.path.exists(OUT) else None
    if old != text:
        with open(OUT, "w") as f:
            f.write(text)
    print(json.dumps(summary))


if __name__ == "__main__":
    main()
