#!/usr/bin/env python3
"""Translator for the table-like part of micro-http: reads /repo/src as it is NOW and writes
lean/MicroHttp/Extracted.lean — the constants, the token / status / header-name tables, the 503 literal and
the fixed texts of the response writer, as Lean data. `Props/Tables.lean` then proves, by evaluation in the
kernel, that each extracted item equals what the hand-written model uses (`Tables.*`), so for these items the
theorems of C04/C05/C10/C15/C16/C18 are re-checked against what the code says on every run, not only sampled
by the correspondence.

An item the translator cannot find (the source was restructured) is written as `none`; the agreement theorems
have the form `item = none ∨ item = some <model value>`, so an unparsed item falls back to the correspondence
check (and is listed in the evidence) instead of raising an alarm, while a parsed item that differs breaks its
theorem.

usage: extract.py [<repo src dir>] [<output .lean>]   — prints a JSON summary {item: "ok" | "unparsed"}
"""
import json, os, re, sys

SRC = sys.argv[1] if len(sys.argv) > 1 else "/repo/src"
OUT = sys.argv[2] if len(sys.argv) > 2 else "/verif/lean/MicroHttp/Extracted.lean"


def read(rel):
    try:
        s = open(os.path.join(SRC, rel), encoding="utf-8").read()
    except OSError:
        return ""
    # drop the unit-test module
    m = re.search(r"^#\[cfg\(test\)\]\s*\n\s*(pub\s+)?mod\s+\w+\s*\{", s, flags=re.M)
    if m:
        s = s[:m.start()]
    return strip_comments(s)


def strip_comments(s):
    """drop `//` comments (doc examples contain look-alike code), leaving string literals intact"""
    out, i, in_str = [], 0, False
    while i < len(s):
        c = s[i]
        if in_str:
            out.append(c)
            if c == "\\" and i + 1 < len(s):
                out.append(s[i + 1])
                i += 2
                continue
            if c == '"':
                in_str = False
        elif c == '"':
            in_str = True
            out.append(c)
        elif c == "'" and i + 2 < len(s) and (s[i + 2] == "'" or (s[i + 1] == "\\" and i + 3 < len(s) and s[i + 3] == "'")):
            # a char literal such as '"' or '\\n': copy it whole so that its quote does not open a string
            n = 3 if s[i + 2] == "'" else 4
            out.append(s[i:i + n])
            i += n
            continue
        elif c == "/" and i + 1 < len(s) and s[i + 1] == "/":
            while i < len(s) and s[i] != "\n":
                i += 1
            continue
        else:
            out.append(c)
        i += 1
    return "".join(out)


def block_after(s, start):
    """text of the brace block opening at or after position `start`"""
    i = s.find("{", start)
    if i < 0:
        return None
    depth, j, in_str = 0, i, False
    while j < len(s):
        c = s[j]
        if in_str:
            if c == "\\":
                j += 2
                continue
            if c == '"':
                in_str = False
        else:
            if c == '"':
                in_str = True
            elif c == "{":
                depth += 1
            elif c == "}":
                depth -= 1
                if depth == 0:
                    return s[i:j + 1]
        j += 1
    return None


def impl_blocks(s, ty):
    out = []
    base = ty.split("<")[0]
    for m in re.finditer(r"\bimpl(?:<[^{;]*?>)?\s+" + re.escape(base) + r"(?:<[^{;]*?>)?\s*\{", s):
        b = block_after(s, m.start())
        if b:
            out.append(b)
    return out


def fn_body(s, ty, fn):
    for b in impl_blocks(s, ty):
        m = re.search(r"\bfn\s+" + re.escape(fn) + r"\s*[<(]", b)
        if m:
            return block_after(b, m.start())
    return None


def unescape(lit):
    """bytes of a Rust (byte) string literal body"""
    out, i = bytearray(), 0
    while i < len(lit):
        c = lit[i]
        if c != "\\":
            out.extend(c.encode("utf-8"))
            i += 1
            continue
        n = lit[i + 1] if i + 1 < len(lit) else ""
        if n == "\n":
            # line continuation: skip the newline and the leading whitespace of the next line
            i += 2
            while i < len(lit) and lit[i] in " \t\n\r":
                i += 1
            continue
        if n == "x":
            out.append(int(lit[i + 2:i + 4], 16))
            i += 4
            continue
        table = {"n": 10, "r": 13, "t": 9, "\\": 92, '"': 34, "'": 39, "0": 0}
        if n in table:
            out.append(table[n])
            i += 2
            continue
        raise ValueError("escape \\" + n)
    return bytes(out)


STR = r'"((?:[^"\\]|\\.|\\\n)*)"'


def arms_variant_to_lit(body, byte_lit):
    """`Self::X => b"..."` / `Type::X => "..."` arms, in source order"""
    if body is None:
        return None
    pre = "b" if byte_lit else ""
    res = [(m.group(1), unescape(m.group(2))) for m in re.finditer(r"(?:Self|\w+)::(\w+)\s*=>\s*" + pre + STR, body)]
    return res or None


def arms_lit_to_variant(body, byte_lit):
    """`b"..." => Ok(Self::X)` arms, in source order"""
    if body is None:
        return None
    pre = "b" if byte_lit else ""
    res = [(unescape(m.group(1)), m.group(2)) for m in re.finditer(pre + STR + r"\s*=>\s*Ok\(\s*(?:Self|\w+)::(\w+)\s*\)", body)]
    return res or None


def const_nat(s, name):
    m = re.search(r"\b(?:const|static)\s+" + re.escape(name) + r"\s*:\s*[\w&\[\]' ]+=\s*([0-9_]+)\s*;", s)
    return int(m.group(1).replace("_", "")) if m else None


def const_bytes(s, name):
    m = re.search(r"\b(?:const|static)\s+" + re.escape(name) + r"\s*:\s*[^=;]+=\s*b?" + STR + r"\s*;", s)
    if not m:
        return None
    try:
        return unescape(m.group(1))
    except ValueError:
        return None


def lean_bytes(b):
    return "[" + ", ".join("0x%02X" % x for x in b) + "]"


def lean_str(t):
    return '"' + t.replace("\\", "\\\\").replace('"', '\\"') + '"'


def display_templates(src, ty):
    """`impl Display for <ty>`: one template per `Self::Variant(bindings) => write!(f, "fmt", args…)` arm, in
    source order — a list of literal pieces and holes, a hole being the INDEX of the variant's binding that is
    printed there (so the order of the arguments is part of what is extracted)."""
    m = re.search(r"\bimpl\s+(?:\w+::)*Display\s+for\s+" + re.escape(ty) + r"\s*\{", src)
    if not m:
        return None
    body = block_after(src, m.start())
    if body is None:
        return None
    arm = re.compile(r"Self::(\w+)\s*(?:\(([^)]*)\))?\s*=>\s*(?:\{\s*)?write!\(\s*f\s*,\s*" + STR + r"\s*((?:,\s*\w+\s*)*),?\s*\)")
    out = []
    for a in arm.finditer(body):
        variant, binds, fmt, args = a.group(1), a.group(2), a.group(3), a.group(4)
        binds = [b.strip() for b in (binds or "").split(",") if b.strip()]
        args = [x.strip() for x in args.split(",") if x.strip()]
        try:
            text = unescape(fmt).decode("utf-8")
        except (ValueError, UnicodeDecodeError):
            return None
        pieces, cur, i, k = [], "", 0, 0
        while i < len(text):
            if text.startswith("{{", i) or text.startswith("}}", i):
                cur += text[i]
                i += 2
            elif text.startswith("{}", i):
                if k >= len(args) or args[k] not in binds:
                    return None
                if cur:
                    pieces.append(cur.encode("utf-8"))
                    cur = ""
                pieces.append(binds.index(args[k]))
                k += 1
                i += 2
            elif text[i] in "{}":
                return None            # a format spec this translator does not know
            else:
                cur += text[i]
                i += 1
        if cur:
            pieces.append(cur.encode("utf-8"))
        if k != len(args):
            return None
        out.append((variant, pieces))
    # every arm of the match must have been understood
    n_arms = len(re.findall(r"Self::\w+\s*(?:\([^)]*\))?\s*=>", body))
    return out if out and len(out) == n_arms else None


def ctor_literals(srcs, ctor):
    """the distinct string literals passed to `RequestError::<ctor>("…")` outside the unit tests, in source order"""
    out = []
    for s in srcs:
        for m in re.finditer(r"\b" + re.escape(ctor) + r"\(\s*" + STR + r"\s*,?\s*\)", s):
            try:
                b = unescape(m.group(1))
            except ValueError:
                return None
            if b not in out:
                out.append(b)
    return out or None


def format_template(src, anchor):
    """the `format!("…{}…", x)` whose text contains `anchor`: (prefix, suffix) around its single hole"""
    for m in re.finditer(r"format!\(\s*" + STR, src):
        try:
            t = unescape(m.group(1)).decode("utf-8")
        except (ValueError, UnicodeDecodeError):
            continue
        if anchor in t and t.count("{}") == 1:
            pre, post = t.split("{}")
            fix = lambda x: x.replace("{{", "{").replace("}}", "}")
            return fix(pre).encode(), fix(post).encode()
    return None


# ------------------------------------------------------------------------------------------------------------
# Translator for the response writer: StatusLine::write_all, ResponseHeaders::{write_allow_header,
# write_deprecation_header, write_all}, Response::{write_body, write_all} become ONE Lean function
# `Response → List (List UInt8)` — the byte slices handed to `Write::write_all`, in order. Only the statement and
# expression forms listed here are understood; anything else makes the whole writer `none` (fallback to the
# correspondence).

class Unparsed(Exception):
    pass


def split_stmts(body):
    """top-level statements of a `{ ... }` block (text without the outer braces)"""
    out, depth, cur, i, in_str = [], 0, "", 0, False
    while i < len(body):
        c = body[i]
        cur += c
        if in_str:
            if c == "\\":
                cur += body[i + 1]
                i += 1
            elif c == '"':
                in_str = False
        elif c == '"':
            in_str = True
        elif c in "{([":
            depth += 1
        elif c in "})]":
            depth -= 1
            if c == "}" and depth == 0 and re.match(r"\s*(if|for)\b", cur):
                # a block statement ends at its closing brace unless an `else` follows
                rest = body[i + 1:].lstrip()
                if not rest.startswith("else"):
                    out.append(cur.strip())
                    cur = ""
        elif c == ";" and depth == 0:
            out.append(cur.strip())
            cur = ""
        i += 1
    if cur.strip():
        out.append(cur.strip())
    return out


BYTE_NAMES = {"SP": "SP", "CR": "CR", "LF": "LF", "COLON": "COLON"}


def tr_expr(e, env):
    e = e.strip()
    m = re.fullmatch(r"b" + STR, e)
    if m:
        return lean_bytes(unescape(m.group(1)))
    m = re.fullmatch(r"&\[([A-Z, ]+)\]", e)
    if m:
        names = [x.strip() for x in m.group(1).split(",") if x.strip()]
        if all(n in BYTE_NAMES for n in names):
            return "[" + ", ".join(BYTE_NAMES[n] for n in names) + "]"
    if e in env:
        return env[e]
    fixed = {
        "self.http_version.raw()": "r.version.raw",
        "self.status_code.raw()": "r.status.raw",
        "self.server.as_bytes()": "r.server",
        "self.content_type.as_str().as_bytes()": "r.contentType.raw",
    }
    if e in fixed:
        return fixed[e]
    m = re.fullmatch(r"Header::(\w+)\.raw\(\)", e)
    if m:
        return "Header." + m.group(1)[0].lower() + m.group(1)[1:] + ".raw"
    m = re.fullmatch(r"(\w+)\.to_string\(\)\.as_bytes\(\)", e)
    if m and env.get(m.group(1) + ":int"):
        return f"decimalInt {m.group(1)}"
    m = re.fullmatch(r"(\w+)\.raw\(\)", e)
    if m and env.get(m.group(1) + ":raw"):
        return env[m.group(1) + ":raw"]
    raise Unparsed("expression " + e)


def tr_cond(c, env):
    c = c.strip()
    table = {
        "self.allow.is_empty()": "r.allow.isEmpty",
        "!self.deprecation": "!r.deprecation",
        "self.deprecation": "r.deprecation",
        "self.accept_encoding": "r.acceptEncoding",
        "!self.accept_encoding": "!r.acceptEncoding",
    }
    if c in table:
        return table[c]
    m = re.fullmatch(r"(\w+)\s*<\s*self\.allow\.len\(\)\s*-\s*1", c)
    if m and env.get(m.group(1) + ":idx"):
        return f"decide ({m.group(1)} < r.allow.length - 1)"
    raise Unparsed("condition " + c)


def tr_block(stmts, env, fns):
    """Lean term of type List (List UInt8) for a statement sequence"""
    if not stmts:
        return "[]"
    s, rest = stmts[0], stmts[1:]
    env = dict(env)
    m = re.fullmatch(r"(?:buf|\(\*buf\))\.write_all\((.*)\)\?;", s, flags=re.S) or re.fullmatch(r"buf\.write_all\((.*)\)", s, flags=re.S)
    if m:
        return f"([{tr_expr(m.group(1), env)}] ++ {tr_block(rest, env, fns)})"
    m = re.fullmatch(r"self\.(?:(status_line|headers)\.)?(\w+)\((?:&mut )?buf\)\?;", s)
    if m:
        owner = {"status_line": "StatusLine", "headers": "ResponseHeaders", None: None}[m.group(1)]
        return f"({fns(owner, m.group(2))} ++ {tr_block(rest, env, fns)})"
    m = re.fullmatch(r"let\s+(\w+)\s*=\s*b" + STR + r"\s*;", s)
    if m:
        env[m.group(1)] = lean_bytes(unescape(m.group(2)))
        return tr_block(rest, env, fns)
    m = re.fullmatch(r"if\s+(.*?)\s*\{\s*return\s+Ok\(\(\)\);\s*\}", s, flags=re.S)
    if m:
        return f"(if {tr_cond(m.group(1), env)} then [] else {tr_block(rest, env, fns)})"
    m = re.fullmatch(r"if\s+let\s+Some\((?:ref\s+)?(\w+)\)\s*=\s*self\.(\w+)\s*(\{.*\})", s, flags=re.S)
    if m:
        name, field, blk = m.group(1), m.group(2), m.group(3)
        inner = dict(env)
        if field == "content_length":
            inner[name + ":int"] = True
            scrut = "r.contentLength"
        elif field == "body":
            inner[name + ":raw"] = name
            scrut = "r.body"
        else:
            raise Unparsed("if let on " + field)
        body = tr_block(split_stmts(blk[1:-1]), inner, fns)
        return f"((match {scrut} with | none => [] | some {name} => {body}) ++ {tr_block(rest, env, fns)})"
    m = re.fullmatch(r"if\s+(.*?)\s*(\{.*\})", s, flags=re.S)
    if m and "else" not in s.split("{")[0]:
        blk = m.group(2)
        if re.search(r"\}\s*else\b", blk):
            raise Unparsed("if/else")
        return f"((if {tr_cond(m.group(1), env)} then {tr_block(split_stmts(blk[1:-1]), env, fns)} else []) ++ {tr_block(rest, env, fns)})"
    m = re.fullmatch(r"for\s+\((\w+),\s*(\w+)\)\s+in\s+self\.allow\.iter\(\)\.enumerate\(\)\s*(\{.*\})", s, flags=re.S)
    if m:
        idx, var, blk = m.groups()
        inner = dict(env)
        inner[idx + ":idx"] = True
        inner[var + ":raw"] = f"{var}.raw"
        body = tr_block(split_stmts(blk[1:-1]), inner, fns)
        return f"(forEnum r.allow (fun {idx} {var} => {body}) ++ {tr_block(rest, env, fns)})"
    if re.fullmatch(r"Ok\(\(\)\)", s):
        if rest:
            raise Unparsed("statements after Ok(())")
        return "[]"
    raise Unparsed("statement " + s[:80])


def translate_writer(resp):
    bodies = {}

    def fns(owner, name):
        key = (owner, name)
        if key in bodies:
            return bodies[key]
        cands = [owner] if owner else ["Response", "ResponseHeaders", "StatusLine"]
        for ty in cands:
            b = fn_body(resp, ty, name)
            if b is not None:
                bodies[key] = tr_block(split_stmts(b[1:-1]), {}, fns)
                return bodies[key]
        raise Unparsed(f"function {owner}::{name}")

    try:
        return fns("Response", "write_all"), None
    except Unparsed as e:
        return None, str(e)
    except RecursionError:
        return None, "recursion"


# ------------------------------------------------------------------------------------------------------------
# Translator for small boolean predicates (`fn f(&self) -> bool { <expr> }`): `||`, `&&`, `!`, `==`, `!=`,
# parentheses, integer literals, and the atoms listed per predicate. Anything else → `none`.

def tr_pred(expr, atoms):
    toks = re.findall(r"\|\||&&|==|!=|!|\(|\)|[0-9]+|[A-Za-z_][\w:.]*(?:\(\))?(?:\.[A-Za-z_]\w*(?:\(\))?)*", expr)
    if "".join(toks) != re.sub(r"\s+", "", expr):
        raise Unparsed("predicate tokens " + expr)
    pos = [0]

    def peek():
        return toks[pos[0]] if pos[0] < len(toks) else None

    def eat(t=None):
        x = peek()
        if x is None or (t is not None and x != t):
            raise Unparsed("predicate syntax")
        pos[0] += 1
        return x

    def atom():
        x = eat()
        if x == "(":
            v = disj()
            eat(")")
            return v
        if x.isdigit():
            return x
        if x in atoms:
            return atoms[x]
        raise Unparsed("predicate atom " + x)

    def unary():
        if peek() == "!":
            eat()
            return f"(!{unary()})"
        return atom()

    def cmp_():
        a = unary()
        if peek() in ("==", "!="):
            op = eat()
            b = unary()
            return f"({a} {op} {b})"
        return a

    def conj():
        a = cmp_()
        while peek() == "&&":
            eat()
            a = f"({a} && {cmp_()})"
        return a

    def disj():
        a = conj()
        while peek() == "||":
            eat()
            a = f"({a} || {conj()})"
        return a

    v = disj()
    if peek() is not None:
        raise Unparsed("predicate trailing")
    return v


def translate_pred(src, ty, fn, atoms):
    body = fn_body(src, ty, fn)
    if body is None:
        return None
    inner = body.strip()[1:-1].strip()
    if ";" in inner:
        return None
    try:
        return tr_pred(inner, atoms)
    except Unparsed:
        return None


# ------------------------------------------------------------------------------------------------------------
# Translator for the response builder: `Response::new` and the public setters (`set_body`, `set_content_type`,
# `set_deprecation`, `set_encoding`, `set_server`, `set_allow`, `allow_method`, `set_content_length`), including
# the `ResponseHeaders` setters they call, become Lean functions over the model's `Response` record. Understood:
# `self.<field> = e;`, `self.headers.<field> = e;`, `self.headers.<setter>(args);`, `self.headers.allow.push(x);`
# with e ::= parameter | Some(e) | x.len() as i32 | String::from(x) | true | false. Anything else → `none`.

STATUS_LEAN = {"Continue": "continue_", "OK": "ok", "NoContent": "noContent", "BadRequest": "badRequest",
               "Unauthorized": "unauthorized", "NotFound": "notFound", "MethodNotAllowed": "methodNotAllowed",
               "PayloadTooLarge": "payloadTooLarge", "InternalServerError": "internalServerError",
               "NotImplemented": "notImplemented", "ServiceUnavailable": "serviceUnavailable"}
MEDIA_LEAN = {"PlainText": "plainText", "ApplicationJson": "applicationJson"}
RESP_FIELD = {"content_length": "contentLength", "content_type": "contentType", "deprecation": "deprecation",
              "server": "server", "allow": "allow", "accept_encoding": "acceptEncoding", "body": "body"}


def fn_params(src, ty, fn):
    for b in impl_blocks(src, ty):
        m = re.search(r"\bfn\s+" + re.escape(fn) + r"\s*\(\s*&mut\s+self\s*,?([^)]*)\)", b)
        if m:
            return [x.split(":")[0].strip() for x in m.group(1).split(",") if x.strip()]
    return None


def tr_val(e, env):
    e = e.strip()
    if e in env:
        return env[e]
    if e in ("true", "false"):
        return e
    m = re.fullmatch(r"Some\((.*)\)", e, flags=re.S)
    if m:
        return f"(some {tr_val(m.group(1), env)})"
    m = re.fullmatch(r"(\w+)\.len\(\)\s+as\s+i32", e)
    if m and m.group(1) in env:
        return f"(asI32 {env[m.group(1)]}.length)"
    m = re.fullmatch(r"String::from\(\s*(\w+)\s*\)", e)
    if m and m.group(1) in env:
        return env[m.group(1)]
    raise Unparsed("value " + e)


def tr_setter(resp, ty, fn, args, depth=0):
    """list of (lean field, lean value) updates, in order; `args` = Lean terms for the parameters"""
    if depth > 3:
        raise Unparsed("setter recursion")
    params, body = fn_params(resp, ty, fn), fn_body(resp, ty, fn)
    if params is None or body is None or len(params) != len(args):
        raise Unparsed(f"setter {ty}::{fn}")
    env = dict(zip(params, args))
    ups = []
    for st in split_stmts(body.strip()[1:-1]):
        st = st.strip()
        m = re.fullmatch(r"self\.headers\.(\w+)\((.*)\);", st, flags=re.S)
        if m and ty == "Response":
            inner = [tr_val(a, env) for a in m.group(2).split(",") if a.strip()] if m.group(2).strip() else []
            if m.group(1) == "push":
                raise Unparsed(st)
            ups += tr_setter(resp, "ResponseHeaders", m.group(1), inner, depth + 1)
            continue
        m = re.fullmatch(r"self\.(?:headers\.)?allow\.push\(\s*(\w+)\s*\);", st)
        if m and m.group(1) in env:
            ups.append(("allow", f"(r.allow ++ [{env[m.group(1)]}])"))
            continue
        m = re.fullmatch(r"self\.(headers\.)?(\w+)\s*=\s*(.*);", st, flags=re.S)
        if m and m.group(2) in RESP_FIELD and ((ty == "Response") == (bool(m.group(1)) or m.group(2) == "body")):
            ups.append((RESP_FIELD[m.group(2)], tr_val(m.group(3), env)))
            continue
        raise Unparsed("setter statement " + st)
    return ups


BUILD_OPS = [("setBody", "set_body", ["b"]), ("setContentType", "set_content_type", ["m"]), ("setDeprecation", "set_deprecation", []),
             ("setEncoding", "set_encoding", []), ("setServer", "set_server", ["s"]), ("setAllow", "set_allow", ["ms"]),
             ("allowMethod", "allow_method", ["m"]), ("setContentLength", "set_content_length", ["n"])]


def translate_builder(resp):
    try:
        arms = []
        for ctor, fn, vars_ in BUILD_OPS:
            ups = tr_setter(resp, "Response", fn, vars_)
            term = "r"
            for f, v in reversed(ups):
                term = f"(let r := {{ r with {f} := {v} }}; {term})"
            arms.append(f"    | .{ctor}{''.join(' ' + v for v in vars_)} => {term}")
        return "fun r op => match op with\n" + "\n".join(arms), None
    except Unparsed as e:
        return None, str(e)


def translate_new(resp, headers):
    """`Response::new` with `..Default::default()` resolved through `impl Default for ResponseHeaders`"""
    try:
        body = fn_body(resp, "Response", "new")
        if body is None:
            raise Unparsed("Response::new")
        m = re.search(r"content_length\s*:\s*match\s+status_code\s*\{(.*?)\}\s*,", body, flags=re.S)
        if not m or "..Default::default()" not in body or not re.search(r"\bbody\s*:\s*(Default::default\(\)|None)", body):
            raise Unparsed("Response::new shape")
        if not re.search(r"StatusLine::new\(\s*http_version\s*,\s*status_code\s*\)", body):
            raise Unparsed("status line")
        arms = []
        for am in re.finditer(r"([\w:|\s]+?)\s*=>\s*(None|Some\(\s*(\d+)\s*\))\s*,", m.group(1)):
            pats = [x.strip() for x in am.group(1).split("|")]
            val = "none" if am.group(2) == "None" else f"some {am.group(3)}"
            lp = []
            for p_ in pats:
                if p_ == "_":
                    lp.append("_")
                else:
                    mm = re.fullmatch(r"StatusCode::(\w+)", p_)
                    if not mm or mm.group(1) not in STATUS_LEAN:
                        raise Unparsed("status pattern " + p_)
                    lp.append("." + STATUS_LEAN[mm.group(1)])
            arms.append("| " + " | ".join(lp) + " => " + val)
        if not arms:
            raise Unparsed("no arms")
        dm = re.search(r"impl\s+Default\s+for\s+ResponseHeaders\s*\{", resp)
        dbody = block_after(resp, dm.start()) if dm else None
        if dbody is None:
            raise Unparsed("Default for ResponseHeaders")
        fields = {}
        for fm in re.finditer(r"\b(\w+)\s*:\s*(Default::default\(\)|false|true|Vec::new\(\)|String::from\(\s*" + STR + r"\s*\))\s*,", dbody):
            fields[fm.group(1)] = (fm.group(2), fm.group(3))
        need = ["content_type", "deprecation", "server", "allow", "accept_encoding"]
        if any(f not in fields for f in need):
            raise Unparsed("default fields")
        md = re.search(r"impl\s+Default\s+for\s+MediaType\s*\{", headers)
        mb = block_after(headers, md.start()) if md else None
        mm = re.search(r"Self::(\w+)", mb or "")
        if not mm or mm.group(1) not in MEDIA_LEAN:
            raise Unparsed("Default for MediaType")

        def val(f):
            t, lit = fields[f]
            if f == "content_type":
                if t != "Default::default()":
                    raise Unparsed("content_type default")
                return "." + MEDIA_LEAN[mm.group(1)]
            if t in ("true", "false"):
                return t
            if t == "Vec::new()":
                return "[]"
            if t.startswith("String::from"):
                return lean_bytes(unescape(lit))
            raise Unparsed("default of " + f)
        return ("fun v s => { version := v, status := s, contentLength := (match s with " + " ".join(arms) + "), "
                f"contentType := {val('content_type')}, deprecation := {val('deprecation')}, server := {val('server')}, "
                f"allow := {val('allow')}, acceptEncoding := {val('accept_encoding')}, body := none }}"), None
    except Unparsed as e:
        return None, str(e)


# ------------------------------------------------------------------------------------------------------------
# Translator for the two small state transitions of `ClientConnection` (server.rs):
#   write():             match self.connection.try_write() { arms } — each arm a block of `self.state = V;` and
#                        `if <pred> { … } [else { … }]` — becomes  CState → WriteOut → Bool → CState
#                        (state before, outcome of try_write, pending_write() afterwards ↦ state after)
#   enqueue_response():  `if <pred> { self.connection.enqueue_response(response); }` and the
#                        `checked_sub(N).ok_or(ServerError::Underflow)?` bookkeeping, in whichever order they stand,
#                        becomes  CState → Nat → Bool × Option Nat  (state, in-flight ↦ enqueued?, new count / Underflow)

CSTATE = {"ClientConnectionState::Closed": "CState.closed", "ClientConnectionState::AwaitingIncoming": "CState.awaitingIn",
          "ClientConnectionState::AwaitingOutgoing": "CState.awaitingOut"}


def match_arms(body):
    """[(pattern text, block text)] of the first `match … { … }` in body"""
    m = re.search(r"\bmatch\s+[^{]+\{", body)
    if not m:
        return None, None
    scrut = body[m.start():m.end() - 1]
    blk = block_after(body, m.end() - 1)
    if blk is None:
        return None, None
    inner, arms, i = blk[1:-1], [], 0
    while True:
        j = inner.find("=>", i)
        if j < 0:
            break
        pat = inner[i:j].strip().lstrip(",").strip()
        k = j + 2
        while k < len(inner) and inner[k] in " \t\r\n":
            k += 1
        if k >= len(inner) or inner[k] != "{":
            return None, None
        b = block_after(inner, k)
        if b is None:
            return None, None
        arms.append((pat, b))
        i = k + len(b)
    return scrut, arms


def tr_state_block(stmts, atoms):
    """Lean term for the value of `st` after the statements"""
    if not stmts:
        return "st"
    st, rest = stmts[0].strip(), stmts[1:]
    m = re.fullmatch(r"self\.state\s*=\s*([\w:]+)\s*;", st)
    if m and m.group(1) in CSTATE:
        return f"(let st := {CSTATE[m.group(1)]}; {tr_state_block(rest, atoms)})"
    m = re.fullmatch(r"if\s+(.*?)\s*(\{.*\})", st, flags=re.S)
    if m:
        cond = m.group(1)
        thn = block_after(m.group(2), 0)
        tail = m.group(2)[len(thn):].strip()
        els = None
        if tail:
            me = re.fullmatch(r"else\s*(\{.*\})", tail, flags=re.S)
            if not me:
                raise Unparsed("else " + tail)
            els = me.group(1)
        a = tr_state_block(split_stmts(thn[1:-1]), atoms)
        b = tr_state_block(split_stmts(els[1:-1]), atoms) if els else "st"
        return f"(let st := (if {tr_pred(cond, atoms)} then {a} else {b}); {tr_state_block(rest, atoms)})"
    raise Unparsed("state statement " + st)


def translate_client_write(srv):
    try:
        body = fn_body(srv, "ClientConnection", "write")
        if body is None:
            raise Unparsed("ClientConnection::write")
        scrut, arms = match_arms(body)
        if not arms or "self.connection.try_write()" not in scrut:
            raise Unparsed("match on try_write")
        # nothing but the match and the final Ok(())
        rest = body[body.index(scrut) + len(scrut):]
        rest = rest[len(block_after(rest, 0)):].strip()
        if not re.fullmatch(r"Ok\(\(\)\)\s*\}", rest):
            raise Unparsed("statements after the match: " + rest[:40])
        atoms = dict(CSTATE)
        atoms.update({"self.state": "st", "self.connection.pending_write()": "pw"})

        def arm_for(result):
            for idx, (pat, _) in enumerate(arms):
                for alt in [a.strip() for a in pat.split("|")]:
                    if alt == "_":
                        return idx
                    if result == "Ok" and re.fullmatch(r"Ok\(\s*(\(\)|_)\s*\)", alt):
                        return idx
                    mm = re.fullmatch(r"Err\(\s*ConnectionError::(\w+)\s*(\(\s*_\s*\))?\s*\)", alt)
                    if mm and mm.group(1) == result:
                        return idx
                    if not (mm or re.fullmatch(r"Ok\(\s*(\(\)|_)\s*\)", alt)):
                        raise Unparsed("pattern " + alt)
            raise Unparsed("no arm for " + result)
        a1, a2 = arm_for("ConnectionClosed"), arm_for("StreamWriteError")
        if a1 != a2:
            raise Unparsed("ConnectionClosed and StreamWriteError handled differently")
        terms = {}
        for out, idx in (("closed", a1), ("invalidWrite", arm_for("InvalidWrite")), ("ok", arm_for("Ok"))):
            terms[out] = tr_state_block(split_stmts(arms[idx][1][1:-1]), atoms)
        return ("fun st out pw => match out with | .closed => " + terms["closed"] + " | .invalidWrite => " + terms["invalidWrite"]
                + " | .ok => " + terms["ok"]), None
    except Unparsed as e:
        return None, str(e)


def translate_client_enqueue(srv):
    try:
        body = fn_body(srv, "ClientConnection", "enqueue_response")
        if body is None:
            raise Unparsed("ClientConnection::enqueue_response")
        stmts = [x.strip() for x in split_stmts(body.strip()[1:-1])]
        if len(stmts) != 3 or not re.fullmatch(r"Ok\(\(\)\)", stmts[2]):
            raise Unparsed("shape")
        atoms = dict(CSTATE)
        atoms["self.state"] = "st"
        enq = sub = None
        for idx, st in enumerate(stmts[:2]):
            m = re.fullmatch(r"if\s+(.*?)\s*\{\s*self\.connection\.enqueue_response\(\s*response\s*\)\s*;\s*\}", st, flags=re.S)
            if m:
                enq = (idx, tr_pred(m.group(1), atoms))
                continue
            m = re.fullmatch(r"self\.in_flight_response_count\s*=\s*self\s*\.in_flight_response_count\s*\.checked_sub\(\s*(\d+)\s*\)\s*"
                             r"\.ok_or\(\s*ServerError::Underflow\s*\)\?\s*;", st, flags=re.S)
            if m:
                sub = (idx, int(m.group(1)))
                continue
            raise Unparsed("statement " + st[:50])
        if enq is None or sub is None:
            raise Unparsed("missing part")
        n = sub[1]
        cond = enq[1] if enq[0] < sub[0] else f"({enq[1]} && !(decide (n < {n})))"
        return f"fun st n => ({cond}, if n < {n} then none else some (n - {n}))", None
    except Unparsed as e:
        return None, str(e)


# ------------------------------------------------------------------------------------------------------------
# Translator for the router (router.rs) and `Uri::get_abs_path` (request.rs).
#   add_route:            `let K = format!("…", args);  match self.routes.entry(K[.clone()]) { Occupied(_) => Err(HandlerExist(K)),
#                          Vacant(e) => { e.insert(handler); Ok(()) } }`  →  the key function and (occupied ↦ inserted?, ok?)
#   handle_http_request:  `let P = format!("…", args); let mut R = match self.routes.get(&P) { Some(h) => h.handle_request(..),
#                          None => Response::new(Version::V, StatusCode::S) }; R.set_x(arg); …; R`  →  key function, the
#                          fallback response and the setters applied to whatever the handler returned, in order
#   get_abs_path:         the two-branch shape of the function with its literals

VERSION_LEAN = {"Http10": "http10", "Http11": "http11"}


def fmt_pieces(fmt, args, names):
    """pieces of a `format!` text: bytes literals and Lean terms for the holes (`names`: Rust argument text -> Lean term)"""
    try:
        text = unescape(fmt).decode("utf-8")
    except (ValueError, UnicodeDecodeError):
        raise Unparsed("format text")
    args = [re.sub(r"\s+", "", a) for a in args if a.strip()]
    out, cur, i, k = [], "", 0, 0
    while i < len(text):
        if text.startswith("{{", i) or text.startswith("}}", i):
            cur += text[i]
            i += 2
        elif text.startswith("{}", i):
            if k >= len(args) or args[k] not in names:
                raise Unparsed("format argument " + (args[k] if k < len(args) else "?"))
            if cur:
                out.append(lean_bytes(cur.encode("utf-8")))
                cur = ""
            out.append(names[args[k]])
            k += 1
            i += 2
        elif text[i] in "{}":
            raise Unparsed("format spec")
        else:
            cur += text[i]
            i += 1
    if cur:
        out.append(lean_bytes(cur.encode("utf-8")))
    if k != len(args):
        raise Unparsed("unused format argument")
    return " ++ ".join(out) if out else "[]"


def split_args(t):
    """top-level comma split"""
    out, depth, cur = [], 0, ""
    for ch in t:
        if ch in "([{":
            depth += 1
        elif ch in ")]}":
            depth -= 1
        if ch == "," and depth == 0:
            out.append(cur)
            cur = ""
        else:
            cur += ch
    if cur.strip():
        out.append(cur)
    return out


def translate_router(router):
    """(addKey, addShape, dispatchKey, handle) as Lean terms, or Unparsed"""
    res = {}
    try:
        body = fn_body(router, "HttpRoutes<T>", "add_route")
        if body is None:
            raise Unparsed("add_route")
        m = re.search(r"let\s+(\w+)\s*=\s*format!\(\s*" + STR + r"\s*,(.*?)\)\s*;\s*match\s+self\.routes\.entry\(\s*(\w+)(?:\.clone\(\))?\s*\)\s*\{(.*)\}\s*\}\s*$", body, flags=re.S)
        if not m or m.group(1) != m.group(4):
            raise Unparsed("add_route shape")
        kv = m.group(1)
        res["addKey"] = "fun m pre path => " + fmt_pieces(m.group(2), split_args(m.group(3)),
                                                         {"method.to_str()": "m.toStr", "self.prefix": "pre", "path": "path"})
        arms = m.group(5)
        occ = re.search(r"Entry::Occupied\(\s*_\w*\s*\)\s*=>\s*Err\(\s*RouteError::HandlerExist\(\s*" + kv + r"\s*\)\s*\)\s*,", arms)
        vac = re.search(r"Entry::Vacant\(\s*(\w+)\s*\)\s*=>\s*\{\s*\1\.insert\(\s*handler\s*\)\s*;\s*Ok\(\s*\(\)\s*\)\s*\}", arms)
        rest = arms
        for x in (occ, vac):
            if not x:
                raise Unparsed("add_route arms")
            rest = rest.replace(x.group(0), "")
        if rest.strip(" \n\t,"):
            raise Unparsed("add_route: extra arm text")
        res["addShape"] = "fun occupied => if occupied then (false, false) else (true, true)"
    except Unparsed as e:
        res["addKey"] = res["addShape"] = None
        res["why_add"] = str(e)
    try:
        body = fn_body(router, "HttpRoutes<T>", "handle_http_request")
        nbody = fn_body(router, "HttpRoutes<T>", "new")
        if body is None or nbody is None:
            raise Unparsed("handle_http_request")
        m = re.search(r"^\s*\{\s*let\s+(\w+)\s*=\s*format!\(\s*" + STR + r"\s*,(.*?)\)\s*;\s*let\s+mut\s+(\w+)\s*=\s*match\s+self\.routes\.get\(\s*&\1\s*\)\s*\{(.*?)\}\s*;(.*)\}\s*$", body, flags=re.S)
        if not m:
            raise Unparsed("handle shape")
        res["dispatchKey"] = "fun m abs => " + fmt_pieces(m.group(2), split_args(m.group(3)),
                                                          {"request.method().to_str()": "m.toStr", "request.uri().get_abs_path()": "abs"})
        rv, arms, tail = m.group(4), m.group(5), m.group(6)
        some = re.search(r"Some\(\s*(\w+)\s*\)\s*=>\s*\1\.handle_request\(\s*request\s*,\s*argument\s*\)\s*,", arms)
        none = re.search(r"None\s*=>\s*Response::new\(\s*Version::(\w+)\s*,\s*StatusCode::(\w+)\s*\)\s*,?", arms)
        rest = arms
        for x in (some, none):
            if not x:
                raise Unparsed("handle arms")
            rest = rest.replace(x.group(0), "")
        if rest.strip(" \n\t,") or none.group(1) not in VERSION_LEAN or none.group(2) not in STATUS_LEAN:
            raise Unparsed("handle arms: extra text")
        fields = {}
        for fm in re.finditer(r"\b(\w+)\s*:\s*MediaType::(\w+)\s*,", nbody):
            fields["self." + fm.group(1)] = "." + MEDIA_LEAN.get(fm.group(2), "?")
        if re.search(r"\bserver_id\s*,", nbody):
            fields["&self.server_id"] = "r.serverId"
        term = f"(match found with | some x => x | none => Response.new .{VERSION_LEAN[none.group(1)]} .{STATUS_LEAN[none.group(2)]})"
        stmts = [x.strip() for x in split_stmts(tail) if x.strip()]
        if not stmts or stmts[-1] != rv:
            raise Unparsed("handle tail")
        ops = {fn: ctor for ctor, fn, _ in BUILD_OPS}
        for st in stmts[:-1]:
            sm = re.fullmatch(re.escape(rv) + r"\.(\w+)\(\s*(.*?)\s*\);", st, flags=re.S)
            if not sm or sm.group(1) not in ops:
                raise Unparsed("handle statement " + st)
            arg = sm.group(2)
            if arg and (arg not in fields or "?" in fields[arg]):
                raise Unparsed("handle argument " + arg)
            term = f"(Response.apply {term} (.{ops[sm.group(1)]}{' ' + fields[arg] if arg else ''}))"
        res["handle"] = "fun r found => " + term
    except Unparsed as e:
        res["dispatchKey"] = res["handle"] = None
        res["why_handle"] = str(e)
    return res


def translate_abs_path(req):
    body = fn_body(req, "Uri", "get_abs_path")
    if body is None:
        return None
    t = re.sub(r"\s+", " ", body)
    m = re.fullmatch(
        r" ?\{ const (\w+): &str = " + STR + r"; if self\.string\.starts_with\(\1\) \{ let (\w+) = &self\.string\[\1\.len\(\)\.\.\]; "
        r"if \3\.is_empty\(\) \{ return \"\"; \} match \3\.bytes\(\)\.position\(\|(\w+)\| \4 == b'(.)'\) \{ "
        r"Some\((\w+)\) => &\3\[\6\.\.\], None => \"\", \} \} else \{ if self\.string\.starts_with\('(.)'\) \{ "
        r"return self\.string\.as_str\(\); \} \"\" \} \} ?", t)
    if not m:
        return None
    try:
        pre = unescape(m.group(2))
    except ValueError:
        return None
    c1, c2 = ord(m.group(5)), ord(m.group(7))
    return (f"fun uri => if ({lean_bytes(pre)} : List UInt8).isPrefixOf uri then (let w := uri.drop ({lean_bytes(pre)} : List UInt8).length; "
            f"if w.isEmpty then [] else w.dropWhile (· != {c1})) else if ([{c2}] : List UInt8).isPrefixOf uri then uri else []")


def shared_state(srcs):
    """state that lives OUTSIDE the objects: `thread_local!`, `static mut`, `lazy_static!`, statics with interior
    mutability. The model treats connections, servers, routers, responses and header sets as independent values; that is
    only faithful if the source keeps no such state (immutable `static` tables are fine). Returns the offending lines."""
    pats = [r"\bthread_local!", r"\bstatic\s+mut\b", r"\blazy_static!",
            r"\bstatic\s+\w+\s*:\s*[^=;]*\b(?:Mutex|RwLock|RefCell|Cell|UnsafeCell|Atomic\w+|OnceCell|OnceLock|LazyLock|LazyCell|Lazy|Once)\b"]
    found = []
    for name, text in srcs:
        for ln in text.split("\n"):
            if any(re.search(p_, ln) for p_ in pats):
                found.append(f"{name}: {ln.strip()[:100]}")
    return found


def server_ctor(srv, fn):
    """the struct literal a constructor of `HttpServer` returns, as the model's initial server: (limit, hasKill, conns
    empty) — `payload_max_size: <const or number>`, `kill_switch: None`, `connections: HashMap::new()`; other fields are
    the OS resources. None if the literal is not of that shape."""
    body = fn_body(srv, "HttpServer", fn)
    if body is None:
        return None
    m = re.search(r"Ok\(\s*(?:Self|HttpServer)\s*\{(.*?)\}\s*\)", body, flags=re.S)
    if not m:
        return None
    fields = {}
    for part in split_args(m.group(1)):
        part = part.strip()
        if not part:
            continue
        if ":" in part:
            k, v = part.split(":", 1)
            fields[k.strip()] = re.sub(r"\s+", "", v)
        else:
            fields[part] = part
    if set(fields) != {"socket", "epoll", "kill_switch", "connections", "payload_max_size"}:
        return None
    lim = fields["payload_max_size"]
    if lim == "MAX_PAYLOAD_SIZE":
        lim = const_nat(srv, "MAX_PAYLOAD_SIZE")
    elif re.fullmatch(r"[0-9_]+", lim):
        lim = int(lim.replace("_", ""))
    else:
        return None
    if lim is None or fields["connections"] != "HashMap::new()" or fields["kill_switch"] not in ("None", "Some"):
        return None
    if fields["socket"] != "socket" or fields["epoll"] != "epoll":
        return None
    return f"({lim}, {'false' if fields['kill_switch'] == 'None' else 'true'}, true)"


def struct_literal_fields(body):
    m = re.search(r"\bSelf\s*\{", body)
    if not m:
        return None
    blk = block_after(body, m.start())
    if blk is None:
        return None
    fields = {}
    for part in split_args(blk.strip()[1:-1]):
        part = part.strip()
        if not part:
            continue
        if ":" in part:
            k, v = part.split(":", 1)
            fields[k.strip()] = re.sub(r"\s+", "", v)
        else:
            fields[part] = part
    return fields


def conn_ctor(conn, srv):
    """`HttpConnection::new`: (state, read_cursor, body_vec empty, body_bytes_to_be_read, pending none, parsed empty, queue
    empty, response buffer none, files empty, limit) as the literal says"""
    body = fn_body(conn, "HttpConnection<T>", "new")
    f = struct_literal_fields(body) if body else None
    want = {"pending_request", "stream", "state", "buffer", "read_cursor", "body_vec", "body_bytes_to_be_read", "parsed_requests",
            "response_queue", "response_buffer", "files", "payload_max_size"}
    if not f or set(f) != want or f["stream"] != "stream":
        return None
    empty = {"vec![]", "Vec::new()", "VecDeque::new()", "Default::default()"}
    st = re.fullmatch(r"ConnectionState::(\w+)", f["state"])
    lim = const_nat(srv, "MAX_PAYLOAD_SIZE") if f["payload_max_size"] == "MAX_PAYLOAD_SIZE" else (int(f["payload_max_size"]) if f["payload_max_size"].isdigit() else None)
    if not st or lim is None or not f["read_cursor"].isdigit() or not f["body_bytes_to_be_read"].isdigit():
        return None
    if not re.fullmatch(r"\[0;BUFFER_SIZE\]", f["buffer"]):
        return None
    b = lambda x: "true" if x else "false"
    return (f"({lean_str(st.group(1))}, {int(f['read_cursor'])}, {b(f['body_vec'] in empty)}, {int(f['body_bytes_to_be_read'])}, {b(f['pending_request'] == 'None')}, "
            f"{b(f['parsed_requests'] in empty)}, {b(f['response_queue'] in empty)}, {b(f['response_buffer'] == 'None')}, {b(f['files'] in empty)}, {lim})")


def client_ctor(srv):
    """`ClientConnection::new`: (state, in-flight count)"""
    body = fn_body(srv, "ClientConnection<T>", "new")
    f = struct_literal_fields(body) if body else None
    if not f or set(f) != {"connection", "state", "in_flight_response_count"} or f["connection"] != "connection":
        return None
    st = re.fullmatch(r"ClientConnectionState::(\w+)", f["state"])
    if not st or not f["in_flight_response_count"].isdigit():
        return None
    return f"({lean_str(st.group(1))}, {int(f['in_flight_response_count'])})"


def setter_is_assignment(src, ty, fn, field):
    """1 if the body of `fn` is exactly `self.<field> = <its parameter>;`"""
    params, body = fn_params(src, ty, fn), fn_body(src, ty, fn)
    if not params or len(params) != 1 or body is None:
        return None
    return 1 if re.fullmatch(r"\{\s*self\." + field + r"\s*=\s*" + re.escape(params[0]) + r"\s*;\s*\}", body.strip()) else None


def accept_configures_limit(srv):
    """1 if `handle_new_connection` builds the connection as `HttpConnection::new(stream)` followed by
    `set_payload_max_size(self.payload_max_size)` and files `ClientConnection::new(<that connection>)`"""
    body = fn_body(srv, "HttpServer", "handle_new_connection")
    if body is None:
        return None
    m = re.search(r"let\s+mut\s+(\w+)\s*=\s*HttpConnection::new\(\s*\w+\s*\)\s*;\s*\1\.set_payload_max_size\(\s*self\.payload_max_size\s*\)\s*;", body)
    if not m:
        return None
    return 1 if re.search(r"ClientConnection::new\(\s*" + m.group(1) + r"\s*\)", body) else None


def struct_fields(src, name):
    """the field names of `struct <name>[<..>] { … }`, in order (None if there is no such struct)"""
    m = re.search(r"\bstruct\s+" + re.escape(name) + r"\s*(?:<[^{;]*?>)?\s*\{", src)
    if not m:
        return None
    blk = block_after(src, m.start())
    if blk is None:
        return None
    out = []
    parts, depth, cur = [], 0, ""
    for ch in blk.strip()[1:-1]:
        if ch in "([{<":
            depth += 1
        elif ch in ")]}>":
            depth -= 1
        if ch == "," and depth == 0:
            parts.append(cur)
            cur = ""
        else:
            cur += ch
    parts.append(cur)
    for part in parts:
        part = re.sub(r"#\[[^\]]*\]", "", part).strip()
        if not part:
            continue
        fm = re.match(r"(?:pub(?:\([^)]*\))?\s+)?(\w+)\s*:", part)
        if not fm:
            return None
        out.append(fm.group(1))
    return out


def reset_block(conn):
    """the assignments `try_read` makes after a ParseError, as (field, what) pairs in source order"""
    body = fn_body(conn, "HttpConnection<T>", "try_read")
    if body is None:
        return None
    m = re.search(r"if\s+let\s+Err\(\s*ConnectionError::ParseError\(\s*_\s*\)\s*\)\s*=\s*(\w+)\s*\{", body)
    if not m:
        return None
    blk = block_after(body, m.start())
    if blk is None:
        return None
    out = []
    for st in split_stmts(blk.strip()[1:-1]):
        st = st.strip()
        if not st:
            continue
        a = re.fullmatch(r"self\.(\w+)\s*=\s*(.+?);", st, flags=re.S)
        c = re.fullmatch(r"self\.(\w+)\.clear\(\)\s*;", st)
        if a:
            out.append((a.group(1), re.sub(r"\s+", "", a.group(2))))
        elif c:
            out.append((c.group(1), "clear"))
        else:
            return None
    return out


def interior_mutability(srcs):
    """types with interior mutability mentioned anywhere in the non-test source: the model takes every `&self` method
    (write_all, the getters, handle_http_request, …) to be a function of the value it is called on"""
    pat = r"\b(?:Cell|RefCell|UnsafeCell|OnceCell|OnceLock|LazyCell|LazyLock|Mutex|RwLock|Atomic[A-Z]\w*)\b"
    found = []
    for name, text in srcs:
        for ln in text.split("\n"):
            if re.search(pat, ln):
                found.append(f"{name}: {ln.strip()[:100]}")
    return found


def main():
    conn, srv, common, headers, resp, req = (read(x) for x in
                                             ("connection.rs", "server.rs", "common/mod.rs", "common/headers.rs", "response.rs", "request.rs"))
    items = []   # (lean name, lean type, value text or None)

    def nat(name, v):
        items.append((name, "Nat", None if v is None else str(v)))

    def byts(name, v):
        items.append((name, "List UInt8", None if v is None else lean_bytes(v)))

    def table_vb(name, v):   # variant -> bytes
        items.append((name, "List (String × List UInt8)",
                      None if v is None else "[" + ", ".join(f"({lean_str(k)}, {lean_bytes(b)})" for k, b in v) + "]"))

    def table_bv(name, v):   # bytes -> variant
        items.append((name, "List (List UInt8 × String)",
                      None if v is None else "[" + ", ".join(f"({lean_bytes(b)}, {lean_str(k)})" for b, k in v) + "]"))

    nat("BUFFER_SIZE", const_nat(conn, "BUFFER_SIZE"))
    nat("SCM_MAX_FD", const_nat(conn, "SCM_MAX_FD"))
    nat("MAX_CONNECTIONS", const_nat(srv, "MAX_CONNECTIONS"))
    nat("MAX_PAYLOAD_SIZE", const_nat(srv, "MAX_PAYLOAD_SIZE"))
    # `[epoll::EpollEvent::default(); MAX_CONNECTIONS + 2]`
    m = re.search(r"EpollEvent::default\(\)\s*;\s*MAX_CONNECTIONS\s*\+\s*([0-9]+)\s*\]", srv)
    nat("EVENT_ARRAY_EXTRA", int(m.group(1)) if m else None)
    # `if self.connections.len() == MAX_CONNECTIONS` — the capacity test is an equality
    nat("CAPACITY_TEST_IS_EQ", 1 if re.search(r"connections\.len\(\)\s*==\s*MAX_CONNECTIONS", srv) else None)
    items.append(("connNew", "String × Nat × Bool × Nat × Bool × Bool × Bool × Bool × Bool × Nat", conn_ctor(conn, srv)))
    items.append(("clientNew", "String × Nat", client_ctor(srv)))
    nat("SERVER_SET_LIMIT_IS_ASSIGNMENT", setter_is_assignment(srv, "HttpServer", "set_payload_max_size", "payload_max_size"))
    nat("CONN_SET_LIMIT_IS_ASSIGNMENT", setter_is_assignment(conn, "HttpConnection<T>", "set_payload_max_size", "payload_max_size"))
    nat("ACCEPT_CONFIGURES_LIMIT", accept_configures_limit(srv))
    items.append(("serverNew", "Nat × Bool × Bool", server_ctor(srv, "new")))
    items.append(("serverNewFromFd", "Nat × Bool × Bool", server_ctor(srv, "new_from_fd")))
    byts("SERVER_FULL_ERROR_MESSAGE", const_bytes(srv, "SERVER_FULL_ERROR_MESSAGE"))
    byts("HTTP_SCHEME_PREFIX", const_bytes(req, "HTTP_SCHEME_PREFIX"))
    nat("CRLF_LEN", const_nat(common, "CRLF_LEN"))

    table_vb("methodRaw", arms_variant_to_lit(fn_body(common, "Method", "raw"), True))
    table_bv("methodTryFrom", arms_lit_to_variant(fn_body(common, "Method", "try_from"), True))
    table_vb("methodToStr", arms_variant_to_lit(fn_body(common, "Method", "to_str"), False))
    table_vb("versionRaw", arms_variant_to_lit(fn_body(common, "Version", "raw"), True))
    table_bv("versionTryFrom", arms_lit_to_variant(fn_body(common, "Version", "try_from"), True))
    table_vb("statusRaw", arms_variant_to_lit(fn_body(resp, "StatusCode", "raw"), True))
    table_vb("mediaAsStr", arms_variant_to_lit(fn_body(headers, "MediaType", "as_str"), False))
    table_bv("mediaTryFrom", arms_lit_to_variant(fn_body(headers, "MediaType", "try_from"), False))
    table_vb("headerRaw", arms_variant_to_lit(fn_body(headers, "Header", "raw"), True))
    table_bv("headerTryFrom", arms_lit_to_variant(fn_body(headers, "Header", "try_from"), False))
    m = re.search(r"\bserver\s*:\s*String::from\(\s*" + STR + r"\s*\)", resp)
    byts("DEFAULT_SERVER", unescape(m.group(1)) if m else None)
    m = re.search(r"let\s+delimitator\s*=\s*b" + STR + r"\s*;", resp)
    byts("ALLOW_DELIMITER", unescape(m.group(1)) if m else None)
    # fixed texts of the response writer, in source order
    lits = [unescape(m.group(1)) for m in re.finditer(r"write_all\(\s*b" + STR + r"\s*\)", resp)]
    items.append(("responseLiterals", "List (List UInt8)", None if not lits else "[" + ", ".join(lean_bytes(b) for b in lits) + "]"))


    def templ(name, v):
        def piece(x):
            return f".inr {x}" if isinstance(x, int) else f".inl {lean_bytes(x)}"
        items.append((name, "List (String × List (List UInt8 ⊕ Nat))",
                      None if v is None else "[" + ",\n    ".join(f"({lean_str(k)}, [{', '.join(piece(x) for x in ps)}])" for k, ps in v) + "]"))

    def blist(name, v):
        items.append((name, "List (List UInt8)", None if v is None else "[" + ", ".join(lean_bytes(b) for b in v) + "]"))

    templ("displayRequestError", display_templates(common, "RequestError"))
    templ("displayHeaderError", display_templates(common, "HttpHeaderError"))
    nontest = [common, req, headers, conn, srv]
    blist("invalidMethodTexts", ctor_literals(nontest, "InvalidHttpMethod"))
    blist("invalidVersionTexts", ctor_literals(nontest, "InvalidHttpVersion"))
    blist("invalidUriTexts", ctor_literals(nontest, "InvalidUri"))
    ft = format_template(srv, "All previous unanswered requests")
    byts("BAD_REQUEST_PREFIX", ft[0] if ft else None)
    byts("BAD_REQUEST_SUFFIX", ft[1] if ft else None)

    # small predicates of the state machines, as Lean functions over the model's state
    preds = []
    preds.append(("isDone", "Client → Bool", "c", translate_pred(srv, "ClientConnection", "is_done", {
        "self.state": "c.state", "ClientConnectionState::Closed": "CState.closed",
        "ClientConnectionState::AwaitingIncoming": "CState.awaitingIn",
        "ClientConnectionState::AwaitingOutgoing": "CState.awaitingOut",
        "self.connection.pending_write()": "pendingWrite c.conn", "self.in_flight_response_count": "c.inflight"})))
    preds.append(("pendingWrite", "Conn0 → Bool", "c", translate_pred(conn, "HttpConnection<T>", "pending_write", {
        "self.response_buffer.is_some()": "c.respBuf.isSome", "self.response_buffer.is_none()": "c.respBuf.isNone",
        "self.response_queue.is_empty()": "c.respQ.isEmpty"})))

    router = read("router.rs")
    ascii_ = read("common/ascii.rs")
    librs = read("lib.rs")
    shared = shared_state([("connection.rs", conn), ("server.rs", srv), ("common/mod.rs", common), ("common/headers.rs", headers),
                           ("response.rs", resp), ("request.rs", req), ("router.rs", router), ("common/ascii.rs", ascii_), ("lib.rs", librs)])
    items.append(("sharedState", "List String", "[" + ", ".join(lean_str(x) for x in shared) + "]"))
    def strs(name, v):
        items.append((name, "List String", None if v is None else "[" + ", ".join(lean_str(x) for x in v) + "]"))

    strs("fieldsHttpConnection", struct_fields(conn, "HttpConnection"))
    strs("fieldsClientConnection", struct_fields(srv, "ClientConnection"))
    strs("fieldsHttpServer", struct_fields(srv, "HttpServer"))
    strs("fieldsResponse", struct_fields(resp, "Response"))
    strs("fieldsResponseHeaders", struct_fields(resp, "ResponseHeaders"))
    strs("fieldsStatusLine", struct_fields(resp, "StatusLine"))
    strs("fieldsHttpRoutes", struct_fields(router, "HttpRoutes"))
    strs("fieldsHeaders", struct_fields(headers, "Headers"))
    strs("fieldsRequest", struct_fields(req, "Request"))
    strs("fieldsRequestLine", struct_fields(req, "RequestLine"))
    strs("fieldsUri", struct_fields(req, "Uri"))
    rb_ = reset_block(conn)
    items.append(("resetAfterParseError", "List (String × String)", None if rb_ is None else "[" + ", ".join(f"({lean_str(a)}, {lean_str(b)})" for a, b in rb_) + "]"))
    interior = interior_mutability([("connection.rs", conn), ("server.rs", srv), ("common/mod.rs", common), ("common/headers.rs", headers),
                                    ("response.rs", resp), ("request.rs", req), ("router.rs", router), ("common/ascii.rs", ascii_), ("lib.rs", librs)])
    items.append(("interiorMutability", "List String", "[" + ", ".join(lean_str(x) for x in interior) + "]"))

    writer, why = translate_writer(resp)
    lines = ["/-",
             "  GENERATED by /verif/tools/extract.py from /repo/src on every run of `check` — do not edit.",
             "  `none` = the translator did not find the item in the source (see tools/extract.py).",
             "-/",
             "import MicroHttp.Response", "import MicroHttp.Headers", "import MicroHttp.Server", "import MicroHttp.Router",
             "namespace MicroHttp.Extracted", "open MicroHttp", "",
             "/-- `for (idx, x) in l.iter().enumerate()` -/",
             "def forEnumFrom {α β : Type} (f : Nat → α → List β) : Nat → List α → List β",
             "  | _, [] => []",
             "  | i, x :: xs => f i x ++ forEnumFrom f (i + 1) xs",
             "def forEnum {α β : Type} (l : List α) (f : Nat → α → List β) : List β := forEnumFrom f 0 l", ""]
    summary = {}
    for name, ty, val in items:
        summary[name] = "ok" if val is not None else "unparsed"
        if val is None:
            lines.append(f"def {name} : Option ({ty}) := none")
        else:
            lines.append(f"def {name} : Option ({ty}) := some {val}" if ty == "Nat" else f"def {name} : Option ({ty}) :=\n  some {val}")
    summary["responseWriter"] = "ok" if writer else "unparsed: " + str(why)
    lines.append("")
    lines.append("/-- the byte slices `Response::write_all` hands to `Write::write_all`, in order, translated from response.rs -/")
    if writer:
        lines.append("def responseWriter : Option (Response → List (List UInt8)) :=\n  some fun r => " + writer)
    else:
        lines.append("def responseWriter : Option (Response → List (List UInt8)) := none")
    rb, why_b = translate_builder(resp)
    rn, why_n = translate_new(resp, headers)
    for name, ty, term, why_ in (("responseApply", "Response → BuildOp → Response", rb, why_b), ("responseNew", "Version → StatusCode → Response", rn, why_n)):
        summary[name] = "ok" if term else "unparsed: " + str(why_)
        lines.append("")
        lines.append(f"def {name} : Option ({ty}) := " + (f"some ({term})" if term else "none"))
    cw, why_w = translate_client_write(srv)
    ce, why_e = translate_client_enqueue(srv)
    for name, ty, term, why_ in (("clientWriteState", "CState → WriteOut → Bool → CState", cw, why_w),
                                 ("clientEnqueue", "CState → Nat → Bool × Option Nat", ce, why_e)):
        summary[name] = "ok" if term else "unparsed: " + str(why_)
        lines.append("")
        lines.append(f"def {name} : Option ({ty}) := " + (f"some ({term})" if term else "none"))
    rt = translate_router(router)
    ap = translate_abs_path(req)
    for name, ty, term, why_ in (("routerAddKey", "Method → List UInt8 → List UInt8 → List UInt8", rt["addKey"], rt.get("why_add")),
                                 ("routerAddShape", "Bool → Bool × Bool", rt["addShape"], rt.get("why_add")),
                                 ("routerDispatchKey", "Method → List UInt8 → List UInt8", rt["dispatchKey"], rt.get("why_handle")),
                                 ("routerHandle", "Routes → Option Response → Response", rt["handle"], rt.get("why_handle")),
                                 ("uriAbsPath", "List UInt8 → List UInt8", ap, "shape")):
        summary[name] = "ok" if term else "unparsed: " + str(why_)
        lines.append("")
        lines.append(f"def {name} : Option ({ty}) := " + (f"some ({term})" if term else "none"))
    for name, ty, var, body in preds:
        summary[name] = "ok" if body else "unparsed"
        lines.append("")
        lines.append(f"def {name} : Option ({ty}) := " + (f"some fun {var} => {body}" if body else "none"))
    lines += ["", "end MicroHttp.Extracted", ""]
    text = "\n".join(lines)
    old = open(OUT).read() if os.path.exists(OUT) else None
    if old != text:
        with open(OUT, "w") as f:
            f.write(text)
    print(json.dumps(summary))


if __name__ == "__main__":
    main()
