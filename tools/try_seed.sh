#!/bin/bash
# usage: tools/try_seed.sh <patch.diff> <Cxx> [<Cyy> ...]  — apply a seeded change to ${REPO_ROOT:-/repo}, run the checks, undo it
patch=$1; shift
cd ${REPO_ROOT:-/repo} && git status --short | grep -q . && { echo "${REPO_ROOT:-/repo} not clean"; exit 2; }
git -C ${REPO_ROOT:-/repo} apply "$patch" || { echo "patch does not apply"; exit 2; }
cd ${VERIF_ROOT:-/verif}
for p in "$@"; do ./check $p --tier quick 2>&1 | grep -E "^\[|VIOLATION|KNOWN"; done
git -C ${REPO_ROOT:-/repo} checkout -- . && git -C ${REPO_ROOT:-/repo} status --short
