#!/bin/bash
# usage: tools/try_seed.sh <patch.diff> <Cxx> [<Cyy> ...]  — apply a seeded change to /repo, run the checks, undo it
patch=$1; shift
cd /repo && git status --short | grep -q . && { echo "/repo not clean"; exit 2; }
git -C /repo apply "$patch" || { echo "patch does not apply"; exit 2; }
cd /verif
for p in "$@"; do ./check $p --tier quick 2>&1 | grep -E "^\[|VIOLATION|KNOWN"; done
git -C /repo checkout -- . && git -C /repo status --short
