#!/usr/bin/env python3
"""
Systematic mutation run (development aid, not one of the registered checks).

For every small syntactic mutation of /repo/src (relational / logical / arithmetic operators, constants,
booleans, deleted simple statements) outside the test modules:
  1. apply it, build and run the crate's own test suite (`cargo test --offline --lib`);
     - does not compile            -> skipped
     - a test fails                -> killed by the existing suite (not interesting here)
     - all tests pass              -> SURVIVOR of the existing suite
  2. for a survivor, run the quick checks of the properties anchored in that file until one reports a VIOLATION.
Results: /verif/mutation/results.jsonl (one line per mutant) and a summary on stdout.
/repo is restored after every mutant (git checkout). Nothing else may use /repo or /verif/work while this runs.

usage: tools/mutate.py [--files connection.rs,server.rs] [--limit N] [--start K]
"""
import json, os, re, subprocess, sys, time

REPO = os.environ.get("REPO_ROOT", "/repo")
VERIF = os.environ.get("VERIF_ROOT", "/verif")
OUT = VERIF + "/mutation"
ENV = dict(os.environ, CARGO_NET_OFFLINE="true")

CHECKS = {
    "src/connection.rs": ["C01", "C11", "C04", "C13", "C06", "C12", "C03", "C02", "C14"],
    "src/request.rs": ["C02", "C14", "C16", "C03", "C17", "C01"],
    "src/common/headers.rs": ["C15", "C16", "C02", "C13", "C14", "C03"],
    "src/common/mod.rs": ["C16", "C02", "C04"],
    "src/response.rs": ["C05", "C06", "C13", "C17"],
    "src/router.rs": ["C17"],
    "src/server.rs": ["C08", "C09", "C10", "C07", "C18", "C04", "C11", "C13"],
}

SUBS = [
    (r"==", "!="), (r"!=", "=="),
    (r"(?<![<>=!-])<(?![<=])", "<="), (r"<=", "<"),
    (r"(?<![<>=!-])>(?![>=])", ">="), (r">=", ">"),
    (r"&&", "||"), (r"\|\|", "&&"),
    (r"\+ 1\b", "+ 2"), (r"\+ 1\b", "+ 0"), (r"- 1\b", "- 0"), (r"\+ 2\b", "+ 1"),
    (r"\+ CRLF_LEN", "+ 1"), (r"- CRLF_LEN", "- 1"), (r"2 \* CRLF_LEN", "CRLF_LEN"),
    (r"\btrue\b", "false"), (r"\bfalse\b", "true"),
    (r"\b1024\b", "1023"), (r"\b1024\b", "1025"), (r"\b51200\b", "51201"), (r"= 10;", "= 9;"), (r"= 10;", "= 11;"),
    (r"\b253\b", "252"),
    (r"\.trim\(\)", ""), (r"splitn\(2,", "splitn(3,"),
    (r"pop_front\(\)", "pop_back()"), (r"push_back\(", "push_front("),
    (r"checked_add", "checked_sub"), (r"checked_sub", "checked_add"),
    (r"Some\(0\)", "Some(1)"), (r"None", "Some(0)"),
    (r"!self\.", "self."), (r"if !", "if "),
    (r"\.take\(fd_count\)", ".take(fd_count + 1)"),
    (r"is_none\(\)", "is_some()"), (r"is_some\(\)", "is_none()"), (r"is_empty\(\)", "len() == 1"),
    (r"content_length\(\) == 0", "content_length() == 1"),
    (r"\bIN\b", "OUT"), (r"\bOUT\b", "IN"),
    (r"AwaitingIncoming", "AwaitingOutgoing"), (r"AwaitingOutgoing", "AwaitingIncoming"),
    (r"Method::Get", "Method::Put"), (r"Http11", "Http10"),
    (r'b"GET"', 'b"GeT"'), (r'b"HTTP/1\.1"', 'b"HTTP/1.2"'),
]
# second operator set (run with `--set 2`): error propagation dropped, loop control, trimming variants, searches from
# the other end, event-flag disjuncts, casts, off-by-one ranges
SUBS2 = [
    (r"\)\?;", ");"), (r"\bcontinue;", ""), (r"\bbreak;", ""),
    (r"\.trim\(\)", ".trim_start()"), (r"\.trim\(\)", ".trim_end()"),
    (r"\.find\(", ".rfind("), (r"splitn\(2, ':'\)", "split(':')"), (r"split\(','\)", "split(';')"),
    (r'contains\("identity"\)', 'contains("identity;")'), (r'"identity;q=0"', '"identity; q=0"'),
    (r"\|\| e\.event_set\(\)\.contains\(epoll::EventSet::HANG_UP\)", ""),
    (r"\|\| e\.event_set\(\)\.contains\(epoll::EventSet::READ_HANG_UP\)", ""),
    (r"e\.event_set\(\)\.contains\(epoll::EventSet::ERROR\)\s*$", "false"),
    (r" \| epoll::EventSet::READ_HANG_UP", ""),
    (r"0\.\.delta_bytes", "1..delta_bytes"), (r"delta_bytes\.\.end_cursor", "delta_bytes..end_cursor - 1"),
    (r"\.\.bytes_written\)", "..bytes_written - 1)"), (r"\.\.content_length\)", "..content_length - 1)"),
    (r"as i32", "as i16 as i32"), (r"as u32", "as u16 as u32"),
    (r"\.len\(\) - 1", ".len()"), (r"\.len\(\)", ".len() + 1"),
    (r"\bSome\(", "None.or(Some("),
    (r"else if", "if"), (r"\bif let Some", "while let Some"), (r"\bwhile let Some", "if let Some"),
    (r"\.pop_parsed_request\(\)", ".pop_parsed_request().and(None)"),
    (r"drain\(\.\.\)", "drain(..0)"), (r"\.take\(\)", ".clone()"),
    (r"== 0\b", "== 1"), (r"\b0\b", "1"), (r"\b2\b", "3"),
    (r"StatusCode::BadRequest", "StatusCode::InternalServerError"), (r"StatusCode::Continue", "StatusCode::OK"),
    (r"Version::Http11", "Version::Http10"), (r"request_line\.http_version\(\)", "Version::Http11"),
    (r"ConnectionState::WaitingForHeaders", "ConnectionState::WaitingForRequestLine"),
    (r"ConnectionState::WaitingForBody", "ConnectionState::RequestReady"),
    (r"ClientConnectionState::Closed", "ClientConnectionState::AwaitingIncoming"),
    (r"line_start_index", "0"), (r"\*start \+= ", "*start = "), (r"\+= ", "= "), (r"-= ", "= "),
]
DELETABLE2 = re.compile(r"^\s*([\w.]+\.(make_ascii_lowercase|set_\w+|insert\w*|clear_write_buffer|enqueue_response|shift_buffer_left|retain)\([^;]*\)\??;|return [^;]+;)\s*$")
DELETABLE = re.compile(r"^\s*(self\.[\w.]+ = [^;]+;|self\.[\w.]+\([^;]*\);|\*?\w+ = [^;]+;|[\w.]+\.(clear|push|push_back|extend|extend_from_slice|take|drain)\([^;]*\);)\s*$")


def sh(cmd, cwd=None, timeout=900):
    p = subprocess.run(cmd, cwd=cwd, env=ENV, stdout=subprocess.PIPE, stderr=subprocess.STDOUT, text=True, timeout=timeout)
    return p.returncode, p.stdout


def code_lines(path):
    """indices of lines that are code (outside `mod tests`, not comments)"""
    lines = open(os.path.join(REPO, path)).read().split("\n")
    out = []
    for i, l in enumerate(lines):
        if re.match(r"\s*#\[cfg\(test\)\]", l):
            break
        t = l.strip()
        if not t or t.startswith("//") or t.startswith("#") or t.startswith("use ") or t.startswith("pub use"):
            continue
        out.append(i)
    return lines, out


def mutants(path):
    lines, idx = code_lines(path)
    for i in idx:
        l = lines[i]
        code = l.split("//")[0]
        if '"' in code and not re.search(r'b"(GET|HTTP/1\.1)"', code):
            # do not mutate inside string literals (messages)
            code_for_ops = re.sub(r'"[^"]*"', lambda m: " " * len(m.group(0)), code)
        else:
            code_for_ops = code
        for pat, rep in ([] if OPSET == 3 else SUBS2 if OPSET == 2 else SUBS):
            for m in re.finditer(pat, code_for_ops):
                new = l[:m.start()] + rep + l[m.end():]
                if new != l:
                    yield (i, f"{pat} -> {rep}", new)
        if OPSET == 3:
            # third operator set: swap two adjacent simple statements of the same indentation; duplicate a statement
            simple = re.compile(r"^(\s*)(self\.[\w.]+ = [^;]+;|self\.[\w.]+\([^;]*\)\??;|[\w.]+\.[\w]+\([^;]*\)\??;|\*?\w+ [+-]?= [^;]+;)\s*$")
            m1 = simple.match(l)
            if m1 and i + 1 < len(lines):
                m2 = simple.match(lines[i + 1])
                if m2 and m1.group(1) == m2.group(1) and l.strip() != lines[i + 1].strip():
                    yield (i, "swap with next statement", lines[i + 1] + "\n" + l + "\n" + m1.group(1) + "// (swapped)", True)
            if m1 and ("push" in l or "+=" in l or "-=" in l or "enqueue" in l or "extend" in l):
                yield (i, "duplicate statement", l + "\n" + l)
            continue
        if (DELETABLE2 if OPSET == 2 else DELETABLE).match(l):
            yield (i, "delete statement", re.match(r"^\s*", l).group(0) + "// deleted")


OPSET = 1


def main():
    global OPSET
    if "--set" in sys.argv:
        OPSET = int(sys.argv[sys.argv.index("--set") + 1])
    files = list(CHECKS.keys())
    limit = None
    start = 0
    a = sys.argv[1:]
    if "--files" in a:
        want = a[a.index("--files") + 1].split(",")
        files = [f for f in files if any(f.endswith(w) for w in want)]
    if "--limit" in a:
        limit = int(a[a.index("--limit") + 1])
    if "--start" in a:
        start = int(a[a.index("--start") + 1])
    os.makedirs(OUT, exist_ok=True)
    rc, st = sh(["git", "status", "--short"], cwd=REPO)
    if st.strip():
        print("/repo is not clean"); return 2
    res = open(os.path.join(OUT, "results.jsonl" if OPSET == 1 else f"results{OPSET}.jsonl"), "a")
    n = 0
    summary = {"not-compiling": 0, "killed-by-tests": 0, "caught": 0, "NOT-CAUGHT": 0}
    for path in files:
        orig = open(os.path.join(REPO, path)).read()
        for mut in mutants(path):
            i, what, new = mut[0], mut[1], mut[2]
            two_lines = len(mut) > 3
            n += 1
            if n <= start:
                continue
            if limit and n > start + limit:
                break
            lines = orig.split("\n")
            old_line = lines[i]
            lines[i] = new
            if two_lines:
                lines[i + 1] = ""
            open(os.path.join(REPO, path), "w").write("\n".join(lines))
            t0 = time.time()
            rec = {"n": n, "file": path, "line": i + 1, "mutation": what, "old": old_line.strip(), "new": new.strip()}
            try:
                rc, out = sh(["cargo", "test", "--offline", "--lib"], cwd=REPO, timeout=60)
            except subprocess.TimeoutExpired:
                rc, out = 1, "test result: FAILED (timeout)"
            if "error" in out and "could not compile" in out:
                rec["status"] = "not-compiling"
            elif rc != 0:
                rec["status"] = "killed-by-tests"
            else:
                rec["status"] = "NOT-CAUGHT"
                rec["checks"] = []
                for pid in CHECKS[path]:
                    try:
                        rc2, out2 = sh(["./check", pid, "--tier", "quick"], cwd=VERIF, timeout=900)
                    except subprocess.TimeoutExpired:
                        rc2, out2 = 1, f"VIOLATION property={pid} (check timed out)"
                    viol = [l for l in out2.split("\n") if l.startswith("VIOLATION")]
                    rec["checks"].append({"property": pid, "violations": len(viol), "no_input": sum("no-failing-input-found" in v for v in viol)})
                    if viol:
                        rec["status"] = "caught"
                        rec["caught_by"] = pid
                        rec["with_failing_input"] = any("no-failing-input-found" not in v for v in viol)
                        break
            rec["secs"] = round(time.time() - t0, 1)
            summary[rec["status"]] += 1
            res.write(json.dumps(rec) + "\n"); res.flush()
            subprocess.run(["git", "checkout", "--", "."], cwd=REPO)
            subprocess.run(["rm", "-rf", VERIF + "/replays"])
            print(f"#{n} {path}:{i+1} [{what}] -> {rec['status']}" + (f" by {rec.get('caught_by')}" if rec["status"] == "caught" else ""), flush=True)
        open(os.path.join(REPO, path), "w").write(orig)
    print("SUMMARY", json.dumps(summary))
    return 0


if __name__ == "__main__":
    sys.exit(main())
