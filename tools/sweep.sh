#!/bin/bash
# usage: tools/sweep.sh "<seeds>" [<check ids>]   — run the quick checks on the UNCHANGED tree for several seeds, in a private
# copy (tools/sandbox.sh), and print every run that raised an alarm. To be run after every change to a generator or oracle:
# a check that fires on the unchanged tree for some seed is a false alarm in waiting.
seeds=${1:-"2 3 4 5"}; shift
props=${@:-C01 C02 C03 C04 C05 C06 C07 C08 C09 C10 C11 C12 C13 C14 C15 C16 C17 C18}
/verif/tools/sandbox.sh --refresh sweep true 2>/dev/null || /verif/tools/sandbox.sh sweep true
/verif/tools/sandbox.sh sweep bash -c "for s in $seeds; do for p in $props; do VERIF_SEED=\$s ./check \$p --tier quick 2>&1 | grep -E '^\[|VIOL' | sed \"s/^/seed \$s: /\"; done; done" | tee /tmp/sweep.$$.log | grep -B1 VIOL
echo "runs: $(grep -c '\] tier' /tmp/sweep.$$.log)   alarms: $(grep -c VIOL /tmp/sweep.$$.log)"; rm -f /tmp/sweep.$$.log
