#!/bin/bash
# usage: tools/suite.sh <suite> [seed] [tier]   — harness + driver + diff summary (development aid)
s=$1; seed=${2:-1}; tier=${3:-quick}
cd /verif/harness && CARGO_NET_OFFLINE=true cargo build --release --offline 2>&1 | grep -E "^error" -A 8
cd /verif
harness/target/release/mhharness $s --seed $seed --tier $tier --out work/$s || exit 1
lean/.lake/build/bin/mhdriver < work/$s/ops.txt > work/$s/model.out
echo "$s ops $(wc -l < work/$s/ops.txt) diffs $(diff work/$s/impl.out work/$s/model.out | grep -c '^<') (spec $(paste -d'\t' work/$s/ops.txt work/$s/impl.out work/$s/model.out | awk -F'\t' '$2!=$3 && $1 ~ /^spec /' | wc -l)) oracle $(wc -l < work/$s/oracle.jsonl)"
