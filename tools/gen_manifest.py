#!/usr/bin/env python3
"""Regenerates /verif/MANIFEST.json from the table below and lean/props.json (claimed = has theorems + a suite that runs)."""
import json, os
V = os.path.dirname(os.path.dirname(os.path.abspath(__file__)))
props = json.load(open(os.path.join(V, "lean", "props.json")))
ids = [json.loads(l)["id"] for l in open(os.path.join(V, "properties.jsonl"))]

TEXT = {
 "C16": ("Theorems over the Lean model for all byte strings: try_from = some t iff bytes = raw t (Method, Version), MediaType modulo trim on non-empty UTF-8, "
         "StatusCode.raw injective = three-digit decimal, the three-case characterisation of get_abs_path and 'empty or /-prefixed suffix'. "
         "The model is tied to the code on every run by replaying >70k enumerated inputs (all strings over the token alphabet up to a length bound, "
         "all single-byte edits of every canonical token, URIs over the 9-symbol alphabet) on both and diffing; Rust-side oracles state the property directly.",
         "Trusted: Lean kernel (axioms ⊆ propext, Classical.choice, Quot.sound), the hand translation of common/mod.rs, headers.rs::MediaType, response.rs::StatusCode, "
         "request.rs::Uri::get_abs_path (checked by the differential run, exhaustive on the bounded spaces named in the quantifier), std's trim/from_utf8 as modelled."),
}
TECH = "Lean 4 theorems over a hand-written model + differential correspondence check (Rust harness vs compiled Lean driver)"

checks, na = [], []
for pid in ids:
    if pid in props and props[pid].get("theorems") and pid in TEXT:
        text, note = TEXT[pid]
        checks.append({
            "property_id": pid,
            "quick_cmd": f"./check {pid} --tier quick",
            "thorough_cmd": f"./check {pid} --tier thorough",
            "evidence_file": f"/verif/evidence/{pid}.json",
            "replay_cmd_template": "./check replay {path}",
            "engine": "lean4-proof+correspondence",
            "level_claimed": {"category": "proof", "text": text, "design_ref": f"DESIGN.md §7 {pid}"},
            "level_note": note,
            "technique": TECH,
        })
    else:
        na.append({"property_id": pid, "reason": "check not built yet (work in progress, see DESIGN.md §9); the property is in scope of the technique"})
m = {
 "version": 1,
 "setup_cmd": "./check setup",
 "hooks": {"guard": "micro_http_verif", "enable": "none needed: the checks drive the public API only (no source hooks)",
           "baseline_off_cmd": "cd /repo && cargo test --workspace --no-fail-fast --offline", "source_commits": [], "add_only": True},
 "engines": [{"name": "lean4-proof+correspondence", "path": "/verif/check", "serves_properties": [c["property_id"] for c in checks],
              "kind_free_text": "Lean 4 model + theorems (lean/), Rust differential harness (harness/), python orchestrator (check)"}],
 "checks": checks,
 "not_applicable": na,
 "notes": "Three genuine defects of the pinned tree were repaired by 'fix:' commits in /repo (see known_findings.txt and DESIGN.md §6).",
}
json.dump(m, open(os.path.join(V, "MANIFEST.json"), "w"), indent=1)
print("claimed:", [c["property_id"] for c in checks])
