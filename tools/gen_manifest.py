#!/usr/bin/env python3
"""Regenerates /verif/MANIFEST.json from the table below and lean/props.json (claimed = has theorems + a suite that runs)."""
import json, os
V = os.path.dirname(os.path.dirname(os.path.abspath(__file__)))
props = json.load(open(os.path.join(V, "lean", "props.json")))
ids = [json.loads(l)["id"] for l in open(os.path.join(V, "properties.jsonl"))]

TEXT = {
 "C16": ("Theorems over the Lean model for all byte strings: try_from = some t iff bytes = raw t (Method, Version), MediaType modulo trim on non-empty UTF-8, "
         "StatusCode.raw injective = three-digit decimal, the three-case characterisation of get_abs_path and 'empty or /-prefixed suffix'. "
         "The model is tied to the code on every run by replaying >70k enumerated inputs (all strings over the token alphabet up to a length bound, "
         "all single-byte edits of every canonical token, URIs over the 9-symbol alphabet) on both and diffing; Rust-side oracles state the property directly.",
         "Trusted: Lean kernel (axioms ⊆ propext, Classical.choice, Quot.sound), the hand translation of common/mod.rs, headers.rs::MediaType, response.rs::StatusCode, "
         "request.rs::Uri::get_abs_path (checked by the differential run, exhaustive on the bounded spaces named in the quantifier), std's trim/from_utf8 as modelled."),
 "C01": ("Refinement theorem: one try_read of the code-level model equals running a byte-at-a-time automaton (no buffer, no cursors, no notion of read) over exactly the bytes taken "
         "(tryRead_refines, by induction on the parse loop with all slices/unwraps discharged), lifted to every read schedule over every byte stream (sched_refines) and to "
         "schedule_independent: any two schedules that read the whole stream or reach an error deliver the same requests (all fields, order, once), queue the same 100-continues and report the same first error. "
         "No bound on stream length, number of reads or cut positions. Correspondence: >700k ops per quick run over grammar-derived/boundary-aimed/corrupted streams x 6-12 schedules, each compared op by op with the compiled model, "
         "plus two oracles on the implementation alone: equal summaries across schedules, and summary = spec automaton on the whole stream.",
         "Trusted: Lean kernel; hand model of connection.rs checked by the differential run; the buffer abstraction (win = buffer[0..read_cursor), shift_buffer_left by its closed form) is not trusted: tryRead00_simulates proves that the array-level model Conn00.lean (fixed array with stale bytes, the copy and zero-fill loops, recv into buffer[read_cursor..], the whole array given to from_utf8_lossy) has the same outcomes and commutes with the abstraction in every well-formed state, and the driver steps it alongside on a sample of connections; "
         "the scripted stream stands for the kernel (E2). Timing/thread interleaving are not exhibited (the connection is single-threaded)."),
 "C03": ("Theorems: the connection invariant Inv holds initially and is preserved by try_read on ANY recv result (data of any content/length, EOF, any errno), try_write on any write result, enqueue, pop, clear — "
         "and no such call ends in a panic outcome (every slice, unwrap, drain, subtraction of the Rust code is a checked operation in the model; fuel exhaustion is a panic outcome, so termination of the loop is part of the theorem); "
         "ops_safe lifts this to every sequence of public calls incl. continued use after ParseError/StreamReadError/ConnectionClosed. oneShot_no_panic and requestLine_no_panic: the one-shot parser never panics "
         "(headers_end - 2 cannot underflow). Header/media/encoding/method/version parsers and get_abs_path are total functions in the model (no checked operation inside). Correspondence + catch_unwind + per-call syscall counters on the implementation.",
         "Trusted: Lean kernel; hand model (checked differentially); std internals and the allocator are outside the model; 'cannot block' is reduced to 'at most one recv / one write per call on a non-blocking stream' and counted on the implementation."),
 "C05": ("Theorems for every response: layout (status line, Server, Connection: keep-alive, optional Allow/Deprecation, then iff a length is present Content-Type, Content-Length, optional Accept-Encoding, blank line, body); "
         "length_rule for every builder-call sequence of any length (present for all statuses but 100/204, absent there unless a body is set, equal to the body length as i32); "
         "roundtrip: an independent reader (status line, lines to the blank line, Content-Length bytes) recovers version, code, header lines and body of EVERY response from ANY concatenation of self-delimiting responses, "
         "and built_selfDelimiting shows API-built responses (server id without CR LF, body < 2^31) are self-delimiting; sink_independent: any schedule of short/interrupted/failed writes yields a prefix, all of it iff Ok. "
         "Correspondence: exhaustive builder sequences x 22 (version,status) pairs, random bodies to 64 KiB, splitting sinks, keep-alive streams read back by the Lean reader.",
         "Trusted: Lean kernel; hand model of response.rs (the list of write_all pieces) checked differentially byte for byte; std's Write::write_all loop as modelled (writeAllOne)."),
 "C15": ("Theorems for all byte strings: names are matched case-insensitively (name_case_insensitive, via isUtf8/asciiLower lemmas), SP/HTAB padding is ignored by trim, and an exact rule per header "
         "(Content-Length: u32 decimal after trim or fatal InvalidValue; Accept: last supported value; Content-Type/Server: no effect; Expect/Transfer-Encoding: flag set by any occurrence, other values ignored; "
         "Accept-Encoding fatal exactly when Encoding::try_from rejects, with encoding_rejects_iff characterising that: empty, non-UTF-8, an item trimming to identity;q=0, or *;q=0 with identity not mentioned; "
         "custom entries with trimmed name/value, newest wins), fatal_iff, block = fold of its CRLF-separated lines up to the first empty one, content_length_last_wins and expect_any over any accepted block. "
         "Correspondence on >40k header-line/block ops per quick run incl. Unicode whitespace, invalid UTF-8 with exact Utf8Error positions.",
         "Trusted: Lean kernel; hand model of common/headers.rs and of the std string functions it uses (trim over Unicode White_Space, from_utf8 with valid_up_to/error_len, parse::<u32>) checked differentially."),
 "C17": ("Theorems: the lookup key METHOD:prefix+path determines method and path (routeKey_injective); after ANY registration sequence on a new router a request is dispatched to the FIRST handler registered for "
         "(its method, its absolute path) and to none otherwise (dispatch_first_registered); duplicates are refused with the key and change nothing; the response is the handler's or an HTTP/1.1 404, "
         "stamped with the configured server id and application/json (handle_spec). Correspondence: exhaustive tables x all requests with recording handlers.",
         "Trusted: Lean kernel; hand model of router.rs (HashMap as association list with unique keys; handlers opaque)."),
 "C04": ("Theorems on the byte-at-a-time specification (to which every read schedule of the connection is tied by C01): at the blank line a request is rejected iff its declared length exceeds the limit, with SizeLimitExceeded(limit, declared), "
         "by the two bytes CR LF alone (payload_iff, payload_rejected_early); every delivered body has exactly the declared length, at most the limit, for every stream from every consistent state (body_bound); a line of at most B bytes incl. CR LF is processed as that line and a longer one is rejected for its length whatever follows (line_within, line_too_long; all B > 0, instance B = 1024); "
         "the server gives an accepted connection the limit configured at that moment (server_limit) and the 400 body contains both numbers (bad_request_reports). Correspondence at every boundary value and line lengths 1000..1100 at arbitrary window offsets.",
         "Trusted: Lean kernel; hand model of connection.rs/server.rs checked differentially; Display texts modelled byte for byte (Display.lean) and compared with what clients receive."),
 "C06": ("Theorems: tryWrite_spec — for ANY result of the single write call, success means the accepted bytes are exactly the next unsent bytes (nothing lost, duplicated, reordered), zero/failed write discards everything and reports closed, nothing pending gives invalid write without touching the stream; pending_iff; "
         "history_prefix — for ANY sequence of enqueues and writes with ANY stream behaviour, accepted ++ unsent = concatenation of the serialized responses in enqueue order, so the accepted bytes are always a prefix, and pending_write holds iff they differ. Correspondence + implementation-only prefix oracle over short/interrupted/zero/failed writes.",
         "Trusted: Lean kernel; hand model of try_write/enqueue/clear checked differentially; serialization itself is C05's subject."),
 "C11": ("Theorems (repaired code): a read that reports ParseError leaves the parser part equal to that of a new connection with the same limit (reset_after_error, rejected_request_dropped); what a read does depends only on the parser part (read_depends_on_parser_only, proved by showing the whole input side commutes with replacing the output-side fields); hence after_error_like_new: after an error EVERY later sequence of reads gives the same outcomes, deliveries and interim responses as a new connection; server: an erroring read yields nothing, leaves no parsed request, enqueues the 400 and keeps a fresh parser. "
         "Correspondence: error prefix x continuation x segmentation, compared with a fresh connection on the implementation alone; F1 histories as regression.",
         "Trusted: Lean kernel; hand model checked differentially. The property was FALSE on the pinned tree (F1); the fix commit is part of /repo."),
 "C12": ("Theorems with descriptors as opaque tokens: first_completer (a read completing r1..rm hands everything on hand, kept then new, in arrival order, to r1; the rest get none; a read completing nothing keeps all), eof_keeps, failed_read_keeps, conservation (for every error-free run: descriptors of queued requests ++ those held by the connection = all descriptors received, in arrival order — once each, none lost/duplicated/reordered), pop_moves. "
         "Correspondence with real descriptors: identity, order, open-while-owned and closed-after-drop checked with fcntl.",
         "Trusted: Lean kernel; File drop/from_raw_fd semantics; the scripted recv_with_fds stands for SCM_RIGHTS."),
 "C13": ("Theorems: at the end of a header block the specification emits exactly one interim response carrying the request's version iff Expect: 100-continue was seen and 0 < Content-Length <= limit (cont_iff), nothing else ever emits one (cont_only_at_end_of_headers, body_byte_no_cont), it is produced by the blank line alone before any body byte (cont_before_body), it is a 100 with no Content-Length (cont_response); server: after a read that leaves something to write the connection waits for writability (server_switches_to_out). Tied to the connection under every schedule by C01.tryRead_refines. Correspondence incl. real sockets.",
         "Trusted: Lean kernel; hand model checked differentially; header recognition of Expect is C15's subject."),
 "C02": ("Theorems: within a request line the outcome is decided in the order shape (fewer than two SP) -> method -> URI (empty, then not UTF-8) -> version, and a line is accepted iff it is METHOD SP URI SP VERSION with the fields being those bytes (reqline_precedence, reqline_accept_iff); "
         "both directions of the grammar equivalence on the byte-at-a-time specification: grammar_accepted (request line, non-empty header lines, every line within the limit, acceptable header fold, declared length within the payload limit, body of exactly that length => exactly one delivery with those pieces verbatim, interim response iff asked for, automaton ready for the next request) and delivered_is_grammar (exactly one delivery with nothing left over => the bytes ARE such a request and the fields are its pieces); "
         "prefix_requests_delivered and first_bad_header_decides: everything before the first offending element is delivered and that element decides the error. For all byte strings, all B > 0. Tied to the connection for every read schedule by C01. Correspondence: every corruption of the quantifier, implementation vs spec automaton vs code-level model.",
         "Trusted: Lean kernel; hand model checked differentially; header-line acceptability is C15's subject; UTF-8 validity as modelled (compared with std incl. error positions)."),
 "C14": ("Theorems between the one-shot parser model (request.rs) and the byte-at-a-time specification instantiated with the crate's own line parsers: oneshot_sound (one-shot accepts => within the line and payload limits the first delivery is the identical request), conn_complete (exactly one delivery with nothing left over and not a GET with a body => one-shot accepts with the same result), get_with_body_rejected (that exception is real), max_rejects / max_irrelevant. "
         "Key lemmas: the first CRLFCRLF after the request line is where the line scan meets its first empty line; split on CRLF = iterated first-CRLF split; block UTF-8 iff its lines are; an accepted request line has at least 14 bytes. Correspondence in both directions on the implementation alone and against both models.",
         "Trusted: Lean kernel; hand models of Request::try_from and of the connection checked differentially; the connection side is tied to the specification by C01."),
 "C07": ("Theorems over the reactive server model with ghost connection identities: under the server invariant (preserved by every poll over every admissible batch with any read/write results, by respond and by flush — C10.requests_inv/respond_inv/flush_inv) an outstanding token's descriptor identifies exactly the connection INSTANCE that yielded it (outstanding_token_identifies: a connection cannot be reaped, hence its descriptor not reused, while a token is outstanding); "
         "respond_routes: the response goes to the end of that instance's queue or is dropped if it is closed, every other connection is untouched; respond_unknown_dropped / respond_closed_dropped; event_frame; wrote_own_bytes (bytes written to a client are the next unsent bytes of its own connection); server_reply_to_own_input (400/500 go to the connection whose input caused them). "
         "End to end for clients that stay connected (System.lean, proved in Props/C08System.lean): received_is_own_queue and queue_is_answers_and_interims — over every admissible history the bytes a client receives are a prefix of the serialization of the responses queued for it, which are the application's answers to its own requests in the order supplied plus the interim responses caused by its own input. "
         "Correspondence: every poll of random and aimed histories (close with requests in flight, reconnect with descriptor reuse, late answers) compared with the model; per-client tag oracle on the real sockets.",
         "Trusted: Lean kernel; hand model of server.rs (HashMap as list with unique keys) checked differentially on the real kernel; environment hypotheses E1, E6, A1 are hypotheses of the theorems (EvOK), observed to hold in every history."),
 "C08": ("Theorems, safety half: respond to an outstanding token never fails (respond_ok); a successful read yields exactly the connection's deliveries for that read, once, and counts them in flight (read_yields_deliveries, with C01 for what those deliveries are); respond_arms_out; interest_follows_work; write_progress; flush_delivers (if the sockets accept everything, a flush sends exactly the unsent bytes); stale_out_repaired (F4); with C09.poll_returns polling never fails. "
         "Liveness half, over an explicit kernel model (level-triggered readiness over the server's interest set; Kernel.lean): no_spin (nothing outstanding and everything registered for input => the epoll descriptor is silent), no_lost_wakeup (a pending connect, unread input on a connection waiting for input, or unsent output with room in the socket => it signals), silent_means_idle, batch_admissible and poll_ok (the batch the kernel returns satisfies the environment hypotheses, polling a well-behaved world never fails and keeps invariant and well-behavedness), "
         "poll_progress: every poll made when the descriptor signals strictly decreases (pending connects + unread bytes, unsent bytes, stale registrations) lexicographically, and that order is well-founded (lexLt_wf) — hence finitely many polls between two actions of clients or application. "
         "End to end (System.lean: server + kernel model + clients that connect/send/drain + an application answering outstanding requests, with ghost logs per client): for EVERY admissible history, yielded_is_spec (the requests yielded from a client, over all polls, are exactly the byte-at-a-time specification's deliveries for the bytes consumed from it — each once, in order), received_is_own_queue (what a client received ++ what its connection still has to send = the serialization of the responses queued for IT), queue_is_answers_and_interims (that queue is the application's answers to its own requests in the order supplied, interleaved with the specification's interim responses), sent_is_consumed_plus_unread, answers_match_yields, system_inv. "
         "Correspondence: well-behaved histories on the real kernel (no error, yield-once, full delivery, not ready at quiescence), every poll compared with the model, and the kernel model's readiness prediction compared with what epoll reports on every poll.",
         "Trusted: Lean kernel; hand model of server.rs checked differentially; the kernel model (E6/E7/E8) is an assumption — validated on every run against the real epoll, not proved; E1, E4, E5, A1."),
 "C09": ("Theorems: poll_returns — under the invariant, for ANY admissible batch with ANY flags and ANY read/write results the poll returns normally or reports shutdown (only with the kill event): no failure, no panic; all_events_handled (no early return drops work, the sweep runs); hangup_closes, failed_write_closes, closed_and_answered_is_swept with C10.reaped (a dead connection is released by the first completed poll after everything yielded from it is answered); others_unaffected (an event of one connection changes nothing about another); stale_out_is_harmless (F2/F4). "
         "Correspondence: witness histories with misbehaving clients and late answers on the real kernel, F2 regression.",
         "Trusted: Lean kernel; hand model checked differentially; E1, E4-E6, A1. The property was FALSE on the pinned tree (F2, F3); the fix commits are part of /repo."),
 "C10": ("Theorems: the server invariant (at most 10 connections, unique descriptors and identities, per-connection invariants, live tokens, in-flight = outstanding tokens) holds initially and is preserved by every poll, respond and flush; refuse_at_capacity (the refused client gets the fixed 503 message and NOTHING else changes), accept_below_capacity, server_full_message (status 503, Connection: close, Content-Length 40 = length of its body, by evaluation of the literal), reaped / closed_released_when_answered / only_done_are_dropped (connections leave the table exactly when closed, drained and fully answered). "
         "Correspondence: fill/drain cycles around 9-13 clients with descriptor counts on the real kernel; the 503 literal compared byte for byte with what refused clients read; F3 regression.",
         "Trusted: Lean kernel; hand model checked differentially; E1, E4, A1; close(2) on drop is Rust semantics."),
 "C18": ("Theorems: kill_wins — if the kill event is in the batch the poll reports shutdown, in every state satisfying the invariant and whatever else is in the batch; registered_fits_batch — listener + kill switch + connections <= 12 = the event array, so (E6, E8) a signalled kill switch is in every batch; transparent — without the kill event the poll does exactly the same with and without a registered kill switch; kill_switch_kept. "
         "Correspondence: kill switch signalled at random points and in the aimed all-descriptors-ready states (10 connections with input + waiting client + kill signalled last), then repeated polling gated by readiness.",
         "Trusted: Lean kernel; hand model checked differentially; E4, E6, E8."),
}
TECH = "Lean 4 theorems over a hand-written model + differential correspondence check (Rust harness vs compiled Lean driver)"

checks, na = [], []
TABLES = (" Second tie, by translation: tools/extract.py regenerates lean/MicroHttp/Extracted.lean from /repo's source on every run and "
          "Props/Tables.lean proves (by kernel evaluation) that the model uses the same {what}; an item the translator cannot find falls back to the differential run.")
EXTRA = {
 "C04": TABLES.format(what="BUFFER_SIZE, MAX_PAYLOAD_SIZE and CRLF_LEN") +
        " The texts that reach a client in a 400 body are translated too: every `write!` arm of the Display impls of RequestError / HttpHeaderError becomes a template (literal pieces and holes numbered by the binding printed there), the &'static str arguments are collected from the construction sites and the format! of server.rs gives prefix and suffix; "
        "display_request_error_templates / display_header_error_templates / invalid_*_texts / bad_request_prefix / bad_request_suffix tie them to the model's constants and request_error_display / header_error_display prove the model's Display is the instance of the variant's template for EVERY error value. The default limit (never set) is probed on connections and servers as well.",
 "C05": TABLES.format(what="status / version tables, default server identity, Allow delimiter and writer literals") +
        " Moreover the writer functions of response.rs (StatusLine::write_all, ResponseHeaders::{write_allow_header, write_deprecation_header, write_all}, Response::{write_body, write_all}) are translated "
        "statement by statement into a Lean function and Tables.response_writer proves it equal to the model's piece list for EVERY response; Response::new (with ..Default::default() resolved through the Default impls) and the eight public setters (through the ResponseHeaders setters they call) are translated as well, and "
        "Tables.response_new / response_apply / response_build prove that every response built through the public API is the model's Response.build — construction, builder calls and serialization of response.rs are all tied by proof, the correspondence remaining as the fallback for shapes the translator does not understand.",
 "C10": TABLES.format(what="MAX_CONNECTIONS, the equality form of the capacity test and the 503 literal") +
        " The one-step invariant theorems are lifted to whole histories (Props/C10History.lean): history_inv / reachable — after EVERY admissible sequence of polls, respond, enqueue_responses (respondMany_inv: never Underflow), flush, set_payload_max_size and add_kill_switch from a new server there are at most 10 connections, distinct descriptors and identities, live tokens and exact in-flight counts.",
 "C15": TABLES.format(what="recognised header names (canonical and the lower-case keys Header::try_from matches) and media-type spellings") +
        " The header rules are also written out in Rust from the property text (rule_block) and evaluated on every generated block, so a divergence comes with a concrete failing block.",
 "C16": TABLES.format(what="method / version / media-type / status tables (both directions) and HTTP_SCHEME_PREFIX"),
 "C18": TABLES.format(what="MAX_CONNECTIONS and the size of the event array (MAX_CONNECTIONS + 2)"),
 "C06": " By translation: HttpConnection::pending_write is translated from connection.rs into a Lean predicate and Tables.pending_write_pred proves it equal to the model's on EVERY state. Extended to histories that also read: read_preserves_unsent (a read with ANY recv result — data, end of stream, errno, a parse error and its reset — leaves the partly written response and the queue untouched and only appends the interim responses it queues) and history_prefix_io (the prefix law over every history of enqueue / write / read / pop / clear); the correspondence interleaves accepted, rejected, partial and pipelined input with queued output.",
 "C12": " Extended to the pop side (Props/C12Pop.lean): read_ignores_queue (a read appends to the queue of completed requests and never looks at it) and pop_timing_irrelevant (for ANY interleaving of pops with the reads, the requests handed out followed by those still queued are the queue of the run without pops: same requests, same descriptors, same order); the correspondence replays a quarter of its histories with the pops delayed.",
 "C07": " By translation: ClientConnection::is_done is translated from server.rs into a Lean predicate over the model's state and Tables.is_done_pred proves it equal to the model's on EVERY state (an expression the translator does not understand falls back to the differential run). The suite srv-fault injects, at the libc boundary of the harness process (interposed recvmsg/write, nothing in /repo instrumented), reads that end or fail on a plain IN event and writes that return zero / EINTR / EAGAIN / EPIPE / short counts; a 500 must reach only a client whose read failed.",
 "C09": " The suite srv-fault injects, at the libc boundary of the harness process (interposed recvmsg/write, nothing in /repo instrumented), reads that end or fail on a plain IN event and writes that return zero / EINTR / EAGAIN / EPIPE / short counts: the poll must keep returning normally, the witness must be served in full, and a connection the server was told has ended must be released once answered.",
}
ENUM_CONN = " Small-scope suite conn-enum: every sequence of up to 4 (thorough: 5) operations of one connection over a 19-letter alphabet (request pieces with and without descriptors, an Expect head and its body bytes, empty read, end of stream, pop, enqueue, full / short / interrupted / failed write, clear) — 137 560 histories replayed on the model op by op, with panic, output-prefix and descriptor oracles on the implementation."
ENUM_SRV = " Small-scope suite srv-enum: two accepted clients, then every sequence of up to 3 (thorough: 4) steps over 13 (request whole / in halves / Expect head then body / garbage, close, half-close, a second client's request, poll, answer oldest / newest, read, a third client, flush); histories are first drained without further answers (everything already supplied must arrive), then settled."
for k in ["C01", "C03", "C06", "C11", "C12", "C13"]:
    EXTRA[k] = EXTRA.get(k, "") + ENUM_CONN
for k in ["C07", "C08", "C09"]:
    EXTRA[k] = EXTRA.get(k, "") + ENUM_SRV
for pid in ids:
    if pid in props and props[pid].get("theorems") and pid in TEXT:
        text, note = TEXT[pid]
        text = text + EXTRA.get(pid, "")
        checks.append({
            "property_id": pid,
            "quick_cmd": f"./check {pid} --tier quick",
            "thorough_cmd": f"./check {pid} --tier thorough",
            "evidence_file": f"/verif/evidence/{pid}.json",
            "replay_cmd_template": "./check replay {path}",
            "engine": "lean4-proof+correspondence",
            "level_claimed": {"category": "proof", "text": text, "design_ref": f"DESIGN.md §7 {pid}"},
            "level_note": note,
            "technique": TECH,
        })
    else:
        na.append({"property_id": pid, "reason": "check not built yet (work in progress, see DESIGN.md §9); the property is in scope of the technique"})
m = {
 "version": 1,
 "setup_cmd": "./check setup",
 "hooks": {"guard": "micro_http_verif", "enable": "none needed: the checks drive the public API only (no source hooks)",
           "baseline_off_cmd": "cd /repo && cargo test --workspace --no-fail-fast --offline", "source_commits": [], "add_only": True},
 "engines": [{"name": "lean4-proof+correspondence", "path": "/verif/check", "serves_properties": [c["property_id"] for c in checks],
              "kind_free_text": "Lean 4 model + theorems (lean/), Rust differential harness (harness/), python orchestrator (check)"}],
 "checks": checks,
 "not_applicable": na,
 "notes": "Three genuine defects of the pinned tree were repaired by 'fix:' commits in /repo (see known_findings.txt and DESIGN.md §6).",
}
json.dump(m, open(os.path.join(V, "MANIFEST.json"), "w"), indent=1)
print("claimed:", [c["property_id"] for c in checks])
