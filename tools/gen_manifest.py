#!/usr/bin/env python3
"""Regenerates /verif/MANIFEST.json from the table below and lean/props.json (claimed = has theorems + a suite that runs)."""
import json, os
V = os.path.dirname(os.path.dirname(os.path.abspath(__file__)))
props = json.load(open(os.path.join(V, "lean", "props.json")))
ids = [json.loads(l)["id"] for l in open(os.path.join(V, "properties.jsonl"))]

TEXT = {
 "C16": ("Theorems over the Lean model for all byte strings: try_from = some t iff bytes = raw t (Method, Version), MediaType modulo trim on non-empty UTF-8, "
         "StatusCode.raw injective = three-digit decimal, the three-case characterisation of get_abs_path and 'empty or /-prefixed suffix'. "
         "The model is tied to the code on every run by replaying >70k enumerated inputs (all strings over the token alphabet up to a length bound, "
         "all single-byte edits of every canonical token, URIs over the 9-symbol alphabet) on both and diffing; Rust-side oracles state the property directly.",
         "Trusted: Lean kernel (axioms ⊆ propext, Classical.choice, Quot.sound), the hand translation of common/mod.rs, headers.rs::MediaType, response.rs::StatusCode, "
         "request.rs::Uri::get_abs_path (checked by the differential run, exhaustive on the bounded spaces named in the quantifier), std's trim/from_utf8 as modelled."),
 "C01": ("Refinement theorem: one try_read of the code-level model equals running a byte-at-a-time automaton (no buffer, no cursors, no notion of read) over exactly the bytes taken "
         "(tryRead_refines, by induction on the parse loop with all slices/unwraps discharged), lifted to every read schedule over every byte stream (sched_refines) and to "
         "schedule_independent: any two schedules that read the whole stream or reach an error deliver the same requests (all fields, order, once), queue the same 100-continues and report the same first error. "
         "No bound on stream length, number of reads or cut positions. Correspondence: >700k ops per quick run over grammar-derived/boundary-aimed/corrupted streams x 6-12 schedules, each compared op by op with the compiled model, "
         "plus two oracles on the implementation alone: equal summaries across schedules, and summary = spec automaton on the whole stream.",
         "Trusted: Lean kernel; hand model of connection.rs (buffer abstracted to win = buffer[0..read_cursor), shift_buffer_left by its closed form) checked by the differential run; "
         "the scripted stream stands for the kernel (E2). Timing/thread interleaving are not exhibited (the connection is single-threaded)."),
 "C03": ("Theorems: the connection invariant Inv holds initially and is preserved by try_read on ANY recv result (data of any content/length, EOF, any errno), try_write on any write result, enqueue, pop, clear — "
         "and no such call ends in a panic outcome (every slice, unwrap, drain, subtraction of the Rust code is a checked operation in the model; fuel exhaustion is a panic outcome, so termination of the loop is part of the theorem); "
         "ops_safe lifts this to every sequence of public calls incl. continued use after ParseError/StreamReadError/ConnectionClosed. oneShot_no_panic and requestLine_no_panic: the one-shot parser never panics "
         "(headers_end - 2 cannot underflow). Header/media/encoding/method/version parsers and get_abs_path are total functions in the model (no checked operation inside). Correspondence + catch_unwind + per-call syscall counters on the implementation.",
         "Trusted: Lean kernel; hand model (checked differentially); std internals and the allocator are outside the model; 'cannot block' is reduced to 'at most one recv / one write per call on a non-blocking stream' and counted on the implementation."),
}
TECH = "Lean 4 theorems over a hand-written model + differential correspondence check (Rust harness vs compiled Lean driver)"

checks, na = [], []
for pid in ids:
    if pid in props and props[pid].get("theorems") and pid in TEXT:
        text, note = TEXT[pid]
        checks.append({
            "property_id": pid,
            "quick_cmd": f"./check {pid} --tier quick",
            "thorough_cmd": f"./check {pid} --tier thorough",
            "evidence_file": f"/verif/evidence/{pid}.json",
            "replay_cmd_template": "./check replay {path}",
            "engine": "lean4-proof+correspondence",
            "level_claimed": {"category": "proof", "text": text, "design_ref": f"DESIGN.md §7 {pid}"},
            "level_note": note,
            "technique": TECH,
        })
    else:
        na.append({"property_id": pid, "reason": "check not built yet (work in progress, see DESIGN.md §9); the property is in scope of the technique"})
m = {
 "version": 1,
 "setup_cmd": "./check setup",
 "hooks": {"guard": "micro_http_verif", "enable": "none needed: the checks drive the public API only (no source hooks)",
           "baseline_off_cmd": "cd /repo && cargo test --workspace --no-fail-fast --offline", "source_commits": [], "add_only": True},
 "engines": [{"name": "lean4-proof+correspondence", "path": "/verif/check", "serves_properties": [c["property_id"] for c in checks],
              "kind_free_text": "Lean 4 model + theorems (lean/), Rust differential harness (harness/), python orchestrator (check)"}],
 "checks": checks,
 "not_applicable": na,
 "notes": "Three genuine defects of the pinned tree were repaired by 'fix:' commits in /repo (see known_findings.txt and DESIGN.md §6).",
}
json.dump(m, open(os.path.join(V, "MANIFEST.json"), "w"), indent=1)
print("claimed:", [c["property_id"] for c in checks])
