#!/usr/bin/env python3
"""usage: tools/keep_seed.py <Cxx> <name> <caught-by comma list> <needs...>  — store a confirmed seeded change under /verif/seeded/<name>/"""
import sys, os, shutil, json, subprocess
pid, name, caught = sys.argv[1], sys.argv[2], sys.argv[3]
needs = " ".join(sys.argv[4:])
src = f"/tmp/seedwork{os.environ.get('SEED_ROUND', '')}/{pid}"
dst = f"/verif/seeded/{name}"
os.makedirs(dst, exist_ok=True)
shutil.copy(f"{src}/patch.diff", f"{dst}/patch.diff")
shutil.copy(f"{src}/seed_demo.rs", f"{dst}/seed_demo.rs")
if os.path.exists(f"{src}/NOTES.md"):
    shutil.copy(f"{src}/NOTES.md", f"{dst}/NOTES.md")
meta = {
    "breaks_property": pid,
    "needs_to_manifest": needs,
    "produced_by": "fresh sub-agent given only the property text and a scratch worktree of /repo",
    "confirmed_by": "tools/validate_seed.sh: cargo test --offline --lib / --doc pass with the change (62 + 14); tests/seed_demo.rs fails with the change and passes without it",
    "checks_run": f"tools/try_seed.sh {dst}/patch.diff " + " ".join(caught.split(",")),
    "caught_by": [c for c in caught.split(",") if c],
    "repo_base": subprocess.run(["git", "-C", "/repo", "rev-parse", "--short", "HEAD"], capture_output=True, text=True).stdout.strip(),
}
json.dump(meta, open(f"{dst}/meta.json", "w"), indent=1)
print("kept", dst)
