#!/usr/bin/env python3
"""Regenerates the summary table of DESIGN.md §7 from evidence/*.json (quick tier, as committed) and from the log of a
thorough run (argument: path of the log; lines `[Cxx] tier=thorough … theorems a/b cases=… ops=… wall=…s`)."""
import json, glob, os, re, sys
log = open(sys.argv[1]).read() if len(sys.argv) > 1 and os.path.exists(sys.argv[1]) else ""
th = {}
for m in re.finditer(r"\[(C\d\d)\] tier=thorough seed=\d+ theorems (\d+)/(\d+) cases=(\d+) ops=(\d+) nontrivial=\d+ disagreements=(\d+) oracle_failures=(\d+) wall=([\d.]+)s", log):
    th[m.group(1)] = m.groups()[1:]
seeds = {}
for d in glob.glob('/verif/seeded/*/meta.json'):
    p = json.load(open(d))['breaks_property']
    seeds[p] = seeds.get(p, 0) + 1


def fmt(n):
    n = int(n)
    if n >= 10_000_000:
        return f"{n / 1e6:.0f} M"
    if n >= 1_000_000:
        return f"{n / 1e6:.1f} M"
    if n >= 10_000:
        return f"{n / 1e3:.0f} k"
    return f"{n:,}".replace(",", " ")


rows = ["| id | theorems (obligations) | quick: cases / ops / wall | thorough: cases / ops / wall | stored seeded changes reported (§12) |", "|---|---|---|---|---|"]
for i in range(1, 19):
    pid = f"C{i:02d}"
    e = json.load(open(f"/verif/evidence/{pid}.json"))
    c = e["coverage"]
    nthm = len(c.get("theorems", e.get("theorems", [])) or [])
    q = f"{fmt(c.get('cases', 0))} / {fmt(c.get('evaluations', 0))} / {float(e.get('wall_s', 0)):.0f} s"
    t = th.get(pid)
    tt = f"{fmt(t[2])} / {fmt(t[3])} / {float(t[6]):.0f} s" if t else "—"
    rows.append(f"| {pid} | {nthm} | {q} | {tt} | {seeds.get(pid, 0)} |")
p = '/verif/DESIGN.md'
s = open(p).read()
a = s.index("| id | theorems", s.index("### Summary: level, measured budgets"))
b = s.index("\n\n", a)
s = s[:a] + "\n".join(rows) + s[b:]
open(p, 'w').write(s)
print("\n".join(rows))
