#!/bin/bash
# development aid: which stored connection-level seeds does the bounded-exhaustive suite `conn-enum` detect on its own?
# run inside a sandbox: tools/sandbox.sh <name> tools/enum_vs_seeds.sh
cd $VERIF_ROOT
for d in seeded/C0[1346]-* seeded/C1[123]-*; do
  name=$(basename $d)
  git -C $REPO_ROOT apply $VERIF_ROOT/$d/patch.diff 2>/dev/null || { echo "$name: patch does not apply"; continue; }
  (cd harness && CARGO_NET_OFFLINE=true cargo build --release --offline >/dev/null 2>&1)
  out=work/enum-$name; rm -rf $out; mkdir -p $out
  timeout 300 harness/target/release/mhharness conn-enum --seed 1 --tier quick --out $out --prop C03 >/dev/null 2>&1; rc=$?
  if [ $rc -ne 0 ]; then echo "$name: harness rc=$rc (hang/crash)"; else
    lean/.lake/build/bin/mhdriver < $out/ops.txt > $out/model.out
    nd=$(paste -d'\n' /dev/null | cmp -l $out/impl.out $out/model.out 2>/dev/null | wc -l)
    dl=$(diff <(cat $out/impl.out) <(cat $out/model.out) | grep -c '^<')
    of=$(wc -l < $out/oracle.jsonl)
    echo "$name: differing lines=$dl oracle_failures=$of"
  fi
  rm -rf $out
  git -C $REPO_ROOT checkout -- .
done
