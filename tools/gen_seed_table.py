#!/usr/bin/env python3
"""Regenerates the table of DESIGN.md §12 from /verif/seeded/*/meta.json."""
import json, glob, os
rows = ["| seeded change (`/verif/seeded/<name>/`) | breaks | needs, in order to manifest | reported by (quick tier, seed 1) |", "|---|---|---|---|"]
for d in sorted(glob.glob('/verif/seeded/*/')):
    m = json.load(open(d + 'meta.json')); name = os.path.basename(d.rstrip('/'))
    rep = m.get('note', ", ".join(m['caught_by']) + " — oracle / spec failure with the failing input as replay, and model/implementation divergence")
    rows.append(f"| `{name}` | {m['breaks_property']} | {m['needs_to_manifest']} | {rep} |")
p = '/verif/DESIGN.md'
s = open(p).read()
a = s.index("| seeded change (`/verif/seeded/<name>/`)")
b = s.index("Hand-made mutants used while bringing the suites up")
s = s[:a] + "\n".join(rows) + "\n\n" + s[b:]
open(p, 'w').write(s)
print(len(rows) - 2, "seeds")
