#!/bin/bash
# usage: tools/sandbox.sh <name> <command ...>
# Development aid (not used by any registered check): run <command> against a PRIVATE copy of the machinery and of the
# repository, so that long seeded-change / mutation runs do not occupy /repo and /verif:
#   /tmp/vsb-<name>/repo   git clone of /repo's HEAD
#   /tmp/vsb-<name>/verif  copy of /verif (without work/, replays/), its harness depending on the copied repo
# The command runs in the copied verif with VERIF_ROOT and REPO_ROOT exported. Remove the sandbox afterwards:
#   rm -rf /tmp/vsb-<name>
refresh=0; [ "$1" = "--refresh" ] && { refresh=1; shift; }
name=$1; shift
sb=/tmp/vsb-$name
if [ $refresh = 1 ] && [ -d $sb/verif ]; then
  # bring the copy up to date with /verif (build outputs of the copy are kept)
  rsync -a --delete --exclude work --exclude replays --exclude harness/target --exclude lean/.lake --exclude .git --exclude harness/Cargo.toml /verif/ $sb/verif/
  git -C $sb/repo checkout -q -- . 2>/dev/null
  # the harness manifest follows /verif's, re-pointed at the copied repository
  sed "s#path = \"/repo\"#path = \"$sb/repo\"#" /verif/harness/Cargo.toml > $sb/verif/harness/Cargo.toml.new
  cmp -s $sb/verif/harness/Cargo.toml.new $sb/verif/harness/Cargo.toml && rm $sb/verif/harness/Cargo.toml.new || mv $sb/verif/harness/Cargo.toml.new $sb/verif/harness/Cargo.toml
fi
if [ ! -d $sb/verif ]; then
  mkdir -p $sb
  git clone -q /repo $sb/repo
  rsync -a --exclude work --exclude replays --exclude harness/target --exclude .git /verif/ $sb/verif/
  sed -i "s#path = \"/repo\"#path = \"$sb/repo\"#" $sb/verif/harness/Cargo.toml
  mkdir -p $sb/verif/work
fi
export VERIF_ROOT=$sb/verif REPO_ROOT=$sb/repo MH_SOCK_DIR=$sb/verif/work
cd $sb/verif && "$@"
