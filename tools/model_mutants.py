#!/usr/bin/env python3
"""
Theorem-strength test (development aid, not one of the registered checks).

The registered checks detect a change to the CODE through the correspondence (model ≠ implementation) and then
search for a failing input. This tool asks the complementary question: had the MODEL followed the changed code,
would the property theorems have noticed? Each entry below is a seeded / hand-made code change translated by
hand into the Lean model; it is applied to a scratch copy of lean/, every Props module is rebuilt, and the
modules that no longer build are recorded. A mutant after which every property theorem still builds means the
theorems do not state the property at full strength (or the mutant is equivalent) — to be triaged by hand.

usage: tools/model_mutants.py [name-filter] [--jobs N]      results: mutation/model_mutants.json
"""
import json, os, re, shutil, subprocess, sys
from concurrent.futures import ThreadPoolExecutor

VERIF = os.environ.get("VERIF_ROOT", "/verif")
LEAN = os.path.join(VERIF, "lean")
SCRATCH = "/tmp/lean-mutants"

# (name, mirrors, file, old, new, properties expected to break)
MUTANTS = [
    ("reset-keeps-files", "seeded C11-files-survive-reset", "MicroHttp/Conn.lean",
     "win := [], bodyVec := [], toRead := 0, files := [] }", "win := [], bodyVec := [], toRead := 0 }", ["C11"]),
    ("reset-keeps-window", "defect F1 (stale read_cursor)", "MicroHttp/Conn.lean",
     "{ c with state := .reqLine, pending := none, win := [], bodyVec", "{ c with state := .reqLine, pending := none, bodyVec", ["C11", "C03"]),
    ("reset-on-stream-error", "seeded C01-reset-on-stream-read-error", "MicroHttp/Conn.lean",
     "| .err errno => (c, .streamErr errno)", "| .err errno => (resetParser c, .streamErr errno)", ["C01"]),
    ("body-ge", "hand mutant > -> >= in parse_body", "MicroHttp/Conn.lean",
     "if c.toRead > startToEnd then do", "if c.toRead ≥ startToEnd then do", ["C01"]),
    ("line-limit-any-offset", "hand mutant: dropped `start == 0`", "MicroHttp/Conn.lean",
     "if stop = P.B ∧ start = 0 then .error (.parse .invalidRequest)", "if stop = P.B then .error (.parse .invalidRequest)", ["C01", "C04"]),
    ("payload-limit-ge", "hand mutant > -> >= at the payload limit", "MicroHttp/Conn.lean",
     "else if P.clen r.headers > c.limit then", "else if P.clen r.headers ≥ c.limit then", ["C04", "C01"]),
    ("continue-without-expect-check", "seeded C13 family: 100 queued for every body", "MicroHttp/Conn.lean",
     "let q := if P.expect r.headers then c.respQ ++ [P.contOf r.line] else c.respQ", "let q := c.respQ ++ [P.contOf r.line]", ["C13", "C01"]),
    ("files-not-cleared-at-delivery", "seeded C12 family", "MicroHttp/Conn.lean",
     "pure { c with state := .reqLine, toRead := 0, pending := none, files := [],", "pure { c with state := .reqLine, toRead := 0, pending := none,", ["C12"]),
    ("fds-dropped-on-eof", "seeded C12-fds-dropped-on-zero-length-read", "MicroHttp/Conn.lean",
     "if chunk'.isEmpty then (c1, .closed)", "if chunk'.isEmpty then (c, .closed)", ["C12"]),
    ("eintr-loses-response", "seeded C06-response-lost-on-first-eintr", "MicroHttp/Conn.lean",
     "| .interrupted => (c1, .ok, [], true)", "| .interrupted => ({ c1 with respBuf := none }, .ok, [], true)", ["C06"]),
    ("failed-write-keeps-queue", "seeded C09-hangup-keeps-write-buffer family", "MicroHttp/Conn.lean",
     "| .fail => (clearWrite c1, .closed, [], true)", "| .fail => (c1, .closed, [], true)", ["C06", "C09"]),
    ("short-write-drops-one-more", "hand mutant drain(..n+1)", "MicroHttp/Conn.lean",
     "some (buf.drop n) }, .ok, buf.take n, true)", "some (buf.drop (n + 1)) }, .ok, buf.take n, true)", ["C06"]),
    ("is-done-ignores-inflight", "hand mutant: is_done without the in-flight test", "MicroHttp/Server.lean",
     "c.state = .closed && !pendingWrite c.conn && c.inflight = 0", "c.state = .closed && !pendingWrite c.conn", ["C07"]),
    ("capacity-gt", "hand mutant `len() >` at capacity", "MicroHttp/Server.lean",
     "if s.conns.length = MAX_CONNECTIONS then (s, [], [.refused newFd], none)", "if s.conns.length > MAX_CONNECTIONS then (s, [], [.refused newFd], none)", ["C10"]),
    ("invalid-write-is-error", "defect F2/F4: nothing to write closes the poll", "MicroHttp/Server.lean",
     "({ c with conn := conn', state := if c.state = .closed then .closed else .awaitingIn }, [])", "({ c with conn := conn', state := .closed }, [])", ["C08", "C09"]),
    ("hangup-keeps-write-buffer", "seeded C09-hangup-keeps-write-buffer", "MicroHttp/Server.lean",
     "let c' := { c with conn := clearWrite c.conn, state := .closed }", "let c' := { c with state := .closed }", ["C09", "C10"]),
    ("read-does-not-arm-out", "hand mutant: no epoll_mod after read", "MicroHttp/Server.lean",
     "if c'.state = .awaitingOut then ({ c' with interest := .out }, [Effect.interest fd .out]) else (c', [])", "(c', [])", ["C08", "C13"]),
    ("respond-enqueues-on-closed", "near-equivalent mutant of §12", "MicroHttp/Server.lean",
     "let c2 := if c1.state ≠ .closed then { c1 with conn := enqueue c1.conn r } else c1", "let c2 := { c1 with conn := enqueue c1.conn r }", ["C07"]),
    ("inflight-counts-discarded", "seeded C10-discarded-requests-counted-in-flight", "MicroHttp/Server.lean",
     "(finish (enqueue { conn' with parsed := [] } r) [], [], none)", "(finish (enqueue { conn' with parsed := [] } r) conn'.parsed, [], none)", ["C10", "C07"]),
    ("kill-ignored-without-switch", "hand mutant: kill event treated as no-op", "MicroHttp/Server.lean",
     "if s.hasKill then (s, [], [], some .shutdown) else (s, [], [], some (.unknownFd 0))", "if s.hasKill then (s, [], [], none) else (s, [], [], some (.unknownFd 0))", ["C18"]),
    ("server-write-releases-staging", "seeded C12-idle-server-connection-releases-staging-under-partial-request-line (round 19)", "MicroHttp/Server.lean",
     "| .ok => ({ c with conn := conn', state := if pendingWrite conn' then c.state else .awaitingIn }, bytes)",
     "| .ok => ({ c with conn := (if !pendingWrite conn' && c.inflight = 0 && conn'.pending.isNone then { conn' with files := [], bodyVec := [] } else conn'), state := if pendingWrite conn' then c.state else .awaitingIn }, bytes)", ["C12"]),
    ("router-404-takes-request-version", "seeded C17-http10-downgrade (round 19), the 404 half", "MicroHttp/Router.lean",
     "| none => Response.new .http11 .notFound", "| none => Response.new req.line.version .notFound", ["C17"]),
    ("expect-overwritten", "seeded C13-later-expect-clears-flag", "MicroHttp/Headers.lean",
     "/- \"100-continue\" -/ then .ok { h with expect := true }", "/- \"100-continue\" -/ then .ok { h with expect := true } else if true then .ok { h with expect := false }", ["C15"]),
    ("duplicate-route-overwrites", "seeded C17-duplicate-route-overwrites", "MicroHttp/Router.lean",
     "| some _ => (r, .error k)", "| some _ => ({ r with routes := (k, handler) :: r.routes }, .error k)", ["C17"]),
    ("no-content-length-for-204-body", "seeded C05-no-content-length-for-100-204-body", "MicroHttp/Response.lean",
     "| .setBody b => { r with contentLength := some (asI32 b.length), body := some b }",
     "| .setBody b => { r with contentLength := (if r.status = .noContent then r.contentLength else some (asI32 b.length)), body := some b }", ["C05"]),
]


def props_modules():
    d = json.load(open(os.path.join(LEAN, "props.json")))
    mods = {}
    for pid, v in d.items():
        for m in v.get("modules", [f"MicroHttp.Props.{pid}"]):
            if m != "MicroHttp.Props.Tables":
                mods.setdefault(m, set()).add(pid)
    return mods


def run_one(m):
    name, mirrors, rel, old, new, expect = m
    d = os.path.join(SCRATCH, name)
    shutil.rmtree(d, ignore_errors=True)
    subprocess.run(["cp", "-a", LEAN, d], check=True)
    p = os.path.join(d, rel)
    s = open(p).read()
    if old is None or s.count(old) != 1:
        shutil.rmtree(d, ignore_errors=True)
        return {"name": name, "mirrors": mirrors, "status": "patch does not apply (model text changed)" if old else "not written yet"}
    open(p, "w").write(s.replace(old, new))
    mods = props_modules()
    broken, ok = set(), set()
    # lake stops at the first failing target of a build: build the modules one at a time
    for mod, pids in sorted(mods.items()):
        r = subprocess.run(["lake", "build", mod], cwd=d, stdout=subprocess.PIPE, stderr=subprocess.STDOUT, text=True)
        (ok if r.returncode == 0 else broken).update(pids if r.returncode == 0 else pids)
        if r.returncode != 0:
            broken.update(pids)
    ok -= broken
    shutil.rmtree(d, ignore_errors=True)
    return {"name": name, "mirrors": mirrors, "file": rel, "old": old, "new": new, "expected_to_break": expect,
            "properties_whose_theorems_break": sorted(broken), "properties_unaffected": sorted(ok),
            "status": "detected" if broken else "NOT DETECTED by any theorem",
            "expected_all_hit": all(e in broken for e in expect)}


def main():
    argv = sys.argv[1:]
    jobs = 4
    if "--jobs" in argv:
        k = argv.index("--jobs")
        jobs = int(argv[k + 1])
        del argv[k:k + 2]
    args = argv
    sel = [m for m in MUTANTS if not args or any(a in m[0] for a in args)]
    os.makedirs(SCRATCH, exist_ok=True)
    with ThreadPoolExecutor(max_workers=jobs) as ex:
        res = list(ex.map(run_one, sel))
    for r in res:
        print(f"{r['name']:36s} {r['status']:32s} breaks={r.get('properties_whose_theorems_break')} expected={r.get('expected_to_break')}")
    out = os.path.join(VERIF, "mutation", "model_mutants.json")
    old = {}
    if os.path.exists(out):
        old = {r["name"]: r for r in json.load(open(out))}
    for r in res:
        old[r["name"]] = r
    json.dump(list(old.values()), open(out, "w"), indent=1)
    shutil.rmtree(SCRATCH, ignore_errors=True)


if __name__ == "__main__":
    main()
