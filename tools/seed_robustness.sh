#!/bin/bash
# development aid: is each stored seeded change detected by the check of its own property for OTHER random seeds too?
# usage (inside a sandbox): tools/seed_robustness.sh "<seeds>" [<name regex>]   prints one line per (change, seed): detected / MISSED
cd ${VERIF_ROOT:-/verif}
for d in seeded/*/; do
  name=$(basename $d)
  [ -n "$2" ] && ! echo "$name" | grep -Eq "$2" && continue
  prop=$(python3 -c "import json;print(json.load(open('$d/meta.json'))['caught_by'][0])")
  for s in ${1:-2 3}; do
    git -C ${REPO_ROOT:-/repo} apply ${VERIF_ROOT:-/verif}/$d/patch.diff 2>/dev/null || { echo "$name seed=$s: patch does not apply"; continue; }
    out=$(VERIF_SEED=$s ./check $prop --tier quick 2>&1 | grep -E "^\[|VIOLATION")
    git -C ${REPO_ROOT:-/repo} checkout -- .
    nv=$(echo "$out" | grep -c VIOLATION); ni=$(echo "$out" | grep VIOLATION | grep -vc no-failing-input-found)
    if [ $nv -eq 0 ]; then echo "$name $prop seed=$s: MISSED"; elif [ $ni -eq 0 ]; then echo "$name $prop seed=$s: divergence-only"; else echo "$name $prop seed=$s: detected"; fi
  done
done
