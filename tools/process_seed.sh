#!/bin/bash
# usage: tools/process_seed.sh <Cxx> <check ids...> — validate the seeded change in /tmp/seedwork/<Cxx> and run the checks on it
pid=$1; shift
echo "##### $pid"
tools/validate_seed.sh $pid 2>&1 | tail -2
tools/try_seed.sh /tmp/seedwork${SEED_ROUND}/$pid/patch.diff "$@" 2>&1 | cut -c1-220
