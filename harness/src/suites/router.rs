//! C17 — `HttpRoutes`: registration and dispatch.
use crate::conn::{method_name, method_of};
use crate::emit::Rec;
use crate::rng::Rng;
use crate::show::*;
use micro_http::{Body, EndpointHandler, HttpRoutes, Request, Response, StatusCode, Version};
use std::sync::{Arc, Mutex};

struct H {
    id: usize,
    log: Arc<Mutex<Vec<usize>>>,
}

impl EndpointHandler<u32> for H {
    fn handle_request(&self, _req: &Request, _arg: &u32) -> Response {
        self.log.lock().unwrap().push(self.id);
        // the handler's own version does not follow the request's: every third handler answers HTTP/1.1, the others 1.0
        let mut r = Response::new(if self.id % 3 == 0 { Version::Http11 } else { Version::Http10 }, StatusCode::OK);
        r.set_body(Body::new(format!("handler-{}", self.id)));
        if self.id % 5 == 4 {
            // … and some set every other field a response has: all of it must survive the router
            r.set_deprecation();
            r.allow_method(micro_http::Method::Put);
            r.set_encoding();
        }
        if self.id % 2 == 1 {
            // a handler that picks its own content type and server identity: the router must overwrite both
            r.set_content_type(micro_http::MediaType::PlainText);
            r.set_server("handler-set");
        }
        r
    }
}

pub const PATHS: [&str; 7] = ["", "/", "/a", "/a/b", "/a:b", ":", "/a%3Ab"];
pub const PREFIXES: [&str; 4] = ["", "/p", "/p/", "/"];
pub const SERVER_IDS: [&str; 2] = ["router-id", ""];

fn request_uris() -> Vec<Vec<u8>> {
    let mut v: Vec<Vec<u8>> = vec![];
    for pre in PREFIXES {
        for p in PATHS {
            let full = format!("{}{}", pre, p);
            if !full.is_empty() {
                v.push(full.clone().into_bytes());
            }
            v.push(format!("http://host{}", full).into_bytes());
        }
    }
    v.push(b"/nope".to_vec());
    v.push(b"GET:/a".to_vec());
    v.sort();
    v.dedup();
    v
}

pub fn table_case(rec: &mut Rec, server_id: &str, prefix: &str, regs: &[(u8, usize)], uris: &[Vec<u8>], sample_reqs: Option<&mut Rng>) {
    table_case_paths(rec, server_id, prefix, &PATHS, regs, uris, sample_reqs)
}

/// the same over an explicit list of paths (`regs` index into it)
pub fn table_case_paths(rec: &mut Rec, server_id: &str, prefix: &str, paths: &[&str], regs: &[(u8, usize)], uris: &[Vec<u8>], sample_reqs: Option<&mut Rng>) {
    rec.case("table");
    let mut log_ops = vec![];
    let log = Arc::new(Mutex::new(Vec::<usize>::new()));
    let mut router: HttpRoutes<u32> = HttpRoutes::new(server_id.to_string(), prefix.to_string());
    let op = format!("route new {} {}", hx(server_id.as_bytes()), hx(prefix.as_bytes()));
    rec.op(&op, "ok");
    log_ops.push(op);
    // expected table: first registration of a (method, prefix+path) pair wins
    let mut expected: Vec<((u8, Vec<u8>), usize)> = vec![];
    for (id, (m, p)) in regs.iter().enumerate() {
        let path = paths[*p];
        let r = router.add_route(method_of(*m), path.to_string(), Box::new(H { id, log: log.clone() }));
        let full: Vec<u8> = format!("{}{}", prefix, path).into_bytes();
        let dup = expected.iter().any(|(k, _)| k.0 == *m && k.1 == full);
        let op = format!("route add {} {} {}", method_name(*m), hx(path.as_bytes()), id);
        log_ops.push(op.clone());
        match r {
            Ok(()) => {
                if dup {
                    rec.oracle_fail("C17", "a second registration of the same (method, path) was accepted", &log_ops);
                }
                expected.push(((*m, full), id));
                rec.op(&op, "ok");
            }
            Err(e) => {
                if !dup {
                    rec.oracle_fail("C17", "a first registration was refused", &log_ops);
                }
                rec.count("add:exists");
                rec.nontrivial();
                let micro_http::RouteError::HandlerExist(k) = e;
                rec.op(&op, &format!("exists {}", hx(k.as_bytes())));
            }
        }
    }
    let mut rng_opt = sample_reqs;
    // the order of the dispatches alternates between tables: method-major (consecutive requests share the method) and
    // path-major (consecutive requests share the PATH and differ in the method) — a dispatch must not remember anything
    // of the previous one
    let path_major = regs.len() % 2 == 1;
    let order: Vec<(u8, &Vec<u8>)> = if path_major {
        uris.iter().flat_map(|u| (0..3u8).map(move |m| (m, u))).collect()
    } else {
        (0..3u8).flat_map(|m| uris.iter().map(move |u| (m, u))).collect()
    };
    {
        for (m, u) in order {
            if let Some(rng) = rng_opt.as_deref_mut() {
                if !rng.chance(1, 4) {
                    continue;
                }
            }
            dispatch_one(rec, &router, &log, &expected, m, u, server_id, &log_ops);
        }
    }
}


type Table = Vec<((u8, Vec<u8>), usize)>;

/// one request through `handle_http_request`, with the oracle "exactly the first-registered handler for (method,
/// abs_path) as the table stands NOW, once; else 404; stamped"
fn dispatch_one(rec: &mut Rec, router: &HttpRoutes<u32>, log: &Arc<Mutex<Vec<usize>>>, expected: &Table, m: u8, u: &Vec<u8>, server_id: &str, log_ops: &[String]) {
    let v11 = u.len() % 2 == 0;
    let mut bytes = format!("{} ", method_name(m)).into_bytes();
    bytes.extend_from_slice(u);
    bytes.extend_from_slice(if v11 { b" HTTP/1.1\r\n\r\n" } else { b" HTTP/1.0\r\n\r\n" });
    let req = match Request::try_from(&bytes, None) {
        Ok(r) => r,
        Err(_) => return,
    };
    log.lock().unwrap().clear();
    let resp = router.handle_http_request(&req, &7u32);
    let invoked = log.lock().unwrap().clone();
    let mut out = Vec::new();
    let _ = resp.write_all(&mut out);
    // oracle: exactly the first-registered handler for (method, abs_path), once; else 404
    let abs = req.uri().get_abs_path().as_bytes().to_vec();
    let want: Option<usize> = expected.iter().find(|(k, _)| k.0 == m && k.1 == abs).map(|(_, id)| *id);
    let op = format!("route req {} {} {}", method_name(m), if v11 { "1.1" } else { "1.0" }, hx(u));
    let mut l = log_ops.to_vec();
    l.push(op.clone());
    let ok_invocation = match want {
        Some(id) => invoked == vec![id],
        None => invoked.is_empty() && resp.status() == StatusCode::NotFound,
    };
    let text = String::from_utf8_lossy(&out).to_string();
    let stamped = text.contains(&format!("Server: {}\r\n", server_id))
        && !text.contains("Server: handler-set\r\n")
        && (resp.content_type() == micro_http::MediaType::ApplicationJson)
        && (text.contains("Content-Type: application/json\r\n") || !text.contains("Content-Type:"));
    if !ok_invocation || !stamped {
        rec.oracle_fail("C17", &format!("dispatch: invoked {:?}, expected {:?}, stamped={}", invoked, want, stamped), &l);
    }
    if want.is_some() {
        rec.count("dispatch:hit");
    } else {
        rec.count("dispatch:404");
    }
    let h = invoked.first().map(|i| i.to_string()).unwrap_or("-".into());
    rec.op(&op, &format!("h={} resp={}", h, hx(&out)));
}

/// registrations and requests INTERLEAVED on one router: a route registered after the router has already dispatched
/// (hits and misses) is found like any other, a refused duplicate changes nothing, and what was registered before
/// stays reachable
pub fn interleaved_case(rec: &mut Rec, server_id: &str, prefix: &str, paths: &[&str], steps: &[(bool, u8, usize)], uris: &[Vec<u8>]) {
    rec.case("interleaved");
    let log = Arc::new(Mutex::new(Vec::<usize>::new()));
    let mut router: HttpRoutes<u32> = HttpRoutes::new(server_id.to_string(), prefix.to_string());
    let op = format!("route new {} {}", hx(server_id.as_bytes()), hx(prefix.as_bytes()));
    rec.op(&op, "ok");
    let mut log_ops = vec![op];
    let mut expected: Table = vec![];
    let mut id = 0usize;
    for (is_add, m, k) in steps {
        if *is_add {
            let path = paths[*k % paths.len()];
            let r = router.add_route(method_of(*m), path.to_string(), Box::new(H { id, log: log.clone() }));
            let full: Vec<u8> = format!("{}{}", prefix, path).into_bytes();
            let dup = expected.iter().any(|(key, _)| key.0 == *m && key.1 == full);
            let op = format!("route add {} {} {}", method_name(*m), hx(path.as_bytes()), id);
            log_ops.push(op.clone());
            match r {
                Ok(()) => {
                    if dup {
                        rec.oracle_fail("C17", "a second registration of the same (method, path) was accepted", &log_ops);
                    }
                    expected.push(((*m, full), id));
                    rec.op(&op, "ok");
                }
                Err(e) => {
                    if !dup {
                        rec.oracle_fail("C17", "a first registration was refused", &log_ops);
                    }
                    rec.nontrivial();
                    let micro_http::RouteError::HandlerExist(key) = e;
                    rec.op(&op, &format!("exists {}", hx(key.as_bytes())));
                }
            }
            id += 1;
        } else {
            let u = &uris[*k % uris.len()];
            dispatch_one(rec, &router, &log, &expected, *m, u, server_id, &log_ops);
            let v11 = u.len() % 2 == 0;
            log_ops.push(format!("route req {} {} {}", method_name(*m), if v11 { "1.1" } else { "1.0" }, hx(u)));
            rec.count("dispatch:interleaved");
        }
    }
}

pub fn run(rec: &mut Rec, rng: &mut Rng, thorough: bool) {
    let uris = request_uris();
    let routes: Vec<(u8, usize)> = (0..3u8).flat_map(|m| (0..PATHS.len()).map(move |p| (m, p))).collect();
    // exhaustive: all registration sequences (with duplicates) up to depth d
    let depth = if thorough { 3 } else { 2 };
    let mut seqs: Vec<Vec<(u8, usize)>> = vec![vec![]];
    let mut frontier: Vec<Vec<(u8, usize)>> = vec![vec![]];
    for _ in 0..depth {
        let mut next = vec![];
        for s in &frontier {
            for r in &routes {
                let mut t = s.clone();
                t.push(*r);
                next.push(t);
            }
        }
        seqs.extend(next.iter().cloned());
        frontier = next;
    }
    for prefix in PREFIXES {
        for s in &seqs {
            if s.len() <= 2 {
                table_case(rec, SERVER_IDS[0], prefix, s, &uris, None);
            } else {
                table_case(rec, SERVER_IDS[0], prefix, s, &uris, Some(rng));
            }
        }
    }
    // long paths: keys of 40..90 bytes, each length registered for one method, every length requested with every
    // method in both request forms (a key is METHOD ':' prefix+path — none of its parts has a length limit)
    {
        let long: Vec<String> = (40..=90usize).map(|l| format!("/{}", "x".repeat(l - 1))).collect();
        let long_refs: Vec<&str> = long.iter().map(|x| x.as_str()).collect();
        for prefix in ["", "/p"] {
            let regs: Vec<(u8, usize)> = (0..long.len()).map(|i| ((i % 3) as u8, i)).collect();
            let mut uris: Vec<Vec<u8>> = vec![];
            for p in &long {
                uris.push(format!("{}{}", prefix, p).into_bytes());
                uris.push(format!("http://h{}{}", prefix, p).into_bytes());
            }
            table_case_paths(rec, SERVER_IDS[0], prefix, &long_refs, &regs, &uris, None);
        }
    }
    // route paths that themselves begin with the prefix string (or are the prefix): the key is ALWAYS prefix + path
    {
        let pp: [&str; 6] = ["/a/x", "/x", "/ab", "/a", "", "/a/a"];
        let routes6: Vec<(u8, usize)> = (0..2u8).flat_map(|m| (0..pp.len()).map(move |p| (m, p))).collect();
        let mut uris: Vec<Vec<u8>> = vec![];
        for tail in ["/a", "/x", "/ab", "/a/x", "/a/a", "/a/ab", "/a/a/x", "/a/a/a", ""] {
            uris.push(tail.as_bytes().to_vec());
            uris.push(format!("http://h{}", tail).into_bytes());
        }
        uris.retain(|u| !u.is_empty());
        for a in &routes6 {
            for b in &routes6 {
                table_case_paths(rec, SERVER_IDS[0], "/a", &pp, &[*a, *b], &uris, None);
            }
        }
    }
    // many routes under a long prefix: neither the number of routes nor the length of the prefix is bounded
    {
        let many: Vec<String> = (0..260usize).map(|k| format!("/r{}", k)).collect();
        let many_refs: Vec<&str> = many.iter().map(|x| x.as_str()).collect();
        let long_prefix = format!("/{}", "p".repeat(299));
        for prefix in ["/api", long_prefix.as_str()] {
            let regs: Vec<(u8, usize)> = (0..many.len()).map(|i| (((i * 7) % 3) as u8, i)).collect();
            let uris: Vec<Vec<u8>> = many.iter().step_by(3).map(|p| format!("{}{}", prefix, p).into_bytes()).collect();
            table_case_paths(rec, SERVER_IDS[0], prefix, &many_refs, &regs, &uris, None);
        }
    }
    // registrations and dispatches interleaved: short keys first, a dispatch (hit / miss), then longer and shorter keys
    {
        let paths: [&str; 6] = ["/a", "/a/b", "/a/b/c/d/e/f/g/h", "", "/", "/zz"];
        let mut uris: Vec<Vec<u8>> = vec![];
        for p in ["/a", "/a/b", "/a/b/c/d/e/f/g/h", "/", "/zz", "/none"] {
            uris.push(p.as_bytes().to_vec());
            uris.push(format!("http://host{}", p).into_bytes());
        }
        for first in 0..paths.len() {
            for later in 0..paths.len() {
                for probe in [0usize, 10] {
                    let mut steps: Vec<(bool, u8, usize)> = vec![(true, 0, first), (false, 0, probe)];
                    steps.push((true, 0, later));
                    steps.push((true, 1, later));
                    for k in 0..uris.len() {
                        steps.push((false, 0, k));
                        steps.push((false, 1, k));
                    }
                    steps.push((true, 0, first));
                    steps.push((false, 0, first * 2));
                    interleaved_case(rec, SERVER_IDS[0], "", &paths, &steps, &uris);
                }
            }
        }
        for _ in 0..(if thorough { 4000 } else { 200 }) {
            let n = 4 + rng.below(12);
            let steps: Vec<(bool, u8, usize)> = (0..n).map(|_| (rng.chance(1, 2), rng.below(3) as u8, rng.below(12))).collect();
            let prefix = *rng.pick(&PREFIXES);
            let puris: Vec<Vec<u8>> = uris.iter().map(|u| { let t = String::from_utf8_lossy(u).to_string(); if t.starts_with("http://host") { format!("http://host{}{}", prefix, &t[11..]).into_bytes() } else { format!("{}{}", prefix, t).into_bytes() } }).collect();
            interleaved_case(rec, SERVER_IDS[0], prefix, &paths, &steps, &puris);
        }
    }
    // random longer tables
    let n = if thorough { 20000 } else { 600 };
    for _ in 0..n {
        let k = rng.range(3, 6);
        let s: Vec<(u8, usize)> = (0..k).map(|_| *rng.pick(&routes)).collect();
        let prefix = *rng.pick(&PREFIXES);
        let sid = *rng.pick(&SERVER_IDS);
        table_case(rec, sid, prefix, &s, &uris, Some(rng));
    }
}
