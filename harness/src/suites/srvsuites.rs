//! Server suites: random and targeted histories of clients and application against a real `HttpServer`
//! (C07 routing, C08 liveness for well-behaved clients, C09 misbehaving clients, C10 capacity,
//! C18 kill switch, and the server part of C04/C11/C13).
use crate::conn::{BOp, RespSpec};
use crate::emit::Rec;
use crate::gen;
use crate::inject::{RecvFault, WriteFault};
use crate::rng::Rng;
use crate::show::*;
use crate::srv::{split_responses, World, SERVER_FULL};
use std::collections::VecDeque;
use std::net::Shutdown;

#[derive(Clone)]
pub struct Cfg {
    pub prop: &'static str,
    pub max_clients: usize,
    pub steps: usize,
    /// per-mille weights of misbehaviour
    pub w_close: usize,
    pub w_shut: usize,
    pub w_garbage: usize,
    pub w_flush: usize,
    pub w_kill: usize,
    pub with_kill: bool,
    pub big: bool,
    pub witness: bool,
    pub reconnect: bool,
    pub limit: Option<usize>,
    /// per-mille weight of an injected fault at the libc boundary (inject.rs)
    pub w_fault: usize,
    /// per-mille weight of a `set_payload_max_size` in the middle of a history (applies to later connections)
    pub w_limit: usize,
}

impl Cfg {
    pub fn base(prop: &'static str) -> Cfg {
        Cfg { prop, max_clients: 4, steps: 40, w_close: 0, w_shut: 0, w_garbage: 0, w_flush: 0, w_kill: 0, with_kill: false, big: false, witness: false, reconnect: false, limit: None, w_fault: 0, w_limit: 0 }
    }
}

pub struct Plan {
    pub outq: VecDeque<(Vec<u8>, bool)>,
    pub next_req: usize,
    /// tags of requests whose bytes were sent completely, in order
    pub sent: Vec<String>,
    /// tags the application answered for this client, in order
    pub answered: Vec<String>,
    pub sent_garbage: bool,
    pub reads: bool,
}

pub struct Sim {
    pub w: World,
    pub plans: Vec<Plan>,
    pub cfg: Cfg,
    pub spin_polls: usize,
    pub shutdown_seen: usize,
    pub polls_after_kill_not_shutdown: usize,
}

fn tag(i: usize, j: usize) -> String {
    format!("/c{}/r{}", i, j)
}

impl Sim {
    pub fn new(rec: &mut Rec, cfg: Cfg) -> Sim {
        let w = World::new(rec, cfg.with_kill, cfg.limit);
        Sim { w, plans: vec![], cfg, spin_polls: 0, shutdown_seen: 0, polls_after_kill_not_shutdown: 0 }
    }

    pub fn connect(&mut self, rec: &mut Rec) -> usize {
        let i = self.w.connect(rec);
        self.plans.push(Plan { outq: VecDeque::new(), next_req: 0, sent: vec![], answered: vec![], sent_garbage: false, reads: true });
        i
    }

    /// queue the pieces of one more well-formed, tagged request of client `i`
    pub fn plan_request(&mut self, rng: &mut Rng, i: usize) {
        let j = self.plans[i].next_req;
        self.plans[i].next_req += 1;
        let t = tag(i, j);
        let body_len = match rng.below(6) {
            0 => rng.range(1, 40),
            1 => rng.range(100, 1500),
            _ => 0,
        };
        // the limit this connection got when it was accepted; a client that is not accepted yet cannot know which limit
        // it will get (the application may change it before the accept), so it declares no body
        let lim = self.w.clients[i].limit.unwrap_or(0);
        // the witness stays well-behaved: it never declares more than its limit
        let body_len = if (self.cfg.witness && i == 0 && body_len > lim) || self.w.clients[i].limit.is_none() { 0 } else { body_len };
        if body_len > lim {
            // it will be answered with a 400: from here on the client is not a well-behaved one
            self.plans[i].sent_garbage = true;
            self.w.clients[i].misbehaved = true;
        }
        let mut req = Vec::new();
        let m = if body_len > 0 { *rng.pick(&["PUT", "PATCH"]) } else { *rng.pick(&["GET", "PUT", "PATCH"]) };
        let v = *rng.pick(&["HTTP/1.1", "HTTP/1.0"]);
        req.extend_from_slice(format!("{} {} {}\r\n", m, t, v).as_bytes());
        for _ in 0..rng.below(3) {
            req.extend_from_slice(&gen::benign_header_line(rng));
            req.extend_from_slice(b"\r\n");
        }
        if body_len > 0 {
            if rng.chance(1, 3) {
                req.extend_from_slice(b"Expect: 100-continue\r\n");
            }
            req.extend_from_slice(format!("Content-Length: {}\r\n", body_len).as_bytes());
        }
        req.extend_from_slice(b"\r\n");
        req.extend_from_slice(&gen::body_bytes(rng, body_len));
        let mut cuts = gen::cuts_r(rng, &req);
        if cuts.len() > 24 {
            // hundreds of tiny sends exhaust the socket's packet budget: keep a sample of the cut positions
            let step = cuts.len() / 24 + 1;
            cuts = cuts.into_iter().step_by(step).collect();
        }
        let pieces = gen::split_at_cuts(&req, &cuts);
        let n = pieces.len();
        for (k, p) in pieces.into_iter().enumerate() {
            // the last piece carries the marker that the request is complete
            self.plans[i].outq.push_back((p, k + 1 == n));
        }
    }

    pub fn send_next(&mut self, rec: &mut Rec, rng: &mut Rng, i: usize) {
        if self.w.clients[i].sock.is_none() || self.w.clients[i].wr_shut {
            // nothing can be sent any more: drop what was planned so that callers' send loops end
            self.plans[i].outq.clear();
            return;
        }
        if self.plans[i].outq.is_empty() {
            self.plan_request(rng, i);
        }
        // send 1..3 pieces at once (pipelining)
        let k = rng.range(1, 3);
        let mut bytes = vec![];
        let mut completed = 0;
        for _ in 0..k {
            if let Some((p, last)) = self.plans[i].outq.pop_front() {
                if last {
                    completed += 1;
                }
                bytes.extend_from_slice(&p);
            }
        }
        if bytes.is_empty() && completed == 0 {
            return;
        }
        let ok = self.w.send(rec, i, &bytes);
        if ok {
            for _ in 0..completed {
                let j = self.plans[i].sent.len();
                self.plans[i].sent.push(tag(i, j));
            }
        } else {
            // the client could not send (socket full / peer gone): it no longer counts as well-behaved
            self.plans[i].sent_garbage = true;
            self.plans[i].outq.clear();
            self.w.clients[i].misbehaved = true;
        }
    }

    pub fn send_garbage(&mut self, rec: &mut Rec, rng: &mut Rng, i: usize) {
        if self.w.clients[i].sock.is_none() {
            return;
        }
        let g: Vec<u8> = match rng.below(8) {
            0 => b"BOGUS / HTTP/1.1\r\n\r\n".to_vec(),
            // a rejected header whose long, multi-byte text is quoted in the 400 (at varying byte offsets)
            5 => format!("GET /x HTTP/1.1\r\nContent-Length: {}{}\r\n\r\n", "a".repeat(rng.below(8)), "\u{e9}".repeat(rng.range(100, 420))).into_bytes(),
            6 => format!("GET /x HTTP/1.1\r\n{}{}\r\n\r\n", "x".repeat(rng.below(5)), "\u{20ac}".repeat(rng.range(60, 300))).into_bytes(),
            // a complete valid request and a malformed one in the same write: the valid one is discarded with the 400
            7 => b"GET /first HTTP/1.1\r\n\r\nBOGUS\r\n\r\n".to_vec(),
            1 => b"GET /x HTTP/1.1\r\nContent-Length: abc\r\n\r\n".to_vec(),
            2 => b"PUT /big HTTP/1.1\r\nContent-Length: 99999999\r\n\r\n".to_vec(),
            3 => {
                let n = rng.range(1, 60);
                gen::soup(rng, n)
            }
            _ => format!("GET /{} HTTP/1.1\r\n", "x".repeat(1100)).into_bytes(),
        };
        self.plans[i].sent_garbage = true;
        self.plans[i].outq.clear();
        self.w.clients[i].misbehaved = true;
        self.w.send(rec, i, &g);
    }

    pub fn poll(&mut self, rec: &mut Rec) -> bool {
        let before_held = self.w.held.len();
        let killed = self.w.killed;
        let polled = self.w.poll(rec);
        if polled {
            let last = rec_last_out(&self.w);
            let _ = last;
            if killed {
                // the op's result is in the log; evaluated by the caller through `last_poll_shutdown`
            }
            let _ = before_held;
        }
        polled
    }

    /// answer held request `k` with a body naming the request
    pub fn respond(&mut self, rec: &mut Rec, rng: &mut Rng, k: usize) {
        if k >= self.w.held.len() {
            return;
        }
        let t = self.w.held[k].tag.clone();
        let client = self.w.held[k].client;
        let pad = if self.cfg.big && rng.chance(1, 6) { rng.range(100_000, 400_000) } else { *rng.pick(&[0usize, 0, 3, 50, 2000]) };
        let mut body = format!("{}:", t).into_bytes();
        body.extend(std::iter::repeat(b'.').take(pad));
        let mut ops = vec![BOp::Body(body)];
        // (a fifth of the answers carry the application's own Server identity: it belongs to that response only)
        if rng.chance(1, 5) {
            ops.push(BOp::Server(b"app-identity/2".to_vec()));
        }
        let spec = RespSpec { v11: rng.chance(1, 2), code: 200, ops };
        if let Some(i) = client {
            if i < self.plans.len() {
                self.plans[i].answered.push(t);
            }
        }
        self.w.respond(rec, k, &spec);
    }

    /// answer held request `k` with a body padded to `pad` bytes
    pub fn respond_sized(&mut self, rec: &mut Rec, k: usize, pad: usize) {
        if k >= self.w.held.len() {
            return;
        }
        let t = self.w.held[k].tag.clone();
        let client = self.w.held[k].client;
        let mut body = format!("{}:", t).into_bytes();
        body.extend(std::iter::repeat(b'.').take(pad));
        let spec = RespSpec { v11: true, code: 200, ops: vec![BOp::Body(body)] };
        if let Some(i) = client {
            if i < self.plans.len() {
                self.plans[i].answered.push(t);
            }
        }
        self.w.respond(rec, k, &spec);
    }

    pub fn step(&mut self, rec: &mut Rec, rng: &mut Rng) {
        let n = self.w.clients.len();
        let live: Vec<usize> = (0..n).filter(|&i| self.w.clients[i].sock.is_some()).collect();
        let c = &self.cfg;
        let r = rng.below(1000);
        let mut acc = 0;
        // a weight of zero never fires (also not when an earlier branch was drawn but its side condition failed)
        let mut pick = |w: usize| {
            let lo = acc;
            acc += w;
            w > 0 && lo <= r && r < acc
        };
        if pick(c.w_kill) && c.with_kill && !self.w.killed {
            self.w.signal_kill(rec);
        } else if pick(c.w_close) && !live.is_empty() {
            let i = *rng.pick(&live);
            if !(c.witness && i == 0) {
                self.w.close(rec, i);
            }
        } else if pick(c.w_shut) && !live.is_empty() {
            let i = *rng.pick(&live);
            if !(c.witness && i == 0) {
                let how = *rng.pick(&[Shutdown::Read, Shutdown::Write, Shutdown::Both]);
                self.w.shutdown(rec, i, how);
            }
        } else if pick(c.w_garbage) && !live.is_empty() {
            let i = *rng.pick(&live);
            if !(c.witness && i == 0) {
                self.send_garbage(rec, rng, i);
            }
        } else if pick(c.w_flush) {
            self.w.flush(rec);
        } else if pick(c.w_fault) && !live.is_empty() {
            self.fault_step(rec, rng);
        } else if pick(c.w_limit) {
            let l = *rng.pick(&[0usize, 10, 120, 2000, 51200]);
            self.w.set_limit(rec, l);
        } else {
            match rng.below(100) {
                0..=9 => {
                    if live.len() < c.max_clients && (n < c.max_clients || c.reconnect) && n < 40 {
                        self.connect(rec);
                    }
                }
                10..=39 => {
                    if !live.is_empty() {
                        let i = *rng.pick(&live);
                        // a client that sent garbage may go on with well-formed requests (it no longer counts as
                        // well-behaved, but the model must still agree on what is yielded and answered)
                        if !self.plans[i].sent_garbage || rng.chance(1, 3) {
                            self.send_next(rec, rng, i);
                        }
                    }
                }
                40..=69 => {
                    self.poll(rec);
                }
                70..=81 => {
                    if !self.w.held.is_empty() {
                        let k = rng.below(self.w.held.len());
                        self.respond(rec, rng, k);
                    }
                }
                82..=84 => {
                    // several answers at once through `enqueue_responses`
                    if self.w.held.len() >= 2 {
                        let n = rng.range(2, self.w.held.len().min(4));
                        let ks: Vec<usize> = (0..n).collect();
                        let mut bodies = vec![];
                        for k in &ks {
                            let t = self.w.held[*k].tag.clone();
                            if let Some(i) = self.w.held[*k].client {
                                if i < self.plans.len() {
                                    self.plans[i].answered.push(t.clone());
                                }
                            }
                            bodies.push(format!("{}:", t).into_bytes());
                        }
                        self.w.respond_many(rec, ks, bodies);
                    } else if !self.w.held.is_empty() {
                        self.respond(rec, rng, 0);
                    }
                }
                _ => {
                    if !live.is_empty() {
                        let i = *rng.pick(&live);
                        if self.plans[i].reads {
                            self.w.client_read(rec, i);
                        }
                    }
                }
            }
        }
    }

    /// One injected fault (inject.rs): the server's next `recv` on a connection that reports plain `IN` ends the
    /// stream or fails with an errno, or its next `write` returns zero / an errno / a short count — then a poll.
    pub fn fault_step(&mut self, rec: &mut Rec, rng: &mut Rng) {
        let witness = self.cfg.witness;
        let cands: Vec<usize> = (0..self.w.clients.len())
            .filter(|&i| {
                let c = &self.w.clients[i];
                c.sock.is_some() && c.accepted && !c.srv_closed && c.srv_fd.map(|fd| self.w.by_fd.get(&fd) == Some(&i)).unwrap_or(false)
            })
            .collect();
        if cands.is_empty() {
            return;
        }
        // a write fault needs pending output: prefer clients the application can answer right now
        let answerable: Vec<usize> = cands.iter().cloned().filter(|&i| self.w.held.iter().any(|h| h.client == Some(i))).collect();
        let want_write = rng.chance(1, 2) && !answerable.is_empty();
        let i = if want_write { *rng.pick(&answerable) } else { *rng.pick(&cands) };
        let is_witness = witness && i == 0;
        if !want_write && is_witness {
            return;
        }
        if !want_write {
            // read side: make sure the server has something to read from this client
            if !self.plans[i].sent_garbage && !self.w.clients[i].wr_shut {
                self.send_next(rec, rng, i);
            } else {
                self.w.send(rec, i, b"x");
            }
            let f = match rng.below(6) {
                0 | 1 => RecvFault::Eof,
                2 => RecvFault::Errno(libc::EAGAIN),
                3 => RecvFault::Errno(libc::EINTR),
                4 => RecvFault::Errno(libc::ECONNRESET),
                _ => RecvFault::Errno(libc::ENOMEM),
            };
            self.w.arm_recv_fault(rec, i, f);
            rec.count(&format!("fault:recv:{:?}", f));
        } else {
            // write side: the server needs pending output for this client
            if let Some(k) = self.w.held.iter().position(|h| h.client == Some(i)) {
                self.respond(rec, rng, k);
            }
            let f = if is_witness {
                // faults a correct server rides out: the witness must still be served in full
                match rng.below(3) {
                    0 => WriteFault::Errno(libc::EINTR),
                    1 => WriteFault::Short(1),
                    _ => WriteFault::Short(rng.range(2, 60)),
                }
            } else {
                match rng.below(7) {
                    0 => WriteFault::Zero,
                    1 => WriteFault::Errno(libc::EINTR),
                    2 => WriteFault::Errno(libc::EAGAIN),
                    3 => WriteFault::Errno(libc::EPIPE),
                    4 => WriteFault::Short(1),
                    5 => WriteFault::Short(rng.range(2, 60)),
                    _ => WriteFault::Errno(libc::ECONNRESET),
                }
            };
            self.w.arm_write_fault(rec, i, f);
            rec.count(&format!("fault:write:{}", match f { WriteFault::Zero => "zero".to_string(), WriteFault::Errno(e) => format!("errno{}", e), WriteFault::Short(_) => "short".to_string() }));
        }
        self.poll(rec);
    }

    /// bring the history to quiescence: poll while ready, answer everything, let clients read
    pub fn settle(&mut self, rec: &mut Rec, rng: &mut Rng) {
        let mut idle_rounds = 0;
        // (one response is written per poll and connection: the cap must exceed the longest backlog a scenario builds — 1 200)
        for _round in 0..4000 {
            let mut progressed = false;
            while !self.w.held.is_empty() {
                self.respond(rec, rng, 0);
                progressed = true;
            }
            for i in 0..self.w.clients.len() {
                if self.w.clients[i].sock.is_some() && self.plans[i].reads && self.w.client_read(rec, i) > 0 {
                    progressed = true;
                }
            }
            if self.w.killed {
                break;
            }
            if self.poll(rec) {
                progressed = true;
            }
            if !progressed {
                idle_rounds += 1;
                if idle_rounds >= 2 {
                    break;
                }
            } else {
                idle_rounds = 0;
            }
        }
    }
}

fn rec_last_out(_w: &World) -> Option<String> {
    None
}

/// C07 oracle for one client at the end of a history.
fn check_client_stream(rec: &mut Rec, sim: &Sim, i: usize, prop: &str) {
    let c = &sim.w.clients[i];
    let p = &sim.plans[i];
    let (resps, leftover) = split_responses(&c.received);
    if c.refused {
        // whatever else went wrong with a client the harness saw refused: an application response addressed to ANOTHER
        // client must never reach it (the server may have admitted it after all, on a descriptor number it took away
        // from a connection that still had requests in flight)
        for (code, body) in &resps {
            if *code == 200 {
                let t = String::from_utf8_lossy(body).split(':').next().unwrap_or("").to_string();
                if !t.starts_with(&format!("/c{}/", i)) {
                    rec.oracle_fail("C07", &format!("client {} (turned away at capacity as far as the harness could see) received the response to {}", i, t), &sim.w.log);
                }
            }
        }
        // a refused client that left before the server got to it cannot have read anything
        if c.received != SERVER_FULL && !(c.closed && c.received.is_empty()) {
            rec.oracle_fail("C10", &format!("refused client {} received {} instead of the 503 message", i, hx(&c.received)), &sim.w.log);
        }
        return;
    }
    let mine = format!("/c{}/", i);
    let mut got_tags: Vec<String> = vec![];
    for (code, body) in &resps {
        match code {
            100 | 400 | 500 => {
                if *code == 400 && !p.sent_garbage {
                    rec.oracle_fail(prop, &format!("client {} received a 400 without having sent anything malformed", i), &sim.w.log);
                }
                if *code == 500 && !c.recv_err_injected {
                    rec.oracle_fail("C07", &format!("client {} received a 500 although no read on its connection ever failed", i), &sim.w.log);
                    if prop == "C08" && !c.misbehaved && !p.sent_garbage {
                        // C08: a well-behaved client is answered with what the application supplied — not with an error
                        // response nobody supplied (the poll in effect failed on a healthy connection)
                        rec.oracle_fail("C08", &format!("well-behaved client {} received a 500 nobody supplied", i), &sim.w.log);
                    }
                }
            }
            200 => {
                let b = String::from_utf8_lossy(body).to_string();
                let t = b.split(':').next().unwrap_or("").to_string();
                if !t.starts_with(&mine) {
                    rec.oracle_fail("C07", &format!("client {} received the response to {}", i, t), &sim.w.log);
                }
                got_tags.push(t);
            }
            other => {
                rec.oracle_fail("C07", &format!("client {} received a response with status {}", i, other), &sim.w.log);
            }
        }
    }
    // own responses: in the order supplied, each at most once — i.e. a prefix-subsequence of `answered`
    let mut it = p.answered.iter();
    for t in &got_tags {
        if !it.any(|a| a == t) {
            rec.oracle_fail("C07", &format!("client {} received {:?} but the application supplied {:?}", i, got_tags, p.answered), &sim.w.log);
            break;
        }
    }
    if leftover > 0 && !c.misbehaved && c.sock.is_some() {
        rec.oracle_fail(prop, &format!("client {} holds {} bytes that are not a complete response", i, leftover), &sim.w.log);
    }
}

fn run_history(rec: &mut Rec, rng: &mut Rng, cfg: Cfg, descr: &str) -> Sim {
    rec.case(descr);
    let mut sim = Sim::new(rec, cfg.clone());
    for _ in 0..cfg.steps {
        sim.step(rec, rng);
        if sim.w.server.is_none() {
            break;
        }
    }
    sim
}

/// nobody is left waiting: once the epoll descriptor is silent every client that connected has been accepted or
/// refused (a client still sitting in the listener's backlog is neither served nor told to go away)
fn nobody_waiting(rec: &mut Rec, sim: &Sim, prop: &str) {
    if sim.w.server.is_some() && !sim.w.killed && sim.w.poll_errors.is_empty() && !sim.w.ready() {
        let waiting: Vec<usize> = sim.w.backlog.iter().cloned().filter(|&i| sim.w.clients[i].sock.is_some()).collect();
        if !waiting.is_empty() {
            rec.oracle_fail(prop, &format!("clients {:?} connected but were neither accepted nor refused although the epoll descriptor is silent", waiting), &sim.w.log);
        }
    }
}

fn common_checks(rec: &mut Rec, sim: &mut Sim, prop: &'static str) {
    // at the end of the history the kernel model must also predict the (usually empty) ready set
    sim.w.kern_probe(rec);
    for i in 0..sim.w.clients.len() {
        check_client_stream(rec, sim, i, prop);
    }
    if !sim.w.poll_errors.is_empty() {
        rec.oracle_fail(if prop == "C08" { "C08" } else { "C09" }, &format!("requests() failed: {:?}", sim.w.poll_errors), &sim.w.log);
    }
    if !sim.w.respond_errors.is_empty() {
        rec.oracle_fail("C08", &format!("respond() failed: {:?}", sim.w.respond_errors), &sim.w.log);
    }
    nobody_waiting(rec, sim, if prop == "C08" { "C08" } else { "C10" });
    if sim.w.spurious_shutdowns > 0 {
        rec.oracle_fail("C18", &format!("{} polls reported the shutdown indication although the kill switch was never signalled", sim.w.spurious_shutdowns), &sim.w.log);
    }
    rec.count(&format!("polls:{}", match sim.w.polls { 0 => "0", 1..=5 => "1-5", 6..=20 => "6-20", _ => ">20" }));
    rec.count(&format!("clients:{}", sim.w.clients.len().min(13)));
    if sim.w.n_refused > 0 {
        rec.count("refused");
    }
}

/// Poll while the epoll descriptor signals and let the clients read — WITHOUT supplying any further answer — then:
/// every response the application has already supplied to a well-behaved client has been received in full. (Settling
/// a history by answering everything would hide a response that only goes out once a later one is supplied.)
fn drain_and_check_supplied(rec: &mut Rec, sim: &mut Sim, prop: &'static str) {
    for _ in 0..200 {
        let mut progressed = false;
        for i in 0..sim.w.clients.len() {
            if sim.w.clients[i].sock.is_some() && sim.plans[i].reads && sim.w.client_read(rec, i) > 0 {
                progressed = true;
            }
        }
        if sim.w.killed || sim.w.server.is_none() {
            break;
        }
        if sim.poll(rec) {
            progressed = true;
        }
        if !progressed {
            break;
        }
    }
    for (i, p) in sim.plans.iter().enumerate() {
        let c = &sim.w.clients[i];
        if p.sent_garbage || c.misbehaved || c.refused || c.sock.is_none() || !p.reads {
            continue;
        }
        let (resps, leftover) = split_responses(&c.received);
        let got: Vec<String> = resps.iter().filter(|(c, _)| *c == 200).map(|(_, b)| String::from_utf8_lossy(b).split(':').next().unwrap_or("").to_string()).collect();
        if got != p.answered || leftover != 0 {
            rec.oracle_fail(prop, &format!("without any further answer being supplied, client {} has received {:?} (+{} stray bytes) of the supplied {:?}", i, got, leftover, p.answered), &sim.w.log);
        }
    }
}

/// every complete request of a well-behaved client was yielded exactly once, in order
fn check_yield_once(rec: &mut Rec, sim: &Sim) {
    for (i, p) in sim.plans.iter().enumerate() {
        if p.sent_garbage || sim.w.clients[i].misbehaved || sim.w.clients[i].refused {
            continue;
        }
        let mine = format!("/c{}/", i);
        let yielded: Vec<String> = sim.w.yielded.iter().filter(|(_, t)| t.starts_with(&mine)).map(|(_, t)| t.clone()).collect();
        if yielded != p.sent {
            rec.oracle_fail("C08", &format!("client {} sent {:?} but the application was yielded {:?}", i, p.sent, yielded), &sim.w.log);
        }
        // every response supplied was received in full
        let (resps, leftover) = split_responses(&sim.w.clients[i].received);
        let got: Vec<String> = resps.iter().filter(|(c, _)| *c == 200).map(|(_, b)| String::from_utf8_lossy(b).split(':').next().unwrap_or("").to_string()).collect();
        if got != p.answered || leftover != 0 {
            rec.oracle_fail("C08", &format!("client {} was supplied {:?} but received {:?} (+{} stray bytes)", i, p.answered, got, leftover), &sim.w.log);
        }
    }
}

/// aimed (seed-independent): a client has several requests yielded, `answered_before` of them are answered but the
/// answers are still unflushed when it closes; the hang-up discards them. The connection must be held until the REST is
/// answered too — a newcomer that reuses the descriptor number must never receive those late answers.
pub fn c07_unflushed_answers_at_hangup(rec: &mut Rec, rng: &mut Rng, answered_before: usize, leave: usize, flush: bool) {
    rec.case(if flush { "routing-flush-at-hangup" } else { "routing-unflushed-at-hangup" });
    rec.nontrivial();
    let mut cfg = Cfg::base("C07");
    cfg.max_clients = 4;
    cfg.reconnect = true;
    let mut sim = Sim::new(rec, cfg);
    let a = sim.connect(rec);
    let _b = sim.connect(rec);
    sim.poll(rec);
    sim.poll(rec);
    for _ in 0..2 {
        sim.plan_request(rng, a);
    }
    sim.send_next(rec, rng, a);
    while !sim.plans[a].outq.is_empty() {
        sim.send_next(rec, rng, a);
    }
    for _ in 0..4 {
        sim.poll(rec);
    }
    for _ in 0..answered_before {
        if let Some(idx) = sim.w.held.iter().position(|h| h.tag.starts_with(&format!("/c{}/", a))) {
            sim.respond(rec, rng, idx);
        }
    }
    match leave {
        0 => sim.w.close(rec, a),
        2 => sim.w.shutdown(rec, a, Shutdown::Read),
        3 => sim.w.shutdown(rec, a, Shutdown::Write),
        _ => sim.w.shutdown(rec, a, Shutdown::Both),
    }
    // whatever number the server may (wrongly) free now goes to the server's next accept, not to a client socket
    sim.w.force_reserve = true;
    if flush {
        // the application flushes before the server has seen the hang-up: the write fails INSIDE the flush — the
        // connection is dead, but it still has requests in flight and must be kept until they are answered
        sim.w.flush(rec);
    }
    sim.poll(rec);
    sim.poll(rec);
    if leave == 1 {
        sim.w.close(rec, a);
        sim.poll(rec);
    }
    if leave == 2 {
        // only the read side is shut: the write of the supplied answer fails (no hang-up event ever comes); a few more
        // polls, during which nothing may be forgotten about the requests still in flight
        for _ in 0..3 {
            sim.poll(rec);
        }
    }
    let j = sim.connect(rec);
    sim.poll(rec);
    sim.send_next(rec, rng, j);
    while !sim.plans[j].outq.is_empty() {
        sim.send_next(rec, rng, j);
    }
    sim.poll(rec);
    sim.poll(rec);
    // in every other instance the NEWCOMER's request is answered first, the departed client's old ones afterwards: which
    // connection an answer belongs to is decided by the request it answers, never by counting
    if (answered_before + leave) % 2 == 1 {
        while let Some(idx) = sim.w.held.iter().position(|h| h.client == Some(j)) {
            sim.respond(rec, rng, idx);
            sim.poll(rec);
        }
    }
    while let Some(idx) = sim.w.held.iter().position(|h| h.tag.starts_with(&format!("/c{}/", a))) {
        sim.respond(rec, rng, idx);
        sim.poll(rec);
    }
    for _ in 0..3 {
        sim.poll(rec);
    }
    sim.w.client_read(rec, j);
    sim.settle(rec, rng);
    common_checks(rec, &mut sim, "C07");
    check_yield_once(rec, &sim);
    sim.w.teardown();
}

/// aimed (seed-independent): the kill switch fires while client A has `n_req` requests yielded and unanswered; the
/// application sees the shutdown indication, resets the switch through its own handle and carries on. A then goes away
/// and a newcomer reuses the descriptor number; the application answers A's old requests late. A shutdown report says
/// nothing about requests that were handed out BEFORE it: A's connection is still owed those answers and is held, the
/// newcomer never receives them.
pub fn c07_late_answers_after_a_survived_shutdown(rec: &mut Rec, rng: &mut Rng, n_req: usize, polls_in_shutdown: usize) {
    rec.case("routing-after-survived-shutdown");
    rec.nontrivial();
    let mut cfg = Cfg::base("C07");
    cfg.max_clients = 4;
    cfg.reconnect = true;
    cfg.with_kill = true;
    let mut sim = Sim::new(rec, cfg);
    let a = sim.connect(rec);
    let _b = sim.connect(rec);
    sim.poll(rec);
    sim.poll(rec);
    for _ in 0..n_req {
        sim.plan_request(rng, a);
    }
    sim.send_next(rec, rng, a);
    while !sim.plans[a].outq.is_empty() {
        sim.send_next(rec, rng, a);
    }
    for _ in 0..4 {
        sim.poll(rec);
    }
    sim.w.signal_kill(rec);
    for _ in 0..polls_in_shutdown {
        sim.w.poll(rec);
    }
    sim.w.clear_kill(rec);
    sim.poll(rec);
    sim.w.close(rec, a);
    sim.w.force_reserve = true;
    sim.poll(rec);
    sim.poll(rec);
    let j = sim.connect(rec);
    sim.poll(rec);
    sim.send_next(rec, rng, j);
    while !sim.plans[j].outq.is_empty() {
        sim.send_next(rec, rng, j);
    }
    sim.poll(rec);
    sim.poll(rec);
    while let Some(idx) = sim.w.held.iter().position(|h| h.tag.starts_with(&format!("/c{}/", a))) {
        sim.respond(rec, rng, idx);
        sim.poll(rec);
    }
    while let Some(idx) = sim.w.held.iter().position(|h| h.client == Some(j)) {
        sim.respond(rec, rng, idx);
        sim.poll(rec);
    }
    for _ in 0..3 {
        sim.poll(rec);
    }
    sim.w.client_read(rec, j);
    sim.settle(rec, rng);
    common_checks(rec, &mut sim, "C07");
    check_yield_once(rec, &sim);
    sim.w.teardown();
}

/// aimed (seed-independent): SEVERAL connections finish between the same two polls (their clients close) while another
/// client — accepted later, on a recycled descriptor number — has a request in flight; then a newcomer arrives and the
/// application answers late. Releasing the finished connections releases exactly those: the client with the request in
/// flight keeps its connection and receives its answer, the newcomer receives only its own.
pub fn c07_several_leave_between_two_polls(rec: &mut Rec, rng: &mut Rng, n_first: usize, leavers: usize, v_requests: usize) {
    rec.case("routing-several-leave-in-one-poll");
    rec.nontrivial();
    let mut cfg = Cfg::base("C07");
    cfg.max_clients = 9;
    cfg.reconnect = true;
    let mut sim = Sim::new(rec, cfg);
    let firsts: Vec<usize> = (0..n_first).map(|_| { let c = sim.connect(rec); sim.poll(rec); c }).collect();
    // the first one leaves; its descriptor number is recycled by V
    sim.w.close(rec, firsts[0]);
    sim.w.force_reserve = true;
    sim.poll(rec);
    sim.poll(rec);
    let v = sim.connect(rec);
    sim.poll(rec);
    for _ in 0..v_requests {
        sim.plan_request(rng, v);
    }
    sim.send_next(rec, rng, v);
    while !sim.plans[v].outq.is_empty() {
        sim.send_next(rec, rng, v);
    }
    for _ in 0..4 {
        sim.poll(rec);
    }
    // several of the others leave between the same two polls
    for &c in firsts.iter().skip(1).take(leavers) {
        sim.w.close(rec, c);
    }
    sim.w.force_reserve = true;
    sim.poll(rec);
    sim.poll(rec);
    let w = sim.connect(rec);
    sim.poll(rec);
    sim.send_next(rec, rng, w);
    while !sim.plans[w].outq.is_empty() {
        sim.send_next(rec, rng, w);
    }
    sim.poll(rec);
    sim.poll(rec);
    while let Some(idx) = sim.w.held.iter().position(|h| h.client == Some(v)) {
        sim.respond(rec, rng, idx);
        sim.poll(rec);
    }
    while let Some(idx) = sim.w.held.iter().position(|h| h.client == Some(w)) {
        sim.respond(rec, rng, idx);
        sim.poll(rec);
    }
    for _ in 0..3 {
        sim.poll(rec);
    }
    sim.w.client_read(rec, w);
    sim.w.client_read(rec, v);
    let (resps, _) = split_responses(&sim.w.clients[v].received);
    let got = resps.iter().filter(|(c, _)| *c == 200).count();
    if got != sim.plans[v].answered.len() {
        rec.oracle_fail("C07", &format!("{} connections were released in one poll; the client whose {} requests were in flight meanwhile (it never left) received {} of the {} answers supplied for it", leavers, v_requests, got, sim.plans[v].answered.len()), &sim.w.log);
    }
    sim.settle(rec, rng);
    common_checks(rec, &mut sim, "C07");
    check_yield_once(rec, &sim);
    sim.w.teardown();
}

/// aimed (seed-independent): a large answer to A is only partly written (A is not reading yet) when answers to B and C
/// are supplied and written; then A drains. Every byte each client receives belongs to ITS answer — nothing about a
/// half-written response may live anywhere but in its own connection
pub fn c07_partial_write_while_others_are_answered(rec: &mut Rec, rng: &mut Rng, big: usize) {
    rec.case("routing-partial-write-interleaved");
    rec.nontrivial();
    let mut cfg = Cfg::base("C07");
    cfg.max_clients = 4;
    let mut sim = Sim::new(rec, cfg);
    let a = sim.connect(rec);
    let b = sim.connect(rec);
    let c = sim.connect(rec);
    for _ in 0..3 {
        sim.poll(rec);
    }
    for i in [a, b, c] {
        sim.send_next(rec, rng, i);
        while !sim.plans[i].outq.is_empty() {
            sim.send_next(rec, rng, i);
        }
    }
    for _ in 0..4 {
        sim.poll(rec);
    }
    // A's answer: far larger than the socket buffer, body made of a byte no other answer contains
    if let Some(k) = sim.w.held.iter().position(|h| h.client == Some(a)) {
        let t = sim.w.held[k].tag.clone();
        let mut body = format!("{}:", t).into_bytes();
        body.extend(std::iter::repeat(b'A').take(big));
        sim.plans[a].answered.push(t);
        sim.w.respond(rec, k, &RespSpec { v11: true, code: 200, ops: vec![BOp::Body(body)] });
    }
    sim.poll(rec);
    // B and C are answered (and read) while A's answer is stuck half-way
    for i in [b, c] {
        while let Some(k) = sim.w.held.iter().position(|h| h.client == Some(i)) {
            let t = sim.w.held[k].tag.clone();
            let mut body = format!("{}:", t).into_bytes();
            body.extend(std::iter::repeat(b'b').take(300 + 7 * i));
            sim.plans[i].answered.push(t);
            sim.w.respond(rec, k, &RespSpec { v11: true, code: 200, ops: vec![BOp::Body(body)] });
            sim.poll(rec);
        }
        sim.w.client_read(rec, i);
    }
    // now A drains
    for _ in 0..(big / 60_000 + 6) {
        sim.w.client_read(rec, a);
        sim.poll(rec);
    }
    sim.w.client_read(rec, a);
    let (resps, leftover) = split_responses(&sim.w.clients[a].received);
    // (interim 100 Continue responses may precede it if A's request asked for them)
    let finals: Vec<&(u16, Vec<u8>)> = resps.iter().filter(|r| r.0 != 100).collect();
    let clean = finals.len() == 1 && finals[0].0 == 200 && leftover == 0 && finals[0].1.iter().skip_while(|x| **x != b':').skip(1).all(|x| *x == b'A');
    if !clean {
        rec.oracle_fail("C07", &format!("client A received {} responses (+{} stray bytes); its large answer must arrive intact although other clients were answered while it was half-written", resps.len(), leftover), &sim.w.log);
    }
    sim.settle(rec, rng);
    common_checks(rec, &mut sim, "C07");
    sim.w.teardown();
}

pub fn c07(rec: &mut Rec, rng: &mut Rng, thorough: bool) {
    for big in [300_000usize, 900_000] {
        c07_partial_write_while_others_are_answered(rec, rng, big);
    }
    for (n_first, leavers) in [(3usize, 2usize), (4, 2), (4, 3), (6, 4)] {
        for v_requests in 1..=2 {
            c07_several_leave_between_two_polls(rec, rng, n_first, leavers, v_requests);
        }
    }
    for n_req in 1..=3 {
        for polls in 1..=2 {
            c07_late_answers_after_a_survived_shutdown(rec, rng, n_req, polls);
        }
    }
    for answered_before in 0..=2 {
        for leave in 0..4 {
            c07_unflushed_answers_at_hangup(rec, rng, answered_before, leave, false);
            if answered_before > 0 {
                c07_unflushed_answers_at_hangup(rec, rng, answered_before, leave, true);
            }
        }
    }
    let n = if thorough { 4000 } else { 160 };
    for k in 0..n {
        let mut cfg = Cfg::base("C07");
        cfg.steps = rng.range(20, 70);
        cfg.w_close = 60;
        cfg.w_shut = 15;
        cfg.w_garbage = if k % 3 == 0 { 20 } else { 0 };
        cfg.reconnect = true;
        cfg.max_clients = rng.range(2, 4);
        // responses larger than the socket buffer: partial writes, clients that read late
        cfg.big = k % 4 == 1;
        let mut sim = run_history(rec, rng, cfg, "routing");
        // aimed: a client with requests in flight goes away (plainly, after garbage, after a shutdown),
        // a new one connects (descriptor reuse), the application answers late
        if k % 2 == 0 && sim.w.server.is_some() {
            let live: Vec<usize> = (0..sim.w.clients.len()).filter(|&i| sim.w.clients[i].sock.is_some() && sim.w.clients[i].accepted && !sim.plans[i].sent_garbage).collect();
            if let Some(&i) = live.first() {
                sim.send_next(rec, rng, i);
                while !sim.plans[i].outq.is_empty() {
                    sim.send_next(rec, rng, i);
                }
                for _ in 0..3 {
                    sim.poll(rec);
                }
                match (k / 2) % 4 {
                    1 => {
                        sim.send_garbage(rec, rng, i);
                        sim.poll(rec);
                        sim.poll(rec);
                        sim.w.client_read(rec, i);
                    }
                    2 => sim.w.shutdown(rec, i, Shutdown::Write),
                    3 => {
                        sim.send_garbage(rec, rng, i);
                    }
                    _ => {}
                }
                // several requests of the departing client in flight, so that its answers can come one at a time
                if k % 8 == 4 {
                    for _ in 0..2 {
                        sim.plan_request(rng, i);
                        sim.send_next(rec, rng, i);
                        while !sim.plans[i].outq.is_empty() {
                            sim.send_next(rec, rng, i);
                        }
                    }
                    for _ in 0..4 {
                        sim.poll(rec);
                    }
                }
                sim.w.close(rec, i);
                sim.poll(rec);
                sim.poll(rec);
                if k % 8 == 4 {
                    // ONE late answer, a poll, and only then the newcomer: the connection must still be held for the rest
                    if let Some(idx) = sim.w.held.iter().position(|h| h.tag.starts_with(&format!("/c{}/", i))) {
                        sim.respond(rec, rng, idx);
                    }
                    sim.poll(rec);
                    sim.poll(rec);
                }
                let j = sim.connect(rec);
                sim.poll(rec);
                sim.send_next(rec, rng, j);
                sim.poll(rec);
                // the late answers to the departed client's requests
                while let Some(idx) = sim.w.held.iter().position(|h| h.tag.starts_with(&format!("/c{}/", i))) {
                    sim.respond(rec, rng, idx);
                }
                for _ in 0..3 {
                    sim.poll(rec);
                }
                sim.w.client_read(rec, j);
                rec.nontrivial();
            }
        }
        sim.settle(rec, rng);
        common_checks(rec, &mut sim, "C07");
        if sim.w.yielded.len() > 1 {
            rec.nontrivial();
        }
        sim.w.teardown();
    }
}

/// two servers one after the other on this thread: the first is dropped right after respond + flush (its connection is
/// still registered for OUT), the second accepts a client on the same descriptor number — which must be served like
/// any other (nothing about a descriptor number may be remembered outside the server that owned it)
pub fn c08_server_dropped_after_flush(rec: &mut Rec, rng: &mut Rng) {
    for round in 0..2 {
        rec.case("server-after-server");
        rec.nontrivial();
        let mut sim = Sim::new(rec, Cfg::base("C08"));
        let a = sim.connect(rec);
        sim.poll(rec);
        sim.send_next(rec, rng, a);
        while !sim.plans[a].outq.is_empty() {
            sim.send_next(rec, rng, a);
        }
        for _ in 0..3 {
            sim.poll(rec);
        }
        while !sim.w.held.is_empty() {
            sim.respond(rec, rng, 0);
        }
        if round == 0 {
            // dropped with the answer flushed but no poll since: the registration still says OUT
            sim.w.flush(rec);
            sim.w.client_read(rec, a);
        } else {
            drain_and_check_supplied(rec, &mut sim, "C08");
            sim.settle(rec, rng);
            common_checks(rec, &mut sim, "C08");
            check_yield_once(rec, &sim);
        }
        sim.w.teardown();
    }
}

/// input that ends EXACTLY where the connection's 1024-byte buffer fills (once, twice): the server must not conclude
/// anything from a read that came back full — the client is well-behaved and receives exactly the supplied answers
pub fn c08_input_fills_buffer_exactly(rec: &mut Rec, rng: &mut Rng, total: usize) {
    rec.case("input-fills-buffer-exactly");
    rec.nontrivial();
    let mut sim = Sim::new(rec, Cfg::base("C08"));
    let a = sim.connect(rec);
    sim.poll(rec);
    // requests of 256 bytes each: "GET /cA/rJ HTTP/1.1\r\nX-Pad: pp…p\r\n\r\n"
    let mut bytes = vec![];
    while bytes.len() < total {
        let j = sim.plans[a].next_req;
        sim.plans[a].next_req += 1;
        let t = tag(a, j);
        let fixed = format!("GET {} HTTP/1.1\r\nX-Pad: \r\n\r\n", t).len();
        let pad = 256 - fixed;
        bytes.extend_from_slice(format!("GET {} HTTP/1.1\r\nX-Pad: {}\r\n\r\n", t, "p".repeat(pad)).as_bytes());
        sim.plans[a].sent.push(t);
    }
    assert_eq!(bytes.len(), total);
    sim.w.send(rec, a, &bytes);
    for _ in 0..(total / 1024 + 3) {
        sim.poll(rec);
    }
    while !sim.w.held.is_empty() {
        sim.respond(rec, rng, 0);
    }
    drain_and_check_supplied(rec, &mut sim, "C08");
    sim.settle(rec, rng);
    common_checks(rec, &mut sim, "C08");
    check_yield_once(rec, &sim);
    sim.w.teardown();
}

/// a well-formed request that trickles in: its head and body arrive in `pieces` small writes with a poll after each
/// (a slow but perfectly well-behaved client) — it is yielded once, when complete, and answered
pub fn c08_request_in_many_pieces(rec: &mut Rec, rng: &mut Rng, pieces: usize) {
    rec.case("request-in-many-pieces");
    rec.nontrivial();
    let mut sim = Sim::new(rec, Cfg::base("C08"));
    let a = sim.connect(rec);
    sim.poll(rec);
    let j = sim.plans[a].next_req;
    sim.plans[a].next_req += 1;
    let t = tag(a, j);
    let body_len = pieces * 2;
    let mut bytes = format!("PUT {} HTTP/1.1\r\nContent-Length: {}\r\n\r\n", t, body_len).into_bytes();
    bytes.extend_from_slice(&gen::body_bytes(rng, body_len));
    let step = (bytes.len() + pieces - 1) / pieces;
    let mut ok = true;
    for ch in bytes.chunks(step.max(1)) {
        ok &= sim.w.send(rec, a, ch);
        sim.poll(rec);
    }
    if ok {
        sim.plans[a].sent.push(t);
    }
    for _ in 0..3 {
        sim.poll(rec);
    }
    while !sim.w.held.is_empty() {
        sim.respond(rec, rng, 0);
    }
    drain_and_check_supplied(rec, &mut sim, "C08");
    sim.settle(rec, rng);
    common_checks(rec, &mut sim, "C08");
    check_yield_once(rec, &sim);
    sim.w.teardown();
}

pub fn c08(rec: &mut Rec, rng: &mut Rng, thorough: bool) {
    for pieces in [120usize, if thorough { 1500 } else { 260 }] {
        c08_request_in_many_pieces(rec, rng, pieces);
    }
    for total in [1024usize, 2048, 3072] {
        c08_input_fills_buffer_exactly(rec, rng, total);
    }
    c08_server_dropped_after_flush(rec, rng);
    c08_flush_large_answers_that_fit(rec, rng);
    c08_client_sends_before_it_is_accepted(rec, rng);
    let n = if thorough { 3000 } else { 140 };
    for k in 0..n {
        let mut cfg = Cfg::base("C08");
        cfg.steps = rng.range(20, 80);
        cfg.max_clients = rng.range(1, 4);
        // flush is only promised to deliver what fits the socket buffer (on a full socket the
        // non-blocking write fails and the connection is closed), so it is not mixed with huge responses
        cfg.w_flush = if k % 4 == 0 { 40 } else { 0 };
        cfg.big = k % 5 == 0 && k % 4 != 0;
        let mut sim = run_history(rec, rng, cfg, "well-behaved");
        if !sim.w.killed {
            drain_and_check_supplied(rec, &mut sim, "C08");
        }
        sim.settle(rec, rng);
        if k % 10 == 0 {
            // a signal interrupts the blocking wait: polling must still return normally (nothing to do)
            sim.w.poll_interrupted(rec);
        }
        common_checks(rec, &mut sim, "C08");
        check_yield_once(rec, &sim);
        // quiescence: no client input, unsent output or unanswered request remains ⇒ the epoll fd is silent
        if sim.w.server.is_some() && sim.w.backlog.is_empty() && sim.w.ready() {
            rec.oracle_fail("C08", "the epoll descriptor still signals readiness at quiescence (spin)", &sim.w.log);
        }
        if sim.w.yielded.len() > 0 {
            rec.nontrivial();
        }
        sim.w.teardown();
    }
    // flush delivers queued responses that fit the socket buffer without polling
    let n2 = if thorough { 600 } else { 40 };
    for _ in 0..n2 {
        rec.case("flush");
        rec.nontrivial();
        let cfg = Cfg::base("C08");
        let mut sim = Sim::new(rec, cfg);
        let k = rng.range(1, 3);
        for _ in 0..k {
            sim.connect(rec);
            sim.poll(rec);
        }
        for i in 0..k {
            // one to three pipelined requests per client: several responses are queued for one connection at the flush
            for _ in 0..rng.range(1, 3) {
                sim.plan_request(rng, i);
            }
            sim.send_next(rec, rng, i);
            while !sim.plans[i].outq.is_empty() {
                sim.send_next(rec, rng, i);
            }
        }
        for _ in 0..(4 * k + 4) {
            sim.poll(rec);
        }
        // answered per client in the order yielded (A1 and the in-order clause of C07), clients interleaved at random
        while !sim.w.held.is_empty() {
            let ci = sim.w.held[rng.below(sim.w.held.len())].client;
            let idx = sim.w.held.iter().position(|h| h.client == ci).unwrap();
            sim.respond(rec, rng, idx);
        }
        sim.w.flush(rec);
        for i in 0..k {
            sim.w.client_read(rec, i);
        }
        // everything supplied has arrived without a poll
        for i in 0..k {
            let (resps, leftover) = split_responses(&sim.w.clients[i].received);
            let got: Vec<String> = resps.iter().filter(|(c, _)| *c == 200).map(|(_, b)| String::from_utf8_lossy(b).split(':').next().unwrap_or("").to_string()).collect();
            if got != sim.plans[i].answered || leftover != 0 {
                rec.oracle_fail("C08", &format!("after flush client {} has {:?}, supplied {:?}", i, got, sim.plans[i].answered), &sim.w.log);
            }
        }
        // and the next polls do not fail (F4) and the server keeps serving
        for i in 0..k {
            sim.send_next(rec, rng, i);
        }
        sim.settle(rec, rng);
        common_checks(rec, &mut sim, "C08");
        check_yield_once(rec, &sim);
        if sim.w.server.is_some() && sim.w.ready() {
            rec.oracle_fail("C08", "the epoll descriptor still signals readiness at quiescence after flush", &sim.w.log);
        }
        sim.w.teardown();
    }
}

/// A client that SENDS BEFORE the poll that accepts it (connect and write in one go, as every ordinary HTTP client does):
/// a whole request with a body and `Expect: 100-continue`, a plain one, two pipelined ones. Whenever the server gets
/// round to reading those bytes, the request is yielded once, the interim response and the application's answer reach
/// the client after finitely many polls, and the epoll descriptor falls silent afterwards.
pub fn c08_client_sends_before_it_is_accepted(rec: &mut Rec, rng: &mut Rng) {
    for form in 0..5 {
        for others_first in [false, true] {
            rec.case("sends-before-accepted");
            rec.nontrivial();
            let mut sim = Sim::new(rec, Cfg::base("C08"));
            if others_first {
                let o = sim.connect(rec);
                sim.poll(rec);
                sim.send_next(rec, rng, o);
            }
            let c = sim.connect(rec);
            let mut bytes = vec![];
            let mut n = 0;
            let mut add = |bytes: &mut Vec<u8>, expect: bool, body: usize, v: &str| {
                let t = tag(c, n);
                n += 1;
                bytes.extend_from_slice(format!("PUT {} {}\r\n", t, v).as_bytes());
                if expect {
                    bytes.extend_from_slice(b"Expect: 100-continue\r\n");
                }
                if body > 0 {
                    bytes.extend_from_slice(format!("Content-Length: {}\r\n", body).as_bytes());
                }
                bytes.extend_from_slice(b"\r\n");
                bytes.extend(std::iter::repeat(b'b').take(body));
                t
            };
            let tags: Vec<String> = match form {
                0 => vec![add(&mut bytes, true, 5, "HTTP/1.1")],
                1 => vec![add(&mut bytes, false, 0, "HTTP/1.0")],
                2 => vec![add(&mut bytes, true, 300, "HTTP/1.0"), add(&mut bytes, false, 0, "HTTP/1.1")],
                3 => vec![add(&mut bytes, false, 7, "HTTP/1.1"), add(&mut bytes, true, 2, "HTTP/1.1")],
                _ => vec![add(&mut bytes, true, 1500, "HTTP/1.1")],
            };
            sim.w.send(rec, c, &bytes);
            for t in &tags {
                sim.plans[c].sent.push(t.clone());
            }
            sim.plans[c].next_req = tags.len();
            for _ in 0..6 {
                sim.poll(rec);
            }
            sim.settle(rec, rng);
            common_checks(rec, &mut sim, "C08");
            check_yield_once(rec, &sim);
            if sim.w.server.is_some() && sim.w.ready() {
                rec.oracle_fail("C08", "the epoll descriptor still signals readiness at quiescence (client that sent before it was accepted)", &sim.w.log);
            }
            sim.w.teardown();
        }
    }
}

/// "flushing outgoing writes delivers queued responses that fit the socket buffer without polling" — with responses
/// that are large but FIT: a first answer of a quarter to a half of the socket buffer and further answers behind it,
/// to one client that reads only after the flush (and, second form, has not yet read an earlier flushed answer).
pub fn c08_flush_large_answers_that_fit(rec: &mut Rec, rng: &mut Rng) {
    for (j, pads) in [vec![60_000usize, 10], vec![30_000, 30_000, 10], vec![100_000, 5, 5], vec![10, 70_000, 10], vec![54_000, 54_000]].into_iter().enumerate() {
        for earlier_unread in [false, true] {
            rec.case("flush-large-answers-that-fit");
            rec.nontrivial();
            let mut sim = Sim::new(rec, Cfg::base("C08"));
            let c = sim.connect(rec);
            sim.poll(rec);
            if earlier_unread {
                // an earlier round trip whose (large) answer the client has not read yet
                sim.plan_request(rng, c);
                while !sim.plans[c].outq.is_empty() {
                    sim.send_next(rec, rng, c);
                }
                for _ in 0..4 {
                    sim.poll(rec);
                }
                if !sim.w.held.is_empty() {
                    sim.respond_sized(rec, 0, 56_000);
                }
                sim.w.flush(rec);
            }
            for _ in 0..pads.len() {
                sim.plan_request(rng, c);
            }
            while !sim.plans[c].outq.is_empty() {
                sim.send_next(rec, rng, c);
            }
            for _ in 0..6 {
                sim.poll(rec);
            }
            let mut k = 0;
            while !sim.w.held.is_empty() && k < pads.len() {
                sim.respond_sized(rec, 0, if earlier_unread { pads[k] / 2 } else { pads[k] });
                k += 1;
            }
            sim.w.flush(rec);
            sim.w.client_read(rec, c);
            let (resps, leftover) = split_responses(&sim.w.clients[c].received);
            let got: Vec<String> = resps.iter().filter(|(code, _)| *code == 200).map(|(_, b)| String::from_utf8_lossy(&b[..b.len().min(64)]).split(':').next().unwrap_or("").to_string()).collect();
            if got != sim.plans[c].answered || leftover != 0 {
                rec.oracle_fail("C08", &format!("pattern {}: after flush (answers of {:?} bytes, together well inside the socket buffer{}) the client has {:?} (+{} bytes of a further one), supplied {:?}",
                    j, pads, if earlier_unread { ", an earlier flushed answer still unread" } else { "" }, got, leftover, sim.plans[c].answered), &sim.w.log);
            }
            sim.settle(rec, rng);
            common_checks(rec, &mut sim, "C08");
            sim.w.teardown();
        }
    }
}

/// the witness (client 0) keeps doing round trips while the others misbehave and are answered late
fn witness_rounds(rec: &mut Rec, rng: &mut Rng, sim: &mut Sim) {
    // some clients never read their responses
    // the witness keeps doing round trips
    if sim.w.clients.is_empty() {
        sim.connect(rec);
    }
    if sim.w.server.is_some() {
        for _ in 0..3 {
            sim.send_next(rec, rng, 0);
            while !sim.plans[0].outq.is_empty() {
                sim.send_next(rec, rng, 0);
            }
            for _ in 0..6 {
                sim.poll(rec);
                // answer only the witness's requests for now: the others are answered late
                if let Some(k) = sim.w.held.iter().position(|h| h.tag.starts_with("/c0/")) {
                    sim.respond(rec, rng, k);
                }
                sim.w.client_read(rec, 0);
            }
        }
        // keep polling (answering only the witness) until its requests are through, within a bound
        for _ in 0..40 {
            let mine = sim.w.yielded.iter().filter(|(_, t)| t.starts_with("/c0/")).count();
            let (resps, _) = split_responses(&sim.w.clients[0].received);
            let got = resps.iter().filter(|(c, _)| *c == 200).count();
            if mine == sim.plans[0].sent.len() && got == sim.plans[0].answered.len() && mine == got {
                break;
            }
            sim.poll(rec);
            while let Some(k) = sim.w.held.iter().position(|h| h.tag.starts_with("/c0/")) {
                sim.respond(rec, rng, k);
            }
            sim.w.client_read(rec, 0);
        }
        // the witness's round trips completed although others misbehave and are not yet answered
        let (resps, _) = split_responses(&sim.w.clients[0].received);
        let got = resps.iter().filter(|(c, _)| *c == 200).count();
        if sim.w.clients[0].accepted && got != sim.plans[0].answered.len() {
            rec.oracle_fail("C09", &format!("the witness client received {} of {} responses", got, sim.plans[0].answered.len()), &sim.w.log);
        }
        let mine: Vec<String> = sim.w.yielded.iter().filter(|(_, t)| t.starts_with("/c0/")).map(|(_, t)| t.clone()).collect();
        if sim.w.clients[0].accepted && mine != sim.plans[0].sent {
            rec.oracle_fail("C09", &format!("the witness sent {:?} but {:?} were yielded", sim.plans[0].sent, mine), &sim.w.log);
        }
        rec.nontrivial();
    }
}

/// A client that does not read is owed far more than the socket buffer holds (the connection waits for
/// writability, the socket is full, so no OUT event comes) and then shuts its socket down WITHOUT closing the
/// descriptor: the only thing epoll reports is a hang-up (HUP / RDHUP, no ERR, no IN, no OUT). The connection must
/// be closed and — everything being answered — released; the epoll descriptor must fall silent; others are served.
pub fn c09_halfclose_while_output_blocked(rec: &mut Rec, rng: &mut Rng, how: Shutdown) {
    rec.case("halfclose-while-output-blocked");
    rec.nontrivial();
    let mut cfg = Cfg::base("C09");
    cfg.big = true;
    let mut sim = Sim::new(rec, cfg);
    let a = sim.connect(rec);
    let b = sim.connect(rec);
    sim.poll(rec);
    sim.poll(rec);
    sim.send_next(rec, rng, a);
    while !sim.plans[a].outq.is_empty() {
        sim.send_next(rec, rng, a);
    }
    for _ in 0..6 {
        sim.poll(rec);
    }
    // a response far larger than the socket buffer; `a` never reads
    while !sim.w.held.is_empty() {
        let t = sim.w.held[0].tag.clone();
        let mut body = format!("{}:", t).into_bytes();
        body.extend(std::iter::repeat(b'.').take(rng.range(600_000, 900_000)));
        let spec = RespSpec { v11: true, code: 200, ops: vec![BOp::Body(body)] };
        sim.plans[a].answered.push(t);
        sim.w.respond(rec, 0, &spec);
    }
    for _ in 0..3 {
        sim.poll(rec);
    }
    sim.w.shutdown(rec, a, how);
    // the other client is served meanwhile
    sim.send_next(rec, rng, b);
    while !sim.plans[b].outq.is_empty() {
        sim.send_next(rec, rng, b);
    }
    for _ in 0..12 {
        sim.poll(rec);
        if let Some(k) = sim.w.held.iter().position(|h| h.client == Some(b)) {
            // a small answer (this scenario is about A's blocked output, not about B's)
            let t = sim.w.held[k].tag.clone();
            let spec = RespSpec { v11: true, code: 200, ops: vec![BOp::Body(format!("{}:", t).into_bytes())] };
            sim.plans[b].answered.push(t);
            sim.w.respond(rec, k, &spec);
        }
        sim.w.client_read(rec, b);
    }
    let (resps, _) = split_responses(&sim.w.clients[b].received);
    if resps.iter().filter(|(c, _)| *c == 200).count() != sim.plans[b].answered.len() || sim.plans[b].answered.is_empty() {
        rec.oracle_fail("C09", "a second client was not served while the first one's connection is hung up with output blocked", &sim.w.log);
    }
    sim.settle(rec, rng);
    common_checks(rec, &mut sim, "C09");
    release_check(rec, &mut sim, "C09");
    if sim.w.server.is_some() && sim.w.backlog.is_empty() && sim.w.ready() {
        rec.oracle_fail("C09", "the epoll descriptor signals forever after a client shut its socket down while output was blocked", &sim.w.log);
    }
    sim.w.teardown();
}

/// One client pipelines MANY small requests and the application answers none of them for a long time (however late
/// the application answers …): polling keeps returning normally, the other client is served, and once everything is
/// answered the responses arrive in order.
pub fn c09_many_in_flight(rec: &mut Rec, rng: &mut Rng, n_req: usize) {
    rec.case("many-unanswered-in-flight");
    rec.nontrivial();
    let mut sim = Sim::new(rec, Cfg::base("C09"));
    let a = sim.connect(rec);
    let b = sim.connect(rec);
    sim.poll(rec);
    sim.poll(rec);
    let mut sent = 0;
    while sent < n_req {
        let k = (n_req - sent).min(rng.range(20, 50));
        let mut bytes = vec![];
        for _ in 0..k {
            let j = sim.plans[a].next_req;
            sim.plans[a].next_req += 1;
            let t = tag(a, j);
            bytes.extend_from_slice(format!("GET {} HTTP/1.1\r\n\r\n", t).as_bytes());
            sim.plans[a].sent.push(t);
        }
        sim.w.send(rec, a, &bytes);
        sent += k;
        for _ in 0..3 {
            sim.poll(rec);
        }
    }
    for _ in 0..(n_req / 30 + 4) {
        sim.poll(rec);
    }
    // the other client does a round trip meanwhile
    sim.send_next(rec, rng, b);
    while !sim.plans[b].outq.is_empty() {
        sim.send_next(rec, rng, b);
    }
    for _ in 0..8 {
        sim.poll(rec);
        if let Some(k) = sim.w.held.iter().position(|h| h.client == Some(b)) {
            let t = sim.w.held[k].tag.clone();
            let spec = RespSpec { v11: true, code: 200, ops: vec![BOp::Body(format!("{}:", t).into_bytes())] };
            sim.plans[b].answered.push(t);
            sim.w.respond(rec, k, &spec);
        }
        sim.w.client_read(rec, b);
    }
    let (resps, _) = split_responses(&sim.w.clients[b].received);
    if resps.iter().filter(|(c, _)| *c == 200).count() != sim.plans[b].answered.len() || sim.plans[b].answered.is_empty() {
        rec.oracle_fail("C09", &format!("a second client was not served while {} requests of another client are unanswered", n_req), &sim.w.log);
    }
    // now the late answers, small ones, in order
    while let Some(k) = sim.w.held.iter().position(|h| h.client == Some(a)) {
        let t = sim.w.held[k].tag.clone();
        let spec = RespSpec { v11: true, code: 200, ops: vec![BOp::Body(format!("{}:", t).into_bytes())] };
        sim.plans[a].answered.push(t);
        sim.w.respond(rec, k, &spec);
    }
    sim.settle(rec, rng);
    common_checks(rec, &mut sim, "C09");
    check_yield_once(rec, &sim);
    sim.w.teardown();
}

/// two clients half-close with a request in flight each; the application answers BOTH between the same two polls
/// (one enqueue_responses call): the next poll releases both — "as soon as", not one per poll
pub fn c09_two_releasable_at_once(rec: &mut Rec, rng: &mut Rng, k_clients: usize) {
    rec.case("several-releasable-at-once");
    rec.nontrivial();
    let mut cfg = Cfg::base("C09");
    cfg.max_clients = 6;
    let mut sim = Sim::new(rec, cfg);
    let w = sim.connect(rec); // a witness that stays
    let mut gone = vec![];
    for _ in 0..k_clients {
        gone.push(sim.connect(rec));
    }
    for _ in 0..(k_clients + 2) {
        sim.poll(rec);
    }
    for &i in &gone {
        sim.send_next(rec, rng, i);
        while !sim.plans[i].outq.is_empty() {
            sim.send_next(rec, rng, i);
        }
    }
    for _ in 0..4 {
        sim.poll(rec);
    }
    for &i in &gone {
        sim.w.shutdown(rec, i, Shutdown::Write);
    }
    sim.poll(rec);
    sim.poll(rec);
    // all late answers in one call
    let ks: Vec<usize> = (0..sim.w.held.len()).collect();
    let mut bodies = vec![];
    for k in &ks {
        let t = sim.w.held[*k].tag.clone();
        if let Some(ci) = sim.w.held[*k].client {
            sim.plans[ci].answered.push(t.clone());
        }
        bodies.push(format!("{}:", t).into_bytes());
    }
    sim.w.respond_many(rec, ks, bodies);
    // ONE poll
    sim.poll(rec);
    let conns = sim.w.server_fds().len().saturating_sub(2);
    if conns != 1 {
        rec.oracle_fail("C09", &format!("{} clients half-closed with a request in flight each, all answered in one call: after the next poll the server holds {} connections, expected 1 (the witness)", k_clients, conns), &sim.w.log);
    }
    let _ = w;
    sim.settle(rec, rng);
    common_checks(rec, &mut sim, "C09");
    sim.w.teardown();
}

/// one batch: first the OUT event of a connection whose write FAILS, then the (repeated) hang-up of a connection that
/// was closed earlier with a request in flight and has been answered since the last poll. Both are released by that
/// poll, in whatever order the server looks at them — and the poll returns normally.
/// (Order in the batch: A's readable event preceded D's hang-up in the previous poll, and epoll keeps that order.)
pub fn c09_failed_write_before_stale_hangup(rec: &mut Rec, rng: &mut Rng) {
    rec.case("failed-write-before-stale-hangup");
    rec.nontrivial();
    let mut cfg = Cfg::base("C09");
    cfg.max_clients = 5;
    let mut sim = Sim::new(rec, cfg);
    let w = sim.connect(rec);
    let a = sim.connect(rec);
    let d = sim.connect(rec);
    for _ in 0..4 {
        sim.poll(rec);
    }
    // D has a request in flight
    sim.send_next(rec, rng, d);
    while !sim.plans[d].outq.is_empty() {
        sim.send_next(rec, rng, d);
    }
    for _ in 0..3 {
        sim.poll(rec);
    }
    // A sends, THEN D closes: one batch, A first
    sim.send_next(rec, rng, a);
    while !sim.plans[a].outq.is_empty() {
        sim.send_next(rec, rng, a);
    }
    sim.w.close(rec, d);
    sim.poll(rec);
    // A will not read any more; both are answered before the next poll
    sim.w.shutdown(rec, a, Shutdown::Read);
    while let Some(k) = sim.w.held.iter().position(|h| h.client == Some(a) || h.client == Some(d)) {
        sim.respond(rec, rng, k);
    }
    sim.poll(rec);
    sim.poll(rec);
    let conns = sim.w.server_fds().len().saturating_sub(2);
    if conns != 1 && sim.w.held.is_empty() {
        rec.oracle_fail("C09", &format!("a failed write and a stale hang-up in one batch, everything answered: the server holds {} connections, expected 1 (the witness)", conns), &sim.w.log);
    }
    // the witness is served
    sim.send_next(rec, rng, w);
    while !sim.plans[w].outq.is_empty() {
        sim.send_next(rec, rng, w);
    }
    for _ in 0..3 {
        sim.poll(rec);
    }
    sim.settle(rec, rng);
    common_checks(rec, &mut sim, "C09");
    sim.w.teardown();
}

/// a neighbour has a standing backlog of small pipelined requests (40 per read, several reads' worth) and became
/// readable first; the witness sends ONE request: it is yielded by the very next poll, and answered — however many
/// requests the neighbour contributes to each batch
pub fn c09_witness_next_to_a_backlog(rec: &mut Rec, rng: &mut Rng, n_req: usize) {
    rec.case("witness-next-to-a-backlog");
    rec.nontrivial();
    let mut sim = Sim::new(rec, Cfg::base("C09"));
    let a = sim.connect(rec);
    let w = sim.connect(rec);
    sim.poll(rec);
    sim.poll(rec);
    let mut bytes = vec![];
    for _ in 0..n_req {
        let j = sim.plans[a].next_req;
        sim.plans[a].next_req += 1;
        let t = tag(a, j);
        bytes.extend_from_slice(format!("GET {} HTTP/1.1\r\n\r\n", t).as_bytes());
        sim.plans[a].sent.push(t);
    }
    sim.w.send(rec, a, &bytes);
    // one poll: the neighbour is readable (and stays readable: its backlog is longer than one read)
    sim.poll(rec);
    let wt = {
        let j = sim.plans[w].next_req;
        sim.plans[w].next_req += 1;
        tag(w, j)
    };
    sim.w.send(rec, w, format!("GET {} HTTP/1.1\r\n\r\n", wt).as_bytes());
    sim.plans[w].sent.push(wt.clone());
    sim.poll(rec);
    if !sim.w.yielded.iter().any(|(_, t)| *t == wt) {
        rec.oracle_fail("C09", &format!("the witness's request was not yielded by the poll that followed it while a neighbour has {} pipelined requests waiting", n_req), &sim.w.log);
    }
    // the application answers the witness only; it is served while the neighbour's backlog is still being read
    if let Some(k) = sim.w.held.iter().position(|h| h.tag == wt) {
        sim.respond(rec, rng, k);
    }
    sim.poll(rec);
    sim.w.client_read(rec, w);
    let (resps, _) = split_responses(&sim.w.clients[w].received);
    if !resps.iter().any(|r| r.0 == 200) {
        rec.oracle_fail("C09", "the witness was not answered while a neighbour's backlog is being read", &sim.w.log);
    }
    sim.settle(rec, rng);
    common_checks(rec, &mut sim, "C09");
    check_yield_once(rec, &sim);
    sim.w.teardown();
}

pub fn c09(rec: &mut Rec, rng: &mut Rng, thorough: bool) {
    for n_req in [100usize, 400] {
        c09_witness_next_to_a_backlog(rec, rng, n_req);
    }
    for _ in 0..2 {
        c09_failed_write_before_stale_hangup(rec, rng);
    }
    for k in [2usize, 3] {
        c09_two_releasable_at_once(rec, rng, k);
    }
    regress_f2(rec, rng);
    for n_req in [70usize, 130, if thorough { 700 } else { 260 }] {
        c09_many_in_flight(rec, rng, n_req);
    }
    for how in [Shutdown::Both, Shutdown::Write, Shutdown::Read] {
        c09_halfclose_while_output_blocked(rec, rng, how);
    }
    let n = if thorough { 3000 } else { 140 };
    for _ in 0..n {
        let mut cfg = Cfg::base("C09");
        cfg.steps = rng.range(30, 90);
        cfg.w_close = 40;
        cfg.w_shut = 50;
        cfg.w_garbage = 50;
        cfg.witness = true;
        cfg.reconnect = true;
        cfg.max_clients = 4;
        cfg.big = rng.chance(1, 2); // clients that never read responses larger than the socket buffer
        cfg.w_limit = if rng.chance(1, 3) { 25 } else { 0 };
        // flush closes a connection whose socket is full (DESIGN §6), so it is mixed in only with small responses
        cfg.w_flush = if !cfg.big && rng.chance(1, 3) { 25 } else { 0 };
        let mut sim = run_history(rec, rng, cfg, "misbehaving");
        witness_rounds(rec, rng, &mut sim);
        sim.settle(rec, rng);
        common_checks(rec, &mut sim, "C09");
        // released: a connection whose client is gone and whose requests are all answered is not kept
        release_check(rec, &mut sim, "C09");
        sim.w.teardown();
    }
}

/// after settling (everything answered, polled until silent): the server holds exactly listener + epoll
/// (+ kill switch) + one descriptor per client it cannot know to be gone — i.e. clients that are open, or that
/// only shut down their READ side and were never written to since. Everything else (closed, shut down for
/// writing = hang-up seen by the server, shut down for reading and a write failed) must have been released.
fn release_check(rec: &mut Rec, sim: &mut Sim, prop: &str) {
    if sim.w.server.is_none() || sim.w.killed || !sim.w.held.is_empty() {
        return;
    }
    let expected = sim
        .w
        .clients
        .iter()
        .filter(|c| c.srv_fd.is_some() && !c.refused && c.sock.is_some() && !c.wr_shut && !(c.rd_shut && c.write_failed) && !c.srv_closed)
        .filter(|c| c.accepted)
        .count();
    let fds = sim.w.server_fds();
    let base = 2 + if sim.w.kill_fd.is_some() { 1 } else { 0 };
    let conns = fds.len().saturating_sub(base);
    if conns != expected {
        let detail: Vec<String> = sim
            .w
            .clients
            .iter()
            .enumerate()
            .filter(|(_, c)| c.srv_fd.is_some())
            .map(|(i, c)| format!("c{}:fd{:?}:open={}:rd_shut={}:wr_shut={}:write_failed={}:accepted={}", i, c.srv_fd, c.sock.is_some(), c.rd_shut, c.wr_shut, c.write_failed, c.accepted))
            .collect();
        rec.oracle_fail(prop, &format!("after everything was answered the server holds {} connection descriptors, expected {} ({})", conns, expected, detail.join(" ")), &sim.w.log);
    }
}

/// F2 (DESIGN.md §6): pipelined requests, first answered, client shuts down its read side.
pub fn regress_f2(rec: &mut Rec, rng: &mut Rng) {
    rec.case("regress-F2");
    rec.nontrivial();
    let mut sim = Sim::new(rec, Cfg::base("C09"));
    let a = sim.connect(rec);
    let b = sim.connect(rec);
    sim.poll(rec);
    sim.poll(rec);
    sim.w.send(rec, a, b"GET /c0/r0 HTTP/1.1\r\n\r\nGET /c0/r1 HTTP/1.1\r\n\r\n");
    sim.plans[a].sent = vec![tag(0, 0), tag(0, 1)];
    sim.plans[a].next_req = 2;
    sim.poll(rec);
    if !sim.w.held.is_empty() {
        sim.respond(rec, rng, 0);
    }
    sim.w.shutdown(rec, a, Shutdown::Read);
    for _ in 0..4 {
        sim.poll(rec);
    }
    // the second client is served meanwhile
    sim.send_next(rec, rng, b);
    while !sim.plans[b].outq.is_empty() {
        sim.send_next(rec, rng, b);
    }
    for _ in 0..4 {
        sim.poll(rec);
        if let Some(k) = sim.w.held.iter().position(|h| h.tag.starts_with("/c1/")) {
            sim.respond(rec, rng, k);
        }
    }
    sim.w.client_read(rec, b);
    let (resps, _) = split_responses(&sim.w.clients[b].received);
    if resps.iter().filter(|(c, _)| *c == 200).count() != sim.plans[b].answered.len() || sim.plans[b].answered.is_empty() {
        rec.oracle_fail("C09", "a second client was not served while the first one is closed with a request in flight", &sim.w.log);
    }
    sim.settle(rec, rng);
    common_checks(rec, &mut sim, "C09");
    // the client that shut its read side down and to which a write failed must be released once its second request
    // has been answered (late, during the settling) — and the epoll descriptor must fall silent
    release_check(rec, &mut sim, "C09");
    sim.w.teardown();
}

/// at capacity, a client whose request is still unanswered leaves: its connection stays (closed, in flight)
/// and still counts — a further client must be refused until the application has answered.
pub fn c10_closed_unanswered_counts(rec: &mut Rec, rng: &mut Rng, leave: usize) {
    rec.case("capacity-closed-unanswered");
    rec.nontrivial();
    let mut cfg = Cfg::base("C10");
    cfg.max_clients = 13;
    let mut sim = Sim::new(rec, cfg);
    for _ in 0..10 {
        sim.connect(rec);
        sim.poll(rec);
    }
    sim.send_next(rec, rng, 0);
    while !sim.plans[0].outq.is_empty() {
        sim.send_next(rec, rng, 0);
    }
    for _ in 0..4 {
        sim.poll(rec);
    }
    match leave {
        0 => sim.w.close(rec, 0),
        1 => sim.w.shutdown(rec, 0, Shutdown::Write),
        _ => sim.w.shutdown(rec, 0, Shutdown::Both),
    }
    sim.poll(rec);
    let x = sim.connect(rec);
    sim.poll(rec);
    sim.poll(rec);
    sim.w.client_read(rec, x);
    let conns = sim.w.server_fds().len().saturating_sub(2);
    if conns > 10 || !sim.w.clients[x].refused {
        rec.oracle_fail("C10", &format!("10 connections (one closed with a request in flight) and a further client: the server holds {} connections, the newcomer was {}", conns, if sim.w.clients[x].refused { "refused" } else { "accepted" }), &sim.w.log);
    }
    // once answered, capacity is regained
    while !sim.w.held.is_empty() {
        sim.respond(rec, rng, 0);
    }
    sim.poll(rec);
    sim.poll(rec);
    let y = sim.connect(rec);
    sim.poll(rec);
    if leave == 0 && !sim.w.clients[y].accepted {
        rec.oracle_fail("C10", "after the departed client's request was answered a new client was still not accepted", &sim.w.log);
    }
    sim.settle(rec, rng);
    common_checks(rec, &mut sim, "C10");
    sim.w.teardown();
}

/// at capacity, one client shuts down only its READ side and sends a request: the write of the answer fails (EPIPE)
/// without any hang-up event. That connection is dead — closed by the server, its output discarded — and must be
/// released once answered, so that a further client is accepted (not refused with the 503).
pub fn c10_failed_write_frees_slot(rec: &mut Rec, rng: &mut Rng, requests: usize) {
    rec.case("capacity-failed-write");
    rec.nontrivial();
    let mut cfg = Cfg::base("C10");
    cfg.max_clients = 13;
    let mut sim = Sim::new(rec, cfg);
    for _ in 0..10 {
        sim.connect(rec);
        sim.poll(rec);
    }
    sim.w.shutdown(rec, 0, Shutdown::Read);
    for _ in 1..requests {
        sim.plan_request(rng, 0);
    }
    sim.send_next(rec, rng, 0);
    while !sim.plans[0].outq.is_empty() {
        sim.send_next(rec, rng, 0);
    }
    for _ in 0..4 {
        sim.poll(rec);
    }
    while !sim.w.held.is_empty() {
        sim.respond(rec, rng, 0);
        sim.poll(rec);
    }
    for _ in 0..4 {
        sim.poll(rec);
    }
    release_check(rec, &mut sim, "C10");
    let y = sim.connect(rec);
    for _ in 0..3 {
        sim.poll(rec);
    }
    sim.w.client_read(rec, y);
    if sim.w.clients[0].write_failed && (!sim.w.clients[y].accepted || sim.w.clients[y].refused) {
        rec.oracle_fail("C10", "9 live connections and one that died by a failed write (answered): a further client was refused", &sim.w.log);
    }
    sim.settle(rec, rng);
    common_checks(rec, &mut sim, "C10");
    sim.w.teardown();
}

/// at capacity, ONE readiness batch carries the hang-up of a client with nothing in flight and a complete request of
/// another client: the departed connection is released by that very poll, so the client that connects next is accepted
pub fn c10_close_and_request_in_one_batch(rec: &mut Rec, rng: &mut Rng) {
    rec.case("capacity-close-and-request-in-one-batch");
    rec.nontrivial();
    let mut cfg = Cfg::base("C10");
    cfg.max_clients = 13;
    let mut sim = Sim::new(rec, cfg);
    for _ in 0..10 {
        sim.connect(rec);
        sim.poll(rec);
    }
    sim.w.close(rec, 0);
    sim.send_next(rec, rng, 1);
    while !sim.plans[1].outq.is_empty() {
        sim.send_next(rec, rng, 1);
    }
    sim.poll(rec);
    let conns = sim.w.server_fds().len().saturating_sub(2);
    if conns != 9 {
        rec.oracle_fail("C10", &format!("a client with nothing in flight left and another one sent a request (one batch): after the poll the server holds {} connections, expected 9", conns), &sim.w.log);
    }
    let y = sim.connect(rec);
    sim.poll(rec);
    sim.w.client_read(rec, y);
    if !sim.w.clients[y].accepted || sim.w.clients[y].refused {
        rec.oracle_fail("C10", "9 connections open and nothing owed to the one that left: the next client was refused", &sim.w.log);
    }
    sim.settle(rec, rng);
    common_checks(rec, &mut sim, "C10");
    sim.w.teardown();
}

/// at capacity a client connects and is GONE AGAIN before the server's next poll (connect, close): the server turns it
/// away all the same — the 503 cannot be delivered — and holds no descriptor for it afterwards; the ten open connections
/// are served as before, and the next client that comes and stays is refused properly.
pub fn c10_refused_client_already_gone(rec: &mut Rec, rng: &mut Rng, vanished: usize) {
    rec.case("capacity-refused-client-already-gone");
    rec.nontrivial();
    let mut cfg = Cfg::base("C10");
    cfg.max_clients = 11 + vanished + 1;
    let mut sim = Sim::new(rec, cfg);
    for _ in 0..10 {
        sim.connect(rec);
        sim.poll(rec);
    }
    for _ in 0..vanished {
        let x = sim.connect(rec);
        sim.w.close(rec, x);
        sim.poll(rec);
        sim.poll(rec);
    }
    let conns = sim.w.server_fds().len().saturating_sub(2);
    if conns != 10 {
        rec.oracle_fail("C10", &format!("{} clients connected at capacity and were gone before the next poll: the server now holds {} descriptors beyond listener and epoll, expected 10", vanished, conns), &sim.w.log);
    }
    // the open ones are served
    sim.send_next(rec, rng, 3);
    while !sim.plans[3].outq.is_empty() {
        sim.send_next(rec, rng, 3);
    }
    for _ in 0..3 {
        sim.poll(rec);
    }
    let y = sim.connect(rec);
    for _ in 0..3 {
        sim.poll(rec);
    }
    sim.w.client_read(rec, y);
    if !sim.w.clients[y].refused {
        rec.oracle_fail("C10", "ten connections open: a client that connected after the vanished ones was not refused with the 503", &sim.w.log);
    }
    sim.settle(rec, rng);
    common_checks(rec, &mut sim, "C10");
    let conns = sim.w.server_fds().len().saturating_sub(2);
    if sim.w.server.is_some() && conns != 10 {
        rec.oracle_fail("C10", &format!("after settling the server holds {} descriptors beyond listener and epoll, expected 10", conns), &sim.w.log);
    }
    sim.w.teardown();
}

/// the refusal message is FIXED: whatever the application's own responses looked like before (their Server identity,
/// version, content type), a client turned away at capacity reads exactly the documented 503 message
pub fn c10_fixed_message_after_application_answers(rec: &mut Rec, rng: &mut Rng) {
    rec.case("capacity-fixed-message");
    rec.nontrivial();
    let mut cfg = Cfg::base("C10");
    cfg.max_clients = 13;
    let mut sim = Sim::new(rec, cfg);
    for _ in 0..10 {
        sim.connect(rec);
        sim.poll(rec);
    }
    for c in 0..2 {
        sim.send_next(rec, rng, c);
        while !sim.plans[c].outq.is_empty() {
            sim.send_next(rec, rng, c);
        }
    }
    for _ in 0..4 {
        sim.poll(rec);
    }
    // answers with the application's own Server identity, HTTP/1.0 and a plain-text type
    while let Some(h) = sim.w.held.first() {
        let t = h.tag.clone();
        let client = h.client;
        let spec = RespSpec { v11: false, code: 200, ops: vec![BOp::Body(format!("{}:", t).into_bytes()), BOp::Server(b"Mock_Server".to_vec()), BOp::Type(false)] };
        if let Some(i) = client {
            sim.plans[i].answered.push(t);
        }
        sim.w.respond(rec, 0, &spec);
        sim.poll(rec);
    }
    let x = sim.connect(rec);
    for _ in 0..3 {
        sim.poll(rec);
    }
    sim.w.client_read(rec, x);
    if sim.w.clients[x].received != SERVER_FULL {
        rec.oracle_fail("C10", &format!("after application answers with their own Server identity, the client turned away at capacity read {} instead of the fixed 503 message", hx(&sim.w.clients[x].received)), &sim.w.log);
    }
    sim.settle(rec, rng);
    common_checks(rec, &mut sim, "C10");
    sim.w.teardown();
}

/// a server in a process whose descriptor 0 is free (a daemon started with stdin closed): the first accepted connection
/// gets the NUMBER 0. It is a connection like any other — served, and released when its client leaves.
pub fn c10_connection_on_descriptor_zero(rec: &mut Rec, rng: &mut Rng, with_kill: bool) {
    rec.case("descriptor-zero");
    rec.nontrivial();
    // SAFETY: descriptor 0 of the harness process is not used by anything (stdin is never read)
    unsafe {
        libc::close(0);
        crate::srv::WANT_ZERO = true;
    }
    let mut cfg = Cfg::base("C10");
    cfg.max_clients = 4;
    cfg.with_kill = with_kill;
    let mut sim = Sim::new(rec, cfg);
    // (the first client is accepted before anything else is opened: the free number 0 goes to the server's accept)
    let a = sim.connect(rec);
    sim.poll(rec);
    sim.poll(rec);
    let b = sim.connect(rec);
    for _ in 0..3 {
        sim.poll(rec);
    }
    if sim.w.clients[a].srv_fd == Some(0) {
        rec.count("c10:server-side-descriptor-0");
    }
    for i in [a, b] {
        sim.send_next(rec, rng, i);
        while !sim.plans[i].outq.is_empty() {
            sim.send_next(rec, rng, i);
        }
    }
    for _ in 0..3 {
        sim.poll(rec);
    }
    while !sim.w.held.is_empty() {
        sim.respond(rec, rng, 0);
        sim.poll(rec);
    }
    sim.w.client_read(rec, a);
    sim.w.close(rec, a);
    for _ in 0..3 {
        sim.poll(rec);
    }
    let conns = sim.w.server_fds().len().saturating_sub(2 + if sim.w.kill_fd.is_some() { 1 } else { 0 });
    if conns != 1 {
        rec.oracle_fail("C10", &format!("the client whose connection had the descriptor number 0 left, everything answered: the server holds {} connections, expected 1", conns), &sim.w.log);
    }
    // the other client is still served
    sim.send_next(rec, rng, b);
    while !sim.plans[b].outq.is_empty() {
        sim.send_next(rec, rng, b);
    }
    for _ in 0..3 {
        sim.poll(rec);
    }
    sim.settle(rec, rng);
    common_checks(rec, &mut sim, "C10");
    check_yield_once(rec, &sim);
    sim.w.teardown();
    // give the process its descriptor 0 back
    if let Ok(f) = std::fs::File::open("/dev/null") {
        if std::os::unix::io::AsRawFd::as_raw_fd(&f) == 0 {
            std::mem::forget(f);
        }
    }
}

/// the embedding process holds many other files: the server's own descriptors (listener, epoll, connections) have
/// NUMBERS above 64 / 256 / 1024. Nothing changes: connections are served, released when their clients leave, and
/// capacity is regained.
pub fn c10_high_descriptor_numbers(rec: &mut Rec, rng: &mut Rng, n_placeholders: usize) {
    rec.case("high-descriptor-numbers");
    rec.nontrivial();
    let park: Vec<std::fs::File> = (0..n_placeholders).filter_map(|_| std::fs::File::open("/dev/null").ok()).collect();
    let mut cfg = Cfg::base("C10");
    cfg.max_clients = 13;
    let mut sim = Sim::new(rec, cfg);
    for _ in 0..10 {
        sim.connect(rec);
        sim.poll(rec);
    }
    for i in 0..3 {
        sim.send_next(rec, rng, i);
        while !sim.plans[i].outq.is_empty() {
            sim.send_next(rec, rng, i);
        }
    }
    for _ in 0..4 {
        sim.poll(rec);
    }
    while !sim.w.held.is_empty() {
        sim.respond(rec, rng, 0);
        sim.poll(rec);
    }
    for i in 0..4 {
        sim.w.client_read(rec, i);
        sim.w.close(rec, i);
        sim.poll(rec);
    }
    sim.poll(rec);
    let conns = sim.w.server_fds().len().saturating_sub(2);
    if conns != 6 {
        rec.oracle_fail("C10", &format!("with {} other files open in the process: 4 of 10 clients left (everything answered), the server holds {} connections, expected 6", n_placeholders, conns), &sim.w.log);
    }
    for _ in 0..4 {
        let y = sim.connect(rec);
        sim.poll(rec);
        sim.poll(rec);
        if !sim.w.clients[y].accepted {
            rec.oracle_fail("C10", "capacity was not regained after clients left (server descriptors with high numbers)", &sim.w.log);
            break;
        }
    }
    sim.settle(rec, rng);
    common_checks(rec, &mut sim, "C10");
    sim.w.teardown();
    drop(park);
}

/// at capacity, several clients are already waiting in the listener's backlog when a client with an unanswered
/// request leaves; the application answers between two polls. Each waiting client must end up either refused with
/// the complete 503 message or accepted and served — never cut off with nothing (the batch of one poll can hold the
/// listener event AND the hang-up of the connection that is being released).
pub fn c10_waiting_at_release(rec: &mut Rec, rng: &mut Rng, waiting: usize, answer_before_first_poll: bool, leave: usize) {
    rec.case("capacity-waiting-at-release");
    rec.nontrivial();
    let mut cfg = Cfg::base("C10");
    cfg.max_clients = 16;
    let mut sim = Sim::new(rec, cfg);
    for _ in 0..10 {
        sim.connect(rec);
        sim.poll(rec);
    }
    let a = rng.below(10);
    sim.send_next(rec, rng, a);
    while !sim.plans[a].outq.is_empty() {
        sim.send_next(rec, rng, a);
    }
    for _ in 0..4 {
        sim.poll(rec);
    }
    // the newcomers connect BEFORE the departure: the listener is queued ahead of the hang-up
    let newcomers: Vec<usize> = (0..waiting).map(|_| sim.connect(rec)).collect();
    match leave {
        0 => sim.w.close(rec, a),
        1 => sim.w.shutdown(rec, a, Shutdown::Write),
        _ => sim.w.shutdown(rec, a, Shutdown::Both),
    }
    if answer_before_first_poll {
        while !sim.w.held.is_empty() {
            sim.respond(rec, rng, 0);
        }
    }
    sim.poll(rec);
    while !sim.w.held.is_empty() {
        sim.respond(rec, rng, 0);
    }
    for _ in 0..(waiting + 2) {
        sim.poll(rec);
    }
    for &x in &newcomers {
        sim.w.client_read(rec, x);
        let c = &sim.w.clients[x];
        let got_503 = c.received == SERVER_FULL;
        let served = c.accepted && c.received.is_empty();
        if !(got_503 || served) {
            rec.oracle_fail("C10", &format!("a client that connected at capacity was neither refused with the 503 message nor accepted: accepted={} refused={} received={}", c.accepted, c.refused, hx(&c.received)), &sim.w.log);
        }
    }
    // an accepted newcomer is really served
    for &x in &newcomers {
        if sim.w.clients[x].accepted && sim.w.clients[x].sock.is_some() {
            sim.send_next(rec, rng, x);
            while !sim.plans[x].outq.is_empty() {
                sim.send_next(rec, rng, x);
            }
        }
    }
    sim.settle(rec, rng);
    common_checks(rec, &mut sim, "C10");
    check_yield_once(rec, &sim);
    sim.w.teardown();
}

pub fn c10(rec: &mut Rec, rng: &mut Rng, thorough: bool) {
    regress_f3(rec, rng);
    for leave in 0..3 {
        c10_closed_unanswered_counts(rec, rng, leave);
    }
    for requests in 1..=2 {
        c10_failed_write_frees_slot(rec, rng, requests);
    }
for vanished in [1usize, 3] {
        c10_refused_client_already_gone(rec, rng, vanished);
    }
        c10_close_and_request_in_one_batch(rec, rng);
    c10_fixed_message_after_application_answers(rec, rng);
    for with_kill in [false, true] {
        c10_connection_on_descriptor_zero(rec, rng, with_kill);
    }
    for n_placeholders in [70usize, 300] {
        c10_high_descriptor_numbers(rec, rng, n_placeholders);
    }
    for waiting in 1..=3 {
        for before in [false, true] {
            for leave in 0..(if thorough { 3 } else { 1 }) {
                c10_waiting_at_release(rec, rng, waiting, before, leave);
            }
        }
    }
    let n = if thorough { 800 } else { 40 };
    for k in 0..n {
        rec.case("capacity");
        let mut cfg = Cfg::base("C10");
        cfg.max_clients = 13;
        cfg.reconnect = true;
        // closes with unsent output: some responses exceed the socket buffer and stay partially written
        cfg.big = true;
        let mut sim = Sim::new(rec, cfg);
        let cycles = rng.range(1, 3);
        for _ in 0..cycles {
            // fill towards 9..13 simultaneous clients
            let target = rng.range(9, 13);
            while sim.w.clients.iter().filter(|c| c.sock.is_some()).count() < target {
                let j = sim.connect(rec);
                // an eager client: its first request is already in the socket when the server gets to it — also when
                // the server is full and turns it away
                if rng.chance(1, 2) {
                    sim.send_next(rec, rng, j);
                }
                if rng.chance(2, 3) {
                    sim.poll(rec);
                }
            }
            for _ in 0..16 {
                if !sim.poll(rec) {
                    break;
                }
            }
            // every excess client has been told to go away by now (not only the first one)
            nobody_waiting(rec, &sim, "C10");
            let live: Vec<usize> = (0..sim.w.clients.len()).filter(|&i| sim.w.clients[i].sock.is_some()).collect();
            // invariant: never more than 10 connections
            let conns = sim.w.server_fds().len().saturating_sub(2);
            if conns > 10 {
                rec.oracle_fail("C10", &format!("the server holds {} connections", conns), &sim.w.log);
            }
            // some traffic: requests, some answered, some not; then closes with unread input / unsent output / in flight
            for _ in 0..rng.range(5, 25) {
                let i = *rng.pick(&live);
                if sim.w.clients[i].sock.is_none() || sim.w.clients[i].refused {
                    continue;
                }
                match rng.below(8) {
                    0 | 1 => sim.send_next(rec, rng, i),
                    6 => sim.send_garbage(rec, rng, i),
                    7 => {
                        // a pipelining client, then several answers handed back in ONE enqueue_responses call
                        for _ in 0..2 {
                            sim.plan_request(rng, i);
                        }
                        sim.send_next(rec, rng, i);
                        while !sim.plans[i].outq.is_empty() {
                            sim.send_next(rec, rng, i);
                        }
                        for _ in 0..4 {
                            sim.poll(rec);
                        }
                        if sim.w.held.len() >= 2 {
                            let n = sim.w.held.len().min(4);
                            let ks: Vec<usize> = (0..n).collect();
                            let mut bodies = vec![];
                            for k in &ks {
                                let t = sim.w.held[*k].tag.clone();
                                if let Some(ci) = sim.w.held[*k].client {
                                    if ci < sim.plans.len() {
                                        sim.plans[ci].answered.push(t.clone());
                                    }
                                }
                                bodies.push(format!("{}:", t).into_bytes());
                            }
                            sim.w.respond_many(rec, ks, bodies);
                        }
                    }
                    2 => {
                        sim.poll(rec);
                    }
                    3 => {
                        if !sim.w.held.is_empty() {
                            let idx = rng.below(sim.w.held.len());
                            sim.respond(rec, rng, idx);
                            if rng.chance(2, 3) {
                                sim.poll(rec);
                            }
                        }
                    }
                    4 => {
                        if rng.chance(1, 2) {
                            sim.w.client_read(rec, i);
                        }
                    }
                    // (every third departure is a client that only shuts its READ side down: the next write to it fails
                    // with EPIPE and no hang-up event is ever raised for it)
                    _ if rng.chance(1, 3) && !sim.w.clients[i].rd_shut => sim.w.shutdown(rec, i, Shutdown::Read),
                    _ => sim.w.close(rec, i),
                }
            }
            // refused clients: read what they got
            for i in 0..sim.w.clients.len() {
                if sim.w.clients[i].sock.is_some() && sim.w.clients[i].refused {
                    sim.w.client_read(rec, i);
                    // "… receives the fixed 503 message and is disconnected"
                    if !sim.w.clients[i].saw_eof {
                        rec.oracle_fail("C10", &format!("refused client {} was not disconnected (no end of stream after the 503 message)", i), &sim.w.log);
                    }
                    sim.w.clients[i].sock = None;
                    sim.w.clients[i].closed = true;
                }
            }
            // drain: close a random subset (or all)
            let close_all = k % 2 == 0;
            for &i in &live {
                if sim.w.clients[i].sock.is_some() && (close_all || rng.chance(1, 2)) {
                    sim.w.close(rec, i);
                }
            }
            sim.settle(rec, rng);
            // everything is answered: whoever left, hung up or had a write fail is released
            release_check(rec, &mut sim, "C10");
            // capacity regained: a later connect is accepted
            let j = sim.connect(rec);
            sim.settle(rec, rng);
            if sim.w.clients.iter().filter(|c| c.accepted).count() < 10 && !sim.w.clients[j].accepted && sim.w.server.is_some() {
                rec.oracle_fail("C10", "a client connecting below capacity was not accepted", &sim.w.log);
            }
        }
        // final drain: everybody leaves, everything answered, one more poll: only listener + epoll remain
        for i in 0..sim.w.clients.len() {
            if sim.w.clients[i].sock.is_some() {
                sim.w.client_read(rec, i);
                sim.w.close(rec, i);
            }
        }
        sim.settle(rec, rng);
        rec.nontrivial();
        common_checks(rec, &mut sim, "C10");
        if sim.w.server.is_some() {
            let fds = sim.w.server_fds();
            if fds.len() != 2 {
                rec.oracle_fail("C10", &format!("after every client left the server still holds descriptors {:?} (expected listener + epoll)", fds), &sim.w.log);
            }
        }
        sim.w.teardown();
    }
}

/// F3 (DESIGN.md §6): 10 clients, one sends a request, an 11th connects and leaves before the poll.
pub fn regress_f3(rec: &mut Rec, rng: &mut Rng) {
    rec.case("regress-F3");
    rec.nontrivial();
    let mut cfg = Cfg::base("C10");
    cfg.max_clients = 13;
    let mut sim = Sim::new(rec, cfg);
    for _ in 0..10 {
        sim.connect(rec);
        sim.poll(rec);
    }
    sim.w.send(rec, 0, b"GET /c0/r0 HTTP/1.1\r\n\r\n");
    sim.plans[0].sent = vec![tag(0, 0)];
    sim.plans[0].next_req = 1;
    let x = sim.connect(rec);
    sim.w.close(rec, x);
    sim.poll(rec);
    sim.poll(rec);
    let mine: Vec<&(i32, String)> = sim.w.yielded.iter().filter(|(_, t)| t == "/c0/r0").collect();
    if mine.len() != 1 {
        rec.oracle_fail("C10", "a request parsed in the same batch as a refused, vanished client was lost", &sim.w.log);
    }
    sim.settle(rec, rng);
    common_checks(rec, &mut sim, "C10");
    sim.w.teardown();
}

/// every registered descriptor is ready at once (10 connections with input, a waiting client on the
/// listener) and the kill switch is signalled LAST: it must still be in the batch.
pub fn c18_all_ready(rec: &mut Rec, rng: &mut Rng, n_clients: usize, extra_waiting: bool) {
    rec.case("kill-switch-all-ready");
    rec.nontrivial();
    let mut cfg = Cfg::base("C18");
    cfg.with_kill = true;
    cfg.max_clients = 13;
    let mut sim = Sim::new(rec, cfg);
    for _ in 0..n_clients {
        sim.connect(rec);
        sim.poll(rec);
    }
    for i in 0..n_clients {
        sim.send_next(rec, rng, i);
    }
    // before the signal the switch changes nothing: up to 10 clients are all admitted
    if n_clients <= 10 && (sim.w.n_refused > 0 || sim.w.clients.iter().filter(|c| c.accepted).count() != n_clients) {
        rec.oracle_fail("C18", &format!("with a kill switch installed (not signalled) only {} of {} clients were admitted, {} refused", sim.w.clients.iter().filter(|c| c.accepted).count(), n_clients, sim.w.n_refused), &sim.w.log);
    }
    if extra_waiting {
        sim.connect(rec);
    }
    sim.w.signal_kill(rec);
    for _ in 0..3 {
        if !sim.w.ready() {
            rec.oracle_fail("C18", "the epoll descriptor is not ready although the kill switch was signalled", &sim.w.log);
            break;
        }
        sim.w.poll(rec);
    }
    if sim.w.shutdown_polls < 3 || sim.w.nonshutdown_after_kill > 0 || !sim.w.poll_errors.is_empty() {
        rec.oracle_fail("C18", &format!("with {} ready connections{} and the kill switch signalled: {} polls reported shutdown, {} did not, errors {:?}", n_clients, if extra_waiting { " and a waiting client" } else { "" }, sim.w.shutdown_polls, sim.w.nonshutdown_after_kill, sim.w.poll_errors), &sim.w.log);
    }
    sim.w.teardown();
}

/// "Before it is signalled, its presence changes nothing": a server WITH a kill switch serves a few generations of
/// clients (connect, request, answer, leave, the next one reusing the descriptor numbers) exactly like one without:
/// every request is yielded, no poll reports shutdown.
pub fn c18_unsignalled(rec: &mut Rec, rng: &mut Rng) {
    rec.case("kill-switch-never-signalled");
    rec.nontrivial();
    let mut cfg = Cfg::base("C18");
    cfg.with_kill = true;
    cfg.max_clients = 12;
    let mut sim = Sim::new(rec, cfg);
    let mut expected = 0usize;
    for _gen in 0..4 {
        let i = sim.connect(rec);
        sim.poll(rec);
        sim.send_next(rec, rng, i);
        while !sim.plans[i].outq.is_empty() {
            sim.send_next(rec, rng, i);
        }
        expected += 1;
        for _ in 0..6 {
            sim.poll(rec);
        }
        while !sim.w.held.is_empty() {
            sim.respond(rec, rng, 0);
        }
        for _ in 0..3 {
            sim.poll(rec);
        }
        sim.w.client_read(rec, i);
        sim.w.close(rec, i);
        sim.poll(rec);
        sim.poll(rec);
    }
    if sim.w.spurious_shutdowns > 0 || sim.w.yielded.len() != expected {
        rec.oracle_fail("C18", &format!("with a kill switch that was never signalled: {} polls reported shutdown, {} of {} requests were yielded", sim.w.spurious_shutdowns, sim.w.yielded.len(), expected), &sim.w.log);
    }
    sim.w.teardown();
}

/// "with unanswered requests": several clients sent requests (yielded, not answered) and then went away — their
/// connections are closed but kept, and each raises a hang-up on every poll; possibly a further client is waiting. The
/// kill switch signalled in that state must be seen by the very next poll.
pub fn c18_closed_unanswered(rec: &mut Rec, rng: &mut Rng, n_gone: usize, n_open: usize, extra_waiting: bool) {
    rec.case("kill-switch-closed-unanswered");
    rec.nontrivial();
    let mut cfg = Cfg::base("C18");
    cfg.with_kill = true;
    cfg.max_clients = 13;
    let mut sim = Sim::new(rec, cfg);
    for _ in 0..(n_gone + n_open) {
        sim.connect(rec);
        sim.poll(rec);
    }
    for i in 0..n_gone {
        sim.send_next(rec, rng, i);
        while !sim.plans[i].outq.is_empty() {
            sim.send_next(rec, rng, i);
        }
    }
    for _ in 0..(2 * n_gone + 2) {
        sim.poll(rec);
    }
    for i in 0..n_gone {
        match i % 3 {
            0 => sim.w.close(rec, i),
            1 => sim.w.shutdown(rec, i, Shutdown::Write),
            _ => sim.w.shutdown(rec, i, Shutdown::Both),
        }
    }
    // the server notices the departures (the connections stay: their requests are unanswered)
    sim.poll(rec);
    sim.poll(rec);
    for i in n_gone..(n_gone + n_open) {
        sim.send_next(rec, rng, i);
    }
    if extra_waiting {
        sim.connect(rec);
    }
    sim.w.signal_kill(rec);
    let before = sim.w.shutdown_polls;
    for _ in 0..3 {
        if !sim.w.ready() {
            rec.oracle_fail("C18", "the epoll descriptor is not ready although the kill switch was signalled", &sim.w.log);
            break;
        }
        sim.w.poll(rec);
    }
    if sim.w.shutdown_polls < before + 3 || sim.w.nonshutdown_after_kill > 0 || !sim.w.poll_errors.is_empty() {
        rec.oracle_fail("C18", &format!("{} connections closed with unanswered requests, {} open{}: {} polls reported shutdown, {} did not, errors {:?}", n_gone, n_open, if extra_waiting { ", a waiting client" } else { "" }, sim.w.shutdown_polls - before, sim.w.nonshutdown_after_kill, sim.w.poll_errors), &sim.w.log);
    }
    sim.w.teardown();
}

/// "with unsent output": responses larger than the socket buffer are partly written to clients that do not read,
/// then the kill switch is signalled: the very next poll (and every later one) reports shutdown and returns at once
/// — it must not try to deliver the rest first.
pub fn c18_unsent_output(rec: &mut Rec, rng: &mut Rng, n_clients: usize) {
    rec.case("kill-switch-unsent-output");
    rec.nontrivial();
    let mut cfg = Cfg::base("C18");
    cfg.with_kill = true;
    cfg.big = true;
    let mut sim = Sim::new(rec, cfg);
    for _ in 0..n_clients {
        sim.connect(rec);
        sim.poll(rec);
    }
    for i in 0..n_clients {
        sim.send_next(rec, rng, i);
        while !sim.plans[i].outq.is_empty() {
            sim.send_next(rec, rng, i);
        }
    }
    for _ in 0..(2 * n_clients + 2) {
        sim.poll(rec);
    }
    // answers far larger than the socket buffer; nobody reads
    while !sim.w.held.is_empty() {
        let t = sim.w.held[0].tag.clone();
        let mut body = format!("{}:", t).into_bytes();
        body.extend(std::iter::repeat(b'.').take(rng.range(300_000, 600_000)));
        let spec = RespSpec { v11: true, code: 200, ops: vec![BOp::Body(body)] };
        if let Some(i) = sim.w.held[0].client {
            sim.plans[i].answered.push(t);
        }
        sim.w.respond(rec, 0, &spec);
    }
    for _ in 0..(n_clients + 1) {
        sim.poll(rec);
    }
    sim.w.signal_kill(rec);
    for _ in 0..3 {
        if !sim.w.ready() {
            rec.oracle_fail("C18", "the epoll descriptor is not ready although the kill switch was signalled: polling would block", &sim.w.log);
            break;
        }
        let t0 = std::time::Instant::now();
        sim.w.poll(rec);
        if t0.elapsed().as_secs() >= 5 {
            rec.oracle_fail("C18", &format!("a poll after the kill switch took {} s with unsent output pending", t0.elapsed().as_secs()), &sim.w.log);
        }
    }
    if !sim.w.poll_errors.is_empty() || sim.w.shutdown_polls < 3 || sim.w.nonshutdown_after_kill > 0 {
        rec.oracle_fail("C18", &format!("with unsent output pending: {} polls reported shutdown, {} did not, errors {:?}", sim.w.shutdown_polls, sim.w.nonshutdown_after_kill, sim.w.poll_errors), &sim.w.log);
    }
    sim.w.teardown();
}

/// "with unanswered requests", many of them from ONE poll: a client pipelines `n_req` small requests in a single write,
/// one poll yields them, the kill switch is signalled: the very next poll and every later one report shutdown — nothing
/// the server may still hold from an earlier poll comes first
pub fn c18_many_yielded_then_kill(rec: &mut Rec, n_req: usize) {
    rec.case("kill-switch-after-a-big-batch");
    rec.nontrivial();
    let mut cfg = Cfg::base("C18");
    cfg.with_kill = true;
    let mut sim = Sim::new(rec, cfg);
    let a = sim.connect(rec);
    sim.poll(rec);
    let mut bytes = vec![];
    for _ in 0..n_req {
        let j = sim.plans[a].next_req;
        sim.plans[a].next_req += 1;
        let t = tag(a, j);
        bytes.extend_from_slice(format!("GET {} HTTP/1.1\r\n\r\n", t).as_bytes());
        sim.plans[a].sent.push(t);
    }
    sim.w.send(rec, a, &bytes);
    // exactly as many polls as the input needs reads (one per 1024 bytes), so that nothing is left unread
    for _ in 0..(bytes.len() / 1024 + 1) {
        sim.poll(rec);
    }
    sim.w.signal_kill(rec);
    let before = sim.w.shutdown_polls;
    for _ in 0..3 {
        if !sim.w.ready() {
            rec.oracle_fail("C18", "the epoll descriptor is not ready although the kill switch was signalled", &sim.w.log);
            break;
        }
        sim.w.poll(rec);
    }
    if sim.w.shutdown_polls < before + 3 || sim.w.nonshutdown_after_kill > 0 || !sim.w.poll_errors.is_empty() {
        rec.oracle_fail("C18", &format!("{} requests yielded and unanswered, kill switch signalled: {} of 3 polls reported shutdown, {} did not, errors {:?}", n_req, sim.w.shutdown_polls - before, sim.w.nonshutdown_after_kill, sim.w.poll_errors), &sim.w.log);
    }
    sim.w.teardown();
}

/// A connection that is DEAD but still registered for output when the kill switch fires: its client shut its read side
/// down, an answer was supplied and the write failed, another of its requests is still unanswered (so it is kept), and
/// nothing ever re-registered it — every later batch carries its `OUT` event ahead of the kill switch's. Shutdown wins
/// all the same: every poll reports it, none fails or panics.
pub fn c18_dead_connection_registered_for_output(rec: &mut Rec, rng: &mut Rng, kill_first: bool, n_req: usize) {
    rec.case("kill-switch-with-a-dead-connection-awaiting-output");
    rec.nontrivial();
    let mut cfg = Cfg::base("C18");
    cfg.with_kill = true;
    let mut sim = Sim::new(rec, cfg);
    let a = sim.connect(rec);
    let _b = sim.connect(rec);
    sim.poll(rec);
    sim.poll(rec);
    let mut bytes = vec![];
    for _ in 0..n_req {
        let j = sim.plans[a].next_req;
        sim.plans[a].next_req += 1;
        let t = tag(a, j);
        bytes.extend_from_slice(format!("GET {} HTTP/1.1\r\n\r\n", t).as_bytes());
        sim.plans[a].sent.push(t);
    }
    sim.w.send(rec, a, &bytes);
    sim.poll(rec);
    sim.poll(rec);
    sim.w.shutdown(rec, a, Shutdown::Read);
    if kill_first {
        sim.w.signal_kill(rec);
    }
    if !sim.w.held.is_empty() {
        sim.respond(rec, rng, 0);
    }
    if !kill_first {
        // the write fails in an ordinary poll; the connection stays (requests in flight) with its OUT registration
        sim.poll(rec);
        sim.poll(rec);
        sim.w.signal_kill(rec);
    }
    let before = sim.w.shutdown_polls;
    for _ in 0..4 {
        if !sim.w.ready() {
            rec.oracle_fail("C18", "the epoll descriptor is not ready although the kill switch was signalled", &sim.w.log);
            break;
        }
        sim.w.poll(rec);
        if sim.w.server.is_none() {
            break;
        }
    }
    if sim.w.shutdown_polls < before + 4 || sim.w.nonshutdown_after_kill > 0 || !sim.w.poll_errors.is_empty() {
        rec.oracle_fail("C18", &format!("a dead connection ({} requests, one answered, the write failed) is still registered for output and the kill switch is signalled: {} of 4 polls reported shutdown, {} did not, errors {:?}", n_req, sim.w.shutdown_polls - before, sim.w.nonshutdown_after_kill, sim.w.poll_errors), &sim.w.log);
    }
    sim.w.teardown();
}

pub fn c18(rec: &mut Rec, rng: &mut Rng, thorough: bool) {
    for kill_first in [false, true] {
        for n_req in [2usize, 3] {
            c18_dead_connection_registered_for_output(rec, rng, kill_first, n_req);
        }
    }
    for n_req in [8usize, 40, 130] {
        c18_many_yielded_then_kill(rec, n_req);
    }
    for n_clients in [0usize, 1, 9, 10] {
        for extra in [false, true] {
            c18_all_ready(rec, rng, n_clients, extra);
        }
    }
    for n_clients in [1usize, 2, 3] {
        c18_unsent_output(rec, rng, n_clients);
    }
    for _ in 0..4 {
        c18_unsignalled(rec, rng);
    }
    for (gone, open, extra) in [(1usize, 0usize, true), (2, 0, false), (3, 2, true), (5, 5, true), (10, 0, true), (9, 1, false)] {
        c18_closed_unanswered(rec, rng, gone, open, extra);
    }
    let n = if thorough { 2500 } else { 120 };
    for k in 0..n {
        let mut cfg = Cfg::base("C18");
        cfg.with_kill = true;
        cfg.steps = rng.range(5, 60);
        cfg.max_clients = if k % 4 == 0 { 12 } else { 4 };
        cfg.reconnect = true;
        cfg.w_close = if k % 3 == 0 { 30 } else { 0 };
        let mut sim = run_history(rec, rng, cfg, "kill-switch");
        if k % 4 == 0 {
            // at capacity with a further client waiting
            while sim.w.clients.iter().filter(|c| c.sock.is_some()).count() < 11 {
                sim.connect(rec);
                sim.poll(rec);
            }
            sim.connect(rec);
        }
        // before the signal its presence changes nothing (the correspondence compares every poll with the model)
        if sim.w.spurious_shutdowns > 0 {
            rec.oracle_fail("C18", &format!("{} polls reported the shutdown indication before the kill switch was signalled", sim.w.spurious_shutdowns), &sim.w.log);
        }
        let errs_before = sim.w.poll_errors.len();
        sim.w.signal_kill(rec);
        rec.nontrivial();
        // every subsequent poll reports shutdown, without blocking (the epoll fd must be ready)
        for _ in 0..rng.range(1, 4) {
            if !sim.w.ready() {
                rec.oracle_fail("C18", "the epoll descriptor is not ready although the kill switch was signalled: polling would block", &sim.w.log);
                break;
            }
            let before = rec.n_ops;
            sim.w.poll(rec);
            let _ = before;
            match sim.w.log.last() {
                Some(_) => {}
                None => {}
            }
            // other actions in between must not matter
            if rng.chance(1, 2) && !sim.w.clients.is_empty() {
                let i = rng.below(sim.w.clients.len());
                if sim.w.clients[i].sock.is_some() && !sim.plans[i].sent_garbage {
                    sim.send_next(rec, rng, i);
                }
            }
        }
        if sim.w.poll_errors.len() != errs_before {
            rec.oracle_fail("C18", &format!("polling after the kill switch failed: {:?}", sim.w.poll_errors), &sim.w.log);
        }
        if sim.w.shutdown_polls < 1 || sim.w.nonshutdown_after_kill > 0 {
            rec.oracle_fail("C18", &format!("after the kill switch was signalled {} polls reported shutdown and {} did not", sim.w.shutdown_polls, sim.w.nonshutdown_after_kill), &sim.w.log);
        }
        sim.w.teardown();
    }
}

/// server part of C04 / C11 / C13: limits per connection, 400 text, no yield of a rejected request, 100-continue
/// C11 at capacity: ten connections, one of them answered with a 400 (flushed, nothing in flight); an 11th client is
/// turned away with the 503 like any other — and the client that was answered with the 400 keeps its connection: its
/// next well-formed request is yielded and answered
pub fn c11_rejected_client_keeps_slot(rec: &mut Rec, rng: &mut Rng) {
    rec.case("rejected-client-at-capacity");
    rec.nontrivial();
    let mut cfg = Cfg::base("C11");
    cfg.max_clients = 13;
    let mut sim = Sim::new(rec, cfg);
    for _ in 0..10 {
        sim.connect(rec);
        sim.poll(rec);
    }
    let v = 3usize;
    sim.w.send(rec, v, b"BOGUS /x HTTP/1.1\r\n\r\n");
    sim.plans[v].sent_garbage = true;
    for _ in 0..3 {
        sim.poll(rec);
    }
    sim.w.client_read(rec, v);
    let x = sim.connect(rec);
    for _ in 0..3 {
        sim.poll(rec);
    }
    sim.w.client_read(rec, x);
    if !sim.w.clients[x].refused {
        rec.oracle_fail("C10", "an 11th client was not refused although 10 connections are open (one of them answered with a 400)", &sim.w.log);
    }
    sim.w.clients[v].received.clear();
    sim.w.send(rec, v, format!("GET /c{}/after HTTP/1.1\r\n\r\n", v).as_bytes());
    for _ in 0..3 {
        sim.poll(rec);
    }
    let want = format!("/c{}/after", v);
    if let Some(k) = sim.w.held.iter().position(|h| h.tag == want) {
        sim.respond(rec, rng, k);
    } else {
        rec.oracle_fail("C11", "at capacity: a well-formed request after a rejected one was not yielded (the client that was answered with a 400 lost its connection)", &sim.w.log);
    }
    for _ in 0..3 {
        sim.poll(rec);
    }
    sim.w.client_read(rec, v);
    let (resps, _) = split_responses(&sim.w.clients[v].received);
    if !resps.iter().any(|r| r.0 == 200) && sim.w.yielded.iter().any(|(_, t)| *t == want) {
        rec.oracle_fail("C11", "at capacity: the answer to the well-formed request after a rejected one did not arrive", &sim.w.log);
    }
    sim.settle(rec, rng);
    sim.w.teardown();
}

/// C11 at the server, second clause of the first sentence: input that is rejected is ANSWERED the same way whatever the
/// connection has seen before — the bytes a client receives for a rejected input B after a history H (served
/// requests, earlier rejections, HTTP/1.0 and HTTP/1.1 mixed) are the bytes a client that has just connected receives
/// for B.
pub fn c11_rejection_answered_like_fresh(rec: &mut Rec, rng: &mut Rng) {
    let rejected_inputs: [&[u8]; 5] = [b"X\r\n", b"GET /cX/b HTTP/3.0\r\n\r\n", b"POST /cX/b HTTP/1.0\r\n\r\n",
        b"GET /cX/b HTTP/1.0\r\nno colon\r\n\r\n", b"GET /cX/b HTTP/1.1\r\nContent-Length: x\r\n\r\n"];
    // (version, rejected-in-headers?) of each piece of the history
    let histories: [&[(u8, bool)]; 6] = [&[], &[(0, false)], &[(0, true)], &[(0, false), (1, false)], &[(1, false), (0, true)], &[(0, true), (0, true)]];
    for h in histories {
        for b in rejected_inputs {
            rec.case("rejection-answered-like-a-fresh-connection");
            rec.nontrivial();
            let mut sim = Sim::new(rec, Cfg::base("C11"));
            let a = sim.connect(rec);
            sim.poll(rec);
            let f = sim.connect(rec);
            sim.poll(rec);
            for (i, (v, bad)) in h.iter().enumerate() {
                let piece = if *bad {
                    sim.plans[a].sent_garbage = true;
                    format!("GET /c{}/h{} HTTP/1.{}\r\nX-Fine: 1\r\nthis line has no colon\r\n\r\n", a, i, v)
                } else {
                    format!("GET /c{}/h{} HTTP/1.{}\r\n\r\n", a, i, v)
                };
                sim.w.send(rec, a, piece.as_bytes());
                for _ in 0..3 {
                    sim.poll(rec);
                }
                let want = format!("/c{}/h{}", a, i);
                if let Some(k) = sim.w.held.iter().position(|x| x.tag == want) {
                    sim.respond(rec, rng, k);
                }
                for _ in 0..3 {
                    sim.poll(rec);
                }
                sim.w.client_read(rec, a);
            }
            sim.w.clients[a].received.clear();
            sim.plans[a].sent_garbage = true;
            sim.plans[f].sent_garbage = true;
            sim.w.send(rec, a, b);
            sim.w.send(rec, f, b);
            for _ in 0..4 {
                sim.poll(rec);
            }
            sim.w.client_read(rec, a);
            sim.w.client_read(rec, f);
            if sim.w.clients[a].received != sim.w.clients[f].received {
                rec.oracle_fail("C11", &format!("the same rejected input is answered {:?} on a connection with a history and {:?} on one that has just connected",
                    String::from_utf8_lossy(&sim.w.clients[a].received[..sim.w.clients[a].received.len().min(40)]),
                    String::from_utf8_lossy(&sim.w.clients[f].received[..sim.w.clients[f].received.len().min(40)])), &sim.w.log);
            }
            sim.settle(rec, rng);
            sim.w.teardown();
        }
    }
}

pub fn srv_conn(rec: &mut Rec, rng: &mut Rng, thorough: bool) {
    c11_rejection_answered_like_fresh(rec, rng);
    c11_rejected_client_keeps_slot(rec, rng);
    let n = if thorough { 600 } else { 40 };
    for _ in 0..n {
        rec.case("server-limit-400-continue");
        rec.nontrivial();
        // every fourth server keeps the default limit (set_payload_max_size never called): 0.05 MiB = 51200
        let default_limit = rng.chance(1, 4);
        let l1 = if default_limit { 51200 } else { *rng.pick(&[0usize, 5, 100, 51200]) };
        let mut cfg = Cfg::base("C04");
        cfg.limit = if default_limit { None } else { Some(l1) };
        let mut sim = Sim::new(rec, cfg);
        let a = sim.connect(rec);
        sim.poll(rec);
        // the limit is changed after a connected: it applies to later connections only
        let l2 = *rng.pick(&[3usize, 50, 1000]);
        sim.w.set_limit(rec, l2);
        let b = sim.connect(rec);
        sim.poll(rec);
        for (c, l) in [(a, l1), (b, l2)] {
            let n_decl = l + 1;
            let head = format!("PUT /c{}/r0 HTTP/1.1\r\nExpect: 100-continue\r\nContent-Length: {}\r\n\r\n", c, n_decl);
            sim.w.send(rec, c, head.as_bytes());
            sim.plans[c].sent_garbage = true;
            for _ in 0..3 {
                sim.poll(rec);
            }
            sim.w.client_read(rec, c);
            let (resps, _) = split_responses(&sim.w.clients[c].received);
            let ok = resps.len() == 1
                && resps[0].0 == 400
                && String::from_utf8_lossy(&resps[0].1).contains(&format!("size {} ", n_decl))
                && String::from_utf8_lossy(&resps[0].1).contains(&format!("limit of {} ", l));
            if !ok {
                rec.oracle_fail("C04", &format!("client with limit {} declaring {}: received {:?}", l, n_decl, resps.iter().map(|r| (r.0, String::from_utf8_lossy(&r.1).to_string())).collect::<Vec<_>>()), &sim.w.log);
            }
            // C11: the rejected request is never yielded, and a later well-formed request on the same connection is served
            sim.w.clients[c].received.clear();
            let good = format!("GET /c{}/ok HTTP/1.1\r\n\r\n", c);
            sim.w.send(rec, c, good.as_bytes());
            for _ in 0..3 {
                sim.poll(rec);
            }
            if sim.w.yielded.iter().any(|(_, t)| t.ends_with("/r0")) {
                rec.oracle_fail("C11", "a request answered with 400 was yielded to the application", &sim.w.log);
            }
            if !sim.w.yielded.iter().any(|(_, t)| *t == format!("/c{}/ok", c)) {
                rec.oracle_fail("C11", "a well-formed request after a rejected one was not yielded", &sim.w.log);
            }
        }
        // C04: EVERY violation is answered — a second oversized declaration right after the first, each arriving whole
        // in one read, gets its own 400 with its own numbers
        {
            let g = sim.connect(rec);
            sim.poll(rec);
            let lim = l2; // the limit in force when g was accepted
            let mut got_all = true;
            for (k, extra) in [(0usize, 1usize), (1, 7)] {
                let n_decl = lim + extra;
                let head = format!("PUT /c{}/v{} HTTP/1.1\r\nContent-Length: {}\r\n\r\n", g, k, n_decl);
                sim.w.clients[g].received.clear();
                sim.w.send(rec, g, head.as_bytes());
                sim.plans[g].sent_garbage = true;
                for _ in 0..3 {
                    sim.poll(rec);
                }
                sim.w.client_read(rec, g);
                let (resps, _) = split_responses(&sim.w.clients[g].received);
                let ok = resps.len() == 1
                    && resps[0].0 == 400
                    && String::from_utf8_lossy(&resps[0].1).contains(&format!("size {} ", n_decl))
                    && String::from_utf8_lossy(&resps[0].1).contains(&format!("limit of {} ", lim));
                if !ok {
                    got_all = false;
                    rec.oracle_fail("C04", &format!("violation number {} on one connection (limit {}, declared {}): received {:?}", k + 1, lim, n_decl, resps.iter().map(|r| (r.0, String::from_utf8_lossy(&r.1).to_string())).collect::<Vec<_>>()), &sim.w.log);
                }
            }
            let _ = got_all;
        }
        // C13 through the server: the client receives 100 Continue without having sent the body
        let c = sim.connect(rec);
        sim.poll(rec);
        let v11 = rng.chance(1, 2);
        let head = format!("PUT /c{}/r0 HTTP/1.{}\r\nExpect: 100-continue\r\nContent-Length: 3\r\n\r\n", c, if v11 { 1 } else { 0 });
        sim.w.send(rec, c, head.as_bytes());
        for _ in 0..3 {
            sim.poll(rec);
        }
        sim.w.client_read(rec, c);
        let want: &[u8] = if v11 { crate::suites::connsuites::CONT11 } else { crate::suites::connsuites::CONT10 };
        if sim.w.clients[c].received != want {
            rec.oracle_fail("C13", &format!("client received {} before sending the body", hx(&sim.w.clients[c].received)), &sim.w.log);
        }
        sim.w.send(rec, c, b"abc");
        for _ in 0..3 {
            sim.poll(rec);
        }
        if !sim.w.yielded.iter().any(|(_, t)| *t == format!("/c{}/r0", c)) {
            rec.oracle_fail("C13", "the request was not yielded once its body arrived", &sim.w.log);
        }
        sim.plans[c].sent = vec![tag(c, 0)];
        // C13, pipelined: an earlier complete request and the Expect header block arrive in the SAME read, the
        // application has not answered the earlier one yet and the client withholds the body: it still gets its 100
        let e = sim.connect(rec);
        sim.poll(rec);
        let v11 = rng.chance(1, 2);
        let both = format!(
            "GET /c{}/r0 HTTP/1.1\r\n\r\nPUT /c{}/r1 HTTP/1.{}\r\nExpect: 100-continue\r\nContent-Length: 3\r\n\r\n",
            e, e, if v11 { 1 } else { 0 }
        );
        sim.w.send(rec, e, both.as_bytes());
        for _ in 0..3 {
            sim.poll(rec);
        }
        sim.w.client_read(rec, e);
        let want: &[u8] = if v11 { crate::suites::connsuites::CONT11 } else { crate::suites::connsuites::CONT10 };
        if sim.w.clients[e].received != want {
            rec.oracle_fail("C13", &format!("pipelined behind an unanswered request: client received {} before sending the body", hx(&sim.w.clients[e].received)), &sim.w.log);
        }
        sim.w.send(rec, e, b"abc");
        for _ in 0..3 {
            sim.poll(rec);
        }
        if !sim.w.yielded.iter().any(|(_, t)| *t == format!("/c{}/r1", e)) {
            rec.oracle_fail("C13", "the pipelined request was not yielded once its body arrived", &sim.w.log);
        }
        sim.plans[e].sent = vec![tag(e, 0), tag(e, 1)];
        // C11, pipelined: a valid request and a malformed one in the SAME read: the 400 covers both ("all previous
        // unanswered requests will be dropped"); what is read afterwards is handled as by a fresh connection —
        // exactly the later request is yielded, the dropped one never reappears
        let f = sim.connect(rec);
        sim.poll(rec);
        // one to three valid requests in front of the malformed one: ALL of them are dropped with the 400
        let mut two = String::new();
        for k in 0..rng.range(1, 3) {
            two.push_str(&format!("GET /c{}/dropped{} HTTP/1.1\r\n\r\n", f, k));
        }
        two.push_str("BOGUS\r\n\r\n");
        sim.w.send(rec, f, two.as_bytes());
        sim.plans[f].sent_garbage = true;
        for _ in 0..3 {
            sim.poll(rec);
        }
        sim.w.client_read(rec, f);
        let later = format!("GET /c{}/later HTTP/1.1\r\n\r\n", f);
        sim.w.send(rec, f, later.as_bytes());
        for _ in 0..3 {
            sim.poll(rec);
        }
        let mine: Vec<String> = sim.w.yielded.iter().filter(|(_, t)| t.starts_with(&format!("/c{}/", f))).map(|(_, t)| t.clone()).collect();
        if mine != vec![format!("/c{}/later", f)] {
            rec.oracle_fail("C11", &format!("after a 400 that covered a valid and a malformed request, a later request was sent: yielded {:?}", mine), &sim.w.log);
        }
        // C04 behind MANY interim responses: 16 / 17 / 40 small in-limit requests with Expect (each complete) and then an
        // oversized declaration, all in one write: the client receives every 100 Continue AND the 400 with both numbers
        for n_small in [16usize, 17, 40] {
            let g = sim.connect(rec);
            sim.poll(rec);
            let lim = l2;
            let mut bytes = vec![];
            for _ in 0..n_small {
                bytes.extend_from_slice(b"PUT /a HTTP/1.1\r\nExpect: 100-continue\r\nContent-Length: 1\r\n\r\nx");
            }
            bytes.extend_from_slice(b"PUT /b HTTP/1.1\r\nContent-Length: 99999\r\n\r\n");
            sim.w.send(rec, g, &bytes);
            sim.plans[g].sent_garbage = true;
            for _ in 0..(n_small + bytes.len() / 1024 + 6) {
                sim.poll(rec);
                sim.w.client_read(rec, g);
            }
            let (resps, _) = split_responses(&sim.w.clients[g].received);
            let n100 = resps.iter().filter(|r| r.0 == 100).count();
            let bad: Vec<&(u16, Vec<u8>)> = resps.iter().filter(|r| r.0 == 400).collect();
            let ok = bad.len() == 1
                && String::from_utf8_lossy(&bad[0].1).contains("size 99999 ")
                && String::from_utf8_lossy(&bad[0].1).contains(&format!("limit of {} ", lim))
                && n100 >= 1;
            if !ok {
                rec.oracle_fail("C04", &format!("{} small Expect requests and an oversized declaration in one write (limit {}): the client received {} interim responses and {} responses with status 400", n_small, lim, n100, bad.len()), &sim.w.log);
            }
            // the requests in front of the violation are dropped with it or were yielded before it was read: answer what is
            // held, then the client leaves and its slot is free again for the scenarios below
            while let Some(k) = sim.w.held.iter().position(|h| h.client == Some(g)) {
                sim.respond(rec, rng, k);
            }
            sim.w.close(rec, g);
            for _ in 0..3 {
                sim.poll(rec);
            }
        }
        // C11 with a request in flight across the 400: R0 yielded and not yet answered, a malformed request (400), a
        // later well-formed request B; the application answers B FIRST, then R0 — the client receives the 400 and both
        // answers (the rejected request takes nothing away from the requests around it)
        {
            let g = sim.connect(rec);
            sim.poll(rec);
            sim.w.send(rec, g, format!("GET /c{}/r0 HTTP/1.1\r\n\r\n", g).as_bytes());
            for _ in 0..2 {
                sim.poll(rec);
            }
            sim.w.send(rec, g, b"BOGUS /x HTTP/1.1\r\n\r\n");
            sim.plans[g].sent_garbage = true;
            for _ in 0..2 {
                sim.poll(rec);
            }
            sim.w.send(rec, g, format!("GET /c{}/r1 HTTP/1.1\r\n\r\n", g).as_bytes());
            for _ in 0..2 {
                sim.poll(rec);
            }
            for want in [format!("/c{}/r1", g), format!("/c{}/r0", g)] {
                if let Some(k) = sim.w.held.iter().position(|h| h.tag == want) {
                    sim.respond(rec, rng, k);
                    sim.poll(rec);
                } else {
                    rec.oracle_fail("C11", &format!("{} was not yielded (a request in flight, a rejected one, a later one)", want), &sim.w.log);
                }
            }
            for _ in 0..3 {
                sim.poll(rec);
            }
            sim.w.client_read(rec, g);
            let (resps, _) = split_responses(&sim.w.clients[g].received);
            let codes: Vec<u16> = resps.iter().map(|r| r.0).collect();
            let bodies: Vec<String> = resps.iter().filter(|r| r.0 == 200).map(|r| String::from_utf8_lossy(&r.1).split(':').next().unwrap_or("").to_string()).collect();
            if codes != vec![400, 200, 200] || bodies != vec![format!("/c{}/r1", g), format!("/c{}/r0", g)] {
                rec.oracle_fail("C11", &format!("a request in flight across a 400, answers supplied later-first: the client received statuses {:?} with answers {:?}", codes, bodies), &sim.w.log);
            }
        }
        // C13 after descriptor reuse: a client gets an answer queued (the server now waits to WRITE to it) and goes
        // away before the poll; the next client inherits its descriptor number, asks with Expect and withholds the body
        {
            let x = sim.connect(rec);
            sim.poll(rec);
            sim.w.send(rec, x, format!("GET /c{}/r0 HTTP/1.1\r\n\r\n", x).as_bytes());
            sim.plans[x].sent = vec![tag(x, 0)];
            for _ in 0..2 {
                sim.poll(rec);
            }
            if let Some(k) = sim.w.held.iter().position(|h| h.client == Some(x)) {
                sim.respond(rec, rng, k);
            }
            sim.w.close(rec, x);
            for _ in 0..3 {
                sim.poll(rec);
            }
            let y = sim.connect(rec);
            sim.poll(rec);
            let head = format!("PUT /c{}/r0 HTTP/1.1\r\nExpect: 100-continue\r\nContent-Length: 3\r\n\r\n", y);
            sim.w.send(rec, y, head.as_bytes());
            for _ in 0..3 {
                sim.poll(rec);
            }
            sim.w.client_read(rec, y);
            if sim.w.clients[y].received != crate::suites::connsuites::CONT11 {
                rec.oracle_fail("C13", &format!("on a descriptor number inherited from a connection that died with output queued: client received {} before sending the body", hx(&sim.w.clients[y].received)), &sim.w.log);
            }
            sim.w.send(rec, y, b"abc");
            for _ in 0..3 {
                sim.poll(rec);
            }
            sim.plans[y].sent = vec![tag(y, 0)];
        }
        sim.settle(rec, rng);
        sim.w.teardown();
    }
}

/// Histories with faults injected at the libc boundary (inject.rs): a read that ends the stream or fails on an
/// `IN` event without hang-up flag, writes that return zero / EINTR / EAGAIN / EPIPE / a short count. These are the
/// paths of `ClientConnection::{read,write}` a real AF_UNIX peer cannot be made to reach on demand.
/// Oracles: `requests()` never fails or panics; the witness is served in full (it only ever sees faults a correct
/// server rides out); a 500 reaches only a client whose read failed; a connection the server was told has ended
/// is released once its requests are answered; every client still receives only its own responses, in order.
pub fn srv_fault(rec: &mut Rec, rng: &mut Rng, thorough: bool) {
    let n = if thorough { 2500 } else { 110 };
    for k in 0..n {
        let mut cfg = Cfg::base("C09");
        cfg.steps = rng.range(25, 70);
        cfg.max_clients = rng.range(2, 4);
        cfg.witness = true;
        cfg.reconnect = true;
        cfg.w_fault = 130;
        cfg.w_close = if k % 2 == 0 { 15 } else { 0 };
        cfg.w_garbage = if k % 3 == 0 { 15 } else { 0 };
        cfg.big = k % 4 == 0;
        let mut sim = run_history(rec, rng, cfg, "faults");
        witness_rounds(rec, rng, &mut sim);
        sim.settle(rec, rng);
        common_checks(rec, &mut sim, "C09");
        release_check(rec, &mut sim, "C09");
        if sim.w.faults_taken > 0 {
            rec.nontrivial();
        }
        rec.count(&format!("faults-taken:{}", sim.w.faults_taken.min(9)));
        sim.w.teardown();
    }
}

/// Bounded-exhaustive server histories ("small scope"): two accepted clients A and B, then EVERY sequence of up to
/// `depth` steps over a fixed alphabet — A sends a request (whole / in two halves / an Expect head and later its
/// body / garbage), A closes or half-closes, B sends a request, a poll, the application answers the oldest or the
/// newest request it holds, A reads, a third client connects, flush. The random suites reach orderings such as
/// "answer between two polls", "close before / after the answer", "respond newest first" only by chance; here every
/// ordering of short length is visited. Then the history is settled and the usual oracles are evaluated: polls
/// never fail, nobody receives a foreign or duplicate response, well-behaved clients get every request yielded once
/// and every response in full, departed clients are released once answered, the epoll descriptor falls silent.
pub fn srv_enum(rec: &mut Rec, rng: &mut Rng, thorough: bool) {
    let n_ops = 13usize;
    // 13 + 13^2 + 13^3 = 2 379 histories in the quick tier, 30 940 with depth 4 (about a minute) in the thorough tier
    let depth = std::env::var("MH_ENUM_DEPTH").ok().and_then(|v| v.parse().ok()).unwrap_or(if thorough { 4 } else { 3 });
    let mut idx: Vec<usize> = vec![0];
    let mut len = 1;
    loop {
        rec.case("srv-enum");
        let mut cfg = Cfg::base("C09");
        cfg.max_clients = 4;
        let mut sim = Sim::new(rec, cfg);
        let a = sim.connect(rec);
        let b = sim.connect(rec);
        sim.poll(rec);
        sim.poll(rec);
        let mut half = false; // A sent the first half of a request
        let mut awaiting_body = false; // A sent an Expect head and owes the body
        let send_whole = |sim: &mut Sim, rec: &mut Rec, i: usize| {
            let j = sim.plans[i].next_req;
            sim.plans[i].next_req += 1;
            let t = tag(i, j);
            let ok = sim.w.send(rec, i, format!("GET {} HTTP/1.1\r\nHost: h\r\n\r\n", t).as_bytes());
            if ok {
                sim.plans[i].sent.push(t);
            } else {
                sim.plans[i].sent_garbage = true;
                sim.w.clients[i].misbehaved = true;
            }
        };
        for &k in &idx {
            if sim.w.server.is_none() {
                break;
            }
            let a_open = sim.w.clients[a].sock.is_some() && !sim.w.clients[a].wr_shut;
            match k {
                0 => {
                    if a_open && !half && !awaiting_body {
                        send_whole(&mut sim, rec, a);
                    }
                }
                1 => {
                    if a_open && !awaiting_body {
                        if !half {
                            let j = sim.plans[a].next_req;
                            let t = tag(a, j);
                            sim.w.send(rec, a, format!("PATCH {} HT", t).as_bytes());
                            half = true;
                        } else {
                            let j = sim.plans[a].next_req;
                            sim.plans[a].next_req += 1;
                            if sim.w.send(rec, a, b"TP/1.0\r\nX-K: v\r\n\r\n") {
                                sim.plans[a].sent.push(tag(a, j));
                            }
                            half = false;
                        }
                    }
                }
                2 => {
                    if a_open && !half {
                        if !awaiting_body {
                            let j = sim.plans[a].next_req;
                            let t = tag(a, j);
                            sim.w.send(rec, a, format!("PUT {} HTTP/1.1\r\nExpect: 100-continue\r\nContent-Length: 2\r\n\r\n", t).as_bytes());
                            awaiting_body = true;
                        } else {
                            let j = sim.plans[a].next_req;
                            sim.plans[a].next_req += 1;
                            if sim.w.send(rec, a, b"ab") {
                                sim.plans[a].sent.push(tag(a, j));
                            }
                            awaiting_body = false;
                        }
                    }
                }
                3 => {
                    if a_open {
                        sim.plans[a].sent_garbage = true;
                        sim.plans[a].outq.clear();
                        sim.w.clients[a].misbehaved = true;
                        sim.w.send(rec, a, b"BAD\r\n\r\n");
                    }
                }
                4 => {
                    if sim.w.clients[a].sock.is_some() {
                        sim.w.close(rec, a);
                    }
                }
                5 => {
                    if a_open {
                        sim.w.shutdown(rec, a, Shutdown::Write);
                    }
                }
                6 => send_whole(&mut sim, rec, b),
                7 => {
                    sim.poll(rec);
                }
                8 => {
                    if !sim.w.held.is_empty() {
                        sim.respond(rec, rng, 0);
                    }
                }
                9 => {
                    // the newest request — but never out of order for one client (A1 / in-order clause): the newest
                    // request of the client whose OLDEST request it is
                    if let Some(last) = sim.w.held.last() {
                        let c = last.client;
                        let first_of_c = sim.w.held.iter().position(|h| h.client == c).unwrap();
                        sim.respond(rec, rng, first_of_c);
                    }
                }
                10 => {
                    if sim.w.clients[a].sock.is_some() {
                        sim.w.client_read(rec, a);
                    }
                }
                11 => {
                    if sim.w.clients.len() < 4 {
                        sim.connect(rec);
                    }
                }
                _ => {
                    sim.w.flush(rec);
                }
            }
        }
        // a request A left unfinished makes A no well-behaved client for the final oracles (nothing is owed for it)
        if half || awaiting_body {
            sim.w.clients[a].misbehaved = true;
        }
        drain_and_check_supplied(rec, &mut sim, "C08");
        sim.settle(rec, rng);
        common_checks(rec, &mut sim, "C09");
        check_yield_once(rec, &sim);
        release_check(rec, &mut sim, "C09");
        if sim.w.server.is_some() && sim.w.backlog.is_empty() && sim.w.held.is_empty() && sim.w.ready() {
            // only connections whose client is still there and silent may remain: nothing must signal
            rec.oracle_fail("C08", "the epoll descriptor still signals after the history was settled", &sim.w.log);
        }
        if idx.len() >= 2 {
            rec.nontrivial();
        }
        sim.w.teardown();
        // next sequence (odometer)
        let mut pos = idx.len();
        loop {
            if pos == 0 {
                len += 1;
                idx = vec![0; len];
                break;
            }
            pos -= 1;
            idx[pos] += 1;
            if idx[pos] < n_ops {
                break;
            }
            idx[pos] = 0;
        }
        if len > depth {
            break;
        }
    }
}
