//! C15 — header rules: `Headers::{parse_header_line, try_from}`, `Encoding::try_from`.
use crate::emit::Rec;
use crate::gen;
use crate::rng::Rng;
use crate::show::*;
use micro_http::{Encoding, Headers, HttpHeaderError, RequestError};
use std::panic::{catch_unwind, AssertUnwindSafe};

pub fn op_enc(rec: &mut Rec, bs: &[u8]) {
    let op = format!("enc {}", hx(bs));
    match catch_unwind(AssertUnwindSafe(|| Encoding::try_from(bs))) {
        Err(_) => {
            rec.oracle_fail("C03", "Encoding::try_from panicked", &[op.clone()]);
            rec.op(&op, "PANIC");
        }
        Ok(res) => {
            // the rule of the property, written out independently of the implementation
            let expect_reject = match std::str::from_utf8(bs) {
                Err(_) => true,
                Ok(s) => {
                    bs.is_empty()
                        || s.split(',').any(|item| {
                            let t = item.trim();
                            t == "identity;q=0" || (t == "*;q=0" && !s.contains("identity"))
                        })
                }
            };
            if res.is_err() != expect_reject {
                rec.oracle_fail("C15", &format!("Accept-Encoding value {:?}: rejected = {}, the rule says {}", String::from_utf8_lossy(bs), res.is_err(), expect_reject), &[op.clone()]);
            }
            match res {
                Ok(()) => rec.op(&op, "ok"),
                Err(e) => {
                    rec.count(&format!("enc:{}", show_req_err(&e).split('(').next().unwrap()));
                    rec.op(&op, &format!("err {}", show_req_err(&e)))
                }
            }
        }
    }
}


/// The header rules of C15 written out from the property text, independently of the implementation
/// (only `str::trim` — "whitespace" — and UTF-8 validation come from std). `None` = the block is rejected.
pub struct RuleState {
    pub cl: u32,
    pub ex: bool,
    pub ch: bool,
    pub ac_json: bool,
    pub cu: std::collections::BTreeMap<Vec<u8>, Vec<u8>>,
}

/// "unsigned 32-bit decimal": an optional `+`, at least one ASCII digit, value at most 2^32 - 1
fn u32_decimal(s: &str) -> Option<u32> {
    let d = s.strip_prefix('+').unwrap_or(s);
    if d.is_empty() || !d.bytes().all(|b| b.is_ascii_digit()) {
        return None;
    }
    let mut v: u64 = 0;
    for b in d.bytes() {
        v = v * 10 + (b - b'0') as u64;
        if v > u32::MAX as u64 {
            return None;
        }
    }
    Some(v as u32)
}

pub fn rule_block(lines: &[Vec<u8>]) -> Option<RuleState> {
    let mut st = RuleState { cl: 0, ex: false, ch: false, ac_json: false, cu: Default::default() };
    for l in lines {
        if l.is_empty() {
            break; // the block ends at its first empty line
        }
        let text = std::str::from_utf8(l).ok()?; // non-UTF-8 bytes reject
        let colon = text.find(':')?; // a line without a colon rejects
        let (name, value) = (&text[..colon], &text[colon + 1..]);
        let key = name.trim().to_ascii_lowercase();
        let v = value.trim();
        match key.as_str() {
            "content-length" => st.cl = u32_decimal(v)?,
            "accept-encoding" => {
                if v.is_empty() {
                    return None;
                }
                for item in v.split(',') {
                    let t = item.trim();
                    if t == "identity;q=0" || (t == "*;q=0" && !v.contains("identity")) {
                        return None;
                    }
                }
            }
            "expect" => {
                if v == "100-continue" {
                    st.ex = true;
                }
            }
            "transfer-encoding" => {
                if v == "chunked" {
                    st.ch = true;
                }
            }
            "accept" => match v {
                "text/plain" => st.ac_json = false,
                "application/json" => st.ac_json = true,
                _ => {}
            },
            "content-type" | "server" => {}
            _ => {
                st.cu.insert(name.trim().as_bytes().to_vec(), v.as_bytes().to_vec());
            }
        }
    }
    Some(st)
}

pub fn rule_show(st: &RuleState) -> String {
    let cu: Vec<String> = st.cu.iter().map(|(k, v)| format!("{}:{}", hx(k), hx(v))).collect();
    format!("cl={} ex={} ch={} ac={} cu=[{}]", st.cl, b01(st.ex), b01(st.ch), if st.ac_json { "json" } else { "plain" }, cu.join(","))
}

fn is_unsupported_value(e: &RequestError) -> bool {
    matches!(e, RequestError::HeaderError(HttpHeaderError::UnsupportedValue(_, _)))
}

/// One block of header lines: line-by-line ops, then the block op, and the C15 oracles.
pub fn block_case(rec: &mut Rec, rng: &mut Rng, lines: &[Vec<u8>], descr: &str) {
    rec.case(descr);
    let mut log = vec!["hdrnew".to_string()];
    rec.op("hdrnew", "ok");
    let mut h = Headers::default();
    // expected result of the block according to "parse its lines one by one"
    let mut folded: Result<(), String> = Ok(());
    let mut stopped = false;
    let mut fold_h = Headers::default();
    for l in lines {
        let op = format!("hdrline {}", hx(l));
        log.push(op.clone());
        let r = catch_unwind(AssertUnwindSafe(|| h.parse_header_line(l)));
        match r {
            Err(_) => {
                rec.oracle_fail("C03", "parse_header_line panicked", &log);
                rec.op(&op, "PANIC");
                return;
            }
            Ok(Ok(())) => {
                rec.count("line:ok");
                // "a line with non-UTF-8 bytes is rejected" — wherever the bad bytes stand (name, value, custom header)
                if std::str::from_utf8(l).is_err() {
                    rec.oracle_fail("C15", "parse_header_line accepted a line that is not valid UTF-8", &log);
                }
                rec.op(&op, &format!("ok {}", show_headers(&h)));
            }
            Ok(Err(e)) => {
                let t = show_req_err(&e);
                rec.count(&format!("line:{}", t.split(|c| c == ',' || c == ')').next().unwrap_or("")
                    .split('(').take(2).collect::<Vec<_>>().join("(")));
                rec.nontrivial();
                rec.op(&op, &format!("err {} {}", t, show_headers(&h)));
            }
        }
        // the fold (independent instance)
        if !stopped && folded.is_ok() {
            if l.is_empty() {
                stopped = true;
            } else {
                match catch_unwind(AssertUnwindSafe(|| fold_h.parse_header_line(l))) {
                    Ok(Ok(())) => {}
                    Ok(Err(e)) if is_unsupported_value(&e) => {}
                    Ok(Err(e)) => folded = Err(show_req_err(&e)),
                    Err(_) => folded = Err("PANIC".to_string()),
                }
            }
        }
    }
    // the block
    let mut block = Vec::new();
    for (i, l) in lines.iter().enumerate() {
        if i > 0 {
            block.extend_from_slice(b"\r\n");
        }
        block.extend_from_slice(l);
    }
    match rng.below(3) {
        0 => {}
        1 => block.extend_from_slice(b"\r\n"),
        _ => block.extend_from_slice(b"\r\n\r\n"),
    }
    let op = format!("hdrblock {}", hx(&block));
    log.push(op.clone());
    let r = catch_unwind(AssertUnwindSafe(|| Headers::try_from(&block)));
    let expected: Result<String, String> = if std::str::from_utf8(&block).is_err() {
        Err("InvalidRequest".to_string())
    } else {
        folded.map(|_| show_headers(&fold_h))
    };
    match r {
        Err(_) => {
            rec.oracle_fail("C03", "Headers::try_from panicked", &log);
            rec.op(&op, "PANIC");
        }
        Ok(res) => {
            let got: Result<String, String> = match &res {
                Ok(h) => Ok(show_headers(h)),
                Err(e) => Err(show_req_err(e)),
            };
            // "parsing a header block equals parsing its lines one by one" — but a line of the block
            // cannot contain CRLF, so only compare when no line contains one
            let clean = lines.iter().all(|l| !l.windows(2).any(|w| w == b"\r\n"));
            if clean && got != expected {
                rec.oracle_fail("C15", &format!("block result {:?} differs from line-by-line result {:?}", got, expected), &log);
            }
            // the rules of the property evaluated independently of the implementation
            if clean {
                let rule = if std::str::from_utf8(&block).is_err() { None } else { rule_block(lines) };
                match (&got, &rule) {
                    (Ok(t), Some(st)) => {
                        if *t != rule_show(st) {
                            rec.oracle_fail("C15", &format!("the block was parsed to {} but the header rules give {}", t, rule_show(st)), &log);
                        }
                    }
                    (Err(e), Some(st)) => {
                        rec.oracle_fail("C15", &format!("the block was rejected ({}) but the header rules accept it as {}", e, rule_show(st)), &log);
                    }
                    (Ok(t), None) => {
                        rec.oracle_fail("C15", &format!("the block was accepted as {} but the header rules reject it", t), &log);
                    }
                    (Err(_), None) => {}
                }
            }
            match got {
                Ok(t) => rec.op(&op, &format!("ok {}", t)),
                Err(t) => {
                    rec.count("block:err");
                    rec.op(&op, &format!("err {}", t))
                }
            }
        }
    }
}

/// metamorphic: the same field with the name in another letter case / with padding gives the same headers
pub fn name_case_oracle(rec: &mut Rec, rng: &mut Rng) {
    let i = rng.below(gen::REC_NAMES.len());
    let name = gen::REC_NAMES[i];
    let val = *rng.pick(gen::values_for(i));
    let run = |n: &str, v: &str| -> Result<String, String> {
        let mut h = Headers::default();
        match catch_unwind(AssertUnwindSafe(|| h.parse_header_line(format!("{}:{}", n, v).as_bytes()))) {
            Ok(Ok(())) => Ok(show_headers(&h)),
            Ok(Err(e)) => Err(show_req_err(&e).split(|c| c == '(').take(2).collect::<Vec<_>>().join("(")
                .split(',').next().unwrap_or("").to_string()),
            Err(_) => Err("PANIC".to_string()),
        }
    };
    let base = run(name, val);
    let variant_name = format!("{}{}{}", rng.pick(&gen::PADS), gen::case_pattern(rng, name), rng.pick(&gen::PADS));
    let variant_val = format!("{}{}{}", rng.pick(&gen::PADS), val, rng.pick(&gen::PADS));
    let var = run(&variant_name, &variant_val);
    // error payloads carry the raw strings, so compare the kind of error only (already cut above)
    let same = match (&base, &var) {
        (Ok(a), Ok(b)) => a == b,
        (Err(a), Err(b)) => a.split('(').take(2).collect::<Vec<_>>() == b.split('(').take(2).collect::<Vec<_>>(),
        _ => false,
    };
    if !same {
        rec.oracle_fail(
            "C15",
            &format!("{:?}:{:?} -> {:?} but {:?}:{:?} -> {:?}", name, val, base, variant_name, variant_val, var),
            &["hdrnew".into(), format!("hdrline {}", hx(format!("{}:{}", variant_name, variant_val).as_bytes()))],
        );
    }
}

/// the public setters of `Headers` (`set_accept`, `insert_custom_header`) mixed with parsed lines: a value set
/// directly is kept until a later line or call replaces it, a custom key is stored exactly as given
fn setter_case(rec: &mut Rec, rng: &mut Rng) {
    rec.case("setters");
    rec.nontrivial();
    rec.op("hdrnew", "ok");
    let mut h = Headers::default();
    let mut log = vec!["hdrnew".to_string()];
    let keys: [&str; 5] = ["X-A", "x-a", "Accept", " padded ", ""];
    for _ in 0..rng.range(2, 7) {
        match rng.below(3) {
            0 => {
                let json = rng.chance(1, 2);
                h.set_accept(if json { micro_http::MediaType::ApplicationJson } else { micro_http::MediaType::PlainText });
                let op = format!("hdrsetaccept {}", if json { "json" } else { "plain" });
                log.push(op.clone());
                rec.op(&op, &format!("ok {}", show_headers(&h)));
                if (h.accept() == micro_http::MediaType::ApplicationJson) != json {
                    rec.oracle_fail("C15", "set_accept did not set the Accept media type", &log);
                }
            }
            1 => {
                let k = *rng.pick(&keys);
                let v = *rng.pick(&["v1", "", " v ", "\u{e9}"]);
                let _ = h.insert_custom_header(k.to_string(), v.to_string());
                let op = format!("hdrinsert {} {}", hx(k.as_bytes()), hx(v.as_bytes()));
                log.push(op.clone());
                rec.op(&op, &format!("ok {}", show_headers(&h)));
                if h.custom_entries().get(k).map(|x| x.as_str()) != Some(v) {
                    rec.oracle_fail("C15", "insert_custom_header did not store the pair as given", &log);
                }
            }
            _ => {
                let l: &[u8] = *rng.pick(&[&b"Accept: application/json"[..], b"Accept: text/plain", b"X-A: parsed", b"x-a:other", b"Content-Length: 7"]);
                let op = format!("hdrline {}", hx(l));
                log.push(op.clone());
                match h.parse_header_line(l) {
                    Ok(()) => rec.op(&op, &format!("ok {}", show_headers(&h))),
                    Err(e) => rec.op(&op, &format!("err {} {}", show_req_err(&e), show_headers(&h))),
                }
            }
        }
    }
}

pub fn run(rec: &mut Rec, rng: &mut Rng, thorough: bool) {
    for _ in 0..(if thorough { 3000 } else { 150 }) {
        setter_case(rec, rng);
    }
    // Encoding::try_from over its alphabet
    rec.case("encodings");
    for v in gen::AE_VALUES {
        for a in gen::PADS {
            for b in gen::PADS {
                op_enc(rec, format!("{}{}{}", a, v, b).as_bytes());
            }
        }
    }
    op_enc(rec, &[0xff]);
    op_enc(rec, b"identity;q=0\xc3");
    let items = ["identity;q=0", "*;q=0", "identity", "gzip", " ", "", "*", "identity;q=1"];
    for a in items {
        for b in items {
            op_enc(rec, format!("{},{}", a, b).as_bytes());
            for c in items {
                op_enc(rec, format!("{}, {} ,{}", a, b, c).as_bytes());
            }
        }
    }
    // exhaustive: every recognised name x its values, plain and padded, as single-line blocks
    for (i, name) in gen::REC_NAMES.iter().enumerate() {
        for v in gen::values_for(i) {
            for pad in ["", " ", "\u{a0}", "\u{0}", "\u{b}", "\u{1f}"] {
                let line = format!("{}{}{}:{}{}{}", pad, name, pad, pad, v, pad).into_bytes();
                block_case(rec, rng, &[line], "single");
                let line = format!("{}:{}", name.to_ascii_uppercase(), v).into_bytes();
                block_case(rec, rng, &[line], "single-upper");
            }
        }
    }
    // pairs of lines with the same recognised name (last / any occurrence rules)
    for (i, name) in gen::REC_NAMES.iter().enumerate() {
        let vals = gen::values_for(i);
        for a in vals {
            for b in vals {
                let l1 = format!("{}: {}", name, a).into_bytes();
                let l2 = format!("{}:{}", name.to_ascii_lowercase(), b).into_bytes();
                block_case(rec, rng, &[l1, l2], "pair");
            }
        }
    }
    // custom fields: same name twice (last wins), names that differ only in letter case or padding (distinct / same field)
    for (a, b) in [("X-Trace", "X-Trace"), ("X-Trace", "x-trace"), ("x-trace", "X-TRACE"), ("X-Trace", " X-Trace "), ("Host", "host"), ("Content-Lengthh", "content-lengthh")] {
        for (va, vb) in [("1", "2"), ("same", "same"), ("", "x")] {
            let l1 = format!("{}: {}", a, va).into_bytes();
            let l2 = format!("{}:{}", b, vb).into_bytes();
            block_case(rec, rng, &[l1.clone(), l2.clone()], "custom-pair");
            block_case(rec, rng, &[l2, b"Accept: text/plain".to_vec(), l1], "custom-pair");
        }
    }
    // near misses of the recognised names: every byte of every recognised name replaced by its 0x20-flipped twin and by
    // the byte with bit 0x20 cleared ('-' -> CR, letters -> other case, ...): only letter case may differ, nothing else
    for (i, name) in gen::REC_NAMES.iter().enumerate() {
        let v = gen::values_for(i).first().cloned().unwrap_or("x");
        let nb = name.as_bytes();
        for pos in 0..nb.len() {
            for twin in [nb[pos] ^ 0x20, nb[pos] & !0x20, nb[pos] | 0x80, nb[pos].wrapping_add(1)] {
                if twin == nb[pos] || twin == b'\n' || twin == b':' {
                    continue;
                }
                let mut line = nb.to_vec();
                line[pos] = twin;
                line.extend_from_slice(b": ");
                line.extend_from_slice(v.as_bytes());
                block_case(rec, rng, &[line, b"X-After: 1".to_vec()], "name-near-miss");
            }
        }
    }
    // long names, long values, many lines: nothing in the header rules has a length or a count limit of its own
    for len in [15usize, 16, 17, 18, 31, 32, 33, 63, 64, 65, 127, 128, 129, 255, 256, 257, 600, 3000] {
        let name = format!("X-{}", "n".repeat(len - 2));
        let value = "v".repeat(len);
        block_case(rec, rng, &[format!("{}: short", name).into_bytes()], "long-name");
        block_case(rec, rng, &[format!("X-Short: {}", value).into_bytes()], "long-value");
        block_case(rec, rng, &[format!("{}: {}", name, value).into_bytes(), format!("{}: second", name).into_bytes()], "long-both");
        // a long recognised-looking name: a recognised name followed by more characters is a custom field
        for rec_name in ["Transfer-Encoding", "Content-Length", "Accept-Encoding", "Expect"] {
            let longer = format!("{}{}", rec_name, "-x".repeat(len / 2));
            block_case(rec, rng, &[format!("{}: chunked", longer).into_bytes(), b"Content-Length: 3".to_vec()], "long-lookalike");
        }
        // padding of that length around a recognised value
        block_case(rec, rng, &[format!("Content-Length:{}7{}", " ".repeat(len), " ".repeat(len / 3)).into_bytes()], "long-padding");
    }
    for count in [7usize, 16, 17, 32, 33, 64, 65, 100, 128, 129, 255, 256, 257, 400] {
        let mut lines: Vec<Vec<u8>> = (0..count).map(|k| format!("X-Field-{}: value-{}", k, k).into_bytes()).collect();
        lines.insert(count / 2, b"Content-Length: 9".to_vec());
        lines.push(b"Expect: 100-continue".to_vec());
        block_case(rec, rng, &lines, "many-lines");
    }
    // blocks as the heads of successive requests on one connection (rejected ones in between)
    {
        let fatal: [&[u8]; 5] = [b"no colon here", b"Content-Length: x", b"Accept-Encoding: identity;q=0", b"X-Bad: \xff\xfe", b"Content-Length: -1"];
        let carried: [&[u8]; 7] = [b"Accept: text/plain", b"Content-Length: 5", b"Expect: 100-continue", b"Transfer-Encoding: chunked",
            b"X-Left-Over: 1", b"Accept-Encoding: gzip", b"Content-Type: text/plain"];
        for f in fatal {
            for c in carried {
                for pos in 0..2 {
                    let first: Vec<Vec<u8>> = if pos == 0 { vec![c.to_vec(), f.to_vec()] } else { vec![c.to_vec(), b"X-Mid: m".to_vec(), f.to_vec(), c.to_vec()] };
                    blocks_on_one_connection(rec, rng, &[first.clone(), vec![], vec![b"X-Own: 2".to_vec()]], "conn-after-rejected-head");
                    blocks_on_one_connection(rec, rng, &[vec![c.to_vec()], first, vec![b"Accept: application/json".to_vec()], vec![]], "conn-after-rejected-head");
                }
            }
        }
        for _ in 0..(if thorough { 6000 } else { 400 }) {
            let nb = 2 + rng.below(4);
            let blocks: Vec<Vec<Vec<u8>>> = (0..nb).map(|_| {
                let nl = rng.below(5);
                (0..nl).map(|_| gen::header_line(rng, true)).filter(|l| !l.is_empty() && !l.contains(&b'\n') && !l.contains(&b'\r') && l.len() < 200).collect()
            }).collect();
            blocks_on_one_connection(rec, rng, &blocks, "conn-random-heads");
        }
    }
    // random blocks of 0..6 lines
    let n = if thorough { 150000 } else { 6000 };
    for k in 0..n {
        let nl = rng.below(7);
        let mut lines = vec![];
        for _ in 0..nl {
            if rng.chance(1, 25) {
                lines.push(vec![]);
            } else {
                lines.push(gen::header_line(rng, true));
            }
        }
        block_case(rec, rng, &lines, "random");
        if k % 3 == 0 {
            name_case_oracle(rec, rng);
        }
    }
}

/// Several header blocks, one after the other, as the heads of requests on ONE connection — accepted and rejected
/// ones mixed: what each delivered request shows is `Headers::try_from` of ITS OWN block (the rules start from
/// default `Headers` for every request; nothing of an earlier head, accepted or rejected, is carried over), and a
/// head is rejected exactly when its block is.
pub fn blocks_on_one_connection(rec: &mut Rec, _rng: &mut Rng, blocks: &[Vec<Vec<u8>>], descr: &str) {
    use crate::conn::ConnDriver;
    rec.case(descr);
    let mut d = ConnDriver::new(rec, 1 << 20);
    for (k, lines) in blocks.iter().enumerate() {
        if d.conn.is_none() {
            break;
        }
        let mut block = Vec::new();
        for l in lines {
            block.extend_from_slice(l);
            block.extend_from_slice(b"\r\n");
        }
        block.extend_from_slice(b"\r\n");
        let expected = Headers::try_from(&block[..]);
        let mut head = format!("PUT /h{} HTTP/1.{}\r\n", k, k % 2).into_bytes();
        head.extend_from_slice(&block);
        if head.len() > 1000 {
            break;
        }
        let results = d.recv(rec, &head, 0);
        let rejected = results.iter().any(|t| t.starts_with("parse("));
        let mut log = d.log.clone();
        log.push(format!("hdrblock {}", hx(&block)));
        match expected {
            Err(e) => {
                rec.count("conn-head:rejected");
                rec.nontrivial();
                if !rejected {
                    rec.oracle_fail("C15", &format!("head {} of the connection: its block is rejected by the header rules ({}) but the connection accepted it", k, show_req_err(&e)), &log);
                    break;
                }
            }
            Ok(h) => {
                if rejected && results.iter().any(|t| t.starts_with("parse(SizeLimitExceeded")) && h.content_length() as usize > (1 << 20) {
                    continue; // the connection's own payload limit (C04), not a header rule
                }
                if rejected {
                    rec.oracle_fail("C15", &format!("head {} of the connection: its block is accepted by the header rules as {} but the connection rejected it: {:?}", k, show_headers(&h), results), &log);
                    continue;
                }
                let cl = h.content_length() as usize;
                if cl > 64 {
                    break; // a body this long is C04's business
                }
                if cl > 0 {
                    let body = vec![b'b'; cl];
                    d.recv(rec, &body, 0);
                }
                rec.count("conn-head:accepted");
                match d.pop(rec) {
                    None => {
                        rec.oracle_fail("C15", &format!("head {} of the connection was accepted but no request was delivered", k), &d.log.clone());
                        break;
                    }
                    Some(_) => {
                        let got = d.held.last().map(|r| show_headers(&r.headers)).unwrap_or_default();
                        if got != show_headers(&h) {
                            rec.oracle_fail("C15", &format!("request {} of the connection shows headers {} — its own block parses to {}", k, got, show_headers(&h)), &log);
                            break;
                        }
                    }
                }
            }
        }
    }
}

/// `Headers::try_from` on arbitrary bytes as an op (C03: must not panic).
pub fn block_case_quiet(rec: &mut Rec, block: &[u8]) {
    let op = format!("hdrblock {}", hx(block));
    match catch_unwind(AssertUnwindSafe(|| Headers::try_from(block))) {
        Err(_) => {
            rec.oracle_fail("C03", "Headers::try_from panicked", &[op.clone()]);
            rec.op(&op, "PANIC");
        }
        Ok(Ok(h)) => rec.op(&op, &format!("ok {}", show_headers(&h))),
        Ok(Err(e)) => rec.op(&op, &format!("err {}", show_req_err(&e))),
    }
}
