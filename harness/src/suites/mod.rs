pub mod connsuites;
pub mod headers;
pub mod response;
pub mod router;
pub mod tokens;
pub mod srvsuites;
pub mod srvfds;
