//! C16 — Method / Version / MediaType / StatusCode / Uri::get_abs_path.
use crate::emit::Rec;
use crate::rng::Rng;
use crate::show::*;
use micro_http::{MediaType, Method, Request, StatusCode, Version};
use std::panic::{catch_unwind, AssertUnwindSafe};

fn show_opt<T>(r: Option<T>, f: impl Fn(T) -> &'static str) -> String {
    match r {
        Some(x) => format!("some {}", f(x)),
        None => "none".into(),
    }
}

pub fn op_method(rec: &mut Rec, bs: &[u8]) {
    let r = catch_unwind(AssertUnwindSafe(|| Method::try_from(bs).ok()));
    let out = match r {
        Ok(r) => {
            let expect = match bs {
                b"GET" => Some(Method::Get),
                b"PUT" => Some(Method::Put),
                b"PATCH" => Some(Method::Patch),
                _ => None,
            };
            if r != expect {
                rec.oracle_fail("C16", &format!("Method::try_from({}) = {:?}, expected {:?}", hx(bs), r, expect), &[format!("method {}", hx(bs))]);
            }
            if let Some(m) = r {
                if m.raw() != bs || m.to_str().as_bytes() != bs || Method::try_from(m.raw()).ok() != Some(m) {
                    rec.oracle_fail("C16", "method raw/to_str round trip", &[format!("method {}", hx(bs))]);
                }
                rec.count("method:accepted");
                rec.nontrivial_op();
            }
            show_opt(r, show_method)
        }
        Err(_) => {
            rec.oracle_fail("C03", "Method::try_from panicked", &[format!("method {}", hx(bs))]);
            "PANIC".into()
        }
    };
    rec.op(&format!("method {}", hx(bs)), &out);
}

pub fn op_version(rec: &mut Rec, bs: &[u8]) {
    let r = catch_unwind(AssertUnwindSafe(|| Version::try_from(bs).ok()));
    let out = match r {
        Ok(r) => {
            let expect = match bs {
                b"HTTP/1.0" => Some(Version::Http10),
                b"HTTP/1.1" => Some(Version::Http11),
                _ => None,
            };
            if r != expect {
                rec.oracle_fail("C16", &format!("Version::try_from({}) = {:?}, expected {:?}", hx(bs), r, expect), &[format!("version {}", hx(bs))]);
            }
            if let Some(v) = r {
                if v.raw() != bs {
                    rec.oracle_fail("C16", "version raw round trip", &[format!("version {}", hx(bs))]);
                }
                rec.count("version:accepted");
                rec.nontrivial_op();
            }
            show_opt(r, show_version)
        }
        Err(_) => {
            rec.oracle_fail("C03", "Version::try_from panicked", &[format!("version {}", hx(bs))]);
            "PANIC".into()
        }
    };
    rec.op(&format!("version {}", hx(bs)), &out);
}

pub fn op_media(rec: &mut Rec, bs: &[u8]) {
    let r = catch_unwind(AssertUnwindSafe(|| MediaType::try_from(bs).ok()));
    let out = match r {
        Ok(r) => {
            let expect = match std::str::from_utf8(bs) {
                Ok(s) if !bs.is_empty() => match s.trim() {
                    "text/plain" => Some(MediaType::PlainText),
                    "application/json" => Some(MediaType::ApplicationJson),
                    _ => None,
                },
                _ => None,
            };
            if r != expect {
                rec.oracle_fail("C16", &format!("MediaType::try_from({}) = {:?}, expected {:?}", hx(bs), r, expect), &[format!("media {}", hx(bs))]);
            }
            if let Some(m) = r {
                if MediaType::try_from(m.as_str().as_bytes()).ok() != Some(m) {
                    rec.oracle_fail("C16", "media as_str round trip", &[format!("media {}", hx(bs))]);
                }
                rec.count("media:accepted");
                rec.nontrivial_op();
            }
            show_opt(r, show_media)
        }
        Err(_) => {
            rec.oracle_fail("C03", "MediaType::try_from panicked", &[format!("media {}", hx(bs))]);
            "PANIC".into()
        }
    };
    rec.op(&format!("media {}", hx(bs)), &out);
}

/// `get_abs_path` of a URI given as text (must be non-empty, without SP/CR/LF); `through_driver`
/// decides whether the case is also sent to the model (the Rust-side oracle always runs).
pub fn abs_path_case(rec: &mut Rec, uri: &[u8], through_driver: bool) {
    let mut req = b"GET ".to_vec();
    req.extend_from_slice(uri);
    req.extend_from_slice(b" HTTP/1.1\r\n\r\n");
    let r = catch_unwind(AssertUnwindSafe(|| Request::try_from(&req, None).ok().map(|r| r.uri().get_abs_path().as_bytes().to_vec())));
    let op = format!("abspath {}", hx(uri));
    match r {
        Err(_) => {
            rec.oracle_fail("C03", "get_abs_path panicked", &[op.clone()]);
            if through_driver {
                rec.op(&op, "PANIC");
            }
        }
        Ok(None) => {
            // URI not accepted by the request parser (not UTF-8): nothing to compare
        }
        Ok(Some(p)) => {
            // the three-case characterisation, written independently of the implementation
            let expect: Vec<u8> = if uri.starts_with(b"/") {
                uri.to_vec()
            } else if uri.starts_with(b"http://") {
                let rest = &uri[7..];
                match rest.iter().position(|c| *c == b'/') {
                    Some(i) => rest[i..].to_vec(),
                    None => vec![],
                }
            } else {
                vec![]
            };
            let shape_ok = p.is_empty() || (p[0] == b'/' && uri.ends_with(&p));
            if p != expect || !shape_ok {
                rec.oracle_fail("C16", &format!("get_abs_path({}) = {}, expected {}", hx(uri), hx(&p), hx(&expect)), &[op.clone()]);
            }
            if !p.is_empty() {
                rec.count("abspath:nonempty");
                if p.len() != uri.len() {
                    rec.nontrivial_key(&op);
                }
            } else {
                rec.count("abspath:empty");
            }
            if through_driver {
                rec.op(&op, &hx(&p));
            }
        }
    }
}

fn enumerate(alphabet: &[Vec<u8>], max_len: usize, f: &mut dyn FnMut(&[u8])) {
    fn go(alphabet: &[Vec<u8>], cur: &mut Vec<u8>, left: usize, f: &mut dyn FnMut(&[u8])) {
        f(cur);
        if left == 0 {
            return;
        }
        for a in alphabet {
            let n = cur.len();
            cur.extend_from_slice(a);
            go(alphabet, cur, left - 1, f);
            cur.truncate(n);
        }
    }
    go(alphabet, &mut Vec::new(), max_len, f);
}

pub fn single_edits(tok: &[u8], f: &mut dyn FnMut(&[u8])) {
    for i in 0..tok.len() {
        for b in 0..=255u8 {
            let mut t = tok.to_vec();
            t[i] = b;
            f(&t);
        }
        let mut t = tok.to_vec();
        t.remove(i);
        f(&t);
    }
    for i in 0..=tok.len() {
        for b in 0..=255u8 {
            let mut t = tok.to_vec();
            t.insert(i, b);
            f(&t);
        }
    }
}

/// Request lines built from method / version / URI tokens, several in a row on ONE connection: a token means the same
/// whatever was parsed before it — a line is accepted exactly when its method and version tokens are, and the
/// delivered request shows the values the token functions give for them.
pub fn tokens_on_one_connection(rec: &mut Rec, lines: &[(&str, &str, &str)]) {
    use crate::conn::ConnDriver;
    rec.case("tokens-on-one-connection");
    let mut d = ConnDriver::new(rec, 51200);
    for (k, (m, u, v)) in lines.iter().enumerate() {
        if d.conn.is_none() {
            break;
        }
        let head = format!("{} {} {}\r\n\r\n", m, u, v).into_bytes();
        let results = d.recv(rec, &head, 0);
        let rejected = results.iter().any(|t| t.starts_with("parse("));
        let mt = Method::try_from(m.as_bytes()).ok();
        let vt = Version::try_from(v.as_bytes()).ok();
        let want_ok = mt.is_some() && vt.is_some();
        let mut log = d.log.clone();
        log.push(format!("method {}", hx(m.as_bytes())));
        log.push(format!("version {}", hx(v.as_bytes())));
        rec.nontrivial();
        if want_ok == rejected {
            rec.oracle_fail("C16", &format!("request line {} of the connection ({} {} {}): the token functions {} its method and version, the connection {} it: {:?}",
                k, m, u, v, if want_ok { "accept" } else { "reject one of" }, if rejected { "rejected" } else { "accepted" }, results), &log);
            break;
        }
        if !want_ok {
            rec.count("conn-line:rejected");
            continue;
        }
        rec.count("conn-line:accepted");
        match d.pop(rec) {
            None => {
                rec.oracle_fail("C16", &format!("request line {} of the connection was accepted but nothing was delivered", k), &log);
                break;
            }
            Some(_) => {
                let r = d.held.last().unwrap();
                let abs = micro_http::Request::try_from(&head[..], None).ok().map(|q| q.uri().get_abs_path().to_string());
                if Some(r.method()) != mt || Some(r.http_version()) != vt || Some(r.uri().get_abs_path().to_string()) != abs {
                    rec.oracle_fail("C16", &format!("request {} of the connection ({} {} {}) was delivered with other token values", k, m, u, v), &log);
                    break;
                }
            }
        }
    }
}

pub fn run(rec: &mut Rec, rng: &mut Rng, thorough: bool) {
    // token sequences on one connection: all sequences of length 2 and 3 over a small alphabet of lines
    {
        let alpha: [(&str, &str, &str); 8] = [("GET", "/a", "HTTP/1.1"), ("GET", "/a", "HTTP/1.0"), ("PUT", "http://h/x", "HTTP/1.0"), ("PATCH", "x", "HTTP/1.1"),
            ("get", "/a", "HTTP/1.1"), ("POST", "/a", "HTTP/1.0"), ("GET", "/a", "HTTP/2.0"), ("PUT", "/b", "http/1.1")];
        for a in alpha {
            for b in alpha {
                tokens_on_one_connection(rec, &[a, b]);
                for c in alpha {
                    if thorough || (a.2 != b.2 || b.2 != c.2) {
                        tokens_on_one_connection(rec, &[a, b, c, a]);
                    }
                }
            }
        }
    }
    // the raw tables
    rec.case("rawtable");
    let methods = [Method::Get, Method::Put, Method::Patch];
    let versions = [Version::Http10, Version::Http11];
    let medias = [MediaType::PlainText, MediaType::ApplicationJson];
    let statuses = [
        StatusCode::Continue, StatusCode::OK, StatusCode::NoContent, StatusCode::BadRequest, StatusCode::Unauthorized,
        StatusCode::NotFound, StatusCode::MethodNotAllowed, StatusCode::PayloadTooLarge,
        StatusCode::InternalServerError, StatusCode::NotImplemented, StatusCode::ServiceUnavailable,
    ];
    // the string views of the tokens, in both call orders on this thread: each must be the canonical spelling and
    // parse back to the value it came from, whatever was stringified before
    for order in 0..2 {
        let r = std::panic::catch_unwind(|| {
            let mut bad: Vec<String> = vec![];
            let m_first = order == 0;
            let check_m = |bad: &mut Vec<String>| {
                for m in [Method::Get, Method::Put, Method::Patch] {
                    if m.to_str().as_bytes() != m.raw() || Method::try_from(m.to_str().as_bytes()).ok() != Some(m) {
                        bad.push(format!("Method {:?}.to_str() = {:?}", m, m.to_str()));
                    }
                }
            };
            let check_t = |bad: &mut Vec<String>| {
                for t in [MediaType::PlainText, MediaType::ApplicationJson] {
                    if MediaType::try_from(t.as_str().as_bytes()).ok() != Some(t) {
                        bad.push(format!("MediaType {:?}.as_str() = {:?}", t, t.as_str()));
                    }
                }
            };
            if m_first {
                check_m(&mut bad);
                check_t(&mut bad);
                check_m(&mut bad);
            } else {
                check_t(&mut bad);
                check_m(&mut bad);
                check_t(&mut bad);
            }
            bad
        });
        match r {
            Err(_) => rec.oracle_fail("C16", "to_str / as_str panicked when called after one another", &["rawtable".into()]),
            Ok(bad) if !bad.is_empty() => rec.oracle_fail("C16", &format!("string views do not round-trip: {:?}", bad), &["rawtable".into()]),
            _ => {}
        }
    }
    let join = |v: Vec<String>| v.join(",");
    let line = format!(
        "methods={} versions={} media={} status={}",
        join(methods.iter().map(|m| hx(m.raw())).collect()),
        join(versions.iter().map(|m| hx(m.raw())).collect()),
        join(medias.iter().map(|m| hx(m.as_str().as_bytes())).collect()),
        join(statuses.iter().map(|m| hx(&m.raw()[..])).collect()),
    );
    rec.nontrivial_op();
    rec.op("rawtable", &line);
    // status codes: distinct three-digit numbers, the documented ones
    let expect_codes = [100u32, 200, 204, 400, 401, 404, 405, 413, 500, 501, 503];
    for (i, s) in statuses.iter().enumerate() {
        let raw = s.raw();
        let ok = raw.iter().all(|c| c.is_ascii_digit())
            && std::str::from_utf8(&raw[..]).unwrap().parse::<u32>().ok() == Some(expect_codes[i]);
        if !ok {
            rec.oracle_fail("C16", &format!("StatusCode #{} serializes to {}", i, hx(&raw[..])), &["rawtable".into()]);
        }
    }
    // "serializes": on the wire, in the status line of a response, for every (version, status) pair — twice, so that
    // a table filled lazily by the first uses is consulted again
    for round in 0..2 {
        for (vi, v) in versions.iter().enumerate() {
            for (i, s) in statuses.iter().enumerate() {
                let mut out = Vec::new();
                let _ = micro_http::Response::new(*v, *s).write_all(&mut out);
                let want = format!("HTTP/1.{} {} \r\n", vi, expect_codes[i]);
                let spec = crate::conn::RespSpec { v11: vi == 1, code: expect_codes[i] as u16, ops: vec![] };
                let op = format!("resp {}", spec.proto());
                if !out.starts_with(want.as_bytes()) {
                    rec.oracle_fail("C16", &format!("round {}: the status line of ({:?}, {:?}) is {:?}, expected {:?}", round, v, s, String::from_utf8_lossy(&out[..out.len().min(20)]), want), &[op.clone()]);
                }
                rec.nontrivial_op();
                rec.op(&op, &hx(&out));
                // … and with a body attached: the status on the wire is still the status the response was built with
                let spec_b = crate::conn::RespSpec { v11: vi == 1, code: expect_codes[i] as u16, ops: vec![crate::conn::BOp::Body(b"x".to_vec())] };
                let out_b = crate::suites::response::serialize(&spec_b);
                if !out_b.starts_with(want.as_bytes()) {
                    rec.oracle_fail("C16", &format!("the status line of ({:?}, {:?}) with a body attached is {:?}, expected {:?}", v, s, String::from_utf8_lossy(&out_b[..out_b.len().min(20)]), want), &[format!("resp {}", spec_b.proto())]);
                }
                rec.op(&format!("resp {}", spec_b.proto()), &hx(&out_b));
            }
        }
    }

    // all strings of length <= n over the letters of the method tokens, case flips, SP, NUL, one non-ASCII byte
    let mut alpha: Vec<Vec<u8>> = vec![];
    for c in b"GETPUACH" {
        alpha.push(vec![*c]);
        alpha.push(vec![c.to_ascii_lowercase()]);
    }
    alpha.push(vec![b' ']);
    alpha.push(vec![0]);
    alpha.push(vec![0xc3]);
    let maxlen = if thorough { 5 } else { 3 };
    rec.case("method-enum");
    let mut n = 0u64;
    enumerate(&alpha, maxlen, &mut |s| {
        op_method(rec, s);
        n += 1;
    });
    // versions / media: the same alphabet, shorter (cannot reach the 8+-byte tokens; edits below do)
    rec.case("version-media-enum");
    let vlen = if thorough { 3 } else { 2 };
    enumerate(&alpha, vlen, &mut |s| {
        op_version(rec, s);
        op_media(rec, s);
    });
    // all single-byte edits of every canonical token
    rec.case("single-edits");
    for t in [&b"GET"[..], b"PUT", b"PATCH"] {
        single_edits(t, &mut |s| op_method(rec, s));
    }
    for t in [&b"HTTP/1.0"[..], b"HTTP/1.1"] {
        single_edits(t, &mut |s| op_version(rec, s));
        single_edits(t, &mut |s| op_method(rec, s));
    }
    for t in [&b"text/plain"[..], b"application/json"] {
        single_edits(t, &mut |s| op_media(rec, s));
    }
    // … whatever the AMOUNT of surrounding whitespace (the input has no length limit of its own)
    rec.case("media-long-whitespace");
    for t in ["text/plain", "application/json", "text/plai"] {
        for n in [10usize, 100, 120, 128, 239, 240, 245, 246, 250, 255, 256, 1000, 70000] {
            for (l, r) in [(n, 0usize), (0, n), (n / 2, n - n / 2)] {
                let s = format!("{}{}{}", " ".repeat(l), t, "\t".repeat(r));
                rec.nontrivial_op();
                op_media(rec, s.as_bytes());
            }
        }
    }
    // media types modulo surrounding whitespace
    rec.case("media-whitespace");
    let pads = ["", " ", "\t", "\r\n", "\u{a0}", "\u{3000}", "\u{2028}", " \t ", "\u{85}", "\u{1680}", "\u{200b}", "\u{feff}"];
    for t in ["text/plain", "application/json", "text/ plain", ""] {
        for a in pads {
            for b in pads {
                let s = format!("{}{}{}", a, t, b);
                op_media(rec, s.as_bytes());
                op_version(rec, s.as_bytes());
            }
        }
    }
    // URIs over {h,t,p,:,/,a,.,%,é}
    let ualpha: Vec<Vec<u8>> = ["h", "t", "p", ":", "/", "a", ".", "%", "\u{e9}"].iter().map(|s| s.as_bytes().to_vec()).collect();
    let through = if thorough { 6 } else { 4 };
    let oracle_only = if thorough { 8 } else { 6 };
    rec.case("uri-enum");
    enumerate(&ualpha, oracle_only, &mut |s| {
        if !s.is_empty() {
            let syms = std::str::from_utf8(s).map(|t| t.chars().count()).unwrap_or(99);
            abs_path_case(rec, s, syms <= through);
        }
    });
    // longer URIs, random, with the scheme prefix
    rec.case("uri-random");
    let n_rand = if thorough { 200000 } else { 20000 };
    for _ in 0..n_rand {
        let mut u: Vec<u8> = match rng.below(4) {
            0 => b"http://".to_vec(),
            1 => b"/".to_vec(),
            2 => b"http:/".to_vec(),
            _ => vec![],
        };
        for _ in 0..rng.below(10) {
            let sym: &Vec<u8> = rng.pick(&ualpha[..]); u.extend_from_slice(sym);
        }
        if !u.is_empty() {
            abs_path_case(rec, &u, true);
        }
    }
    // URIs built from whole tokens: the scheme prefix (and near misses of it) can occur AGAIN inside the authority or the path
    rec.case("uri-tokens");
    let toks: [&str; 16] = ["http://", "http:/", "http:", "HTTP://", "https://", "/", "//", "a", "host", ":", ".", "\u{e9}", "@", "u:p@", "?q=@", "#f"];
    for _ in 0..(if thorough { 100000 } else { 8000 }) {
        let mut u = String::new();
        if rng.chance(2, 3) {
            u.push_str("http://");
        }
        for _ in 0..rng.below(6) {
            let t: &&str = rng.pick(&toks[..]);
            u.push_str(t);
        }
        if !u.is_empty() {
            abs_path_case(rec, u.as_bytes(), true);
        }
    }
    // very long URIs (the one-shot parser accepts request lines of any length): offsets around 2^8 and 2^16
    rec.case("uri-long");
    for len in [254usize, 255, 256, 257, 65527, 65528, 65529, 65530, 65535, 65536, 65537, 70000, 131073] {
        let a = "a".repeat(len);
        for u in [format!("http://{}/index", a), format!("http://{}", a), format!("/{}", a), a.clone(), format!("http://{}/x/{}", a, "b".repeat(len.min(300)))] {
            rec.nontrivial_op();
            abs_path_case(rec, u.as_bytes(), true);
        }
    }
    let _ = n;
}
