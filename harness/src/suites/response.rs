//! C05 — responses: builder calls, `write_all`, sinks that split the writes, independent reader.
use crate::conn::{method_name, BOp, RespSpec, CODES};
use crate::emit::Rec;
use crate::rng::Rng;
use crate::show::*;
use std::io::Write;

/// A sink that accepts bytes according to a schedule of (k | zero | interrupt | fail).
pub struct SchedSink {
    pub sched: Vec<(u8, usize)>, // (kind, k): 0 accept k, 1 zero, 2 interrupted, 3 fail
    pub pos: usize,
    pub acc: Vec<u8>,
}

impl Write for SchedSink {
    fn write(&mut self, b: &[u8]) -> std::io::Result<usize> {
        if self.pos >= self.sched.len() {
            return Err(std::io::Error::from_raw_os_error(libc::EPIPE));
        }
        let (kind, k) = self.sched[self.pos];
        self.pos += 1;
        match kind {
            0 => {
                let n = k.max(1).min(b.len());
                self.acc.extend_from_slice(&b[..n]);
                Ok(n)
            }
            1 => Ok(0),
            2 => Err(std::io::Error::from_raw_os_error(libc::EINTR)),
            _ => Err(std::io::Error::from_raw_os_error(libc::EPIPE)),
        }
    }
    fn flush(&mut self) -> std::io::Result<()> {
        Ok(())
    }
}

pub fn serialize(spec: &RespSpec) -> Vec<u8> {
    // into an unbounded sink; a write_all that fails here (it never does on the unchanged code) leaves the bytes written
    // so far, which the readers and comparisons downstream then reject with the builder calls as the failing input
    let mut v = Vec::new();
    let _ = spec.build().write_all(&mut v);
    v
}

/// What an independent reader must recover, computed from the builder calls alone
/// (written from the property statement, not from the implementation).
pub fn expected_view(spec: &RespSpec) -> String {
    let mut server: Vec<u8> = b"Firecracker API".to_vec();
    let mut clen: Option<i64> = if spec.code == 100 || spec.code == 204 { None } else { Some(0) };
    let mut ctype = "application/json";
    let mut depr = false;
    let mut enc = false;
    let mut allow: Vec<u8> = vec![];
    let mut body: Option<Vec<u8>> = None;
    for op in &spec.ops {
        match op {
            BOp::Body(b) => {
                clen = Some(b.len() as i64);
                body = Some(b.clone());
            }
            BOp::Type(j) => ctype = if *j { "application/json" } else { "text/plain" },
            BOp::Deprecation => depr = true,
            BOp::Encoding => enc = true,
            BOp::Server(s) => server = s.clone(),
            BOp::Allow(ms) => allow = ms.clone(),
            BOp::AllowMethod(m) => allow.push(*m),
            BOp::Len(l) => clen = l.map(|x| x as i64),
        }
    }
    let mut lines: Vec<Vec<u8>> = vec![];
    let mut l = b"Server: ".to_vec();
    l.extend_from_slice(&server);
    lines.push(l);
    lines.push(b"Connection: keep-alive".to_vec());
    if !allow.is_empty() {
        let names: Vec<&str> = allow.iter().map(|m| method_name(*m)).collect();
        lines.push(format!("Allow: {}", names.join(", ")).into_bytes());
    }
    if depr {
        lines.push(b"Deprecation: true".to_vec());
    }
    if let Some(n) = clen {
        lines.push(format!("Content-Type: {}", ctype).into_bytes());
        lines.push(format!("Content-Length: {}", n).into_bytes());
        if enc {
            lines.push(b"Accept-Encoding: identity".to_vec());
        }
    }
    let hl: Vec<String> = lines.iter().map(|l| hx(l)).collect();
    // the reader takes Content-Length bytes of body when the header is present, none otherwise
    let body_view = match (clen, &body) {
        (Some(n), Some(b)) if n as usize == b.len() => hx(b),
        (Some(0), None) => ".".to_string(),
        (None, None) => ".".to_string(),
        _ => "?".to_string(), // not self-delimiting: outside the property's quantifier (set_content_length misuse)
    };
    format!(
        "(v={} code={} hdrs={} body={})",
        if spec.v11 { "1.1" } else { "1.0" },
        spec.code,
        hl.join(","),
        body_view
    )
}

/// A small independent reader of ONE response that must consume the bytes exactly; result in `expected_view` form.
pub fn read_one_view(b: &[u8]) -> Option<String> {
    let line_end = b.windows(2).position(|w| w == b"\r\n")?;
    let status = &b[..line_end];
    let mut parts = status.splitn(2, |c| *c == b' ');
    let ver = parts.next()?;
    let rest = parts.next()?;
    if rest.last() != Some(&b' ') {
        return None;
    }
    let code = &rest[..rest.len() - 1];
    let v = match ver {
        b"HTTP/1.0" => "1.0",
        b"HTTP/1.1" => "1.1",
        _ => return None,
    };
    let mut pos = line_end + 2;
    let mut lines: Vec<Vec<u8>> = vec![];
    loop {
        let e = b[pos..].windows(2).position(|w| w == b"\r\n")?;
        if e == 0 {
            pos += 2;
            break;
        }
        lines.push(b[pos..pos + e].to_vec());
        pos += e + 2;
    }
    let mut cl: Option<usize> = None;
    for l in &lines {
        if let Some(vv) = l.strip_prefix(b"Content-Length: ") {
            cl = std::str::from_utf8(vv).ok().and_then(|t| t.parse().ok());
            break;
        }
    }
    let body = match cl {
        Some(n) => {
            if b.len() != pos + n {
                return None;
            }
            b[pos..].to_vec()
        }
        None => {
            if b.len() != pos {
                return None;
            }
            vec![]
        }
    };
    let hl: Vec<String> = lines.iter().map(|l| hx(l)).collect();
    Some(format!("(v={} code={} hdrs={} body={})", v, String::from_utf8_lossy(code), hl.join(","), hx(&body)))
}

fn op_alphabet() -> Vec<BOp> {
    vec![
        BOp::Body(vec![]),
        BOp::Body(b"hi".to_vec()),
        BOp::Body(b"a\r\n\r\nHTTP/1.1 200 \r\nContent-Length: 5\r\n\r\nxx".to_vec()),
        BOp::Type(false),
        BOp::Type(true),
        BOp::Deprecation,
        BOp::Encoding,
        BOp::Server(b"srv/1.0".to_vec()),
        BOp::Allow(vec![]),
        BOp::Allow(vec![0, 1]),
        BOp::AllowMethod(2),
    ]
}

fn random_op(rng: &mut Rng, big: bool) -> BOp {
    // `set_content_length` is outside the builder calls C05 lists, but it is part of the public API and of the
    // model: exercised for the correspondence (the reader oracle skips responses it makes non-self-delimiting)
    if rng.chance(1, 25) {
        return BOp::Len(*rng.pick(&[None, Some(0), Some(3), Some(-1), Some(2147483647)]));
    }
    match rng.below(9) {
        0 | 1 => {
            let n = match rng.below(6) {
                0 => 0,
                1 => rng.below(8),
                2 => rng.below(300),
                3 => 1024,
                _ => {
                    if big {
                        rng.below(65536)
                    } else {
                        rng.below(3000)
                    }
                }
            };
            BOp::Body(crate::gen::body_bytes(rng, n))
        }
        2 => BOp::Type(rng.chance(1, 2)),
        3 => BOp::Deprecation,
        4 => BOp::Encoding,
        5 => BOp::Server(rng.pick(&["", "x", "Firecracker API", "srv \u{e9}", "a: b"]).as_bytes().to_vec()),
        6 => {
            let n = rng.below(4);
            BOp::Allow((0..n).map(|_| rng.below(3) as u8).collect())
        }
        _ => BOp::AllowMethod(rng.below(3) as u8),
    }
}

pub fn resp_case(rec: &mut Rec, rng: &mut Rng, spec: &RespSpec, with_sink: bool) -> Vec<u8> {
    let bytes = serialize(spec);
    let op = format!("resp {}", spec.proto());
    if spec.ops.iter().any(|o| matches!(o, BOp::Body(_))) || spec.code == 100 || spec.code == 204 {
        rec.nontrivial_op();
    }
    rec.count(&format!("status:{}", spec.code));
    rec.count(&format!("nops:{}", spec.ops.len()));
    // implementation-only oracle: an independent reader (status line, lines up to the blank line, Content-Length
    // bytes of body) recovers exactly what the builder calls say
    {
        let view = expected_view(spec);
        if !view.contains('?') {
            let got = read_one_view(&bytes);
            if got.as_deref() != Some(view.as_str()) {
                rec.oracle_fail("C05", &format!("an independent reader recovers {:?} from the serialized response, the builder calls say {}", got, view), &[op.clone()]);
            }
        }
    }
    rec.op(&op, &hx(&bytes));
    // one response OBJECT written, edited by further builder calls, and written again (an application may build a
    // response once and reuse it): every write shows the builder calls made so far — nothing is remembered from an
    // earlier write
    {
        let k = rng.below(spec.ops.len() + 1);
        let v = if spec.v11 { micro_http::Version::Http11 } else { micro_http::Version::Http10 };
        let mut r = micro_http::Response::new(v, crate::conn::status_of(spec.code));
        RespSpec::apply_ops(&mut r, &spec.ops[..k]);
        let mut first = Vec::new();
        let _ = r.write_all(&mut first);
        let mut again = Vec::new();
        let _ = r.write_all(&mut again);
        RespSpec::apply_ops(&mut r, &spec.ops[k..]);
        let mut second = Vec::new();
        let _ = r.write_all(&mut second);
        let prefix_spec = RespSpec { v11: spec.v11, code: spec.code, ops: spec.ops[..k].to_vec() };
        if first != again || first != serialize(&prefix_spec) || second != bytes {
            rec.oracle_fail("C05", &format!("a response written after {} of its {} builder calls and again after all of them: the later write does not show the calls made so far", k, spec.ops.len()), &[op.clone(), format!("resp {}", prefix_spec.proto())]);
        }
    }
    // a write that FAILS part-way (a buffer that is too small, a stream that breaks) says nothing about the next one:
    // the same object written afterwards into another sink gives the whole response again — the bytes are a function of
    // the builder calls, not of what an earlier sink accepted
    {
        let r = spec.build();
        let cut = if bytes.is_empty() { 0 } else { rng.below(bytes.len()) };
        let mut small = vec![0u8; cut];
        let failed = {
            let mut slice: &mut [u8] = &mut small[..];
            r.write_all(&mut slice).is_err()
        };
        let mut broken = SchedSink { sched: vec![(0, cut.max(1)), (3, 0)], pos: 0, acc: vec![] };
        let failed2 = r.write_all(&mut broken).is_err();
        let mut after = Vec::new();
        let _ = r.write_all(&mut after);
        let mut after2 = Vec::new();
        let _ = r.write_all(&mut after2);
        rec.count(if failed || failed2 { "failed-write-then-write" } else { "short-sink-sufficed" });
        if after != bytes || after2 != bytes || !bytes.starts_with(&small[..]) && failed {
            rec.oracle_fail("C05", &format!("a write into a sink that failed after {} bytes, then the same response written into another sink: the later write is not the whole response", cut), &[op.clone()]);
        }
    }
    // the public getters
    {
        let r = spec.build();
        let code = std::str::from_utf8(&r.status().raw()[..]).unwrap_or("?").to_string();
        let allow: Vec<&str> = r.allow().iter().map(|m| show_method(*m)).collect();
        let body = match r.body() {
            Some(b) => hx(b.raw()),
            None => "-".to_string(),
        };
        rec.op(
            &format!("respget {}", spec.proto()),
            &format!(
                "st={} v={} cl={} ct={} dep={} allow=[{}] body={}",
                code,
                show_version(r.http_version()),
                r.content_length(),
                show_media(r.content_type()),
                b01(r.deprecation()),
                allow.join(","),
                body
            ),
        );
    }
    if with_sink {
        // the same bytes however the sink splits the writes
        let mut sched = vec![];
        let mut txt = vec![];
        let mut fails = false;
        let n = bytes.len() + 8;
        for _ in 0..n {
            match rng.below(40) {
                0 => {
                    sched.push((2u8, 0usize));
                    txt.push("i".to_string());
                }
                1 if rng.chance(1, 6) => {
                    sched.push((1, 0));
                    txt.push("z".into());
                    fails = true;
                    break;
                }
                2 if rng.chance(1, 6) => {
                    sched.push((3, 0));
                    txt.push("f".into());
                    fails = true;
                    break;
                }
                _ => {
                    let k = *rng.pick(&[1usize, 1, 2, 3, 7, 64, 100000]);
                    sched.push((0, k));
                    txt.push(format!("a{}", k));
                }
            }
        }
        let _ = fails;
        let mut sink = SchedSink { sched, pos: 0, acc: vec![] };
        let robj = spec.build();
        let r = robj.write_all(&mut sink);
        let ok = r.is_ok();
        {
            let mut after = Vec::new();
            let _ = robj.write_all(&mut after);
            if after != bytes {
                rec.oracle_fail("C05", "the same response written again after a write through a splitting / failing sink is not the whole response", &[format!("respw {} {}", spec.proto(), txt.join(",")), op.clone()]);
            }
        }
        let opw = format!("respw {} {}", spec.proto(), txt.join(","));
        // oracle: a prefix of the one-piece serialization, all of it iff Ok
        if !bytes.starts_with(&sink.acc) || (ok != (sink.acc.len() == bytes.len())) {
            rec.oracle_fail("C05", "bytes through a splitting sink are not a prefix of / equal to the serialization", &[opw.clone()]);
        }
        rec.count(if ok { "sink:ok" } else { "sink:fail" });
        rec.op(&opw, &format!("{} {}", hx(&sink.acc), if ok { "ok" } else { "fail" }));
    }
    bytes
}

pub fn run(rec: &mut Rec, rng: &mut Rng, thorough: bool) {
    let alpha = op_alphabet();
    let depth = if thorough { 3 } else { 2 };
    // exhaustive: 2 versions x 11 codes x all builder sequences up to `depth`
    let mut seqs: Vec<Vec<BOp>> = vec![vec![]];
    let mut frontier: Vec<Vec<BOp>> = vec![vec![]];
    for _ in 0..depth {
        let mut next = vec![];
        for s in &frontier {
            for a in &alpha {
                let mut t = s.clone();
                t.push(a.clone());
                next.push(t);
            }
        }
        seqs.extend(next.iter().cloned());
        frontier = next;
    }
    // body lengths around the powers of ten (digits of Content-Length) and of two (narrow integer types), each alone and
    // together with the optional header lines
    rec.case("length-boundaries");
    for n in [9usize, 10, 99, 100, 999, 1000, 9999, 10000, 32767, 32768, 65535, 65536, 99999, 100000, 131072] {
        for (k, extra) in [vec![], vec![BOp::Encoding], vec![BOp::Type(true), BOp::Encoding, BOp::Deprecation, BOp::Allow(vec![0, 1, 2])], vec![BOp::Type(false), BOp::Encoding]].into_iter().enumerate() {
            let mut ops = vec![BOp::Body(crate::gen::body_bytes(rng, n))];
            if k % 2 == 0 {
                ops.extend(extra);
            } else {
                let mut e = extra;
                e.extend(ops);
                ops = e;
            }
            let spec = RespSpec { v11: n % 2 == 0, code: if k == 3 { 204 } else { 200 }, ops };
            resp_case(rec, rng, &spec, n <= 10000);
        }
    }
    // long heads: the Server name and the Allow list are unbounded (any length of status line + headers must go out)
    rec.case("long-heads");
    for sl in [40usize, 100, 180, 230, 256, 300, 1000, 5000] {
        for na in [0usize, 3, 8, 40] {
            let allow: Vec<u8> = (0..na).map(|k| (k % 3) as u8).collect();
            let mut ops = vec![BOp::Server("s".repeat(sl).into_bytes()), BOp::Deprecation, BOp::Encoding, BOp::Body(crate::gen::body_bytes(rng, if na % 2 == 0 { 10 } else { 100 }))];
            if na > 0 {
                ops.insert(1, BOp::Allow(allow));
            }
            let spec = RespSpec { v11: sl % 2 == 0, code: 200, ops };
            rec.nontrivial_op();
            resp_case(rec, rng, &spec, sl <= 300);
        }
    }
    rec.case("exhaustive");
    let mut stream_specs: Vec<RespSpec> = vec![];
    for v11 in [false, true] {
        for code in CODES {
            for s in &seqs {
                let spec = RespSpec { v11, code, ops: s.clone() };
                resp_case(rec, rng, &spec, s.len() <= 1);
                if stream_specs.len() < 4000 && rng.chance(1, 3) {
                    stream_specs.push(spec);
                }
            }
        }
    }
    // random sequences up to 5 calls, bigger bodies
    let n = if thorough { 60000 } else { 2500 };
    rec.case("random");
    for _ in 0..n {
        let k = rng.below(6);
        let spec = RespSpec {
            v11: rng.chance(1, 2),
            code: *rng.pick(&CODES),
            ops: (0..k).map(|_| random_op(rng, thorough)).collect(),
        };
        resp_case(rec, rng, &spec, true);
        if rng.chance(1, 2) {
            stream_specs.push(spec);
        }
    }
    // keep-alive streams: an independent reader (Lean, Spec/RespReader) must recover every response
    let n_streams = if thorough { 20000 } else { 1500 };
    for _ in 0..n_streams {
        rec.case("keepalive-stream");
        let k = rng.range(1, 5);
        let mut bytes = vec![];
        let mut views = vec![];
        let mut ok = true;
        for _ in 0..k {
            let spec = rng.pick(&stream_specs).clone();
            // the property quantifies over server identities without CRLF (see DESIGN.md)
            let v = expected_view(&spec);
            if v.contains('?') {
                ok = false;
            }
            bytes.extend_from_slice(&serialize(&spec));
            views.push(v);
        }
        if !ok {
            continue;
        }
        rec.nontrivial();
        rec.op(&format!("spec respread {}", hx(&bytes)), &format!("[{}] rest=0", views.join("")));
    }
}
