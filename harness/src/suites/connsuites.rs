//! Suites that drive a real `HttpConnection` through a scripted stream:
//! c01 (segmentation independence), c02 (grammar), c03 (no panic / one syscall per call),
//! c04 (limits), c06 (write side), c11 (clean restart after errors), c12 (descriptors),
//! c13 (100-continue), c14 (one-shot vs incremental).
use crate::conn::{BOp, ConnDriver, RespSpec, Tokens, CODES};
use crate::emit::Rec;
use crate::gen::{self, ReqOpts, ReqPlan};
use crate::rng::Rng;
use crate::show::*;
use crate::sstream::WAct;
use micro_http::Request;
use std::panic::{catch_unwind, AssertUnwindSafe};

pub const CONT11: &[u8] = b"HTTP/1.1 100 \r\nServer: Firecracker API\r\nConnection: keep-alive\r\n\r\n";
pub const CONT10: &[u8] = b"HTTP/1.0 100 \r\nServer: Firecracker API\r\nConnection: keep-alive\r\n\r\n";

/// Split the bytes a connection wrote on its own initiative into 100-continue responses.
pub fn parse_conts(mut b: &[u8]) -> Vec<String> {
    let mut out = vec![];
    while !b.is_empty() {
        if b.starts_with(CONT11) {
            out.push("1.1".to_string());
            b = &b[CONT11.len()..];
        } else if b.starts_with(CONT10) {
            out.push("1.0".to_string());
            b = &b[CONT10.len()..];
        } else {
            out.push(format!("?{}", hx(b)));
            break;
        }
    }
    out
}

#[derive(Clone, Debug, PartialEq)]
pub struct Summary {
    pub delivered: Vec<String>,
    pub conts: Vec<String>,
    pub error: Option<String>,
}

impl Summary {
    pub fn line(&self) -> String {
        format!(
            "[{}] conts=[{}] end={}",
            self.delivered.join("|"),
            self.conts.join(","),
            match &self.error {
                None => "ok".to_string(),
                Some(e) => format!("err {}", e),
            }
        )
    }
}

/// Drain everything the connection wants to write (sink accepts everything).
pub fn drain_writes(d: &mut ConnDriver, rec: &mut Rec) -> Vec<u8> {
    let mut all = vec![];
    let mut guard = 0;
    while d.pending_write() && guard < 10000 {
        let (r, acc) = d.write(rec, WAct::Accept(1 << 30));
        all.extend_from_slice(&acc);
        if r != "ok" {
            break;
        }
        guard += 1;
    }
    all
}

/// Feed `chunks` to a new connection (limit `limit`), with failed reads sprinkled in between,
/// stopping at the first parse error. Returns the driver and the summary.
pub fn run_stream(rec: &mut Rec, rng: &mut Rng, limit: usize, chunks: &[Vec<u8>], noise_pct: usize, pop_pct: usize) -> (ConnDriver, Summary) {
    let mut d = ConnDriver::new(rec, limit);
    d.stop_on_parse_error = true;
    let mut error = None;
    // a response of the application that is HALF SENT while the reads go on (a short write, the rest at the end)
    let half_spec = RespSpec { v11: true, code: 200, ops: vec![BOp::Body(b"half-sent while reading".to_vec())] };
    let mut half_rest: Option<Vec<u8>> = None;
    'outer: for ch in chunks {
        while rng.below(100) < noise_pct {
            if half_rest.is_none() && !d.pending_write() && rng.chance(1, 4) {
                d.enqueue(rec, &half_spec);
                let (_r, acc) = d.write(rec, WAct::Accept(3));
                let all = crate::suites::response::serialize(&half_spec);
                half_rest = Some(all[acc.len().min(all.len())..].to_vec());
                rec.count("noise:response-half-sent-between-reads");
                continue;
            }
            if rng.chance(1, 4) && !d.pending_write() {
                // noise on the OUTPUT side between two reads: a response is queued and its write fails (the peer shut
                // down its reading side but keeps sending) or is interrupted and then fails — the input side of the
                // connection, with a request possibly half received, is none of the write path's business
                let r = RespSpec { v11: true, code: 200, ops: vec![BOp::Body(b"noise".to_vec())] };
                d.enqueue(rec, &r);
                if rng.chance(1, 3) {
                    d.write(rec, WAct::Intr);
                }
                d.write(rec, if rng.chance(1, 4) { WAct::Zero } else { WAct::Fail });
                rec.count("noise:failed-write-between-reads");
                continue;
            }
            let e = *rng.pick(&[libc::EAGAIN, libc::EINTR]);
            d.rerr(rec, e);
        }
        if ch.is_empty() {
            continue;
        }
        for r in d.recv(rec, ch, 0) {
            if let Some(e) = r.strip_prefix("parse(") {
                error = Some(e[..e.len() - 1].to_string());
                break 'outer;
            }
            if r == "PANIC" || r == "dead" {
                error = Some("PANIC".into());
                break 'outer;
            }
        }
        if rng.below(100) < pop_pct {
            d.pop(rec);
        }
    }
    d.popall(rec);
    let mut written = drain_writes(&mut d, rec);
    if let Some(rest) = half_rest {
        // the rest of the half-sent response comes first (it was the buffer's content when the reads queued theirs)
        if written.starts_with(&rest) {
            written = written[rest.len()..].to_vec();
        } else if error.is_none() && d.conn.is_some() {
            rec.oracle_fail("C06", "a response that was half sent while the connection went on reading did not complete first", &d.log);
        }
    }
    let s = Summary {
        delivered: d.delivered.iter().map(|x| x.text_nofiles.clone()).collect(),
        conts: parse_conts(&written),
        error,
    };
    (d, s)
}

fn pick_limit(rng: &mut Rng) -> usize {
    match rng.below(10) {
        0 => 0,
        1 => rng.range(1, 8),
        2 => 100,
        3 => 1024,
        _ => 51200,
    }
}

/// A stream of 1..k pipelined requests; returns (bytes, description, plans).
pub fn pipeline(rng: &mut Rng, kmax: usize, boundary: bool) -> (Vec<u8>, Vec<ReqPlan>) {
    let k = rng.range(1, kmax);
    let mut bytes = vec![];
    let mut plans = vec![];
    for _ in 0..k {
        let mut o = ReqOpts::default();
        if boundary {
            // place the end of the head / of the body near multiples of the window
            let cur = bytes.len() % 1024;
            match rng.below(4) {
                0 => o.head_len_target = (1024 + *rng.pick(&[1021usize, 1022, 1023, 1024, 1025, 1026, 1027]) - cur) % 1024 + 1024 * rng.below(2),
                1 => o.body_lens = vec![1021, 1022, 1023, 1024, 1025, 1026, 1027, 2047, 2048, 2049, 2050],
                2 => {
                    o.head_len_target = 1024 * rng.range(1, 2) - cur.min(500);
                    o.body_lens = vec![0, 1, 1023, 1024, 1025];
                }
                _ => {}
            }
        } else if rng.chance(1, 8) {
            o.body_lens = vec![300, 1000, 1500, 3000];
        }
        let p = gen::valid_request(rng, &o);
        bytes.extend_from_slice(&p.bytes());
        plans.push(p);
    }
    (bytes, plans)
}

fn near_terminator_cut(stream: &[u8], cuts: &[usize]) -> bool {
    cuts.iter().any(|&c| {
        let a = stream.get(c.wrapping_sub(1)).copied();
        let b = stream.get(c).copied();
        a == Some(b'\r') || a == Some(b'\n') || b == Some(b'\r') || b == Some(b'\n') || c % 1024 <= 1 || c % 1024 == 1023
    })
}

pub fn c01_stream_case(rec: &mut Rec, rng: &mut Rng, stream: &[u8], limit: usize, n_sched: usize, descr: &str) {
    rec.case(descr);
    let mut first: Option<Summary> = None;
    let mut first_log: Vec<String> = vec![];
    for k in 0..n_sched {
        let strat = if k < 8 { k } else { 4 + rng.below(2) };
        let cuts = gen::cuts(rng, stream, strat);
        let chunks = gen::split_at_cuts(stream, &cuts);
        rec.count(&format!("chunks:{}", match chunks.len() { 1 => "1", 2..=4 => "2-4", 5..=20 => "5-20", _ => ">20" }));
        if chunks.len() >= 2 && (near_terminator_cut(stream, &cuts) || stream.len() > 1024) {
            rec.nontrivial();
        }
        let noise = if k % 2 == 1 { 20 } else { 0 };
        let (d, s) = run_stream(rec, rng, limit, &chunks, noise, 30);
        if s.error.is_some() {
            rec.nontrivial();
        }
        match &first {
            None => {
                first = Some(s);
                first_log = d.log.clone();
            }
            Some(f) => {
                if *f != s {
                    let mut l = vec![format!("# stream {} limit {}", hx(stream), limit), "# schedule A:".to_string()];
                    l.extend(first_log.iter().cloned());
                    l.push("# schedule B:".to_string());
                    l.extend(d.log.iter().cloned());
                    rec.oracle_fail("C01", &format!("two read schedules of the same stream differ: {} vs {}", f.line(), s.line()), &l);
                }
            }
        }
    }
    if let Some(f) = first {
        rec.count(&format!("delivered:{}", f.delivered.len().min(6)));
        rec.count(if f.error.is_some() { "end:error" } else { "end:ok" });
        // the implementation against the specification (byte-at-a-time automaton) on the whole stream
        rec.op(&format!("spec feed {} {}", limit, hx(stream)), &f.line());
    }
}

fn n_sched_for(thorough: bool) -> usize {
    if thorough { 12 } else { 8 }
}

pub fn c01(rec: &mut Rec, rng: &mut Rng, thorough: bool) {
    regress_f1(rec);
    // a body that ends exactly where a full 1024-byte read ends (head in a read of its own, Content-Length a multiple of
    // the window): the request is delivered by that very read — the stream may end or pause right there
    for m in [1usize, 2, 3] {
        for tail in [false, true] {
            rec.case("body-ends-on-a-full-read");
            rec.nontrivial();
            let n = 1024 * m;
            let head = format!("PUT /full HTTP/1.1\r\nContent-Length: {}\r\n\r\n", n).into_bytes();
            let body = gen::body_bytes(rng, n);
            let mut d = ConnDriver::new(rec, 51200);
            d.recv(rec, &head, 0);
            for ch in body.chunks(1024) {
                d.recv(rec, ch, 0);
            }
            let del = d.popall(rec);
            if del.len() != 1 || !del[0].text_nofiles.contains(&format!("body={} ", hx(&body))) {
                rec.oracle_fail("C01", &format!("a body of {} bytes fed in reads of exactly 1024: {} requests delivered once the last body byte was read", n, del.len()), &d.log);
            }
            if tail {
                d.recv(rec, b"GET /next HTTP/1.1\r\n\r\n", 0);
                let del2 = d.popall(rec);
                if del2.len() != 1 {
                    rec.oracle_fail("C01", "the request behind a body that ended on a full read was not delivered on its own", &d.log);
                }
            }
        }
    }
    for _ in 0..(if thorough { 3000 } else { 120 }) {
        two_connections_case(rec, rng, "C01");
    }
    // streams that BEGIN like another protocol (a TLS ClientHello, an SSH banner, the HTTP/2 preface, a PROXY-protocol
    // line, SOCKS, NULs, a UTF-8 BOM) and then go on as lines, with and without a well-formed request behind: whatever the
    // connection makes of them — it knows HTTP/1.x only — it makes of them under every read schedule, the first read
    // being one byte long included
    {
        let prefixes: [&[u8]; 12] = [b"\x16\x03\x01\x02\x00\x01\x00\x01\xfc\x03\x03", b"\x16\x03", b"\x16", b"SSH-2.0-OpenSSH_9.6\r\n",
            b"PRI * HTTP/2.0\r\n\r\nSM\r\n\r\n", b"PROXY TCP4 10.0.0.1 10.0.0.2 1 2\r\n", b"\x05\x01\x00", b"\x00\x00\x00", b"\xef\xbb\xbf",
            b"\x80", b"\r\n", b"\n"];
        let tails: [&[u8]; 4] = [b"", b"\r\n", b"\r\n\r\n", b"GET /behind HTTP/1.1\r\n\r\n"];
        for pre in prefixes {
            for tail in tails {
                let mut st = pre.to_vec();
                st.extend_from_slice(tail);
                c01_stream_case(rec, rng, &st, 51200, n_sched_for(thorough).min(8), "foreign-protocol-prefix");
            }
        }
    }
    // many SHORT header lines (more than 16, 32, 64, 128 of them inside one 1024-byte read) and many tiny pipelined
    // requests: how many lines or requests a read happens to complete is no business of the result
    for count in [15usize, 16, 17, 31, 32, 33, 63, 64, 65, 66, 100, 127, 128, 129, 200] {
        let mut r = b"PUT /many HTTP/1.1\r\n".to_vec();
        for k in 0..count {
            r.extend_from_slice(format!("X{}:{}\r\n", k, k % 10).as_bytes());
        }
        r.extend_from_slice(b"Content-Length: 3\r\n\r\nabcGET /next HTTP/1.1\r\n\r\n");
        c01_stream_case(rec, rng, &r, 51200, n_sched_for(thorough), "many-header-lines");
        let mut p = vec![];
        for k in 0..count {
            p.extend_from_slice(format!("GET /{} HTTP/1.1\r\n\r\n", k).as_bytes());
        }
        c01_stream_case(rec, rng, &p, 51200, n_sched_for(thorough), "many-tiny-requests");
    }
    let n = if thorough { 6000 } else { 200 };
    let n_sched = if thorough { 12 } else { 8 };
    for i in 0..n {
        let limit = pick_limit(rng);
        let kind = i % 6;
        let (mut stream, plans) = pipeline(rng, 5, kind == 1 || kind == 2);
        let descr;
        match kind {
            5 => {
                // a request line or header line whose length (with CR LF) is around the window size
                let total = rng.range(1020, 1027);
                let mut s = vec![];
                if rng.chance(1, 2) {
                    s.extend_from_slice(&plans[0].bytes());
                }
                if rng.chance(1, 2) {
                    s.extend_from_slice(format!("GET /{} HTTP/1.1\r\n", "u".repeat(total - 2 - 14)).as_bytes());
                    s.extend_from_slice(b"X: y\r\n\r\n");
                } else {
                    s.extend_from_slice(b"GET /long HTTP/1.1\r\n");
                    if rng.chance(1, 2) {
                        s.extend_from_slice(b"A: b\r\n");
                    }
                    s.extend_from_slice(format!("L: {}\r\n\r\n", "l".repeat(total - 2 - 3)).as_bytes());
                }
                if rng.chance(1, 2) {
                    s.extend_from_slice(b"GET /after HTTP/1.0\r\n\r\n");
                }
                stream = s;
                descr = format!("long-line-{}", total);
            }
            3 => {
                // one corruption somewhere
                let which = *rng.pick(&gen::CORRUPTIONS);
                let j = rng.below(plans.len());
                let mut s = vec![];
                for (i, p) in plans.iter().enumerate() {
                    if i == j {
                        s.extend_from_slice(&gen::corrupt(rng, p, which));
                    } else {
                        s.extend_from_slice(&p.bytes());
                    }
                }
                stream = s;
                descr = format!("corrupt-{}", which);
            }
            4 => {
                let cut = rng.below(stream.len());
                stream.truncate(cut);
                descr = "truncated".to_string();
            }
            1 | 2 => descr = "boundary".to_string(),
            _ => descr = "pipeline".to_string(),
        }
        if stream.is_empty() {
            continue;
        }
        c01_stream_case(rec, rng, &stream, limit, n_sched, &descr);
    }
    // exhaustive one- and two-cut segmentations of short streams
    let n_ex = if thorough { 300 } else { 12 };
    for _ in 0..n_ex {
        let mut o = ReqOpts::default();
        o.max_extra = 1;
        o.body_lens = vec![0, 2, 3];
        let p1 = gen::valid_request(rng, &o);
        let p2 = gen::valid_request(rng, &o);
        let mut stream = p1.bytes();
        stream.extend_from_slice(&p2.bytes());
        if stream.len() > 160 {
            continue;
        }
        rec.case("exhaustive-2cut");
        rec.nontrivial();
        let mut base: Option<Summary> = None;
        for a in 1..stream.len() {
            for b in a..stream.len() {
                let cuts = if a == b { vec![a] } else { vec![a, b] };
                let chunks = gen::split_at_cuts(&stream, &cuts);
                let (d, s) = run_stream(rec, rng, 51200, &chunks, 0, 0);
                match &base {
                    None => base = Some(s),
                    Some(f) => {
                        if *f != s {
                            rec.oracle_fail("C01", &format!("cuts {:?} change the result: {} vs {}", cuts, f.line(), s.line()), &d.log);
                        }
                    }
                }
            }
        }
        if let Some(f) = base {
            rec.op(&format!("spec feed 51200 {}", hx(&stream)), &f.line());
        }
    }
}

/// The histories that exposed defect F1 (DESIGN.md §6), kept as regression cases.
pub fn regress_f1(rec: &mut Rec) {
    let hist: [&[&[u8]]; 4] = [
        &[b"GET /rejected HTTP/1.1\r\nContent-Length: abc\r\n", b"\r\n"],
        &[b"PUT /r HTTP/1.1\r\nContent-Length: 99999999\r\n\r\n", b"Content-Length: 3\r\n\r\nabc"],
        &[b"GET / HTTP/1.1\r\n\r\nBAD", b"LINE\r\n", b"GET /ok HTTP/1.1\r\n\r\n"],
        &[b"GET /a HTTP/1.1\r\nX", b"Y\r\n", b"GET /ok HTTP/1.1\r\n\r\n"],
    ];
    for h in hist {
        rec.case("regress-F1");
        rec.nontrivial();
        let mut d = ConnDriver::new(rec, 51200);
        let mut seen_err = false;
        let mut after: Vec<String> = vec![];
        for ch in h {
            let rs = d.recv(rec, ch, 0);
            let del = d.popall(rec);
            if seen_err {
                after.extend(del.iter().map(|x| x.text_nofiles.clone()));
            }
            if rs.iter().any(|r| r.starts_with("parse(")) {
                seen_err = true;
            }
        }
        // C11 oracle: nothing of the rejected request is delivered afterwards
        if after.iter().any(|t| t.contains(&hx(b"/rejected")) || t.contains(&format!("u={} ", hx(b"/r")))) {
            rec.oracle_fail("C11", "a rejected request was delivered by later input", &d.log);
        }
    }
}

pub fn c02(rec: &mut Rec, rng: &mut Rng, thorough: bool) {
    let n = if thorough { 40000 } else { 1800 };
    for i in 0..n {
        let limit = if rng.chance(1, 5) { pick_limit(rng) } else { 51200 };
        let mut o = ReqOpts::default();
        if rng.chance(1, 6) {
            o.body_lens = vec![0, 1, 7, 8, 9, 99, 100, 101];
        }
        let which = gen::CORRUPTIONS[i % gen::CORRUPTIONS.len()];
        let npre = rng.below(3);
        let mut stream = vec![];
        for _ in 0..npre {
            stream.extend_from_slice(&gen::valid_request(rng, &o).bytes());
        }
        let p = gen::valid_request(rng, &o);
        let descr = if i % 4 == 0 {
            stream.extend_from_slice(&p.bytes());
            "valid".to_string()
        } else {
            stream.extend_from_slice(&gen::corrupt(rng, &p, which));
            format!("corrupt-{}", which)
        };
        if rng.chance(1, 3) {
            stream.extend_from_slice(&gen::valid_request(rng, &o).bytes());
        }
        rec.case(&descr);
        let chunks = vec![stream.clone()];
        let (_d, s) = run_stream(rec, rng, limit, &chunks, 0, 0);
        if s.error.is_some() || !s.delivered.is_empty() {
            rec.nontrivial();
        }
        rec.count(&format!("kind:{}", descr));
        rec.count(if s.error.is_some() { "end:error" } else { "end:ok" });
        rec.op(&format!("spec feed {} {}", limit, hx(&stream)), &s.line());
        // the same stream one byte per read: what is accepted and which error names the first offender must not
        // depend on where the reads cut (every cut position at once, incl. inside multi-byte characters and tokens)
        if i % 3 == 1 && stream.len() <= 700 {
            rec.case(&format!("{}-bytewise", descr));
            let bytes: Vec<Vec<u8>> = stream.iter().map(|b| vec![*b]).collect();
            // (every other bytewise pass with noise between the reads: failed reads, and failed writes of a queued response)
            let (_d2, s2) = run_stream(rec, rng, limit, &bytes, if i % 2 == 0 { 3 } else { 0 }, 0);
            rec.op(&format!("spec feed {} {}", limit, hx(&stream)), &s2.line());
            if s2.line() != s.line() {
                rec.oracle_fail("C02", &format!("fed in one piece: {} — fed one byte per read: {}", s.line(), s2.line()), &[format!("spec feed {} {}", limit, hx(&stream))]);
            }
        }
    }
    // numeric edge values of Content-Length
    for v in ["0", "007", "4294967295", "4294967296", "-1", "", "+3", "3", " 3 ", "3 3", "00000000003", "+0000000003", "000000000000000000003"] {
        for limit in [0usize, 3, 51200, 4294967295] {
            rec.case("content-length-edge");
            rec.nontrivial();
            let mut stream = format!("PUT /x HTTP/1.1\r\nContent-Length: {}\r\n\r\n", v).into_bytes();
            stream.extend_from_slice(b"abc");
            let (_d, s) = run_stream(rec, rng, limit, &[stream.clone()], 0, 0);
            rec.op(&format!("spec feed {} {}", limit, hx(&stream)), &s.line());
        }
    }
    // sizes the grammar does not bound (only the 1024-byte line limit applies): long targets, long field names and
    // values, many header lines, many pipelined requests — delivered verbatim, in one piece and byte by byte
    let mut sized: Vec<(String, Vec<u8>)> = vec![];
    for len in [15usize, 16, 17, 31, 32, 33, 63, 64, 65, 127, 128, 129, 255, 256, 257, 511, 512, 513, 900] {
        sized.push((format!("long-target-{}", len), format!("GET /{} HTTP/1.1\r\n\r\n", "u".repeat(len - 1)).into_bytes()));
        sized.push((format!("long-name-{}", len), format!("GET /n HTTP/1.1\r\nX-{}: v\r\nX-Tail: t\r\n\r\n", "n".repeat(len - 2)).into_bytes()));
        sized.push((format!("long-value-{}", len), format!("PUT /v HTTP/1.1\r\nX-V: {}\r\nContent-Length: 2\r\n\r\nab", "v".repeat(len)).into_bytes()));
    }
    for count in [16usize, 17, 32, 33, 64, 65, 100, 128, 129, 255, 256, 257] {
        let mut r = b"PUT /many HTTP/1.1\r\n".to_vec();
        for k in 0..count {
            r.extend_from_slice(format!("X-F{}: {}\r\n", k, k).as_bytes());
        }
        r.extend_from_slice(b"Content-Length: 3\r\n\r\nabc");
        sized.push((format!("many-lines-{}", count), r));
        let mut p = vec![];
        for k in 0..count {
            p.extend_from_slice(format!("GET /p{} HTTP/1.1\r\n\r\n", k).as_bytes());
        }
        sized.push((format!("many-requests-{}", count), p));
    }
    // the same recognised field twice in one request, every ordered pair of a few values: what is delivered follows the
    // documented rule for that field (last acceptable occurrence / any occurrence), never the mere order of the lines
    for (i, name) in gen::REC_NAMES.iter().enumerate() {
        let vals: Vec<&str> = gen::values_for(i).iter().take(4).cloned().collect();
        for a in &vals {
            for b in &vals {
                let stream = format!("PUT /pair HTTP/1.1\r\n{}: {}\r\n{}: {}\r\nContent-Length: 2\r\n\r\nab", name, a, name.to_ascii_lowercase(), b).into_bytes();
                sized.push((format!("pair-{}", name), stream));
            }
        }
    }
    // fields that mean something to other software, carrying the crate's own vocabulary as values, under every method:
    // the delivered method, target, version and body are those of the request line and of the bytes, nothing else
    for name in gen::CUSTOM_NAMES.iter().skip(9).take(18) {
        for value in gen::OTHER_VALUES.iter().skip(9) {
            for m in ["GET", "PUT", "PATCH"] {
                let stream = if m == "GET" {
                    format!("GET /ff HTTP/1.0\r\n{}: {}\r\n\r\n", name, value).into_bytes()
                } else {
                    format!("{} /ff HTTP/1.1\r\n{}: {}\r\nContent-Length: 2\r\n\r\nab", m, name, value).into_bytes()
                };
                sized.push(("foreign-field".to_string(), stream));
            }
        }
    }
    for (name, stream) in sized {
        rec.case(&name);
        rec.nontrivial();
        let (_d, s) = run_stream(rec, rng, 51200, &[stream.clone()], 0, 0);
        rec.op(&format!("spec feed {} {}", 51200, hx(&stream)), &s.line());
        if stream.len() <= 1200 {
            let bytes: Vec<Vec<u8>> = stream.iter().map(|b| vec![*b]).collect();
            let (_d2, s2) = run_stream(rec, rng, 51200, &bytes, 0, 0);
            if s2.line() != s.line() {
                rec.oracle_fail("C02", &format!("{}: fed in one piece: {} — fed one byte per read: {}", name, s.line(), s2.line()), &[format!("spec feed {} {}", 51200, hx(&stream))]);
            }
        }
    }
}

fn random_resp(rng: &mut Rng, max_body: usize) -> RespSpec {
    let mut ops = vec![];
    if rng.chance(2, 3) {
        let n = match rng.below(4) {
            0 => 0,
            1 => rng.below(20),
            _ => rng.below(max_body + 1),
        };
        ops.push(BOp::Body(gen::body_bytes(rng, n)));
    }
    if rng.chance(1, 4) {
        ops.push(BOp::Deprecation);
    }
    if rng.chance(1, 4) {
        ops.push(BOp::AllowMethod(rng.below(3) as u8));
    }
    // `set_content_length` — before or after the body, announcing less, exactly, or MORE than the body has (the writer
    // must never index the body by the announced number), removed, negative
    if rng.chance(1, 8) {
        let l = *rng.pick(&[None, Some(0), Some(1), Some(3), Some(19), Some(20), Some(-1), Some(70000), Some(2147483647)]);
        if rng.chance(1, 3) {
            ops.insert(0, BOp::Len(l));
        } else {
            ops.push(BOp::Len(l));
        }
    }
    RespSpec { v11: rng.chance(1, 2), code: *rng.pick(&CODES), ops }
}

/// A standing backlog of output: two responses queued, then for many rounds one write and one more enqueue, so the
/// queue never runs empty while its contents move through whatever storage the connection uses for them (sizes around
/// powers of two, full / short / interrupted writes). No call may panic (C03) and the accepted bytes are the
/// serialized responses in enqueue order (C06).
pub fn standing_backlog(rec: &mut Rec, rng: &mut Rng, prop: &str) {
    for (k, sizes) in [[0usize, 1, 2, 3], [5, 60, 7, 120], [100, 300, 900, 20], [1000, 1030, 4090, 4100], [64, 64, 64, 64]].iter().enumerate() {
        for mode in 0..3 {
            rec.case("standing-backlog");
            rec.nontrivial();
            let mut d = ConnDriver::new(rec, 51200);
            let mut expected: Vec<u8> = vec![];
            let mut accepted: Vec<u8> = vec![];
            let mut n = 0usize;
            let mut enq = |d: &mut ConnDriver, rec: &mut Rec, rng: &mut Rng, expected: &mut Vec<u8>| {
                let r = RespSpec { v11: n % 2 == 0, code: if n % 7 == 3 { 100 } else { 200 }, ops: if n % 7 == 3 { vec![] } else { vec![BOp::Body(gen::body_bytes(rng, sizes[n % 4]))] } };
                n += 1;
                expected.extend_from_slice(&crate::suites::response::serialize(&r));
                d.enqueue(rec, &r);
            };
            enq(&mut d, rec, rng, &mut expected);
            enq(&mut d, rec, rng, &mut expected);
            for round in 0..(if k == 3 { 24 } else { 70 }) {
                let w = match mode {
                    0 => WAct::Accept(1 << 30),
                    1 => [WAct::Accept(1 << 30), WAct::Accept(3), WAct::Intr, WAct::Accept(200)][round % 4].clone(),
                    _ => WAct::Accept(1 + (round * 37) % 500),
                };
                let (_r, bytes) = d.write(rec, w);
                accepted.extend_from_slice(&bytes);
                if d.conn.is_none() {
                    break;
                }
                enq(&mut d, rec, rng, &mut expected);
            }
            let mut guard = 0;
            while d.conn.is_some() && d.pending_write() && guard < 5000 {
                guard += 1;
                let (_r, bytes) = d.write(rec, WAct::Accept(1 << 30));
                accepted.extend_from_slice(&bytes);
            }
            if d.panicked {
                rec.oracle_fail(prop, "a write panicked while a backlog of responses was standing", &d.log);
            } else if accepted != expected {
                rec.oracle_fail("C06", &format!("standing backlog: the stream accepted {} bytes, the serialized responses in enqueue order are {} bytes (or differ)", accepted.len(), expected.len()), &d.log);
            }
        }
    }
}

pub fn c03(rec: &mut Rec, rng: &mut Rng, thorough: bool) {
    standing_backlog(rec, rng, "C03");
    // pure entry points on arbitrary bytes
    let n_pure = if thorough { 60000 } else { 2500 };
    rec.case("pure-entry-points");
    for _ in 0..n_pure {
        let n = match rng.below(6) {
            0 => rng.below(8),
            1 => rng.below(64),
            2 => rng.below(300),
            3 => rng.range(1000, 1100),
            _ => rng.below(2500),
        };
        let bs = if rng.chance(1, 3) {
            let mut o = ReqOpts::default();
            o.body_lens = vec![0, 1, 5, 26];
            let p = gen::valid_request(rng, &o);
            let w = *rng.pick(&gen::CORRUPTIONS);
            if rng.chance(1, 2) { gen::corrupt(rng, &p, w) } else { p.bytes() }
        } else {
            gen::soup(rng, n)
        };
        rec.nontrivial_op();
        oneshot_op(rec, &bs, if rng.chance(1, 3) { Some(rng.below(3000)) } else { None });
        if rng.chance(1, 2) {
            crate::suites::headers::block_case_quiet(rec, &bs);
        }
        if bs.len() < 40 {
            crate::suites::tokens::op_method(rec, &bs);
            crate::suites::tokens::op_version(rec, &bs);
            crate::suites::tokens::op_media(rec, &bs);
            crate::suites::headers::op_enc(rec, &bs);
            if !bs.is_empty() && !bs.iter().any(|c| *c == b' ' || *c == b'\r' || *c == b'\n') {
                crate::suites::tokens::abs_path_case(rec, &bs, true);
            }
        }
    }
    // the Accept-Encoding alphabet (weights with any number of decimals, optional whitespace, lists) through the value
    // parser, a header line, a block and a one-shot request
    rec.case("accept-encoding-values");
    for v in gen::AE_VALUES {
        for extra in ["", "0", "00000", ".5", " ", ";q=0.00000000001"] {
            let val = format!("{}{}", v, extra);
            rec.nontrivial_op();
            crate::suites::headers::op_enc(rec, val.as_bytes());
            let line = format!("Accept-Encoding: {}", val);
            crate::suites::headers::block_case_quiet(rec, line.as_bytes());
            oneshot_op(rec, format!("GET / HTTP/1.1\r\n{}\r\n\r\n", line).as_bytes(), None);
            let mut d = ConnDriver::new(rec, 51200);
            d.recv(rec, format!("GET / HTTP/1.1\r\n{}\r\n\r\n", line).as_bytes(), 0);
            d.popall(rec);
        }
    }
    // URI path extraction on absolute-form URIs with non-ASCII, empty and odd authorities
    rec.case("abs-path-odd-uris");
    let pieces: [&str; 12] = ["http://", "http:/", "/", "//", "\u{e9}", "\u{20ac}", "\u{1F600}", "a", ":", "%", "h", "."];
    for _ in 0..(if thorough { 40000 } else { 3000 }) {
        let mut u = String::new();
        if rng.chance(2, 3) {
            u.push_str("http://");
        }
        for _ in 0..rng.below(7) {
            let piece: &&str = rng.pick(&pieces[..]);
            u.push_str(piece);
        }
        if !u.is_empty() {
            rec.nontrivial_op();
            crate::suites::tokens::abs_path_case(rec, u.as_bytes(), true);
        }
    }
    // continued use after MANY reported errors (state that would accumulate across rejected requests)
    for (k, lines, vlen) in [(150usize, 4usize, 200usize), (200, 1, 4)] {
        c11_many_rejections(rec, rng, k, lines, vlen);
    }
    // the payload limit lowered (or raised) while a body is being staged: the declared length was admitted under
    // the limit then in force; the rest of the body arrives in several more reads and the request is delivered
    for k in 0..(if thorough { 600 } else { 60 }) {
        rec.case("limit-changed-inside-body");
        rec.nontrivial();
        let n = *rng.pick(&[5usize, 40, 300, 1500, 4000]);
        let mut d = ConnDriver::new(rec, 51200);
        let mut bytes = format!("PUT /b HTTP/1.1\r\nContent-Length: {}\r\n\r\n", n).into_bytes();
        let head = bytes.len();
        bytes.extend_from_slice(&gen::body_bytes(rng, n));
        // at least three reads inside the body
        let pieces = rng.range(3, 6).min(n);
        let mut cuts: Vec<usize> = (1..pieces).map(|j| head + j * n / pieces).collect();
        if k % 2 == 0 {
            cuts.insert(0, head);
        }
        cuts.dedup();
        let chunks = gen::split_at_cuts(&bytes, &cuts);
        let change_after = rng.range(1, chunks.len() - 1);
        for (j, ch) in chunks.iter().enumerate() {
            d.recv(rec, ch, 0);
            if j + 1 == change_after {
                let l = match k % 3 {
                    0 => 0,
                    1 => rng.below(n.max(1)),
                    _ => n + rng.below(3),
                };
                d.set_limit(rec, l);
            }
        }
        // (what is delivered is compared with the model; C03 itself only asks that no call panics — `recv` reports that)
        d.popall(rec);
    }
    // declared lengths around 2^31 and up to 2^32-1 under limits that admit them (the limit is a usize): the head, then a
    // few body bytes in the same or in a later read — bookkeeping in 32-bit or signed arithmetic must not trip
    for &l in &[2147483647usize, 2147483648, 4294967295, usize::MAX] {
        for &n in &[2147483646u64, 2147483647, 2147483648, 2147483649, 3000000000, 4294967294, 4294967295] {
            for same_read in [true, false] {
                rec.case("huge-declared-length");
                rec.nontrivial();
                let mut d = ConnDriver::new(rec, l);
                let mut head = format!("PUT /huge HTTP/1.1\r\nContent-Length: {}\r\n\r\n", n).into_bytes();
                if same_read {
                    head.extend_from_slice(b"0123456789");
                    d.recv(rec, &head, 0);
                } else {
                    d.recv(rec, &head, 0);
                    d.recv(rec, b"0123456789", 0);
                }
                d.recv(rec, &gen::body_bytes(rng, 1500), 0);
                d.popall(rec);
            }
        }
    }
    // long op sequences on one connection, continuing after every kind of error
    let n_seq = if thorough { 6000 } else { 250 };
    for _ in 0..n_seq {
        rec.case("op-sequence");
        let limit = pick_limit(rng);
        let mut d = ConnDriver::new(rec, limit);
        let steps = rng.range(5, 60);
        for _ in 0..steps {
            if d.conn.is_none() {
                break;
            }
            // the payload limit is configuration the caller may change at any time, also between two reads of a body
            if rng.chance(1, 12) {
                let l = if rng.chance(1, 2) { rng.below(8) } else { pick_limit(rng) };
                d.set_limit(rec, l);
                rec.count("c03:limit-changed-in-use");
            }
            match rng.below(14) {
                0..=4 => {
                    let n = match rng.below(5) {
                        0 => rng.below(10),
                        1 => rng.below(200),
                        2 => rng.range(1000, 1100),
                        3 => rng.below(3000),
                        _ => {
                            if thorough && rng.chance(1, 10) { rng.below(60000) } else { rng.below(1500) }
                        }
                    };
                    let bs = gen::soup(rng, n);
                    let rs = d.recv(rec, &bs, if rng.chance(1, 10) { rng.below(4) } else { 0 });
                    if rs.iter().any(|r| r.starts_with("parse(")) {
                        rec.nontrivial();
                    }
                }
                5 | 6 => {
                    let (bytes, _) = pipeline(rng, 3, false);
                    let cuts = gen::cuts(rng, &bytes, 6);
                    for ch in gen::split_at_cuts(&bytes, &cuts) {
                        d.recv(rec, &ch, 0);
                        if rng.chance(1, 10) {
                            let l = if rng.chance(2, 3) { rng.below(8) } else { pick_limit(rng) };
                            d.set_limit(rec, l);
                            rec.count("c03:limit-changed-inside-request");
                        }
                        // a read that fails or ends the stream INSIDE a request (between header lines, between
                        // two chunks of a body): the connection is used on, and must not panic afterwards
                        match rng.below(6) {
                            0 => {
                                d.rerr(rec, *rng.pick(&[libc::EAGAIN, libc::EINTR, libc::ECONNRESET]));
                                rec.count("c03:read-error-inside-request");
                            }
                            1 => {
                                d.eof(rec, if rng.chance(1, 4) { rng.below(3) } else { 0 });
                                rec.count("c03:eof-inside-request");
                            }
                            _ => {}
                        }
                    }
                }
                7 => {
                    d.rerr(rec, *rng.pick(&[libc::EAGAIN, libc::EINTR, libc::ECONNRESET, libc::EBADF]));
                }
                8 => {
                    d.eof(rec, 0);
                }
                9 => {
                    d.pop(rec);
                }
                10 => {
                    let r = random_resp(rng, 64);
                    d.enqueue(rec, &r);
                }
                11 | 12 => {
                    let w = match rng.below(6) {
                        0 => WAct::Intr,
                        1 => WAct::Zero,
                        2 => WAct::Fail,
                        _ => WAct::Accept(rng.range(1, 200)),
                    };
                    d.write(rec, w);
                }
                _ => d.clear(rec),
            }
        }
        d.popall(rec);
    }
}

/// `Request::try_from` (one-shot) as an op.
pub fn oneshot_op(rec: &mut Rec, bs: &[u8], max: Option<usize>) -> Option<Result<String, String>> {
    let op = format!("oneshot {} {}", max.map(|m| m.to_string()).unwrap_or("-".into()), hx(bs));
    match catch_unwind(AssertUnwindSafe(|| Request::try_from(bs, max))) {
        Err(_) => {
            rec.oracle_fail("C03", "Request::try_from panicked", &[op.clone()]);
            rec.op(&op, "PANIC");
            None
        }
        Ok(Ok(r)) => {
            let t = show_request(&r, &[]);
            rec.count("oneshot:ok");
            rec.op(&op, &format!("ok {}", t));
            Some(Ok(t))
        }
        Ok(Err(e)) => {
            let t = show_req_err(&e);
            rec.count(&format!("oneshot:{}", t.split('(').next().unwrap_or("")));
            rec.op(&op, &format!("err {}", t));
            Some(Err(t))
        }
    }
}

pub fn c04(rec: &mut Rec, rng: &mut Rng, thorough: bool) {
    // payload limit: rejected iff n > L, as soon as the header block is complete
    let limits: Vec<usize> = vec![0, 1, 2, 3, 4, 5, 6, 7, 8, 1023, 1024, 1025, 51199, 51200, 51201, 4294967295, 4294967296, 4294967396];
    for &l in &limits {
        let mut ns: Vec<u64> = vec![0, 1, 4294967295];
        for d in [-1i64, 0, 1] {
            let v = l as i64 + d;
            if v >= 0 && v <= 4294967295 {
                ns.push(v as u64);
            }
        }
        // declared lengths that do not fit 32 bits: never accepted, and never reported as another number
        ns.extend_from_slice(&[4294967296, 4294967297, 99999999999]);
        if l > 4294967295 {
            // lengths around the limit's LOW 32 bits: all of them are within the limit
            ns.extend_from_slice(&[5, 100, 101]);
        }
        ns.sort();
        ns.dedup();
        for &n in &ns {
            for variant in 0..(if thorough { 6 } else { 2 }) {
                rec.case("payload-limit");
                rec.nontrivial();
                let mut d = ConnDriver::new(rec, l);
                // the limit is configuration: it also holds after an earlier request on the same connection was rejected
                if variant >= 1 {
                    let bad: &[u8] = match (variant + n as usize) % 3 {
                        0 => b"BOGUS / HTTP/1.1\r\n\r\n",
                        1 => b"GET /x HTTP/1.1\r\nContent-Length: abc\r\n\r\n",
                        _ => b"PUT /big HTTP/1.1\r\nContent-Length: 4294967295\r\n\r\n",
                    };
                    if !(l as u64 >= 4294967295 && (variant + n as usize) % 3 == 2) {
                        d.recv(rec, bad, 0);
                        d.popall(rec);
                        drain_writes(&mut d, rec);
                    }
                }
                // the limit is judged on the DECLARED length, whatever this connection has staged before: every fourth case
                // first delivers two conforming requests with bodies of 0.6 L and 0.7 L (so that whatever the connection
                // keeps around for staging bodies has grown past L)
                if (n as usize + variant + l) % 4 == 1 && l >= 2 && l <= 60000 {
                    for frac in [6usize, 7] {
                        let m = (l * frac / 10).max(1);
                        let mut r = format!("PUT /warm HTTP/1.1\r\nContent-Length: {}\r\n\r\n", m).into_bytes();
                        r.extend_from_slice(&gen::body_bytes(rng, m));
                        for ch in r.chunks(700) {
                            d.recv(rec, ch, 0);
                        }
                        d.popall(rec);
                    }
                    rec.count("payload:after-conforming-bodies");
                }
                let pre = if variant % 2 == 1 { "GET /first HTTP/1.1\r\n\r\n" } else { "" };
                // (every third case: the header line in front of Content-Length ends in a bare CR — CR CR LF in the stream;
                // the line still ends at its CRLF and the declaration that follows is seen)
                let xa = if (n as usize + variant) % 3 == 0 { "X-A: b\r" } else { "X-A: b" };
                // (other recognised headers around the declaration change nothing about the limit: Transfer-Encoding in
                // particular does not exempt a request — the body is still read by Content-Length)
                let (h_before, h_after) = match (n as usize / 2 + variant + l) % 6 {
                    0 => ("Transfer-Encoding: chunked\r\n", ""),
                    1 => ("", "Transfer-Encoding: chunked\r\n"),
                    2 => ("Transfer-Encoding: identity\r\n", "Accept-Encoding: gzip\r\n"),
                    3 => ("", "Content-Type: text/plain\r\nTransfer-Encoding: gzip, chunked\r\n"),
                    _ => ("", ""),
                };
                let head = format!("{}PUT /x HTTP/1.1\r\n{}\r\n{}Content-Length: {}\r\n{}Expect: 100-continue\r\n\r\n", pre, xa, h_before, n, h_after).into_bytes();
                // the head only: no body byte is offered
                // (with a complete request in front, half of the cases arrive in ONE read: the verdict on the oversized
                // declaration is due from that very read, not from a later one)
                let strat = if !pre.is_empty() && (n as usize + l) % 2 == 0 { 0 } else { 4 + variant };
                let cuts = gen::cuts(rng, &head, strat);
                let mut last = String::new();
                let mut errs: Vec<String> = vec![];
                for ch in gen::split_at_cuts(&head, &cuts) {
                    for r in d.recv(rec, &ch, 0) {
                        if r.starts_with("parse(") {
                            errs.push(r.clone());
                        }
                        last = r;
                    }
                }
                let want_err = n > l as u64 && n > 0;
                let expect = format!("parse(SizeLimitExceeded({},{}))", l, n);
                if n > 4294967295 {
                    // n > L for every configurable L: the request must be rejected by this very read; the header rules
                    // reject the value itself (not a 32-bit decimal), and a size-limit error, if that is what is
                    // reported, must carry the declared number
                    // (the header rule rejects at the Content-Length line itself, which may be an earlier read)
                    if errs.is_empty() || errs.iter().any(|e| e.starts_with("parse(SizeLimitExceeded(") && *e != expect) {
                        rec.oracle_fail("C04", &format!("L={} n={}: the reads up to the end of the header block returned {:?}, last {}", l, n, errs, last), &d.log);
                    }
                    rec.count("payload:beyond-u32");
                    d.popall(rec);
                    continue;
                }
                if want_err != (last == expect) || (!want_err && last != "ok") {
                    rec.oracle_fail("C04", &format!("L={} n={}: the read completing the header block returned {}", l, n, last), &d.log);
                }
                rec.count(if want_err { "payload:rejected" } else { "payload:accepted" });
                // and a delivered body is exactly n bytes (only for sizes we can afford to send)
                if !want_err && n > 0 && n <= 60000 {
                    let body = gen::body_bytes(rng, n as usize);
                    let cuts = gen::cuts(rng, &body, 4);
                    for ch in gen::split_at_cuts(&body, &cuts) {
                        d.recv(rec, &ch, 0);
                    }
                    let del = d.popall(rec);
                    let ok = del.last().map(|x| x.text_nofiles.contains(&format!("body={} ", hx(&body)))).unwrap_or(false);
                    if !ok {
                        rec.oracle_fail("C04", &format!("L={} n={}: body not delivered exactly", l, n), &d.log);
                    }
                } else {
                    d.popall(rec);
                }
            }
        }
    }
    // a body of exactly (or just below) the limit followed by a pipelined request in the same reads: both are delivered
    // (the limit is about the declared length, not about how many bytes a read happens to carry)
    for &l in &[1usize, 5, 48, 1023, 1024, 1500, 51200] {
        for dn in [0usize, 1, 3] {
            if dn > l {
                continue;
            }
            let n = l - dn;
            rec.case("payload-at-limit-pipelined");
            rec.nontrivial();
            let mut d = ConnDriver::new(rec, l);
            let body = gen::body_bytes(rng, n);
            let mut stream = format!("PUT /x HTTP/1.1\r\nContent-Length: {}\r\n\r\n", n).into_bytes();
            stream.extend_from_slice(&body);
            let boundary = stream.len();
            // (the follower is a plain GET, or — the limit is per request, not per connection or per queue — ANOTHER
            // request with a body of up to L bytes while the first one has not been taken out yet)
            if (l + dn) % 2 == 0 {
                stream.extend_from_slice(b"GET /next HTTP/1.1\r\nX-Pad: pppppppppppppppppppppppppppppppppppppp\r\n\r\n");
            } else {
                let n2 = l.min(2000);
                stream.extend_from_slice(format!("PUT /next HTTP/1.1\r\nContent-Length: {}\r\n\r\n", n2).as_bytes());
                stream.extend_from_slice(&gen::body_bytes(rng, n2));
                rec.count("payload:second-body-behind-unclaimed-first");
            }
            // cuts anywhere but at the body / next-request boundary
            let cuts: Vec<usize> = gen::cuts(rng, &stream, 3).into_iter().filter(|c| *c != boundary).collect();
            let mut errs = vec![];
            for ch in gen::split_at_cuts(&stream, &cuts) {
                for r in d.recv(rec, &ch, 0) {
                    if r.starts_with("parse(") {
                        errs.push(r);
                    }
                }
            }
            let del = d.popall(rec);
            let ok = errs.is_empty() && del.len() == 2 && (n == 0 || del[0].text_nofiles.contains(&format!("body={} ", hx(&body))));
            if !ok {
                rec.oracle_fail("C04", &format!("L={} n={} followed by a pipelined request: errors {:?}, {} requests delivered", l, n, errs, del.len()), &d.log);
            }
        }
    }
    // limits ABOVE the documented default: a body between 51200 and L bytes really transmitted, in reads of various sizes —
    // the only limit is the configured one, all the way through the body
    for &l in &[60000usize, 200000] {
        for &n in &[51201usize, 55000, 60000] {
            for &chunk in &[300usize, 1024, 4000] {
                if n > l {
                    continue;
                }
                rec.case("large-body-under-raised-limit");
                rec.nontrivial();
                let mut d = ConnDriver::new(rec, l);
                let body = gen::body_bytes(rng, n);
                let mut stream = format!("PUT /large HTTP/1.1\r\nContent-Length: {}\r\n\r\n", n).into_bytes();
                stream.extend_from_slice(&body);
                let mut errs = vec![];
                for ch in stream.chunks(chunk) {
                    for r in d.recv(rec, ch, 0) {
                        if r.starts_with("parse(") {
                            errs.push(r);
                        }
                    }
                    if !errs.is_empty() {
                        break;
                    }
                }
                let del = d.popall(rec);
                if !errs.is_empty() || del.len() != 1 {
                    rec.oracle_fail("C04", &format!("L={} n={} in reads of {} bytes: errors {:?}, {} requests delivered", l, n, chunk, errs, del.len()), &[format!("conn new {}", l), format!("# PUT with a body of {} bytes in reads of {}", n, chunk)]);
                }
            }
        }
    }
    // a long REQUEST line that starts at a small buffer offset: the last k bytes of the previous request's body arrive
    // in the same read, in front of it; a long HEADER line that starts right behind the short remainder of a
    // carried-over header line
    for &len in &[1000usize, 1016, 1017, 1020, 1022, 1023, 1024, 1025, 1030] {
        for &k in &[1usize, 2, 7, 15, 16, 29] {
            for is_reqline in [true, false] {
                rec.case("line-length-small-offset");
                rec.nontrivial();
                let mut d = ConnDriver::new(rec, 51200);
                let line_no_crlf = len - 2;
                let mut first: Vec<u8>;
                let second: Vec<u8>;
                if is_reqline {
                    // read 1: a PUT with all of its body but the last k bytes; read 2: those k bytes + the long request line
                    let body = gen::body_bytes(rng, 40);
                    let mut all = format!("PUT /p HTTP/1.1\r\nContent-Length: {}\r\n\r\n", body.len()).into_bytes();
                    all.extend_from_slice(&body);
                    let cut = all.len() - k;
                    first = all[..cut].to_vec();
                    let mut s2 = all[cut..].to_vec();
                    let ul = line_no_crlf.saturating_sub(13);
                    s2.extend_from_slice(format!("GET /{} HTTP/1.1\r\n\r\n", "u".repeat(ul.saturating_sub(1))).as_bytes());
                    second = s2;
                } else {
                    // read 1: a request line and a header line without its last k bytes (carried over); read 2: those k bytes
                    // (ending the line) + the long header line
                    let short = b"X-Short: carried-over-value\r\n";
                    first = b"GET /h HTTP/1.1\r\n".to_vec();
                    let kk = k.min(short.len() - 1);
                    first.extend_from_slice(&short[..short.len() - kk]);
                    let mut s2 = short[short.len() - kk..].to_vec();
                    s2.extend_from_slice(format!("L: {}\r\n\r\n", "l".repeat(line_no_crlf.saturating_sub(3))).as_bytes());
                    second = s2;
                }
                d.recv(rec, &first, 0);
                let mut err: Option<String> = None;
                for r in d.recv(rec, &second, 0) {
                    if r.starts_with("parse(") && err.is_none() {
                        err = Some(r);
                    }
                }
                let del = d.popall(rec);
                let too_long = len > 1024;
                let got_len_err = match &err {
                    Some(e) if is_reqline => e == "parse(InvalidRequest)",
                    Some(e) => e.starts_with("parse(HeaderError(SizeLimitExceeded("),
                    None => false,
                };
                let delivered_long = del.iter().any(|x| x.text_nofiles.contains(if is_reqline { "u=2f7575" } else { "u=2f68 " }));
                if too_long != got_len_err || too_long == delivered_long || (!too_long && err.is_some()) {
                    rec.oracle_fail("C04", &format!("line of {} bytes (incl. CRLF) starting at buffer offset {}: error {:?}, delivered {}", len, k, err, delivered_long), &d.log);
                }
            }
        }
    }
    // the default limit (a connection on which set_payload_max_size is never called): 0.05 MiB = 51200
    for n in [51199u64, 51200, 51201, 60000] {
        rec.case("payload-limit-default");
        rec.nontrivial();
        let mut d = ConnDriver::new_default(rec);
        let head = format!("PUT /x HTTP/1.1\r\nContent-Length: {}\r\n\r\n", n).into_bytes();
        let mut last = String::new();
        for ch in gen::split_at_cuts(&head, &gen::cuts(rng, &head, 3)) {
            for r in d.recv(rec, &ch, 0) {
                last = r;
            }
        }
        let want_err = n > 51200;
        let expect = format!("parse(SizeLimitExceeded(51200,{}))", n);
        if want_err != (last == expect) || (!want_err && last != "ok") {
            rec.oracle_fail("C04", &format!("default limit, n={}: the read completing the header block returned {}", n, last), &d.log);
        }
        d.popall(rec);
    }
    // line length: rejected iff longer than 1024 including CRLF, wherever the line falls
    let lens: Vec<usize> = if thorough { (1000..=1100).collect() } else { vec![1000, 1015, 1020, 1021, 1022, 1023, 1024, 1025, 1026, 1027, 1030, 1100] };
    let n_off = if thorough { 48 } else { 12 };
    for &len in &lens {
        for k in 0..n_off {
            for is_reqline in [false, true] {
                rec.case("line-length");
                rec.nontrivial();
                let mut d = ConnDriver::new(rec, 51200);
                // bring the next line to a chosen offset modulo the window: a prefix of complete requests
                let off = if k == 0 { 0 } else { rng.below(1024) };
                let mut stream: Vec<u8> = vec![];
                if off >= 30 {
                    // "GET / HTTP/1.1\r\nP: ppp\r\n\r\n" has 18 + 5 + k + 2 bytes
                    let pad = off - 25;
                    stream.extend_from_slice(format!("GET / HTTP/1.1\r\nP: {}\r\n\r\n", "p".repeat(pad.min(900))).as_bytes());
                }
                let line_no_crlf = len - 2;
                if is_reqline {
                    // "GET /uuu… HTTP/1.1": 4 + uri + 9
                    let ul = line_no_crlf.saturating_sub(13);
                    stream.extend_from_slice(format!("GET /{} HTTP/1.1\r\n", "u".repeat(ul.saturating_sub(1))).as_bytes());
                } else {
                    stream.extend_from_slice(b"GET /h HTTP/1.1\r\n");
                    stream.extend_from_slice(format!("L: {}\r\n", "l".repeat(line_no_crlf.saturating_sub(3))).as_bytes());
                }
                let line_end = stream.len(); // index just after the long line's LF
                stream.extend_from_slice(b"\r\n");
                let cuts = match k % 6 {
                    0 => vec![],
                    1 => vec![line_end - 1],               // between CR and LF
                    2 => vec![line_end - 2],               // before CR
                    3 => vec![line_end],                   // after LF
                    4 => vec![line_end - 2, line_end - 1, line_end],
                    _ => gen::cuts(rng, &stream, 5),
                };
                let mut err: Option<String> = None;
                'f: for ch in gen::split_at_cuts(&stream, &cuts) {
                    for r in d.recv(rec, &ch, 0) {
                        if r.starts_with("parse(") {
                            err = Some(r);
                            break 'f;
                        }
                    }
                }
                let del = d.popall(rec);
                let too_long = len > 1024;
                let got_len_err = match &err {
                    Some(e) if is_reqline => e == "parse(InvalidRequest)",
                    Some(e) => e.starts_with("parse(HeaderError(SizeLimitExceeded("),
                    None => false,
                };
                let delivered_long = del.iter().any(|x| x.text_nofiles.contains(if is_reqline { "u=2f7575" } else { "u=2f68 " }));
                if too_long != got_len_err || too_long == delivered_long {
                    rec.oracle_fail(
                        "C04",
                        &format!("line of {} bytes (incl. CRLF) at offset {}: error {:?}, delivered {}", len, off, err, delivered_long),
                        &d.log,
                    );
                }
                rec.count(if too_long { "line:rejected" } else { "line:accepted" });
            }
        }
    }
}

pub fn c06(rec: &mut Rec, rng: &mut Rng, thorough: bool) {
    standing_backlog(rec, rng, "C06");
    // many responses queued at once, of sizes around private-buffer boundaries, drained by short and full writes: the
    // accepted bytes are the serialized responses in enqueue order, whatever their number and sizes
    for (k, count) in [3usize, 8, 9, 16, 17, 33, 64, 65, 130, 257].into_iter().enumerate() {
        rec.case("many-queued");
        rec.nontrivial();
        let mut d = ConnDriver::new(rec, 51200);
        let mut expected: Vec<u8> = vec![];
        for j in 0..count {
            let size = [0usize, 1, 15, 16, 17, 63, 64, 65, 255, 256, 257, 1023, 1024, 1025, 4096, 4097][(j + k) % 16];
            let r = RespSpec { v11: j % 2 == 0, code: 200, ops: vec![BOp::Body(gen::body_bytes(rng, size))] };
            expected.extend_from_slice(&crate::suites::response::serialize(&r));
            d.enqueue(rec, &r);
        }
        let mut accepted: Vec<u8> = vec![];
        let mut guard = 0;
        while d.pending_write() && guard < 20000 {
            guard += 1;
            let w = match (guard + k) % 5 {
                0 => WAct::Accept(1),
                1 => WAct::Intr,
                2 => WAct::Accept(1 << 30),
                3 => WAct::Accept(700),
                _ => WAct::Accept(64),
            };
            let (_res, bytes) = d.write(rec, w);
            accepted.extend_from_slice(&bytes);
        }
        if accepted != expected {
            rec.oracle_fail("C06", &format!("{} responses queued at once: the stream accepted {} bytes, the serialized responses in enqueue order are {} bytes (or differ)", count, accepted.len(), expected.len()), &d.log);
        }
    }
    let n = if thorough { 30000 } else { 1200 };
    for i in 0..n {
        rec.case("write-sequence");
        let mut d = ConnDriver::new(rec, 51200);
        let mut expected: Vec<u8> = vec![]; // concatenation of what was enqueued since the last discard
        let mut accepted: Vec<u8> = vec![]; // what the stream accepted since the last discard
        let small = i % 3 == 0;
        let steps = rng.range(3, 40);
        let mut dirty = false; // arbitrary input was fed: the parser may be in the middle of something
        let mut awaiting_body = false;
        for _ in 0..steps {
            match rng.below(10) {
                0..=2 => {
                    let r = random_resp(rng, if small { 6 } else { 8192 });
                    expected.extend_from_slice(&crate::suites::response::serialize(&r));
                    d.enqueue(rec, &r);
                }
                9 if rng.chance(1, 5) => {
                    d.clear(rec);
                    expected.clear();
                    accepted.clear();
                }
                7 if i % 4 == 3 && !dirty => {
                    // an Expect request arrives while output is queued: its 100 Continue joins the queue BEHIND everything
                    // already enqueued (enqueue order), the body later completes the request without queueing anything
                    if !awaiting_body {
                        let rs = d.recv(rec, b"PUT /e HTTP/1.1\r\nExpect: 100-continue\r\nContent-Length: 2\r\n\r\n", 0);
                        if rs.iter().all(|r| r == "ok") {
                            expected.extend_from_slice(CONT11);
                            awaiting_body = true;
                        } else {
                            dirty = true;
                        }
                    } else {
                        d.recv(rec, b"ab", 0);
                        awaiting_body = false;
                    }
                    d.popall(rec);
                    rec.count("c06:expect-interleaved");
                }
                8 if i % 2 == 1 && !awaiting_body => {
                    dirty = true;
                    // input arrives while output is queued (no Expect header, so the read itself queues nothing): a
                    // delivered request, a rejected one, would-block, end of stream — none of them may touch the output side
                    let had = d.pending_write();
                    match rng.below(8) {
                        5 => {
                            d.rerr(rec, *rng.pick(&[libc::EAGAIN, libc::EINTR, libc::ECONNRESET]));
                        }
                        6 | 7 => {
                            // the peer shut down its writing side (it may well go on reading): queued output stays pending
                            d.eof(rec, 0);
                            rec.count("c06:eof-with-output-queued");
                        }
                        0 => {
                            d.recv(rec, b"GET /in HTTP/1.1\r\n\r\n", 0);
                        }
                        1 => {
                            d.recv(rec, b"BOGUS /in HTTP/1.1\r\n\r\n", 0);
                        }
                        2 => {
                            d.recv(rec, b"PUT /in HTTP/1.1\r\nContent-Length: abc\r\n\r\n", 0);
                        }
                        3 => {
                            d.recv(rec, b"GET /partial HTT", 0);
                        }
                        _ => {
                            d.recv(rec, b"GET /a HTTP/1.1\r\n\r\nGARBAGE\r\n", 0);
                        }
                    }
                    d.popall(rec);
                    if d.pending_write() != had {
                        rec.oracle_fail("C06", &format!("a read changed pending_write from {} to {} although no write failed", had, d.pending_write()), &d.log);
                    }
                    rec.count("c06:read-interleaved");
                }
                _ => {
                    let unsent = expected.len().saturating_sub(accepted.len());
                    // pending output is reported exactly while a byte remains unsent — judged against the harness's own
                    // bookkeeping (what was enqueued since the last discard minus what the stream accepted)
                    if d.pending_write() != (unsent > 0) {
                        rec.oracle_fail("C06", &format!("pending_write = {} but {} enqueued bytes are unsent", d.pending_write(), unsent), &d.log);
                    }
                    let w = match rng.below(12) {
                        0 => WAct::Intr,
                        1 => WAct::Zero,
                        2 => WAct::Fail,
                        3 | 4 => WAct::Accept(1),
                        5 => WAct::Accept(rng.range(1, 7)),
                        6 => WAct::Accept(1 << 30),
                        _ => WAct::Accept(rng.range(1, unsent.max(1) + 3)),
                    };
                    let had_pending = d.pending_write();
                    let (res, acc) = d.write(rec, w);
                    let called = d.stream.0.borrow().n_write > 0;
                    if !had_pending {
                        if res != "invalid" || called || !acc.is_empty() {
                            rec.oracle_fail("C06", &format!("write with nothing pending: {} (stream called: {})", res, called), &d.log);
                        }
                        rec.nontrivial();
                        continue;
                    }
                    accepted.extend_from_slice(&acc);
                    if !expected.starts_with(&accepted) {
                        rec.oracle_fail("C06", "accepted bytes are not a prefix of the serialized responses in enqueue order", &d.log);
                    }
                    match w {
                        WAct::Zero | WAct::Fail => {
                            if res != "closed" || d.pending_write() {
                                rec.oracle_fail("C06", &format!("failed write: result {} pending {}", res, d.pending_write()), &d.log);
                            }
                            expected.clear();
                            accepted.clear();
                            rec.nontrivial();
                        }
                        _ => {
                            if res != "ok" {
                                rec.oracle_fail("C06", &format!("write returned {}", res), &d.log);
                            }
                            let unsent_now = expected.len() > accepted.len();
                            if d.pending_write() != unsent_now {
                                rec.oracle_fail("C06", &format!("pending_write = {} but unsent bytes remain = {}", d.pending_write(), unsent_now), &d.log);
                            }
                            if acc.len() > 0 && unsent_now {
                                rec.nontrivial();
                            }
                        }
                    }
                }
            }
        }
    }
}

/// run chunks on a driver and return the observable transcript (results, deliveries, bytes written)
fn transcript(d: &mut ConnDriver, rec: &mut Rec, chunks: &[Vec<u8>]) -> Vec<String> {
    let mut t = vec![];
    for ch in chunks {
        for r in d.recv(rec, ch, 0) {
            t.push(r);
        }
        for x in d.popall(rec) {
            // with the descriptors it carries (none arrive with the continuation)
            t.push(x.text);
        }
        let w = drain_writes(d, rec);
        t.push(format!("w={}", hx(&w)));
    }
    t
}

/// TWO connections alive in this process at the same time, driven in interleaved steps (op `swap` switches the driver
/// between two independent models): what each of them delivers, reports and writes is what it does when driven alone —
/// connections share nothing (no static table, cache or counter may leak from one to the other).
pub fn two_connections_case(rec: &mut Rec, rng: &mut Rng, prop: &str) {
    rec.case("two-connections");
    rec.nontrivial();
    let limits = [pick_limit(rng), pick_limit(rng)];
    let mut streams: Vec<Vec<Vec<u8>>> = vec![];
    for _ in 0..2 {
        let (bytes, _) = pipeline(rng, 3, false);
        let mut b = bytes;
        if rng.chance(1, 3) {
            // one of them may carry a rejected request in the middle
            let mut o = ReqOpts::default();
            o.body_lens = vec![0, 3];
            let p = gen::valid_request(rng, &o);
            let w = *rng.pick(&gen::CORRUPTIONS);
            b.extend_from_slice(&gen::corrupt(rng, &p, w));
            b.extend_from_slice(&gen::valid_request(rng, &o).bytes());
        }
        let cuts = gen::cuts_r(rng, &b);
        streams.push(gen::split_at_cuts(&b, &cuts));
    }
    // slot 0 and slot 1 of the driver
    let mut d0 = ConnDriver::new(rec, limits[0]);
    rec.op("swap", "ok");
    let mut d1 = ConnDriver::new(rec, limits[1]);
    let mut cur = 1usize;
    let mut pos = [0usize, 0usize];
    let mut t: [Vec<String>; 2] = [vec![], vec![]];
    let mut script: [Vec<(usize, u8)>; 2] = [vec![], vec![]]; // (chunk index, action) per connection, for the solo replay
    while pos[0] < streams[0].len() || pos[1] < streams[1].len() {
        let which = if pos[0] >= streams[0].len() { 1 } else if pos[1] >= streams[1].len() { 0 } else { rng.below(2) };
        if which != cur {
            rec.op("swap", "ok");
            d0.log.push("swap".into());
            d1.log.push("swap".into());
            cur = which;
        }
        let d = if which == 0 { &mut d0 } else { &mut d1 };
        let act = rng.below(4) as u8;
        script[which].push((pos[which], act));
        step_two(rec, d, &streams[which][pos[which]], act, &mut t[which]);
        pos[which] += 1;
    }
    // each of them alone, same steps
    for which in 0..2 {
        if which != cur {
            rec.op("swap", "ok");
            cur = which;
        }
        let mut solo = ConnDriver::new(rec, limits[which]);
        let mut ts = vec![];
        for (ci, act) in &script[which] {
            step_two(rec, &mut solo, &streams[which][*ci], *act, &mut ts);
        }
        if ts != t[which] {
            let mut l = if which == 0 { d0.log.clone() } else { d1.log.clone() };
            l.push("# the same connection driven alone:".into());
            l.extend(solo.log.iter().cloned());
            rec.oracle_fail(prop, &format!("a connection driven next to another one behaves differently from the same connection driven alone: {:?} vs {:?}", t[which], ts), &l);
        }
    }
    if cur != 0 {
        rec.op("swap", "ok");
    }
}

fn step_two(rec: &mut Rec, d: &mut ConnDriver, chunk: &[u8], act: u8, t: &mut Vec<String>) {
    for r in d.recv(rec, chunk, 0) {
        t.push(r);
    }
    match act {
        0 => {
            for x in d.popall(rec) {
                t.push(x.text);
            }
        }
        1 => {
            let r = RespSpec { v11: true, code: 200, ops: vec![BOp::Body(b"two".to_vec())] };
            d.enqueue(rec, &r);
            let w = drain_writes(d, rec);
            t.push(format!("w={}", hx(&w)));
        }
        2 => {
            if let Some(x) = d.pop(rec) {
                t.push(x.text);
            }
            let r = d.write(rec, WAct::Accept(7));
            t.push(format!("{:?}", r));
        }
        _ => {}
    }
}

/// an over-long line whose 1024th byte is CR (or LF, or any byte), rejected; the next read begins with LF (or CR LF, or
/// anything): nothing of the rejected line — not even "its" missing terminator — colours what follows
pub fn c11_long_line_ending_in_cr(rec: &mut Rec, rng: &mut Rng) {
    for in_header in [false, true] {
        for last in [b'\r', b'\n', b'x'] {
            for cont in [&b"\nGET /after HTTP/1.1\r\n\r\n"[..], b"\r\nGET /after HTTP/1.1\r\n\r\n", b"GET /after HTTP/1.1\r\n\r\n", b"\n\r\nGET /after HTTP/1.1\r\n\r\n"] {
                rec.case("long-line-ending-in-cr");
                rec.nontrivial();
                let mut d = ConnDriver::new(rec, 51200);
                if in_header {
                    d.recv(rec, b"GET /rejected HTTP/1.1\r\n", 0);
                    let mut l = b"X: ".to_vec();
                    l.extend(std::iter::repeat(b'x').take(1020));
                    l.push(last);
                    d.recv(rec, &l, 0);
                } else {
                    let mut l = b"GET /".to_vec();
                    l.extend(std::iter::repeat(b'u').take(1018));
                    l.push(last);
                    d.recv(rec, &l, 0);
                }
                d.popall(rec);
                let chunks = vec![cont.to_vec()];
                let t1 = transcript(&mut d, rec, &chunks);
                let mut fresh = ConnDriver::new(rec, 51200);
                let t2 = transcript(&mut fresh, rec, &chunks);
                if t1 != t2 {
                    let mut l = d.log.clone();
                    l.push("# fresh connection fed the same continuation:".to_string());
                    l.extend(fresh.log.iter().cloned());
                    rec.oracle_fail("C11", &format!("after an over-long line ending in byte {:#04x} the connection behaves differently from a new one: {:?} vs {:?}", last, t1, t2), &l);
                }
            }
        }
    }
    let _ = rng;
}

/// descriptors around a rejected request: those that arrived with the rejected input are closed BY the read that reports
/// the error (not by a later one), and descriptors arriving with the next request are delivered with it as on a new
/// connection
pub fn c11_descriptors_around_rejection(rec: &mut Rec, rng: &mut Rng) {
    rec.case("descriptors-around-rejection");
    rec.nontrivial();
    let mut d = ConnDriver::new(rec, 51200);
    d.tokens.descending = rng.chance(1, 2);
    let before = d.tokens.next;
    d.recv(rec, b"BOGUS /x HTTP/1.1\r\n\r\n", 2);
    let rejected_fds: Vec<i32> = d.tokens.by_fd.iter().filter(|(_, t)| **t >= before).map(|(fd, _)| *fd).collect();
    if rejected_fds.iter().any(|fd| Tokens::is_open(*fd)) {
        rec.oracle_fail("C11", "descriptors that arrived with a rejected request are still open after the read that reported the error", &d.log);
    }
    d.popall(rec);
    let before2 = d.tokens.next;
    d.recv(rec, b"GET /after HTTP/1.1\r\n\r\n", 2);
    let want: Vec<usize> = (before2..d.tokens.next).collect();
    let del = d.popall(rec);
    if del.len() != 1 || del[0].files != want {
        rec.oracle_fail("C11", &format!("the request after a rejected one arrived with descriptors {:?} and was delivered with {:?}", want, del.iter().map(|x| x.files.clone()).collect::<Vec<_>>()), &d.log);
    }
}

/// MANY rejected requests on one connection (nothing may accumulate across them), then a well-formed request fed in
/// pieces that cut inside its header lines: same transcript as on a new connection, and no panic.
fn c11_many_rejections(rec: &mut Rec, rng: &mut Rng, k: usize, hdr_lines: usize, value_len: usize) {
    rec.case("many-rejections-then-continue");
    rec.nontrivial();
    let mut d = ConnDriver::new(rec, 51200);
    for i in 0..k {
        // a request rejected in the header state, after `hdr_lines` accepted header lines
        let mut a = format!("GET /rejected{} HTTP/1.1\r\n", i).into_bytes();
        for j in 0..hdr_lines {
            a.extend_from_slice(format!("X-{}: {}\r\n", j, "v".repeat(value_len)).as_bytes());
        }
        a.extend_from_slice(match i % 3 {
            0 => &b"no colon here\r\n"[..],
            1 => &b"Content-Length: abc\r\n"[..],
            _ => &b"Accept-Encoding: identity;q=0\r\n"[..],
        });
        let cuts = if i % 5 == 0 { gen::cuts(rng, &a, 2) } else { vec![] };
        for ch in gen::split_at_cuts(&a, &cuts) {
            d.recv(rec, &ch, 0);
        }
        d.popall(rec);
        drain_writes(&mut d, rec);
    }
    let mut b = b"PUT /after HTTP/1.1\r\nX-One: first value\r\nContent-Length: 4\r\nX-Two: second value\r\n\r\nbodyGET /last HTTP/1.0\r\nHost: h\r\n\r\n".to_vec();
    if rng.chance(1, 2) {
        b.extend_from_slice(b"GET /one-more HTTP/1.1\r\n\r\n");
    }
    // cuts inside the header lines
    let mut cuts = vec![25usize, 33, 47, 60, 75];
    cuts.extend(gen::cuts(rng, &b, 3));
    cuts.sort();
    cuts.dedup();
    let chunks = gen::split_at_cuts(&b, &cuts);
    let t1 = transcript(&mut d, rec, &chunks);
    let mut fresh = ConnDriver::new(rec, 51200);
    let t2 = transcript(&mut fresh, rec, &chunks);
    if d.panicked {
        rec.oracle_fail("C03", "try_read panicked on a connection that had rejected many requests before", &d.log[d.log.len().saturating_sub(40)..].to_vec());
    }
    if t1 != t2 {
        let mut l: Vec<String> = d.log[d.log.len().saturating_sub(60)..].to_vec();
        l.push("# fresh connection fed the same continuation:".to_string());
        l.extend(fresh.log.iter().cloned());
        rec.oracle_fail("C11", &format!("after {} rejected requests the connection behaves differently from a new one: {:?} vs {:?}", k, t1, t2), &l);
    }
}

pub fn c11(rec: &mut Rec, rng: &mut Rng, thorough: bool) {
    for _ in 0..4 {
        c11_descriptors_around_rejection(rec, rng);
    }
    c11_long_line_ending_in_cr(rec, rng);
    regress_f1(rec);
    // many rejections: few / many header lines, short / long values (up to ~100 KiB of rejected header bytes in all)
    for (k, lines, vlen) in [(40usize, 2usize, 8usize), (200, 1, 4), (150, 4, 200), (30, 20, 40)] {
        c11_many_rejections(rec, rng, k, lines, vlen);
    }
    // … and counts at the boundaries of the small integer types a counter of rejections could have: the continuation
    // follows the 127th … 129th, 255th … 257th, 511th … 513th rejection in a row
    for k in [127usize, 128, 129, 254, 255, 256, 257, 258, 511, 512, 513] {
        c11_many_rejections(rec, rng, k, 0, 0);
    }
    if thorough {
        for k in [32767usize, 32768, 65535, 65536, 65537] {
            c11_many_rejections(rec, rng, k, 0, 0);
        }
        for (k, lines, vlen) in [(1000usize, 3usize, 100usize), (70, 15, 60), (600, 0, 0)] {
            c11_many_rejections(rec, rng, k, lines, vlen);
        }
    }
    let n = if thorough { 25000 } else { 1000 };
    for i in 0..n {
        let limit = if rng.chance(1, 4) { pick_limit(rng) } else { 51200 };
        // A: a stream that ends in a parse error (error raised in a chosen parser state)
        let mut o = ReqOpts::default();
        o.body_lens = vec![0, 0, 3, 30];
        let p = gen::valid_request(rng, &o);
        let which = gen::CORRUPTIONS[i % gen::CORRUPTIONS.len()];
        let mut a = vec![];
        if rng.chance(1, 2) {
            a.extend_from_slice(&gen::valid_request(rng, &o).bytes());
        }
        match rng.below(6) {
            0 => {
                a.extend_from_slice(format!("PUT /rejected HTTP/1.1\r\nContent-Length: {}\r\n\r\n", limit as u64 + 1 + rng.below(5) as u64).as_bytes());
                // a client that does not wait: the first bytes of the refused payload are already behind the blank line
                if rng.chance(1, 2) {
                    a.extend_from_slice(&b"abcd"[..rng.range(1, 4)]);
                    rec.count("A:refused-payload-started");
                }
            }
            1 => a.extend_from_slice(b"GET /rejected HTTP/1.1\r\nContent-Length: abc\r\n"),
            2 => {
                a.extend_from_slice(b"GET /rejected HTTP/1.1\r\nExpect: 100-continue\r\nX: ");
                a.extend_from_slice("x".repeat(1100).as_bytes());
            }
            _ => a.extend_from_slice(&gen::corrupt(rng, &p, which)),
        }
        rec.case(&format!("error-then-continue-{}", which));
        let mut d = ConnDriver::new(rec, limit);
        d.stop_on_parse_error = true;
        let cuts = gen::cuts_r(rng, &a);
        let mut errored = false;
        // every fifth history: the limit is reconfigured while the (to be rejected) input is arriving — afterwards the
        // connection must behave like a new one configured with the limit NOW in force
        let relimit: Option<(usize, usize)> = if rng.chance(1, 5) {
            let chunks_n = cuts.len() + 1;
            Some((rng.below(chunks_n), *rng.pick(&[3usize, 40, 700, 51200, 60000])))
        } else {
            None
        };
        let old_limit = limit;
        'a: for (ci, ch) in gen::split_at_cuts(&a, &cuts).into_iter().enumerate() {
            if let Some((at, nl)) = relimit {
                if at == ci {
                    d.set_limit(rec, nl);
                    rec.count("A:limit-changed-inside-rejected-input");
                }
            }
            // descriptors may arrive with the rejected input: they must not survive the error either
            let nf = if rng.chance(1, 4) { rng.range(1, 3) } else { 0 };
            for r in d.recv(rec, &ch, nf) {
                if r.starts_with("parse(") {
                    errored = true;
                    break 'a;
                }
            }
        }
        if !errored {
            rec.count("A:no-error");
            continue;
        }
        rec.count("A:error");
        rec.nontrivial();
        d.stop_on_parse_error = false;
        d.popall(rec);
        drain_writes(&mut d, rec);
        // B: continuation
        let mut b = vec![];
        match rng.below(6) {
            0 => b.extend_from_slice(b"\r\n"),
            1 => b.extend_from_slice(b"Content-Length: 3\r\n\r\nabc"),
            2 => {
                let n = rng.below(80);
                b.extend_from_slice(&gen::soup(rng, n))
            }
            3 => b.extend_from_slice(b"X-H: v\r\n\r\n"),
            _ => {}
        }
        let (more, _) = pipeline(rng, 2, false);
        b.extend_from_slice(&more);
        if relimit.is_some() && d.limit != old_limit {
            // a request whose declared length lies between the old and the new limit
            let (lo, hi) = (old_limit.min(d.limit), old_limit.max(d.limit));
            let n = (lo + 1 + rng.below((hi - lo).min(50))).min(hi);
            b.extend_from_slice(format!("PUT /between HTTP/1.1\r\nContent-Length: {}\r\n\r\n", n).as_bytes());
            if n <= d.limit {
                b.extend_from_slice(&gen::body_bytes(rng, n.min(3000)));
            }
        }
        let cuts = gen::cuts_r(rng, &b);
        let chunks = gen::split_at_cuts(&b, &cuts);
        let before = d.delivered.len();
        let t1 = transcript(&mut d, rec, &chunks);
        let delivered_after: Vec<String> = d.delivered[before..].iter().map(|x| x.text_nofiles.clone()).collect();
        let mut fresh = ConnDriver::new(rec, d.limit);
        let t2 = transcript(&mut fresh, rec, &chunks);
        if t1 != t2 {
            let mut l = d.log.clone();
            l.push("# fresh connection fed the same continuation:".to_string());
            l.extend(fresh.log.iter().cloned());
            rec.oracle_fail("C11", &format!("after a parse error the connection behaves differently from a new one: {:?} vs {:?}", t1, t2), &l);
        }
        if delivered_after.iter().any(|t| t.contains(&hx(b"/rejected"))) {
            rec.oracle_fail("C11", "the rejected request was delivered later", &d.log);
        }
    }
}

pub fn c12(rec: &mut Rec, rng: &mut Rng, thorough: bool) {
    let n = if thorough { 12000 } else { 500 };
    // run like a daemon whose stdin is closed: received descriptors then get the lowest free number, 0 included
    // (nothing in the harness reads stdin); `Tokens::new` keeps its template above 2
    // SAFETY: closing descriptor 0 of this process
    unsafe {
        libc::close(0);
    }
    // two descriptor-carrying messages queued in the socket at once (two sendmsg calls of the peer before the owner gets
    // round to reading): each try_read takes one message, and each request gets the descriptors that arrived with ITS bytes
    for form in 0..6 {
        for (nf1, nf2) in [(1usize, 1usize), (2, 3), (1, 0), (0, 2)] {
            rec.case("two-messages-queued");
            rec.nontrivial();
            let mut d = ConnDriver::new(rec, 51200);
            let a: &[u8] = b"GET /a HTTP/1.1\r\n\r\n";
            let (m1, m2): (Vec<u8>, Vec<u8>) = match form {
                0 => (a.to_vec(), b"GET /b HTTP/1.1\r\n\r\n".to_vec()),
                1 => (a.to_vec(), b"GET /b HT".to_vec()),
                2 => (b"GET /a HTTP/1.1\r\nX: 1\r\n".to_vec(), b"\r\nGET /b HTTP/1.1\r\n\r\n".to_vec()),
                3 => (b"PUT /a HTTP/1.1\r\nContent-Length: 4\r\n\r\nab".to_vec(), b"cdGET /b HTTP/1.1\r\n\r\n".to_vec()),
                4 => ([a, a].concat(), b"GET /b HTTP/1.1\r\n\r\n".to_vec()),
                _ => (a.to_vec(), b"\r\n".to_vec()),
            };
            let first_tok = d.tokens.next;
            let (_r1, r2) = d.recv_two_queued(rec, &m1, nf1, &m2, nf2);
            if r2 == "TAKEN-EARLY" {
                continue;
            }
            if form == 1 {
                d.recv(rec, b"TP/1.1\r\n\r\n", 0);
            }
            let del = d.popall(rec);
            // what the statement says: descriptors go, in arrival order, to the first request that completes in the read
            // they arrived with or in a later one
            let t1: Vec<usize> = (first_tok..first_tok + nf1).collect();
            let t2: Vec<usize> = (first_tok + nf1..first_tok + nf1 + nf2).collect();
            let want: Vec<Vec<usize>> = match form {
                0 | 1 => vec![t1.clone(), t2.clone()],
                2 | 3 => vec![[t1.clone(), t2.clone()].concat(), vec![]],
                4 => vec![t1.clone(), vec![], t2.clone()],
                _ => vec![t1.clone()],
            };
            let got: Vec<Vec<usize>> = del.iter().map(|x| x.files.clone()).collect();
            if got != want {
                rec.oracle_fail("C12", &format!("two messages queued (form {}, {} + {} descriptors): requests were delivered with descriptors {:?}, the arrival order gives {:?}", form, nf1, nf2, got, want), &d.log);
            }
        }
    }
    // descriptor NUMBERS come back: the application drops a delivered request (closing its descriptors), and descriptors
    // received later on the same connection get those numbers again — they are new descriptors and are delivered
    for k in 0..(if thorough { 200 } else { 20 }) {
        rec.case("descriptor-numbers-reused");
        rec.nontrivial();
        let mut d = ConnDriver::new(rec, 51200);
        d.tokens.descending = false;
        let rounds = 2 + k % 3;
        for r in 0..rounds {
            let nf = 1 + (k + r) % 3;
            let before_next = d.tokens.next;
            let req = format!("GET /reuse{} HTTP/1.1\r\n\r\n", r);
            d.recv(rec, req.as_bytes(), nf);
            let want: Vec<usize> = (before_next..d.tokens.next).collect();
            let del = d.popall(rec);
            if del.len() != 1 || del[0].files != want {
                rec.oracle_fail("C12", &format!("round {}: descriptors {:?} arrived with the request (numbers freed by dropping earlier requests are in use again), delivered {:?}", r, want, del.iter().map(|x| x.files.clone()).collect::<Vec<_>>()), &d.log);
            }
            // the application is done with the request: its descriptors are closed and their numbers are free again
            d.held.clear();
        }
        d.conn = None;
    }
    for i in 0..n {
        rec.case("descriptors");
        let (stream, _plans) = pipeline(rng, 4, i % 5 == 0);
        let cuts = gen::cuts_r(rng, &stream);
        let chunks = gen::split_at_cuts(&stream, &cuts);
        if chunks.len() > 60 {
            continue;
        }
        let mut d = ConnDriver::new(rec, 51200);
        let mut pending: Vec<usize> = vec![]; // tokens that arrived and were not handed over yet
        let mut all: Vec<(usize, i32)> = vec![]; // (token, fd)
        let mut ok = true;
        // the schedule as executed (chunk, descriptors, errno before it), for the pop-timing comparison below
        let mut sched: Vec<(Vec<u8>, usize, Option<i32>)> = vec![];
        for ch in &chunks {
            // now and then a read finds nothing (would-block / interrupted) while descriptors are on hand: they stay
            let mut errno_before = None;
            if i % 3 == 1 && rng.chance(1, 4) {
                let e = *rng.pick(&[libc::EAGAIN, libc::EINTR]);
                d.rerr(rec, e);
                errno_before = Some(e);
                rec.count("c12:empty-read-between");
            }
            let nf = match rng.below(10) {
                0..=4 => 0,
                5..=7 => rng.range(1, 3),
                8 => rng.range(4, 20),
                _ => {
                    if rng.chance(1, 4) { 253 } else { rng.range(1, 40) }
                }
            };
            let before_next = d.tokens.next;
            sched.push((ch.clone(), nf, errno_before));
            let rs = d.recv(rec, ch, nf);
            // tokens created by this recv, in arrival order
            let new_tokens: Vec<usize> = (before_next..d.tokens.next).collect();
            for t in &new_tokens {
                let fd = *d.tokens.by_fd.iter().find(|(_, v)| *v == t).map(|(k, _)| k).unwrap();
                all.push((*t, fd));
                if fd == 0 {
                    rec.count("fd:number-0");
                }
            }
            pending.extend(new_tokens.iter().cloned());
            if rs.iter().any(|r| r != "ok") {
                ok = false;
                break;
            }
            // a chunk larger than the free buffer is read by several calls; the descriptors come with the first
            let del = d.popall(rec);
            if !del.is_empty() {
                rec.nontrivial();
                // the first completed request gets everything on hand, in arrival order; the others nothing
                if del[0].files != pending || del[1..].iter().any(|x| !x.files.is_empty()) {
                    // several try_read calls may have served this chunk: then the first request completed by the
                    // FIRST call that completes one takes them — still the first of this batch
                    rec.oracle_fail("C12", &format!("descriptors {:?} on hand, delivered {:?}", pending, del.iter().map(|x| x.files.clone()).collect::<Vec<_>>()), &d.log);
                }
                pending.clear();
                rec.count(&format!("completed:{}", del.len().min(3)));
            } else {
                rec.count("completed:0");
            }
        }
        if !ok {
            continue;
        }
        // the read that hits end-of-stream may carry descriptors too
        if rng.chance(1, 2) {
            let before_next = d.tokens.next;
            d.eof(rec, rng.below(3));
            for t in before_next..d.tokens.next {
                let fd = *d.tokens.by_fd.iter().find(|(_, v)| **v == t).map(|(k, _)| k).unwrap();
                all.push((t, fd));
                pending.push(t);
            }
            let del = d.popall(rec);
            if !del.is_empty() {
                rec.oracle_fail("C12", "end-of-stream delivered a request", &d.log);
            }
        }
        // every descriptor is owned exactly once: delivered ones by their request, the rest by the connection
        let delivered_tokens: Vec<usize> = d.delivered.iter().flat_map(|x| x.files.iter().cloned()).collect();
        let mut sorted = delivered_tokens.clone();
        sorted.sort();
        sorted.dedup();
        if sorted.len() != delivered_tokens.len() {
            rec.oracle_fail("C12", "a descriptor was delivered twice", &d.log);
        }
        let arrival: Vec<usize> = all.iter().map(|(t, _)| *t).collect();
        let mut expect_order = delivered_tokens.clone();
        expect_order.extend(pending.iter().cloned());
        if arrival != expect_order {
            rec.oracle_fail("C12", &format!("arrival order {:?} but handed over {:?} + kept {:?}", arrival, delivered_tokens, pending), &d.log);
        }
        // all still open while their owners live …
        if all.iter().any(|(_, fd)| !Tokens::is_open(*fd)) {
            rec.oracle_fail("C12", "a descriptor was closed while its owner is alive", &d.log);
        }
        // … and closed once requests and connection are dropped
        d.held.clear();
        let kept: Vec<i32> = all.iter().filter(|(t, _)| pending.contains(t)).map(|(_, fd)| *fd).collect();
        let handed: Vec<i32> = all.iter().filter(|(t, _)| !pending.contains(t)).map(|(_, fd)| *fd).collect();
        if handed.iter().any(|fd| Tokens::is_open(*fd)) {
            rec.oracle_fail("C12", "a descriptor stayed open after its request was dropped", &d.log);
        }
        if kept.iter().any(|fd| !Tokens::is_open(*fd)) {
            rec.oracle_fail("C12", "a descriptor kept by the connection was closed with a request", &d.log);
        }
        d.conn = None;
        if kept.iter().any(|fd| Tokens::is_open(*fd)) {
            rec.oracle_fail("C12", "a descriptor stayed open after the connection was dropped", &d.log);
        }
        rec.count(&format!("fds:{}", match all.len() { 0 => "0", 1..=5 => "1-5", 6..=50 => "6-50", _ => ">50" }));
        // WHEN the application pops must not matter: the same reads with the pops delayed (a completed request waits in
        // the queue while later reads bring more descriptors) hand every request the same descriptors
        if i % 4 == 2 && !all.is_empty() {
            let reference: Vec<(String, Vec<usize>)> = d.delivered.iter().map(|x| (x.text_nofiles.clone(), x.files.clone())).collect();
            let mut d2 = ConnDriver::new(rec, 51200);
            for (ch, nf, e) in &sched {
                if let Some(e) = e {
                    d2.rerr(rec, *e);
                }
                d2.recv(rec, ch, *nf);
                if rng.chance(1, 4) {
                    d2.pop(rec);
                }
            }
            d2.popall(rec);
            let late: Vec<(String, Vec<usize>)> = d2.delivered.iter().map(|x| (x.text_nofiles.clone(), x.files.clone())).collect();
            if late != reference {
                rec.oracle_fail("C12", &format!("with delayed pops the requests carry descriptors {:?}, popping after every read {:?}", late.iter().map(|x| x.1.clone()).collect::<Vec<_>>(), reference.iter().map(|x| x.1.clone()).collect::<Vec<_>>()), &d2.log);
            }
            rec.count("c12:delayed-pops");
        }
    }
}

pub fn c13(rec: &mut Rec, rng: &mut Rng, thorough: bool) {
    let n = if thorough { 25000 } else { 1200 };
    let expect_vals = ["100-continue", "100-Continue", "103-checkpoint", " 100-continue ", "", "100-continue, x"];
    for _ in 0..n {
        rec.case("expect");
        // (limits of 4 GiB and more are configurable on a 64-bit target: they must not be confused with their low 32 bits)
        // (… and limits RAISED above the default 51200: the rule speaks of the limit in force, not of the default)
        let limit = *rng.pick(&[0usize, 1, 5, 100, 51200, 4294967296, 4294967396, 51201, 65536, 100000]);
        let big = limit > 4294967295;
        let mut d = ConnDriver::new(rec, limit);
        let k = rng.range(1, 4);
        let mut stream_all = vec![];
        // every fifth connection has already rejected a request (bad request line / bad header value)
        if rng.chance(1, 5) {
            let bad: &[u8] = if rng.chance(1, 2) { b"BOGUS /e HTTP/1.1\r\n\r\n" } else { b"PUT /e HTTP/1.1\r\nContent-Length: x\r\n\r\n" };
            d.recv(rec, bad, 0);
            d.popall(rec);
            rec.count("continue:connection-rejected-before");
        }
        for _ in 0..k {
            let with_expect = rng.chance(2, 3);
            let ev = if rng.chance(2, 3) { expect_vals[0] } else { *rng.pick(&expect_vals) };
            let cl: Option<usize> = match rng.below(6) {
                0 => None,
                1 => Some(0),
                2 => Some(1),
                3 if !big => Some(limit),
                4 if !big => Some(limit + 1),
                4 => Some(101),
                5 if limit > 51200 && !big => Some(rng.range(51201, limit)),
                _ => Some(rng.range(1, 40)),
            };
            let v11 = rng.chance(1, 2);
            // (the method plays no part in the rule: GET with a declared body is accepted by a connection)
            let method = *rng.pick(&["PUT", "PUT", "PATCH", "GET"]);
            let mut head = format!("{} /e HTTP/1.{}\r\n", method, if v11 { 1 } else { 0 }).into_bytes();
            let mut lines: Vec<String> = vec![];
            if with_expect {
                lines.push(format!("{}:{}{}", gen::case_pattern(rng, "Expect"), rng.pick(&gen::PADS), ev));
                if rng.chance(1, 6) {
                    lines.push("Expect: 103-checkpoint".to_string());
                }
            }
            if let Some(c) = cl {
                lines.push(format!("Content-Length: {}", c));
            }
            // (chunked framing plays no part in the rule: a body is awaited exactly when Content-Length says so)
            if rng.chance(1, 5) {
                lines.push(format!("{}: chunked", gen::case_pattern(rng, "Transfer-Encoding")));
                rec.count("continue:with-transfer-encoding-chunked");
            }
            if rng.chance(1, 2) {
                lines.reverse();
            }
            for l in &lines {
                head.extend_from_slice(l.as_bytes());
                head.extend_from_slice(b"\r\n");
            }
            head.extend_from_slice(b"\r\n");
            let n_body = cl.unwrap_or(0);
            let asks = with_expect && ev.trim() == "100-continue";
            let want = asks && n_body > 0 && n_body <= limit;
            let rejected = n_body > limit && n_body > 0;
            // the head alone (maybe split), no body byte yet — or, one time in three, with the FIRST bytes of the body in
            // the same read as the end of the head (a client that does not wait for the interim response): the interim
            // is still queued, written, and the rest of the body completes the request
            let body = gen::body_bytes(rng, n_body);
            let pre = if n_body >= 2 && n_body <= limit && rng.chance(1, 3) { rng.range(1, (n_body - 1).min(600)) } else { 0 };
            let cuts = gen::cuts_r(rng, &head);
            let mut last = String::new();
            let mut pieces = gen::split_at_cuts(&head, &cuts);
            if pre > 0 {
                if let Some(l) = pieces.last_mut() {
                    l.extend_from_slice(&body[..pre]);
                }
                rec.count("continue:body-prefix-with-the-head");
            }
            for ch in pieces {
                for r in d.recv(rec, &ch, 0) {
                    last = r;
                }
            }
            stream_all.extend_from_slice(&head);
            // the application may answer an EARLIER request at this very moment: the interim response must still go out
            let app_resp = rng.chance(1, 4);
            if app_resp {
                let r = RespSpec { v11: true, code: 200, ops: vec![BOp::Body(b"earlier".to_vec())] };
                d.enqueue(rec, &r);
                rec.count("continue:app-response-enqueued-behind");
            }
            let w_all = drain_writes(&mut d, rec);
            // take the application's response out again before looking for interim responses
            let w: Vec<u8> = if app_resp {
                let rb = crate::suites::response::serialize(&RespSpec { v11: true, code: 200, ops: vec![BOp::Body(b"earlier".to_vec())] });
                match w_all.windows(rb.len()).position(|x| x == &rb[..]) {
                    Some(p) => {
                        let mut v = w_all[..p].to_vec();
                        v.extend_from_slice(&w_all[p + rb.len()..]);
                        v
                    }
                    None => {
                        rec.oracle_fail("C06", "an enqueued response was not written", &d.log);
                        w_all.clone()
                    }
                }
            } else {
                w_all.clone()
            };
            let conts = parse_conts(&w);
            let want_conts: Vec<String> = if want { vec![if v11 { "1.1".into() } else { "1.0".into() }] } else { vec![] };
            if conts != want_conts {
                rec.oracle_fail("C13", &format!("limit {} expect {:?} content-length {:?}: interim responses written {:?}, expected {:?}", limit, if with_expect { Some(ev) } else { None }, cl, conts, want_conts), &d.log);
            }
            rec.count(if want { "continue:sent" } else { "continue:not-sent" });
            if want {
                rec.nontrivial();
            }
            if rejected {
                if !last.starts_with("parse(SizeLimitExceeded") {
                    rec.oracle_fail("C13", "over-limit request not rejected at the end of its head", &d.log);
                }
                // parsing restarts clean (C11): the NEXT request on this connection is asked for its body as usual
                rec.count("continue:after-rejected-request");
                d.popall(rec);
                continue;
            }
            if last.starts_with("parse(") {
                rec.count("continue:after-rejected-request");
                d.popall(rec);
                continue;
            }
            if last != "ok" {
                break;
            }
            // now the (rest of the) body: the request is delivered normally, nothing more is written
            if n_body > pre {
                let rest = body[pre..].to_vec();
                let cuts = gen::cuts(rng, &rest, 4);
                for ch in gen::split_at_cuts(&rest, &cuts) {
                    d.recv(rec, &ch, 0);
                }
            }
            stream_all.extend_from_slice(&body);
            let del = d.popall(rec);
            if del.len() != 1 {
                rec.oracle_fail("C13", &format!("{} requests delivered after the body arrived", del.len()), &d.log);
            }
            if d.pending_write() {
                rec.oracle_fail("C13", "something was queued while the body arrived", &d.log);
            }
        }
    }
    // the same through the specification: streams mixing requests with and without Expect
    let n2 = if thorough { 10000 } else { 500 };
    for _ in 0..n2 {
        rec.case("expect-stream");
        let limit = *rng.pick(&[5usize, 100, 51200]);
        let mut o = ReqOpts::default();
        o.expect_pct = 60;
        o.body_lens = vec![0, 1, 5, 6, 100, 101];
        let k = rng.range(1, 4);
        let mut stream = vec![];
        for _ in 0..k {
            stream.extend_from_slice(&gen::valid_request(rng, &o).bytes());
        }
        let cuts = gen::cuts_r(rng, &stream);
        let (_d, s) = run_stream(rec, rng, limit, &gen::split_at_cuts(&stream, &cuts), 10, 20);
        if !s.conts.is_empty() {
            rec.nontrivial();
        }
        rec.op(&format!("spec feed {} {}", limit, hx(&stream)), &s.line());
    }
}

pub fn c14(rec: &mut Rec, rng: &mut Rng, thorough: bool) {
    let n = if thorough { 50000 } else { 2500 };
    const PROBE: &[u8] = b"GET /probe-c14 HTTP/1.1\r\n\r\n";
    for i in 0..n {
        let mut o = ReqOpts::default();
        o.body_lens = vec![0, 0, 1, 5, 26, 100, 1500];
        if i % 4 == 1 {
            o.expect_pct = 70;
        }
        let p = gen::valid_request(rng, &o);
        // (i / 3 * 2 + i % 3): the corrupted cases (i % 3 != 0) walk through ALL kinds whatever the table's length
        let which = gen::CORRUPTIONS[(i / 3 * 2 + i % 3) % gen::CORRUPTIONS.len()];
        let mut bytes = match i % 3 {
            0 => p.bytes(),
            _ => gen::corrupt(rng, &p, which),
        };
        // with and without trailing bytes after the declared body
        match rng.below(6) {
            0 => bytes.extend_from_slice(b"x"),
            // a stray line terminator directly behind the declared body: for both parsers it is NOT part of the request
            5 => bytes.extend_from_slice(b"\r\n"),
            1 => bytes.extend_from_slice(&gen::valid_request(rng, &o).bytes()),
            2 if !bytes.is_empty() => {
                bytes.pop();
            }
            3 => {
                // the slice ends exactly after the header terminator although a body is declared (or somewhere inside it)
                if let Some(p) = bytes.windows(4).position(|w| w == b"\r\n\r\n") {
                    let head_end = p + 4;
                    if head_end < bytes.len() {
                        let keep = if rng.chance(2, 3) { head_end } else { rng.range(head_end, bytes.len() - 1) };
                        bytes.truncate(keep);
                    }
                }
            }
            _ => {}
        }
        rec.case(&format!("oneshot-vs-conn-{}", if i % 3 == 0 { "valid" } else { which }));
        let limit = 51200usize;
        let max = if rng.chance(1, 4) { Some(bytes.len() + rng.below(3)).map(|m| m.saturating_sub(1)) } else { None };
        let one = oneshot_op(rec, &bytes, max);
        let one_nomax = if max.is_some() { oneshot_op(rec, &bytes, None) } else { one.clone() };
        // the connection on the same slice
        let (mut d, s) = run_stream(rec, rng, limit, &[bytes.clone()], 0, 0);
        // … and a connection that has ALREADY delivered a request (with connection options such as `Connection: close`
        // among its headers) and is then fed the slice: between requests a connection is as good as new
        if i % 4 == 2 {
            // (a second connection next to `d`: the driver switches to its second model for the duration)
            rec.op("swap", "ok");
            let mut h = ConnDriver::new(rec, limit);
            let opt = *rng.pick(&["close", "Close", "keep-alive", "close, x"]);
            let earlier = format!("GET /earlier HTTP/1.1\r\nConnection: {}\r\nX-K: v\r\n\r\n", opt);
            h.recv(rec, earlier.as_bytes(), 0);
            let first = h.popall(rec);
            h.stop_on_parse_error = true;
            let rs = h.recv(rec, &bytes, 0);
            let del: Vec<String> = h.popall(rec).iter().map(|x| x.text_nofiles.clone()).collect();
            let err: Option<String> = rs.iter().find(|r| r.starts_with("parse(")).cloned();
            let fresh_err = s.error.as_ref().map(|e| format!("parse({})", e));
            if first.len() != 1 || del != s.delivered || err != fresh_err {
                let mut l = h.log.clone();
                l.push("# a new connection fed the same slice:".into());
                l.extend(d.log.iter().cloned());
                rec.oracle_fail("C14", &format!("a connection that has delivered an earlier request (Connection: {}) turns the slice into {:?} / {:?}, a new one into {:?} / {:?}", opt, del, err, s.delivered, fresh_err), &l);
            }
            rec.count("conn:slice-after-earlier-request");
            rec.op("swap", "ok");
        }
        // "nothing left over": a probe request sent afterwards is delivered intact
        let mut clean = false;
        if s.error.is_none() && d.conn.is_some() {
            let rs = d.recv(rec, PROBE, 0);
            let del = d.popall(rec);
            clean = rs.iter().all(|r| r == "ok") && del.len() == 1 && del[0].text_nofiles.contains(&hx(b"/probe-c14"));
        }
        let lines_ok = {
            // every line of the head within the window
            let mut ok = true;
            let mut start = 0;
            let head_end = bytes.windows(4).position(|w| w == b"\r\n\r\n").map(|i| i + 4).unwrap_or(bytes.len());
            while let Some(pos) = bytes[start..head_end].windows(2).position(|w| w == b"\r\n") {
                if pos + 2 > 1024 {
                    ok = false;
                }
                start += pos + 2;
            }
            ok
        };
        // one-shot accepts  ⇒  the connection's first request is the same (within the limits)
        if let Some(Ok(t)) = &one_nomax {
            let cl_ok = !t.contains("cl=") || t.split("cl=").nth(1).and_then(|x| x.split(' ').next()).and_then(|x| x.parse::<usize>().ok()).map(|c| c <= limit).unwrap_or(true);
            if lines_ok && cl_ok {
                rec.nontrivial();
                if s.delivered.first() != Some(t) {
                    rec.oracle_fail("C14", &format!("one-shot accepted {} but the connection delivered {:?} (error {:?})", t, s.delivered.first(), s.error), &d.log);
                }
                // "fed the same bytes": however the reads cut them. Random cuts, and the aimed pattern — a first read that ends
                // inside a line, a read that completes the head but not the body, the body in further pieces
                if i % 2 == 0 && bytes.len() >= 4 {
                    let head_end = bytes.windows(4).position(|w| w == b"\r\n\r\n").map(|x| x + 4).unwrap_or(bytes.len());
                    let mut cuts: Vec<usize> = if head_end < bytes.len() && i % 4 == 0 {
                        let mut c = vec![rng.range(1, head_end.saturating_sub(2).max(1)), head_end];
                        if bytes.len() - head_end > 2 {
                            c.push(rng.range(head_end + 1, bytes.len() - 1));
                        }
                        c
                    } else {
                        (0..1 + rng.below(4)).map(|_| rng.range(1, bytes.len() - 1)).collect()
                    };
                    cuts.sort();
                    cuts.dedup();
                    let mut chunks: Vec<Vec<u8>> = vec![];
                    let mut prev = 0;
                    for c in cuts.iter().chain(std::iter::once(&bytes.len())) {
                        if *c > prev {
                            chunks.push(bytes[prev..*c].to_vec());
                            prev = *c;
                        }
                    }
                    rec.op("swap", "ok");
                    let (d3, s3) = run_stream(rec, rng, limit, &chunks, 0, 0);
                    rec.count("conn:slice-in-pieces");
                    if s3.delivered.first() != Some(t) {
                        rec.oracle_fail("C14", &format!("one-shot accepted {} but a connection fed the same bytes in {} reads (cuts at {:?}) delivered {:?} (error {:?})", t, chunks.len(), cuts, s3.delivered.first(), s3.error), &d3.log);
                    }
                    drop(d3);
                    // … and with the payload limit SET AGAIN between two reads (to the same value, or to another one the body
                    // is within): configuring the limit is not an event of the byte stream
                    if i % 8 == 0 {
                        let mut d4 = ConnDriver::new(rec, limit);
                        let at = rng.below(chunks.len());
                        for (k, ch) in chunks.iter().enumerate() {
                            if k == at || (k + 1 == chunks.len() && chunks.len() > 1) {
                                d4.set_limit(rec, if k % 2 == 0 { limit } else { limit + 1000 });
                            }
                            d4.recv(rec, ch, 0);
                            if d4.conn.is_none() {
                                break;
                            }
                        }
                        let del4: Vec<String> = d4.popall(rec).iter().map(|x| x.text_nofiles.clone()).collect();
                        rec.count("conn:slice-in-pieces-limit-set-between");
                        if del4.first() != Some(t) {
                            rec.oracle_fail("C14", &format!("one-shot accepted {} but a connection fed the same bytes in {} reads, with set_payload_max_size called between two of them, delivered {:?}", t, chunks.len(), del4.first()), &d4.log);
                        }
                    }
                    rec.op("swap", "ok");
                }
            }
        }
        // the connection turns the slice into exactly one request with nothing left over ⇒ one-shot agrees,
        // except GET with a body
        if s.error.is_none() && s.delivered.len() == 1 && clean {
            let t = &s.delivered[0];
            let is_get_with_body = t.starts_with("m=GET ") && !t.contains(" cl=0 ");
            match &one_nomax {
                Some(Ok(o)) => {
                    if o != t {
                        rec.oracle_fail("C14", &format!("connection delivered {} but one-shot parsed {}", t, o), &d.log);
                    }
                    if is_get_with_body {
                        rec.oracle_fail("C14", "one-shot accepted a GET that declares a body", &d.log);
                    }
                }
                Some(Err(e)) => {
                    if !is_get_with_body {
                        rec.oracle_fail("C14", &format!("connection delivered exactly {} but one-shot rejected with {}", t, e), &d.log);
                    }
                }
                None => {}
            }
            rec.count("conn:exactly-one");
        }
        // the caller's maximum
        if let Some(m) = max {
            if bytes.len() >= m {
                if one != Some(Err("InvalidRequest".to_string())) {
                    rec.oracle_fail("C14", "slice length reaches the maximum but was not rejected", &d.log);
                }
            } else if one != one_nomax {
                rec.oracle_fail("C14", "the maximum changed the result below the maximum", &d.log);
            }
        }
    }
}

/// Bounded-exhaustive histories of ONE connection ("small scope"): every sequence of up to `depth` operations over
/// a fixed alphabet of reads (request pieces that complete, continue, pipeline or break a request; with and without
/// a descriptor), empty reads, end of stream, pops, enqueues, writes (all / short / EINTR / failure) and clear.
/// Random generators interleave the input and output sides, pop timing and faults only by chance; this suite
/// visits every such interleaving of short length. Each history is replayed on the model op by op; the
/// implementation-level oracles are: no panic (C03), accepted bytes = a prefix of what was queued (C06, incl. the
/// 100 Continue a read queues itself), every descriptor handed over at most once and never to a request that
/// completed before it arrived (C12).
pub fn conn_enum(rec: &mut Rec, _rng: &mut Rng, thorough: bool) {
    #[derive(Clone, Copy, PartialEq)]
    enum Op {
        R(&'static [u8], usize),
        Eagain,
        Eof,
        Pop,
        Enq,
        W(u8),
        Clear,
    }
    const CONT11: &[u8] = b"HTTP/1.1 100 \r\nServer: Firecracker API\r\nConnection: keep-alive\r\n\r\n";
    let alphabet: Vec<Op> = vec![
        Op::R(b"GET /a HTTP/1.1\r\n", 0),
        Op::R(b"GET /a HTTP/1.1\r\n", 1),
        Op::R(b"\r\n", 0),
        Op::R(b"X: y\r", 1),
        Op::R(b"\nZ:w\r\n", 0),
        Op::R(b"PUT /b HTTP/1.1\r\nExpect: 100-continue\r\nContent-Length: 2\r\n\r\n", 0),
        Op::R(b"a", 1),
        Op::R(b"bGET /c HTTP/1.0\r\n\r\nGET /d HT", 0),
        Op::R(b"TP/1.1\r\n\r\n", 0),
        Op::R(b"BAD\r\n", 0),
        Op::Eagain,
        Op::Eof,
        Op::Pop,
        Op::Enq,
        Op::W(0),
        Op::W(1),
        Op::W(2),
        Op::W(3),
        Op::Clear,
    ];
    let depth = if thorough { 5 } else { 4 };
    let n = alphabet.len();
    let mut idx: Vec<usize> = vec![];
    // all sequences of length 1..=depth (odometer)
    let mut len = 1;
    idx.push(0);
    let resp = RespSpec { v11: true, code: 200, ops: vec![BOp::Body(b"xy".to_vec())] };
    let resp_bytes = crate::suites::response::serialize(&resp);
    loop {
        // run the sequence `idx`
        rec.case("enum");
        let mut d = ConnDriver::new(rec, 51200);
        let mut expected: Vec<u8> = vec![]; // queued since the last discard (application + interim responses)
        let mut accepted: Vec<u8> = vec![];
        let mut arrived: Vec<usize> = vec![]; // descriptor tokens in arrival order
        let mut seen_delivered = 0usize;
        let mut had_parse_error = false;
        for &k in &idx {
            if d.conn.is_none() {
                break;
            }
            match alphabet[k] {
                Op::R(bytes, nf) => {
                    let before = d.tokens.next;
                    if d.recv(rec, bytes, nf).iter().any(|r| r.starts_with("parse(")) {
                        had_parse_error = true;
                    }
                    arrived.extend(before..d.tokens.next);
                }
                Op::Eagain => {
                    d.rerr(rec, libc::EAGAIN);
                }
                Op::Eof => {
                    d.eof(rec, 0);
                }
                Op::Pop => {
                    d.pop(rec);
                }
                Op::Enq => {
                    d.enqueue(rec, &resp);
                    expected.extend_from_slice(&resp_bytes);
                }
                Op::W(kind) => {
                    let w = match kind {
                        0 => WAct::Accept(1 << 20),
                        1 => WAct::Accept(3),
                        2 => WAct::Intr,
                        _ => WAct::Fail,
                    };
                    let (res, acc) = d.write(rec, w);
                    accepted.extend_from_slice(&acc);
                    if res == "closed" {
                        expected.clear();
                        accepted.clear();
                    }
                }
                Op::Clear => {
                    d.clear(rec);
                    expected.clear();
                    accepted.clear();
                }
            }
            // C06 on the implementation alone: what the stream accepted, with the interim responses the reads queued
            // themselves taken out (complete ones anywhere, a partly written one at the very end), is a prefix of what
            // the application enqueued since the last discard
            let mut acc_wo: Vec<u8> = accepted.clone();
            while let Some(p) = acc_wo.windows(CONT11.len()).position(|w| w == CONT11) {
                acc_wo.drain(p..p + CONT11.len());
            }
            let mut cut = 0;
            for k in (1..CONT11.len().min(acc_wo.len() + 1)).rev() {
                if acc_wo.ends_with(&CONT11[..k]) {
                    cut = k;
                    break;
                }
            }
            let stripped = &acc_wo[..acc_wo.len() - cut];
            if !(expected.starts_with(&acc_wo) || expected.starts_with(stripped)) {
                rec.oracle_fail("C06", "accepted bytes are not the queued responses in order", &d.log);
            }
            if d.panicked {
                rec.oracle_fail("C03", "a call panicked in a short history of one connection", &d.log);
                break;
            }
            // C12: no descriptor handed over twice; a request never carries a descriptor that arrived after it was popped
            let all_files: Vec<usize> = d.delivered.iter().flat_map(|x| x.files.iter().cloned()).collect();
            let mut sorted = all_files.clone();
            sorted.sort();
            sorted.dedup();
            if sorted.len() != all_files.len() || all_files.iter().any(|t| !arrived.contains(t)) {
                rec.oracle_fail("C12", "a descriptor was handed over twice (or never arrived)", &d.log);
            }
            if all_files.windows(2).any(|w| w[0] > w[1]) {
                rec.oracle_fail("C12", "descriptors were handed over out of arrival order", &d.log);
            }
            // "never lost": without a parse error (which drops what came with the rejected input) every descriptor that
            // arrived and was not handed over yet is still held open by the connection
            if !had_parse_error && d.conn.is_some() {
                let lost: Vec<usize> = d.tokens.by_fd.iter().filter(|(fd, t)| !all_files.contains(t) && !Tokens::is_open(**fd)).map(|(_, t)| *t).collect();
                if !lost.is_empty() {
                    rec.oracle_fail("C12", &format!("descriptors {:?} arrived, were not handed over and are closed", lost), &d.log);
                }
            }
            seen_delivered = d.delivered.len();
        }
        let _ = seen_delivered;
        d.popall(rec);
        if idx.iter().any(|&k| matches!(alphabet[k], Op::R(_, _))) && idx.iter().any(|&k| !matches!(alphabet[k], Op::R(_, _))) {
            rec.nontrivial();
        }
        // next sequence
        let mut pos = idx.len();
        loop {
            if pos == 0 {
                len += 1;
                idx = vec![0; len];
                break;
            }
            pos -= 1;
            idx[pos] += 1;
            if idx[pos] < n {
                break;
            }
            idx[pos] = 0;
        }
        if len > depth {
            break;
        }
    }
}
