//! C12 end to end: descriptors sent with SCM_RIGHTS over a real AF_UNIX socket to a real `HttpServer`.
//!
//! Implementation-level oracle only (the server model carries no descriptors): every descriptor the client passes
//! arrives with the first request that completes in that read or a later one — exactly once, in order, identified by
//! (st_dev, st_ino) — whatever the application does on the OUTPUT side of that connection in between (answering an
//! earlier request, flushing, the connection going idle), and nothing stays open once requests and server are dropped.
use crate::emit::Rec;
use crate::rng::Rng;
use crate::srv::{fd_ready, open_fds};
use micro_http::{Body, HttpServer, Response, ServerRequest, StatusCode, Version};
use std::io::{Read, Write};
use std::os::unix::io::{AsRawFd, RawFd};
use std::os::unix::net::UnixStream;
use vmm_sys_util::sock_ctrl_msg::ScmSocket;

static mut N: u64 = 0;

fn ident(fd: RawFd) -> (u64, u64) {
    // SAFETY: fstat on a descriptor we own
    unsafe {
        let mut st: libc::stat = std::mem::zeroed();
        if libc::fstat(fd, &mut st) != 0 {
            return (0, 0);
        }
        (st.st_dev as u64, st.st_ino as u64)
    }
}

struct Run {
    server: HttpServer,
    client: UnixStream,
    log: Vec<String>,
    held: Vec<ServerRequest>,
    /// identities of the descriptors each yielded request carried, in yield order
    got: Vec<(String, Vec<(u64, u64)>)>,
    received: Vec<u8>,
    failed: Option<String>,
}

impl Run {
    fn new(via_fd: bool) -> Run {
        // SAFETY: single-threaded harness
        let n = unsafe {
            N += 1;
            N
        };
        let dir = std::env::var("MH_SOCK_DIR").unwrap_or_else(|_| "/verif/work".to_string());
        let path = format!("{}/.mh-fds-{}-{}.sock", dir, std::process::id(), n);
        let _ = std::fs::remove_file(&path);
        let mut server = if via_fd {
            use std::os::unix::io::IntoRawFd;
            let l = std::os::unix::net::UnixListener::bind(&path).expect("bind");
            // SAFETY: sole owner of the descriptor
            unsafe { HttpServer::new_from_fd(l.into_raw_fd()).expect("new_from_fd") }
        } else {
            HttpServer::new(&path).expect("bind")
        };
        server.start_server().expect("start");
        let client = UnixStream::connect(&path).expect("connect");
        client.set_nonblocking(true).unwrap();
        let _ = std::fs::remove_file(&path);
        Run { server, client, log: vec![format!("# real server ({}), one client", if via_fd { "new_from_fd" } else { "new" })], held: vec![], got: vec![], received: vec![], failed: None }
    }

    /// poll while the epoll descriptor signals (at most `max` times)
    fn polls(&mut self, max: usize) {
        for _ in 0..max {
            if !fd_ready(self.server.epoll().as_raw_fd()) {
                break;
            }
            match self.server.requests() {
                Ok(reqs) => {
                    for r in reqs {
                        let mut ids = vec![];
                        let mut uri = String::new();
                        let _ = r.process(|req| {
                            uri = req.uri().get_abs_path().to_string();
                            ids = req.files.iter().map(|f| ident(f.as_raw_fd())).collect();
                            Response::new(Version::Http11, StatusCode::NoContent)
                        });
                        self.log.push(format!("# poll: yielded {} with {} descriptors", uri, ids.len()));
                        self.got.push((uri, ids));
                        self.held.push(r);
                    }
                }
                Err(e) => {
                    self.failed = Some(format!("requests() failed: {:?}", e));
                    return;
                }
            }
        }
    }

    fn send(&mut self, bytes: &[u8], fds: &[RawFd]) {
        self.log.push(format!("# client sends {:?} with {} descriptors", String::from_utf8_lossy(bytes), fds.len()));
        let r = if fds.is_empty() { self.client.write_all(bytes).map_err(|e| e.to_string()) } else { self.client.send_with_fds(&[bytes], fds).map(|_| ()).map_err(|e| e.to_string()) };
        if let Err(e) = r {
            self.failed = Some(format!("client send failed: {}", e));
        }
    }

    fn answer_oldest(&mut self, flush: bool) {
        if self.held.is_empty() {
            return;
        }
        let r = self.held.remove(0);
        let resp = r.process(|req| {
            let mut x = Response::new(Version::Http11, StatusCode::OK);
            x.set_body(Body::new(format!("answer to {}", req.uri().get_abs_path())));
            x
        });
        self.log.push(format!("# application answers the oldest request{}", if flush { " and flushes" } else { "" }));
        if let Err(e) = self.server.respond(resp) {
            self.failed = Some(format!("respond failed: {:?}", e));
        }
        drop(r);
        if flush {
            self.server.flush_outgoing_writes();
        }
    }

    fn client_read(&mut self) {
        let mut buf = [0u8; 65536];
        loop {
            match self.client.read(&mut buf) {
                Ok(0) => break,
                Ok(n) => self.received.extend_from_slice(&buf[..n]),
                Err(_) => break,
            }
        }
    }
}

/// where the descriptors arrive (relative to request 2) and what the application does meanwhile
fn scenario(rec: &mut Rec, via_fd: bool, nfds: usize, cut: usize, answer_when: usize, flush: bool) {
    rec.case("descriptors-through-the-server");
    rec.nontrivial();
    let base = open_fds();
    // the descriptors to pass: read ends of fresh pipes (each has its own inode)
    let mut pipes: Vec<(RawFd, RawFd)> = vec![];
    for _ in 0..nfds {
        let mut p = [0 as RawFd; 2];
        // SAFETY: plain pipe(2)
        unsafe { libc::pipe(p.as_mut_ptr()) };
        pipes.push((p[0], p[1]));
    }
    let sent_ids: Vec<(u64, u64)> = pipes.iter().map(|p| ident(p.0)).collect();
    let sent_fds: Vec<RawFd> = pipes.iter().map(|p| p.0).collect();
    let mut run = Run::new(via_fd);
    run.polls(3);
    run.send(b"GET /one HTTP/1.1\r\n\r\n", &[]);
    run.polls(3);
    let second: &[u8] = b"PUT /two HTTP/1.1\r\nX-Pad: some header\r\nContent-Length: 6\r\n\r\nabcdef";
    // cut: 0 inside the request line, 1 inside the headers, 2 inside the body, 3 the whole request in one piece
    let at = match cut {
        0 => 7,
        1 => 30,
        2 => second.len() - 3,
        _ => second.len(),
    };
    if answer_when == 0 {
        run.answer_oldest(flush);
        run.polls(4);
        run.client_read();
    }
    run.send(&second[..at], &sent_fds);
    run.polls(3);
    if answer_when == 1 {
        run.answer_oldest(flush);
        run.polls(4);
        run.client_read();
        run.polls(2);
    }
    if at < second.len() {
        run.send(&second[at..], &[]);
        run.polls(3);
    }
    if answer_when == 2 {
        run.answer_oldest(flush);
        run.polls(4);
        run.client_read();
    }
    let mut problems: Vec<String> = vec![];
    if let Some(f) = &run.failed {
        problems.push(f.clone());
    }
    let two: Vec<&(String, Vec<(u64, u64)>)> = run.got.iter().filter(|g| g.0 == "/two").collect();
    if two.len() != 1 {
        problems.push(format!("/two was yielded {} times", two.len()));
    } else if two[0].1 != sent_ids {
        problems.push(format!("/two was handed {} descriptors (identities {:?}), the client passed {} ({:?}) alongside its bytes", two[0].1.len(), two[0].1, sent_ids.len(), sent_ids));
    }
    if let Some(g) = run.got.iter().find(|g| g.0 != "/two" && !g.1.is_empty()) {
        problems.push(format!("{} was handed {} descriptors although none arrived before it completed", g.0, g.1.len()));
    }
    let log = run.log.clone();
    drop(run);
    for (r, w) in pipes {
        // SAFETY: closing our own pipe ends
        unsafe {
            libc::close(r);
            libc::close(w);
        }
    }
    let after = open_fds();
    if after != base {
        problems.push(format!("descriptors left open after requests, server and client were dropped: {:?}", after.difference(&base).collect::<Vec<_>>()));
    }
    if !problems.is_empty() {
        rec.oracle_fail("C12", &format!("through HttpServer ({} descriptors with a read ending {}; the earlier request answered {}{}): {}", nfds,
            ["inside the request line", "inside the headers", "inside the body", "with the request complete"][cut.min(3)],
            ["before they arrive", "while they are pending", "after the request completed", "never"][answer_when.min(3)], if flush { ", flushed" } else { "" }, problems.join("; ")), &log);
    }
    rec.count("srv-fds:scenario");
}

pub fn run(rec: &mut Rec, _rng: &mut Rng, thorough: bool) {
    for nfds in if thorough { vec![1usize, 2, 3, 16] } else { vec![1usize, 3] } {
        for cut in 0..4 {
            for answer_when in 0..4 {
                for flush in [false, true] {
                    if answer_when == 3 && flush {
                        continue;
                    }
                    scenario(rec, (nfds + cut + answer_when) % 2 == 1, nfds, cut, answer_when, flush);
                }
            }
        }
    }
}
