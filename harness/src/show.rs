//! Canonical text forms of the line protocol (must match lean/MicroHttp/Show.lean).
use micro_http::{
    ConnectionError, HttpHeaderError, MediaType, Method, Request, RequestError, Version,
};

pub fn hx(bs: &[u8]) -> String {
    if bs.is_empty() {
        return ".".to_string();
    }
    let mut s = String::with_capacity(bs.len() * 2);
    for b in bs {
        s.push_str(&format!("{:02x}", b));
    }
    s
}

pub fn unhex(s: &str) -> Vec<u8> {
    if s == "." {
        return vec![];
    }
    (0..s.len() / 2)
        .map(|i| u8::from_str_radix(&s[2 * i..2 * i + 2], 16).unwrap())
        .collect()
}

pub fn show_method(m: Method) -> &'static str {
    // not exhaustive on purpose: an added variant must not stop the harness from compiling
    if m == Method::Get {
        "GET"
    } else if m == Method::Put {
        "PUT"
    } else if m == Method::Patch {
        "PATCH"
    } else {
        "OTHER"
    }
}

pub fn show_version(v: Version) -> &'static str {
    if v == Version::Http10 {
        "1.0"
    } else if v == Version::Http11 {
        "1.1"
    } else {
        "other"
    }
}

pub fn show_media(m: MediaType) -> &'static str {
    if m == MediaType::PlainText {
        "plain"
    } else if m == MediaType::ApplicationJson {
        "json"
    } else {
        "other"
    }
}

pub fn b01(b: bool) -> &'static str {
    if b {
        "1"
    } else {
        "0"
    }
}

pub fn show_header_err(e: &HttpHeaderError) -> String {
    match e {
        HttpHeaderError::InvalidFormat(k) => format!("InvalidFormat({})", hx(k.as_bytes())),
        HttpHeaderError::InvalidUtf8String(u) => format!(
            "InvalidUtf8String({},{})",
            u.valid_up_to(),
            match u.error_len() {
                Some(n) => n.to_string(),
                None => "-".to_string(),
            }
        ),
        HttpHeaderError::InvalidValue(k, v) => {
            format!("InvalidValue({},{})", hx(k.as_bytes()), hx(v.as_bytes()))
        }
        HttpHeaderError::SizeLimitExceeded(s) => format!("SizeLimitExceeded({})", hx(s.as_bytes())),
        HttpHeaderError::UnsupportedName(k) => format!("UnsupportedName({})", hx(k.as_bytes())),
        HttpHeaderError::UnsupportedValue(k, v) => {
            format!("UnsupportedValue({},{})", hx(k.as_bytes()), hx(v.as_bytes()))
        }
        #[allow(unreachable_patterns)]
        other => format!("OtherHeaderError({:?})", other),
    }
}

pub fn show_req_err(e: &RequestError) -> String {
    match e {
        RequestError::BodyWithoutPendingRequest => "BodyWithoutPendingRequest".into(),
        RequestError::HeaderError(h) => format!("HeaderError({})", show_header_err(h)),
        RequestError::HeadersWithoutPendingRequest => "HeadersWithoutPendingRequest".into(),
        RequestError::InvalidHttpMethod(_) => "InvalidHttpMethod".into(),
        RequestError::InvalidHttpVersion(_) => "InvalidHttpVersion".into(),
        RequestError::InvalidRequest => "InvalidRequest".into(),
        RequestError::InvalidUri(s) => {
            if s.starts_with("Empty") {
                "InvalidUri(empty)".into()
            } else if s.contains("UTF-8") {
                "InvalidUri(utf8)".into()
            } else {
                format!("InvalidUri({})", s)
            }
        }
        RequestError::Overflow => "Overflow".into(),
        RequestError::Underflow => "Underflow".into(),
        RequestError::SizeLimitExceeded(l, n) => format!("SizeLimitExceeded({},{})", l, n),
        #[allow(unreachable_patterns)]
        other => format!("OtherRequestError({:?})", other),
    }
}

/// Undo `str`'s `Debug` escaping (used to recover the text of a `Uri`, which has no accessor).
pub fn unescape_debug(s: &str) -> String {
    let mut out = String::new();
    let mut it = s.chars().peekable();
    while let Some(c) = it.next() {
        if c != '\\' {
            out.push(c);
            continue;
        }
        match it.next() {
            Some('n') => out.push('\n'),
            Some('r') => out.push('\r'),
            Some('t') => out.push('\t'),
            Some('0') => out.push('\0'),
            Some('\\') => out.push('\\'),
            Some('"') => out.push('"'),
            Some('\'') => out.push('\''),
            Some('u') => {
                // \u{XXXX}
                let mut hex = String::new();
                if it.next() == Some('{') {
                    for h in it.by_ref() {
                        if h == '}' {
                            break;
                        }
                        hex.push(h);
                    }
                }
                if let Some(ch) = u32::from_str_radix(&hex, 16).ok().and_then(char::from_u32) {
                    out.push(ch);
                }
            }
            Some(o) => {
                out.push('\\');
                out.push(o);
            }
            None => out.push('\\'),
        }
    }
    out
}

/// The full text of the request's URI.
pub fn uri_text(r: &Request) -> String {
    let d = format!("{:?}", r.uri());
    // Uri { string: "..." }
    let start = d.find('"').map(|i| i + 1).unwrap_or(0);
    let end = d.rfind('"').unwrap_or(d.len());
    if start <= end {
        unescape_debug(&d[start..end])
    } else {
        d
    }
}

pub fn show_headers(h: &micro_http::Headers) -> String {
    let mut cu: Vec<(Vec<u8>, Vec<u8>)> = h
        .custom_entries()
        .iter()
        .map(|(k, v)| (k.as_bytes().to_vec(), v.as_bytes().to_vec()))
        .collect();
    cu.sort();
    let cu: Vec<String> = cu.iter().map(|(k, v)| format!("{}:{}", hx(k), hx(v))).collect();
    format!(
        "cl={} ex={} ch={} ac={} cu=[{}]",
        h.content_length(),
        b01(h.expect()),
        b01(h.chunked()),
        show_media(h.accept()),
        cu.join(",")
    )
}

/// `files` are shown through the token map of the caller.
pub fn show_request(r: &Request, files: &[usize]) -> String {
    let body = match &r.body {
        None => "-".to_string(),
        Some(b) => hx(b.raw()),
    };
    let fs: Vec<String> = files.iter().map(|t| t.to_string()).collect();
    format!(
        "m={} u={} v={} {} body={} files=[{}]",
        show_method(r.method()),
        hx(uri_text(r).as_bytes()),
        show_version(r.http_version()),
        show_headers(&r.headers),
        body,
        fs.join(",")
    )
}

pub fn show_read_result(r: &Result<(), ConnectionError>) -> String {
    match r {
        Ok(()) => "ok".into(),
        Err(ConnectionError::ConnectionClosed) => "closed".into(),
        Err(ConnectionError::StreamReadError(e)) => format!("readerr({})", e.errno()),
        Err(ConnectionError::ParseError(e)) => format!("parse({})", show_req_err(e)),
        Err(other) => format!("other({:?})", other),
    }
}
