//! mhharness — runs the real micro_http code on generated inputs / histories, writes the op
//! stream for the Lean driver and what the implementation did, evaluates implementation-level oracles.
//!
//! usage: mhharness <suite> --seed N --tier quick|thorough --out DIR
#![allow(dead_code)]
mod conn;
mod emit;
mod gen;
mod inject;
mod rng;
mod replay;
mod show;
mod srv;
mod sstream;
mod suites;

use emit::Rec;
use rng::Rng;

fn main() {
    let args: Vec<String> = std::env::args().collect();
    if args.len() < 2 {
        eprintln!("usage: mhharness <suite> --seed N --tier quick|thorough --out DIR");
        std::process::exit(2);
    }
    let suite = args[1].clone();
    let mut seed: u64 = 1;
    let mut tier = "quick".to_string();
    let mut out = "/verif/work/tmp".to_string();
    let mut i = if suite == "replay" { 3 } else { 2 };
    while i + 1 < args.len() {
        match args[i].as_str() {
            "--seed" => seed = args[i + 1].parse().unwrap_or(1),
            "--tier" => tier = args[i + 1].clone(),
            "--out" => out = args[i + 1].clone(),
            _ => {}
        }
        i += 2;
    }
    let thorough = tier == "thorough";
    let mut prop = String::from("C03");
    for k in 2..args.len().saturating_sub(1) {
        if args[k] == "--prop" {
            prop = args[k + 1].clone();
        }
    }
    // watchdog: if no op completes for 40 s the code under test hangs (loops forever / blocks): report the case
    // in progress as a violation of the property being checked and stop.
    {
        let out_dir = out.clone();
        let prop = prop.clone();
        std::thread::spawn(move || {
            use std::sync::atomic::Ordering;
            let mut last = emit::PROGRESS.load(Ordering::Relaxed);
            let mut idle = 0;
            loop {
                std::thread::sleep(std::time::Duration::from_secs(2));
                let now = emit::PROGRESS.load(Ordering::Relaxed);
                if now == last {
                    idle += 2;
                } else {
                    idle = 0;
                    last = now;
                }
                if idle >= 40 {
                    let case = emit::CURRENT_CASE.lock().map(|c| c.clone()).unwrap_or_default();
                    let esc = |s: &str| s.replace('\\', "\\\\").replace('"', "\\\"");
                    let lines: Vec<String> = case.iter().map(|l| format!("\"{}\"", esc(l))).collect();
                    let entry = format!(
                        "{{\"property\":\"{}\",\"case\":0,\"what\":\"HANG: no operation completed for 40 s — the call in progress loops forever or blocks\",\"replay\":[{}]}}\n",
                        prop,
                        lines.join(",")
                    );
                    let _ = std::fs::write(format!("{}/hang.jsonl", out_dir), entry);
                    eprintln!("watchdog: hang detected");
                    std::process::exit(3);
                }
            }
        });
    }
    // panics are caught per call by the suites; keep the default hook quiet
    std::panic::set_hook(Box::new(|info| {
        // panics of the code under test are caught per call and reported as oracle failures;
        // a panic of the harness itself must be visible
        let loc = info.location().map(|l| l.file().to_string()).unwrap_or_default();
        if loc.contains("harness/src") || loc.starts_with("src/") {
            eprintln!("harness panic: {}", info);
        }
    }));
    let mut rec = Rec::new(&out);
    let mut rng = Rng::new(seed);
    if suite == "replay" {
        // mhharness replay <ops-file> --out DIR
        let file = args.get(2).cloned().unwrap_or_default();
        replay::run(&mut rec, &file);
        rec.finish(&[("suite", suite), ("tier", tier), ("seed", seed.to_string())]);
        return;
    }
    match suite.as_str() {
        "tokens" => suites::tokens::run(&mut rec, &mut rng, thorough),
        "headers" => suites::headers::run(&mut rec, &mut rng, thorough),
        "response" => suites::response::run(&mut rec, &mut rng, thorough),
        "router" => suites::router::run(&mut rec, &mut rng, thorough),
        "c01" => suites::connsuites::c01(&mut rec, &mut rng, thorough),
        "c02" => suites::connsuites::c02(&mut rec, &mut rng, thorough),
        "c03" => suites::connsuites::c03(&mut rec, &mut rng, thorough),
        "c04" => suites::connsuites::c04(&mut rec, &mut rng, thorough),
        "c06" => suites::connsuites::c06(&mut rec, &mut rng, thorough),
        "c11" => suites::connsuites::c11(&mut rec, &mut rng, thorough),
        "c12" => suites::connsuites::c12(&mut rec, &mut rng, thorough),
        "c13" => suites::connsuites::c13(&mut rec, &mut rng, thorough),
        "c14" => suites::connsuites::c14(&mut rec, &mut rng, thorough),
        "conn-enum" => suites::connsuites::conn_enum(&mut rec, &mut rng, thorough),
        "srv-c07" => suites::srvsuites::c07(&mut rec, &mut rng, thorough),
        "srv-c08" => suites::srvsuites::c08(&mut rec, &mut rng, thorough),
        "srv-c09" => suites::srvsuites::c09(&mut rec, &mut rng, thorough),
        "srv-c10" => suites::srvsuites::c10(&mut rec, &mut rng, thorough),
        "srv-c18" => suites::srvsuites::c18(&mut rec, &mut rng, thorough),
        "srv-enum" => suites::srvsuites::srv_enum(&mut rec, &mut rng, thorough),
        "srv-fault" => suites::srvsuites::srv_fault(&mut rec, &mut rng, thorough),
        "srv-conn" => suites::srvsuites::srv_conn(&mut rec, &mut rng, thorough),
        "srv-fds" => suites::srvfds::run(&mut rec, &mut rng, thorough),
        other => {
            eprintln!("unknown suite {}", other);
            std::process::exit(2);
        }
    }
    rec.finish(&[("suite", suite), ("tier", tier), ("seed", seed.to_string())]);
}
