//! ConnDriver: drives a real `HttpConnection<Scripted>` through its public API, records every
//! action as a protocol op together with what the implementation did, and evaluates the
//! implementation-level oracles that do not need the model (C03: no panic, ≤ 1 recv / ≤ 1 write per call).
use crate::emit::Rec;
use crate::show::*;
use crate::sstream::{RAct, Scripted, WAct};
use micro_http::{ConnectionError, HttpConnection, Request, Response};
use std::collections::HashMap;
use std::os::unix::io::{AsRawFd, RawFd};
use std::panic::{catch_unwind, AssertUnwindSafe};

/// Specification of a response in protocol form: version, status number, builder ops.
#[derive(Clone, Debug)]
pub struct RespSpec {
    pub v11: bool,
    pub code: u16,
    pub ops: Vec<BOp>,
}

#[derive(Clone, Debug)]
pub enum BOp {
    Body(Vec<u8>),
    Type(bool), // true = json
    Deprecation,
    Encoding,
    Server(Vec<u8>),
    Allow(Vec<u8>), // method indices 0,1,2
    AllowMethod(u8),
    Len(Option<i32>),
}

pub const CODES: [u16; 11] = [100, 200, 204, 400, 401, 404, 405, 413, 500, 501, 503];

pub fn status_of(code: u16) -> micro_http::StatusCode {
    use micro_http::StatusCode::*;
    match code {
        100 => Continue,
        200 => OK,
        204 => NoContent,
        400 => BadRequest,
        401 => Unauthorized,
        404 => NotFound,
        405 => MethodNotAllowed,
        413 => PayloadTooLarge,
        500 => InternalServerError,
        501 => NotImplemented,
        _ => ServiceUnavailable,
    }
}

pub fn method_of(i: u8) -> micro_http::Method {
    match i {
        0 => micro_http::Method::Get,
        1 => micro_http::Method::Put,
        _ => micro_http::Method::Patch,
    }
}

pub fn method_name(i: u8) -> &'static str {
    ["GET", "PUT", "PATCH"][i as usize % 3]
}

impl RespSpec {
    pub fn build(&self) -> Response {
        let v = if self.v11 { micro_http::Version::Http11 } else { micro_http::Version::Http10 };
        let mut r = Response::new(v, status_of(self.code));
        Self::apply_ops(&mut r, &self.ops);
        r
    }
    /// the builder calls `ops` on an existing response
    pub fn apply_ops(r: &mut Response, ops: &[BOp]) {
        for op in ops {
            match op {
                BOp::Body(b) => r.set_body(micro_http::Body::new(b.clone())),
                BOp::Type(j) => r.set_content_type(if *j {
                    micro_http::MediaType::ApplicationJson
                } else {
                    micro_http::MediaType::PlainText
                }),
                BOp::Deprecation => r.set_deprecation(),
                BOp::Encoding => r.set_encoding(),
                BOp::Server(s) => r.set_server(std::str::from_utf8(s).unwrap()),
                BOp::Allow(ms) => r.set_allow(ms.iter().map(|m| method_of(*m)).collect()),
                BOp::AllowMethod(m) => r.allow_method(method_of(*m)),
                BOp::Len(l) => r.set_content_length(*l),
            }
        }
    }
    pub fn proto(&self) -> String {
        let ops: Vec<String> = self
            .ops
            .iter()
            .map(|op| match op {
                BOp::Body(b) => format!("b:{}", hx(b)),
                BOp::Type(j) => format!("t:{}", if *j { "json" } else { "plain" }),
                BOp::Deprecation => "d".into(),
                BOp::Encoding => "e".into(),
                BOp::Server(s) => format!("s:{}", hx(s)),
                BOp::Allow(ms) => format!(
                    "a:{}",
                    ms.iter().map(|m| method_name(*m)).collect::<Vec<_>>().join(",")
                ),
                BOp::AllowMethod(m) => format!("m:{}", method_name(*m)),
                BOp::Len(None) => "l:-".into(),
                BOp::Len(Some(n)) => format!("l:{}", n),
            })
            .collect();
        format!(
            "{} {} {}",
            if self.v11 { "1.1" } else { "1.0" },
            self.code,
            if ops.is_empty() { "-".to_string() } else { ops.join(";") }
        )
    }
}

/// Descriptor tokens: real descriptors (dups of /dev/null) identified by their number while open.
pub struct Tokens {
    devnull: std::fs::File,
    pub by_fd: HashMap<RawFd, usize>,
    pub next: usize,
    pub descending: bool,
}

impl Tokens {
    pub fn new() -> Self {
        // the template descriptor is kept at a number >= 3, so that when the suite has closed descriptor 0
        // (a daemon started with stdin closed) the first token of a case gets the NUMBER 0
        let f = std::fs::File::open("/dev/null").unwrap();
        let f = if f.as_raw_fd() < 3 {
            // SAFETY: duplicating a valid descriptor to a number >= 3
            let hi = unsafe { libc::fcntl(f.as_raw_fd(), libc::F_DUPFD_CLOEXEC, 3) };
            assert!(hi >= 3, "F_DUPFD failed");
            drop(f);
            // SAFETY: `hi` is a fresh descriptor owned by nobody else
            unsafe { <std::fs::File as std::os::unix::io::FromRawFd>::from_raw_fd(hi) }
        } else {
            f
        };
        Tokens { devnull: f, by_fd: HashMap::new(), next: 1, descending: false }
    }
    pub fn fresh(&mut self) -> (usize, RawFd) {
        // descriptor NUMBERS carry no meaning: in `descending` mode later tokens get SMALLER numbers than earlier ones
        // (as happens when the process frees a low number between two reads); otherwise the lowest free number
        let fd = if self.descending {
            let want = 600i32.saturating_sub(7 * self.next as i32).max(3);
            // SAFETY: duplicating a valid descriptor to the lowest free number >= want
            unsafe { libc::fcntl(self.devnull.as_raw_fd(), libc::F_DUPFD_CLOEXEC, want) }
        } else {
            // SAFETY: dup of a valid descriptor
            unsafe { libc::dup(self.devnull.as_raw_fd()) }
        };
        assert!(fd >= 0, "dup failed");
        let t = self.next;
        self.next += 1;
        self.by_fd.insert(fd, t);
        (t, fd)
    }
    pub fn token_of(&self, fd: RawFd) -> usize {
        *self.by_fd.get(&fd).unwrap_or(&0)
    }
    pub fn is_open(fd: RawFd) -> bool {
        // SAFETY: fcntl on an arbitrary number is harmless
        unsafe { libc::fcntl(fd, libc::F_GETFD) != -1 }
    }
}

#[derive(Clone, Debug, PartialEq)]
pub struct Delivered {
    pub text: String,        // canonical, with files
    pub text_nofiles: String, // canonical, files erased
    pub files: Vec<usize>,
}

pub struct ConnDriver {
    pub conn: Option<HttpConnection<Scripted>>,
    pub stream: Scripted,
    pub tokens: Tokens,
    pub limit: usize,
    /// everything delivered so far through pop (in order)
    pub delivered: Vec<Delivered>,
    /// requests popped and still alive (so that their files stay open until we drop them)
    pub held: Vec<Request>,
    /// first ParseError/closed result seen
    pub first_error: Option<String>,
    pub panicked: bool,
    /// stop offering the rest of a chunk once a read reported a ParseError
    pub stop_on_parse_error: bool,
    /// what is left of the last offer after the connection took what fitted (`conn more` takes from it)
    pub rest: Vec<u8>,
    /// log of protocol ops of this case (for replays)
    pub log: Vec<String>,
}

pub fn show_req_tokens(r: &Request, tokens: &Tokens) -> (String, Vec<usize>) {
    let fs: Vec<usize> = r.files.iter().map(|f| tokens.token_of(f.as_raw_fd())).collect();
    (show_request(r, &fs), fs)
}

impl ConnDriver {
    pub fn new(rec: &mut Rec, limit: usize) -> Self {
        let stream = Scripted::new();
        let mut conn = HttpConnection::new(stream.clone());
        conn.set_payload_max_size(limit);
        let mut d = ConnDriver {
            conn: Some(conn),
            stream,
            tokens: Tokens::new(),
            limit,
            delivered: vec![],
            held: vec![],
            first_error: None,
            panicked: false,
            stop_on_parse_error: false,
            rest: vec![],
            log: vec![],
        };
        // every third connection hands out descriptor numbers in descending order
        d.tokens.descending = rec.n_conn_new % 3 == 1;
        // every 64th connection is also stepped on the concrete-buffer model (lean/MicroHttp/Conn00.lean)
        let on = rec.n_conn_new % 64 == 0;
        rec.n_conn_new += 1;
        d.emit(rec, format!("l00 {}", if on { 1 } else { 0 }), "ok".into());
        d.emit(rec, format!("conn new {}", limit), "ok".into());
        d
    }

    /// a connection whose limit is never set: the documented default (0.05 MiB = 51200) applies
    pub fn new_default(rec: &mut Rec) -> Self {
        let stream = Scripted::new();
        let conn = HttpConnection::new(stream.clone());
        let mut d = ConnDriver {
            conn: Some(conn),
            stream,
            tokens: Tokens::new(),
            limit: 51200,
            delivered: vec![],
            held: vec![],
            first_error: None,
            panicked: false,
            stop_on_parse_error: false,
            rest: vec![],
            log: vec![],
        };
        rec.n_conn_new += 1;
        d.emit(rec, "l00 0".to_string(), "ok".into());
        d.emit(rec, "conn new default".to_string(), "ok".into());
        d
    }

    /// for replays: create the connection and emit only the given `conn new …` line
    pub fn new_quiet(rec: &mut Rec, limit: usize, line: &str) -> Self {
        let stream = Scripted::new();
        let mut conn = HttpConnection::new(stream.clone());
        conn.set_payload_max_size(limit);
        let mut d = ConnDriver {
            conn: Some(conn),
            stream,
            tokens: Tokens::new(),
            limit,
            delivered: vec![],
            held: vec![],
            first_error: None,
            panicked: false,
            stop_on_parse_error: false,
            rest: vec![],
            log: vec![],
        };
        d.emit(rec, line.to_string(), "ok".into());
        d
    }

    fn emit(&mut self, rec: &mut Rec, op: String, out: String) {
        rec.op(&op, &out);
        self.log.push(op);
    }

    fn pw(&self) -> &'static str {
        b01(self.conn.as_ref().map(|c| c.pending_write()).unwrap_or(false))
    }

    /// One `try_read` call with `act` as the next thing the stream returns.
    /// Returns (result text, bytes taken).
    fn read_once(&mut self, rec: &mut Rec, act: RAct, op: String) -> (String, usize) {
        if self.conn.is_none() {
            return ("dead".into(), 0);
        }
        {
            let mut s = self.stream.0.borrow_mut();
            s.reads.push_front(act);
            s.last_taken = 0;
            s.n_recv = 0;
            s.n_write = 0;
            s.n_read_calls = 0;
        }
        Rec::about_to(&op);
        let conn = self.conn.as_mut().unwrap();
        let res = catch_unwind(AssertUnwindSafe(|| conn.try_read()));
        let (n_recv, n_write, n_rc, taken) = {
            let s = self.stream.0.borrow();
            (s.n_recv, s.n_write, s.n_read_calls, s.last_taken)
        };
        let text = match &res {
            Ok(r) => show_read_result(r),
            Err(_) => "PANIC".to_string(),
        };
        if n_recv > 1 || n_write > 0 || n_rc > 0 {
            let mut l = self.log.clone();
            l.push(op.clone());
            rec.oracle_fail(
                "C03",
                &format!("try_read performed {} recv, {} write, {} read calls", n_recv, n_write, n_rc),
                &l,
            );
        }
        if res.is_err() {
            self.panicked = true;
            let mut l = self.log.clone();
            l.push(op.clone());
            rec.oracle_fail("C03", "try_read panicked", &l);
            // the connection is in an unspecified state after a panic: drop it
            let c = self.conn.take();
            let _ = catch_unwind(AssertUnwindSafe(move || drop(c)));
            self.emit(rec, op, format!("{} n={} pw=0", text, taken));
            return (text, taken);
        }
        if let Ok(Err(e)) = &res {
            match e {
                ConnectionError::ParseError(_) | ConnectionError::ConnectionClosed => {
                    if self.first_error.is_none() {
                        self.first_error = Some(text.clone());
                    }
                }
                _ => {}
            }
            rec.count(&format!("read:{}", text.split('(').next().unwrap_or("")));
            if let ConnectionError::ParseError(pe) = e {
                let t = show_req_err(pe);
                let kind: String = t.split(|c| c == '(' || c == ',').take(2).collect::<Vec<_>>().join("(");
                rec.count(&format!("err:{}", kind));
            }
        }
        let pw = self.pw();
        self.emit(rec, op, format!("{} n={} pw={}", text, taken, pw));
        // leftover of the offered chunk stays queued in the stream
        (text, taken)
    }

    /// One `try_read` with `bytes` (+ `nfds` fresh descriptors) on offer: op `conn recv <hex> <tokens>`.
    /// What the connection did not take stays on offer for `recv_more`.
    pub fn recv_once(&mut self, rec: &mut Rec, bytes: &[u8], nfds: usize) -> String {
        let (toks, fds): (Vec<usize>, Vec<RawFd>) = (0..nfds).map(|_| self.tokens.fresh()).unzip();
        let ts = if toks.is_empty() { "-".to_string() } else { toks.iter().map(|t| t.to_string()).collect::<Vec<_>>().join(",") };
        let op = format!("conn recv {} {}", hx(bytes), ts);
        self.stream.0.borrow_mut().reads.clear();
        let (text, taken) = self.read_once(rec, RAct::Data(bytes.to_vec(), fds), op);
        self.stream.0.borrow_mut().reads.clear();
        self.rest = bytes[taken.min(bytes.len())..].to_vec();
        text
    }

    /// TWO messages are queued in the socket when `try_read` is called (each with its own descriptors, as two `sendmsg`
    /// calls of the peer leave them): one `try_read` takes ONE message — the second stays for the next call. Emitted as
    /// two ordinary `conn recv` ops. Returns the two result texts (the second is "TAKEN-EARLY" if the first call
    /// consumed both messages).
    pub fn recv_two_queued(&mut self, rec: &mut Rec, b1: &[u8], nf1: usize, b2: &[u8], nf2: usize) -> (String, String) {
        let (t1, f1): (Vec<usize>, Vec<RawFd>) = (0..nf1).map(|_| self.tokens.fresh()).unzip();
        let (t2, f2): (Vec<usize>, Vec<RawFd>) = (0..nf2).map(|_| self.tokens.fresh()).unzip();
        let ts = |t: &Vec<usize>| if t.is_empty() { "-".to_string() } else { t.iter().map(|x| x.to_string()).collect::<Vec<_>>().join(",") };
        {
            let mut s = self.stream.0.borrow_mut();
            s.reads.clear();
            s.reads.push_back(RAct::Data(b2.to_vec(), f2.clone()));
        }
        let op1 = format!("conn recv {} {}", hx(b1), ts(&t1));
        let (r1, _) = self.read_once(rec, RAct::Data(b1.to_vec(), f1), op1);
        let intact = {
            let mut s = self.stream.0.borrow_mut();
            let ok = matches!(s.reads.front(), Some(RAct::Data(b, _)) if b == b2) && s.reads.len() == 1;
            s.reads.clear();
            ok
        };
        self.rest = vec![];
        let op2 = format!("conn recv {} {}", hx(b2), ts(&t2));
        if intact {
            let (r2, _) = self.read_once(rec, RAct::Data(b2.to_vec(), f2), op2);
            self.stream.0.borrow_mut().reads.clear();
            (r1, r2)
        } else {
            let mut l = self.log.clone();
            l.push(op2.clone());
            rec.oracle_fail("C12", "two messages were queued in the socket: one try_read took (part of) the second one as well — its descriptors now travel with the wrong bytes", &l);
            self.emit(rec, op2, "TAKEN-EARLY".into());
            (r1, "TAKEN-EARLY".into())
        }
    }

    /// One more `try_read` on the rest of the last offer: op `conn more`.
    pub fn recv_more(&mut self, rec: &mut Rec) -> String {
        let rest = self.rest.clone();
        self.stream.0.borrow_mut().reads.clear();
        let (text, taken) = self.read_once(rec, RAct::Data(rest.clone(), vec![]), "conn more".to_string());
        self.stream.0.borrow_mut().reads.clear();
        self.rest = rest[taken.min(rest.len())..].to_vec();
        text
    }

    /// Offer `bytes` (+ descriptor tokens) to the connection; calls `try_read` until all bytes
    /// were taken (the receive buffer may be smaller than the offer). Returns the result texts.
    pub fn recv(&mut self, rec: &mut Rec, bytes: &[u8], nfds: usize) -> Vec<String> {
        let mut results = vec![];
        let mut before = bytes.len();
        let mut text = self.recv_once(rec, bytes, nfds);
        loop {
            let is_parse_err = text.starts_with("parse(");
            results.push(text);
            if self.conn.is_none() || self.rest.is_empty() || (is_parse_err && self.stop_on_parse_error) {
                break;
            }
            if self.rest.len() == before {
                // no progress (cannot happen for a non-empty offer unless the buffer is full): stop
                break;
            }
            before = self.rest.len();
            text = self.recv_more(rec);
        }
        results
    }

    /// `try_read` while the stream returns end-of-file (0 bytes) together with `nfds` descriptors.
    pub fn eof(&mut self, rec: &mut Rec, nfds: usize) -> String {
        self.recv(rec, &[], nfds).pop().unwrap_or_default()
    }

    /// `try_read` while the stream fails with `errno`.
    pub fn rerr(&mut self, rec: &mut Rec, errno: i32) -> String {
        let op = format!("conn rerr {}", errno);
        self.stream.0.borrow_mut().reads.clear();
        let (t, _) = self.read_once(rec, RAct::Err(errno), op);
        t
    }

    pub fn pop(&mut self, rec: &mut Rec) -> Option<Delivered> {
        let conn = self.conn.as_mut()?;
        match conn.pop_parsed_request() {
            None => {
                self.emit(rec, "conn pop".into(), "none".into());
                None
            }
            Some(r) => {
                let (text, files) = show_req_tokens(&r, &self.tokens);
                let nof = show_request(&r, &[]);
                let d = Delivered { text: text.clone(), text_nofiles: nof, files };
                self.delivered.push(d.clone());
                self.held.push(r);
                self.emit(rec, "conn pop".into(), text);
                Some(d)
            }
        }
    }

    pub fn popall(&mut self, rec: &mut Rec) -> Vec<Delivered> {
        let mut out = vec![];
        let conn = match self.conn.as_mut() {
            Some(c) => c,
            None => return out,
        };
        while let Some(r) = conn.pop_parsed_request() {
            let (text, files) = show_req_tokens(&r, &self.tokens);
            let nof = show_request(&r, &[]);
            out.push(Delivered { text, text_nofiles: nof, files });
            self.held.push(r);
        }
        self.delivered.extend(out.iter().cloned());
        let line = format!("[{}]", out.iter().map(|d| d.text.clone()).collect::<Vec<_>>().join("|"));
        self.emit(rec, "conn popall".into(), line);
        out
    }

    pub fn enqueue(&mut self, rec: &mut Rec, spec: &RespSpec) {
        if let Some(conn) = self.conn.as_mut() {
            conn.enqueue_response(spec.build());
            let pw = self.pw();
            self.emit(rec, format!("conn enq {}", spec.proto()), format!("ok pw={}", pw));
        }
    }

    /// One `try_write` call with `w` as the stream's answer. Returns (result, accepted bytes).
    pub fn write(&mut self, rec: &mut Rec, w: WAct) -> (String, Vec<u8>) {
        if self.conn.is_none() {
            return ("dead".into(), vec![]);
        }
        let wtxt = match w {
            WAct::Accept(k) => format!("a{}", k),
            WAct::Zero => "z".into(),
            WAct::Intr => "i".into(),
            WAct::Fail => "f".into(),
        };
        let op = format!("conn write {}", wtxt);
        {
            let mut s = self.stream.0.borrow_mut();
            s.writes.clear();
            s.writes.push_back(w);
            s.n_recv = 0;
            s.n_write = 0;
            s.n_read_calls = 0;
            s.last_accepted.clear();
        }
        Rec::about_to(&op);
        let conn = self.conn.as_mut().unwrap();
        let res = catch_unwind(AssertUnwindSafe(|| conn.try_write()));
        let (n_recv, n_write, n_rc, acc) = {
            let s = self.stream.0.borrow();
            (s.n_recv, s.n_write, s.n_read_calls, s.last_accepted.clone())
        };
        self.stream.0.borrow_mut().writes.clear();
        if n_write > 1 || n_recv > 0 || n_rc > 0 {
            let mut l = self.log.clone();
            l.push(op.clone());
            rec.oracle_fail(
                "C03",
                &format!("try_write performed {} write, {} recv, {} read calls", n_write, n_recv, n_rc),
                &l,
            );
        }
        let text = match &res {
            Err(_) => {
                self.panicked = true;
                let mut l = self.log.clone();
                l.push(op.clone());
                rec.oracle_fail("C03", "try_write panicked", &l);
                let c = self.conn.take();
                let _ = catch_unwind(AssertUnwindSafe(move || drop(c)));
                self.emit(rec, op, "PANIC".into());
                return ("PANIC".into(), acc);
            }
            Ok(Ok(())) => "ok".to_string(),
            Ok(Err(ConnectionError::ConnectionClosed)) => "closed".to_string(),
            Ok(Err(ConnectionError::InvalidWrite)) => "invalid".to_string(),
            Ok(Err(e)) => format!("other({:?})", e),
        };
        rec.count(&format!("write:{}:{}", wtxt.chars().next().unwrap(), text));
        let pw = self.pw();
        self.emit(
            rec,
            op,
            format!("{} w={} called={} pw={}", text, hx(&acc), b01(n_write > 0), pw),
        );
        (text, acc)
    }

    pub fn clear(&mut self, rec: &mut Rec) {
        if let Some(conn) = self.conn.as_mut() {
            conn.clear_write_buffer();
            let pw = self.pw();
            self.emit(rec, "conn clear".into(), format!("ok pw={}", pw));
        }
    }

    /// `set_payload_max_size` on a connection in use
    pub fn set_limit(&mut self, rec: &mut Rec, l: usize) {
        if let Some(conn) = self.conn.as_mut() {
            match catch_unwind(AssertUnwindSafe(|| conn.set_payload_max_size(l))) {
                Ok(()) => {
                    self.limit = l;
                    self.emit(rec, format!("conn setlimit {}", l), "ok".into());
                }
                Err(_) => {
                    self.panicked = true;
                    self.emit(rec, format!("conn setlimit {}", l), "PANIC".into());
                }
            }
        }
    }

    pub fn pending_write(&self) -> bool {
        self.conn.as_ref().map(|c| c.pending_write()).unwrap_or(false)
    }
}
