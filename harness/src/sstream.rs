//! A scripted stream: implements `Read + Write + ScmSocket` (with `recv_with_fds` overridden) so
//! that `HttpConnection` can be driven through its public API with chosen read and write results.
use std::cell::RefCell;
use std::collections::VecDeque;
use std::io::{Read, Write};
use std::os::unix::io::RawFd;
use std::rc::Rc;
use vmm_sys_util::sock_ctrl_msg::ScmSocket;

#[derive(Clone, Debug)]
pub enum RAct {
    /// bytes on offer (the connection takes at most its free buffer space) + descriptors
    Data(Vec<u8>, Vec<RawFd>),
    Err(i32),
}

#[derive(Clone, Copy, Debug)]
pub enum WAct {
    Accept(usize),
    Zero,
    Intr,
    Fail,
}

#[derive(Default)]
pub struct Inner {
    pub reads: VecDeque<RAct>,
    pub writes: VecDeque<WAct>,
    pub n_recv: usize,
    pub n_write: usize,
    pub n_read_calls: usize,
    pub last_taken: usize,
    pub last_cap: usize,
    pub accepted: Vec<u8>,
    pub last_accepted: Vec<u8>,
}

#[derive(Clone)]
pub struct Scripted(pub Rc<RefCell<Inner>>);

impl Scripted {
    pub fn new() -> Self {
        Scripted(Rc::new(RefCell::new(Inner::default())))
    }
}

impl Read for Scripted {
    fn read(&mut self, _b: &mut [u8]) -> std::io::Result<usize> {
        self.0.borrow_mut().n_read_calls += 1;
        Err(std::io::Error::from_raw_os_error(libc::EAGAIN))
    }
}

impl Write for Scripted {
    fn write(&mut self, b: &[u8]) -> std::io::Result<usize> {
        let mut s = self.0.borrow_mut();
        s.n_write += 1;
        s.last_accepted.clear();
        match s.writes.pop_front() {
            None | Some(WAct::Fail) => Err(std::io::Error::from_raw_os_error(libc::EPIPE)),
            Some(WAct::Zero) => Ok(0),
            Some(WAct::Intr) => Err(std::io::Error::from_raw_os_error(libc::EINTR)),
            Some(WAct::Accept(k)) => {
                let n = k.max(1).min(b.len());
                s.accepted.extend_from_slice(&b[..n]);
                s.last_accepted.extend_from_slice(&b[..n]);
                Ok(n)
            }
        }
    }
    fn flush(&mut self) -> std::io::Result<()> {
        Ok(())
    }
}

impl ScmSocket for Scripted {
    fn socket_fd(&self) -> RawFd {
        -1
    }
    unsafe fn recv_with_fds(
        &self,
        iovecs: &mut [libc::iovec],
        fds: &mut [RawFd],
    ) -> vmm_sys_util::errno::Result<(usize, usize)> {
        let mut s = self.0.borrow_mut();
        s.n_recv += 1;
        s.last_taken = 0;
        s.last_cap = iovecs[0].iov_len;
        match s.reads.pop_front() {
            None => Err(vmm_sys_util::errno::Error::new(libc::EAGAIN)),
            Some(RAct::Err(e)) => Err(vmm_sys_util::errno::Error::new(e)),
            Some(RAct::Data(chunk, files)) => {
                let cap = iovecs[0].iov_len;
                let n = chunk.len().min(cap);
                std::ptr::copy_nonoverlapping(chunk.as_ptr(), iovecs[0].iov_base as *mut u8, n);
                if n < chunk.len() {
                    s.reads.push_front(RAct::Data(chunk[n..].to_vec(), vec![]));
                }
                let k = files.len().min(fds.len());
                fds[..k].copy_from_slice(&files[..k]);
                s.last_taken = n;
                Ok((n, k))
            }
        }
    }
}
