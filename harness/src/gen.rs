//! Generators: request grammar (structured, mostly valid), single-point corruptions, header
//! lines from the C15 alphabet, byte soup, and read schedules (cut positions).
use crate::rng::Rng;

pub const METHODS: [&str; 3] = ["GET", "PUT", "PATCH"];
pub const VERSIONS: [&str; 2] = ["HTTP/1.0", "HTTP/1.1"];
pub const URIS: [&str; 12] = [
    "/",
    "/a",
    "/a/b",
    "/machine-config",
    "http://localhost/home",
    "http://h",
    "http://",
    "x",
    "/\u{e9}t\u{e9}",
    "/a%20b",
    "http://localhost:8080/x?y=1",
    "*",
];
pub const PADS: [&str; 10] = ["", " ", "  ", "\t", "\u{a0}", "\u{3000}", " \t ", "\u{b}", "\u{c}\u{85}", "\u{2003}"];
/// look like padding but are NOT whitespace: must not be trimmed
pub const ODD_PADS: [&str; 5] = ["\u{0}", "\u{1f}", "\u{200b}", "\u{7f}", "\u{1}\u{8}"];
pub const REC_NAMES: [&str; 7] = [
    "Content-Length",
    "Content-Type",
    "Expect",
    "Transfer-Encoding",
    "Server",
    "Accept",
    "Accept-Encoding",
];
pub const CUSTOM_NAMES: [&str; 33] = [
    "Connection", "Host", "X-Custom", "x", "Content-Lengthh", "User-Agent", "a b", "Accept-Charset", "X-\u{e9}",
    // field names that mean something to OTHER software (proxies, frameworks): to this crate they are custom entries and
    // nothing else — they must not change the method, the version, the target, the framing or the body
    "X-HTTP-Method-Override", "X-HTTP-Method", "X-Method-Override", "X-Forwarded-Proto", "X-Forwarded-For", "Upgrade", "TE", "Trailer",
    "Content-Encoding", "Content-Range", "Range", "Keep-Alive", "Proxy-Connection", "X-Original-URL", "X-Rewrite-URL", "Authorization",
    "Cookie", "If-Match",
    // characters whose lower-case (or upper-case) form has a different UTF-8 length: any index computed on a
    // case-folded copy is off in the original
    "\u{212a}", "X-\u{212b}x", "\u{1e9e}-h", "\u{130}", "\u{23a}\u{23e}", "Accept\u{212a}",
];
pub const CL_VALUES: [&str; 17] = [
    "0", "1", "5", "007", "+5", "4294967295", "4294967296", "-1", "", "abc", "5 5", "12", "-0",
    "\u{ff11}",
    // more characters than any 32-bit number has digits, yet small numbers
    "00000000003", "0000000000000000000000005", "+0000000004",
];
pub const MEDIA_VALUES: [&str; 14] = [
    "text/plain", "application/json", "text/html", "", "TEXT/PLAIN", "application/json2", "*/*",
    // media RANGES with parameters and lists: not supported spellings, whatever they would mean elsewhere
    "application/json, text/plain;q=0.9", "text/plain;q=nan, application/json", "text/plain; charset=utf-8",
    "application/json;q=0", "*/*;q=0.8, text/plain", "text/plain;q=NaN,text/plain;q=-nan,application/json;q=inf", "application/json,",
];
pub const TE_VALUES: [&str; 6] = ["chunked", "identity", "gzip", "Chunked", "", "chunked, gzip"];
pub const EXPECT_VALUES: [&str; 5] = ["100-continue", "100-Continue", "103-checkpoint", "", "100-continue "];
pub const AE_VALUES: [&str; 20] = [
    "gzip",
    "identity",
    "identity;q=0",
    "*;q=0",
    "*;q=0, identity",
    "gzip, identity;q=0",
    " *;q=0 , deflate",
    "",
    "identity;q=0.5",
    "*",
    "identity;q=0, *;q=0",
    "gzip,*;q=0,identity;q=1",
    "deflate, gzip;q=1.0, *;q=0.5",
    "*;q=0,xidentityx",
    // weights with more decimals than the grammar allows, and with optional whitespace: only the exact spellings
    // `identity;q=0` and `*;q=0` exclude a coding
    "identity;q=0.0000",
    "*;q=0.0001",
    "identity;q=0.000",
    "identity; q=0",
    "gzip, *;q=0.00001",
    "identity;q=1.0000",
];
pub const OTHER_VALUES: [&str; 23] = ["v", "some value", "", "a:b", "\u{e9}", "  spaced  out  ", "close", "Close", "keep-alive",
    // the crate's own vocabulary as VALUES of fields it does not recognise
    "GET", "PUT", "PATCH", "POST", "HTTP/1.0", "HTTP/1.1", "chunked", "100-continue", "identity;q=0", "0", "7", "/other/target", "text/plain", "h2c"];

pub fn case_pattern(rng: &mut Rng, s: &str) -> String {
    match rng.below(5) {
        0 => s.to_string(),
        1 => s.to_ascii_lowercase(),
        2 => s.to_ascii_uppercase(),
        _ => s
            .chars()
            .map(|c| if rng.chance(1, 2) { c.to_ascii_uppercase() } else { c.to_ascii_lowercase() })
            .collect(),
    }
}

pub fn values_for(name_idx: usize) -> &'static [&'static str] {
    match name_idx {
        0 => &CL_VALUES,
        1 | 5 => &MEDIA_VALUES,
        2 => &EXPECT_VALUES,
        3 => &TE_VALUES,
        4 => &OTHER_VALUES,
        _ => &AE_VALUES,
    }
}

/// A header line (without CRLF) from the C15 alphabet. `wild` allows malformed shapes.
pub fn header_line(rng: &mut Rng, wild: bool) -> Vec<u8> {
    let mut line = Vec::new();
    let k = rng.below(100);
    if wild && k < 6 {
        // no colon at all
        line.extend_from_slice(rng.pick(&["nocolon", "", "Content-Length 5", " ", "\u{e9}"]).as_bytes());
        return line;
    }
    if wild && k < 12 {
        // invalid UTF-8 somewhere
        let mut l = header_line(rng, false);
        let pos = rng.below(l.len() + 1);
        let bad: &[u8] = *rng.pick(&[&[0xffu8][..], &[0xc3][..], &[0xe2, 0x82][..], &[0x80][..], &[0xed, 0xa0, 0x80][..], &[0xf0, 0x90][..]]);
        for (i, b) in bad.iter().enumerate() {
            l.insert(pos + i, *b);
        }
        return l;
    }
    let (name, vals): (String, &[&str]) = if k < 70 {
        let i = rng.below(REC_NAMES.len());
        (case_pattern(rng, REC_NAMES[i]), values_for(i))
    } else {
        // custom names also occur in other letter cases: they are DIFFERENT fields (only recognised names fold case)
        let n = rng.pick(&CUSTOM_NAMES).to_string();
        (if rng.chance(1, 2) { case_pattern(rng, &n) } else { n }, &OTHER_VALUES)
    };
    // one of the four paddings is, now and then, a control / zero-width character that is not whitespace
    let odd = if wild && rng.chance(1, 8) { rng.below(4) } else { 9 };
    let pad = |rng: &mut Rng, k: usize| -> &'static str { if k == odd { *rng.pick(&ODD_PADS) } else { *rng.pick(&PADS) } };
    line.extend_from_slice(pad(rng, 0).as_bytes());
    line.extend_from_slice(name.as_bytes());
    line.extend_from_slice(pad(rng, 1).as_bytes());
    line.push(b':');
    line.extend_from_slice(pad(rng, 2).as_bytes());
    line.extend_from_slice(rng.pick(vals).as_bytes());
    line.extend_from_slice(pad(rng, 3).as_bytes());
    if wild && rng.chance(1, 12) {
        line.extend_from_slice(b": extra");
    }
    line
}

/// A header line that never rejects a request and does not touch Content-Length.
pub fn benign_header_line(rng: &mut Rng) -> Vec<u8> {
    let mut line = Vec::new();
    match rng.below(8) {
        0 => line.extend_from_slice(format!("{}: {}", case_pattern(rng, "Content-Type"), rng.pick(&MEDIA_VALUES)).as_bytes()),
        1 => line.extend_from_slice(format!("{}:{}", case_pattern(rng, "Accept"), rng.pick(&MEDIA_VALUES)).as_bytes()),
        2 => line.extend_from_slice(format!("{}: {}", case_pattern(rng, "Transfer-Encoding"), rng.pick(&TE_VALUES)).as_bytes()),
        3 => line.extend_from_slice(format!("Server: {}", rng.pick(&OTHER_VALUES)).as_bytes()),
        4 => line.extend_from_slice(b"Accept-Encoding: gzip, identity"),
        5 => line.extend_from_slice(format!("{}: {}", case_pattern(rng, "Expect"), rng.pick(&EXPECT_VALUES[1..])).as_bytes()),
        _ => {
            line.extend_from_slice(rng.pick(&CUSTOM_NAMES).as_bytes());
            line.extend_from_slice(b": ");
            line.extend_from_slice(rng.pick(&OTHER_VALUES).as_bytes());
        }
    }
    // a line may BEGIN with SP / HTAB (the name is padded): it is a field of its own, not a continuation of the previous one
    if rng.chance(1, 8) {
        let mut l = rng.pick(&[" ", "\t", " \t"]).as_bytes().to_vec();
        l.extend_from_slice(&line);
        return l;
    }
    line
}

pub fn body_bytes(rng: &mut Rng, n: usize) -> Vec<u8> {
    let mode = rng.below(5);
    let mut v: Vec<u8> = (0..n)
        .map(|i| match mode {
            0 => b'a' + (i % 26) as u8,
            1 => *rng.pick(&[b'\r', b'\n', b'x', b' ', 0u8, 0xffu8, b':']),
            2 => rng.byte(),
            _ => b"GET / HTTP/1.1\r\n\r\n"[i % 18],
        })
        .collect();
    if mode == 4 && n >= 2 {
        // header-terminator look-alikes exactly at the edges of the body
        let pat: &[u8] = *rng.pick(&[&b"\r\n\r\n"[..], &b"\r\n"[..], &b"\n\r\n"[..], &b"\r\n\r"[..]]);
        let k = pat.len().min(n);
        if rng.chance(1, 2) {
            v[n - k..].copy_from_slice(&pat[pat.len() - k..]);
        } else {
            v[..k].copy_from_slice(&pat[..k]);
        }
        if rng.chance(1, 3) && n >= 2 * k {
            v[..k].copy_from_slice(&pat[..k]);
            v[n - k..].copy_from_slice(&pat[pat.len() - k..]);
        }
    }
    v
}

#[derive(Clone, Debug)]
pub struct ReqPlan {
    pub method: String,
    pub uri: Vec<u8>,
    pub version: String,
    pub headers: Vec<Vec<u8>>,
    pub body: Vec<u8>,
    pub expect: bool,
    pub clen: usize,
}

impl ReqPlan {
    pub fn bytes(&self) -> Vec<u8> {
        let mut v = Vec::new();
        v.extend_from_slice(self.method.as_bytes());
        v.push(b' ');
        v.extend_from_slice(&self.uri);
        v.push(b' ');
        v.extend_from_slice(self.version.as_bytes());
        v.extend_from_slice(b"\r\n");
        for h in &self.headers {
            v.extend_from_slice(h);
            v.extend_from_slice(b"\r\n");
        }
        v.extend_from_slice(b"\r\n");
        v.extend_from_slice(&self.body);
        v
    }
    pub fn head_len(&self) -> usize {
        self.bytes().len() - self.body.len()
    }
}

pub struct ReqOpts {
    /// candidate body lengths
    pub body_lens: Vec<usize>,
    /// probability (percent) of an `Expect: 100-continue` header
    pub expect_pct: usize,
    /// max number of extra benign header lines
    pub max_extra: usize,
    /// pad one header so that the head of the request has exactly this length (0 = no padding)
    pub head_len_target: usize,
}

impl Default for ReqOpts {
    fn default() -> Self {
        ReqOpts { body_lens: vec![0, 0, 0, 1, 2, 5, 26, 100], expect_pct: 15, max_extra: 3, head_len_target: 0 }
    }
}

/// A well-formed request whose body has exactly the declared length.
pub fn valid_request(rng: &mut Rng, o: &ReqOpts) -> ReqPlan {
    let clen = *rng.pick(&o.body_lens);
    let method = if clen > 0 && rng.chance(9, 10) { METHODS[1 + rng.below(2)] } else { *rng.pick(&METHODS) };
    let uri = rng.pick(&URIS).as_bytes().to_vec();
    let version = *rng.pick(&VERSIONS);
    let mut headers = vec![];
    let extra = rng.below(o.max_extra + 1);
    for _ in 0..extra {
        headers.push(benign_header_line(rng));
    }
    let expect = rng.below(100) < o.expect_pct;
    if expect {
        let pos = rng.below(headers.len() + 1);
        headers.insert(pos, format!("{}:{}100-continue", case_pattern(rng, "Expect"), rng.pick(&PADS)).into_bytes());
    }
    if clen > 0 || rng.chance(1, 3) {
        // an overridden earlier Content-Length sometimes
        if rng.chance(1, 6) {
            headers.insert(0, format!("Content-Length: {}", rng.below(50)).into_bytes());
        }
        let val = match rng.below(6) {
            0 => format!("+{}", clen),
            1 => format!("00{}", clen),
            _ => clen.to_string(),
        };
        let lead = if rng.chance(1, 8) { *rng.pick(&[" ", "\t"]) } else { "" };
        headers.push(format!("{}{}:{}{}{}", lead, case_pattern(rng, "Content-Length"), rng.pick(&PADS), val, rng.pick(&PADS)).into_bytes());
    }
    let mut plan = ReqPlan {
        method: method.to_string(),
        uri,
        version: version.to_string(),
        headers,
        body: body_bytes(rng, clen),
        expect,
        clen,
    };
    if o.head_len_target > 0 {
        let cur = plan.head_len();
        // a padding header "P: xxxx" costs 5 + k bytes (name, colon, space, k, CRLF)
        if o.head_len_target >= cur + 5 {
            let mut k = o.head_len_target - cur - 5;
            // keep each line within the 1024 limit
            let mut pads = vec![];
            while k > 900 {
                pads.push(format!("P: {}", "p".repeat(900)).into_bytes());
                k = k.saturating_sub(905);
            }
            pads.push(format!("P: {}", "p".repeat(k)).into_bytes());
            let pos = rng.below(plan.headers.len() + 1);
            for p in pads {
                plan.headers.insert(pos, p);
            }
        }
    }
    plan
}

/// Names of the single-point corruptions of C02's quantifier.
pub const CORRUPTIONS: [&str; 24] = [
    "method-wrong",
    "method-empty",
    "method-lower",
    "sp-missing-1",
    "sp-missing-2",
    "sp-doubled-1",
    "sp-doubled-2",
    "uri-empty",
    "uri-nonutf8",
    "version-wrong",
    "version-lower",
    "version-trailing-sp",
    "stray-cr",
    "cr-before-crlf",
    "stray-lf",
    "stray-crlf",
    "header-no-colon",
    "header-nonutf8",
    "cl-value",
    "line-too-long",
    "bare-lf-terminator",
    "leading-crlf",
    "ae-reject",
    "truncate",
];

/// Apply corruption `which` to a valid plan and return the resulting bytes.
pub fn corrupt(rng: &mut Rng, plan: &ReqPlan, which: &str) -> Vec<u8> {
    let mut p = plan.clone();
    match which {
        "method-wrong" => p.method = rng.pick(&["POST", "DELETE", "GETT", "G", "HEAD"]).to_string(),
        "method-empty" => p.method = String::new(),
        "method-lower" => p.method = p.method.to_ascii_lowercase(),
        "uri-empty" => p.uri = vec![],
        "uri-nonutf8" => {
            let pos = rng.below(p.uri.len() + 1);
            p.uri.insert(pos, *rng.pick(&[0xffu8, 0xc3, 0x80]));
        }
        "version-wrong" => p.version = rng.pick(&["HTTP/2.0", "HTTP/1.2", "HTTP/1.1 ", "HTTP/1.", "HTTP/1.11", ""]).to_string(),
        "version-lower" => p.version = p.version.to_ascii_lowercase(),
        "version-trailing-sp" => p.version.push(' '),
        "header-no-colon" => {
            let pos = rng.below(p.headers.len() + 1);
            p.headers.insert(pos, rng.pick(&["nocolon", "Content-Length 5", "x"]).as_bytes().to_vec());
        }
        "header-nonutf8" => {
            let pos = rng.below(p.headers.len() + 1);
            let mut l = b"X-Bad: v".to_vec();
            let at = rng.below(l.len() + 1);
            l.insert(at, *rng.pick(&[0xffu8, 0xc3, 0x80, 0xf5]));
            p.headers.insert(pos, l);
        }
        "cl-value" => {
            let v = rng.pick(&["4294967296", "-1", "", "abc", "5 5", "99999999999999999999", "-0"]);
            p.headers.push(format!("Content-Length: {}", v).into_bytes());
        }
        "line-too-long" => {
            let n = rng.range(1018, 1030);
            let pos = rng.below(p.headers.len() + 1);
            p.headers.insert(pos, format!("L: {}", "l".repeat(n)).into_bytes());
        }
        "ae-reject" => {
            let v = rng.pick(&["identity;q=0", "*;q=0", "", "gzip, identity;q=0"]);
            let pos = rng.below(p.headers.len() + 1);
            p.headers.insert(pos, format!("Accept-Encoding: {}", v).into_bytes());
        }
        _ => {}
    }
    let mut b = p.bytes();
    let first_sp = b.iter().position(|c| *c == b' ');
    let line_end = b.windows(2).position(|w| w == b"\r\n").unwrap_or(b.len());
    match which {
        "sp-missing-1" => {
            if let Some(i) = first_sp {
                b.remove(i);
            }
        }
        "sp-missing-2" => {
            if let Some(i) = b[..line_end].iter().rposition(|c| *c == b' ') {
                b.remove(i);
            }
        }
        "sp-doubled-1" => {
            if let Some(i) = first_sp {
                b.insert(i, b' ');
            }
        }
        "sp-doubled-2" => {
            if let Some(i) = b[..line_end].iter().rposition(|c| *c == b' ') {
                b.insert(i, b' ');
            }
        }
        "stray-cr" => {
            let head = plan.head_len().min(b.len());
            let pos = rng.below(head + 1);
            b.insert(pos, b'\r');
        }
        "cr-before-crlf" => {
            // a bare CR as the last byte of a line: the stream contains CR CR LF, and the line ends at the SECOND CR
            let head = plan.head_len().min(b.len());
            let ends: Vec<usize> = (0..head.saturating_sub(1)).filter(|&i| b[i] == b'\r' && b[i + 1] == b'\n').collect();
            if !ends.is_empty() {
                let at = *rng.pick(&ends);
                b.insert(at, b'\r');
            }
        }
        "stray-lf" => {
            let head = plan.head_len().min(b.len());
            let pos = rng.below(head + 1);
            b.insert(pos, b'\n');
        }
        "stray-crlf" => {
            // a whole line terminator dropped into the head: half of the time into the first bytes of the stream
            // (inside the method, the target or right after them), where the remainder still looks like a request
            let head = plan.head_len().min(b.len());
            let pos = if rng.chance(1, 2) { rng.below(head.min(16) + 1) } else { rng.below(head + 1) };
            b.insert(pos, b'\n');
            b.insert(pos, b'\r');
        }
        "bare-lf-terminator" => {
            if line_end < b.len() {
                b.remove(line_end);
            }
        }
        "leading-crlf" => {
            b.insert(0, b'\n');
            b.insert(0, b'\r');
        }
        "truncate" => {
            let n = rng.below(b.len().max(1));
            b.truncate(n);
        }
        _ => {}
    }
    b
}

/// Random bytes with a bias towards structure characters.
pub fn soup(rng: &mut Rng, n: usize) -> Vec<u8> {
    let words: [&[u8]; 14] = [
        b"GET ", b"PUT ", b"PATCH ", b" HTTP/1.1", b" HTTP/1.0", b"\r\n", b"\r", b"\n", b"Content-Length: ",
        b"Expect: 100-continue", b":", b" ", b"/", b"\r\n\r\n",
    ];
    let mut v = Vec::with_capacity(n);
    while v.len() < n {
        match rng.below(10) {
            0..=3 => v.extend_from_slice(*rng.pick(&words)),
            4 => v.extend_from_slice(rng.below(70000).to_string().as_bytes()),
            5 => v.push(0),
            6 => v.push(0x80 | (rng.byte() & 0x7f)),
            _ => v.push(rng.byte()),
        }
    }
    v.truncate(n);
    v
}

/// Cut positions (strictly increasing, inside 1..len) according to strategy `k`.
pub fn cuts(rng: &mut Rng, stream: &[u8], strategy: usize) -> Vec<usize> {
    let n = stream.len();
    if n < 2 {
        return vec![];
    }
    let mut c: Vec<usize> = match strategy % 8 {
        0 => vec![],                                  // one read (plus buffer-size refills)
        1 => (1..n).collect(),                        // byte at a time
        2 => {
            // cut at every CR and LF
            (1..n).filter(|&i| stream[i] == b'\r' || stream[i] == b'\n' || stream[i - 1] == b'\n').collect()
        }
        3 => {
            // window-aligned ± 1
            let mut v = vec![];
            let mut k = 1024;
            while k < n + 2 {
                for d in [k - 1, k, k + 1] {
                    if d > 0 && d < n {
                        v.push(d);
                    }
                }
                k += 1024;
            }
            v
        }
        4 => {
            let k = rng.range(1, 3);
            (0..k).map(|_| rng.range(1, n - 1)).collect()
        }
        5 => {
            let k = rng.range(3, 12);
            (0..k).map(|_| rng.range(1, n - 1)).collect()
        }
        6 => {
            // inside terminators: between CR and LF, between CRLF and CRLF
            (1..n).filter(|&i| stream[i - 1] == b'\r' || (i >= 2 && stream[i - 2] == b'\r' && stream[i - 1] == b'\n')).collect()
        }
        _ => {
            // fixed small chunk size
            let k = rng.range(2, 40);
            (1..n).filter(|i| i % k == 0).collect()
        }
    };
    c.sort_unstable();
    c.dedup();
    c
}

pub fn split_at_cuts(stream: &[u8], cuts: &[usize]) -> Vec<Vec<u8>> {
    let mut out = vec![];
    let mut prev = 0;
    for &c in cuts {
        if c > prev && c < stream.len() {
            out.push(stream[prev..c].to_vec());
            prev = c;
        }
    }
    out.push(stream[prev..].to_vec());
    out
}

/// cuts with a random strategy
pub fn cuts_r(rng: &mut Rng, stream: &[u8]) -> Vec<usize> {
    let k = rng.below(8);
    cuts(rng, stream, k)
}
