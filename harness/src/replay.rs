//! `mhharness replay <ops-file> --out DIR`: execute a recorded op sequence on the implementation again.
//! Pure ops and connection ops are re-executed exactly (the same functions the suites use); `spec …`
//! lines (summaries of several runs), `srv …` lines (need the kernel history) and comments cannot be
//! re-executed from the line alone and are answered with `?` — the caller compares only executed lines.
use crate::conn::{BOp, ConnDriver, RespSpec};
use crate::emit::Rec;
use crate::show::*;
use crate::sstream::WAct;

fn parse_spec(v: &str, code: &str, ops: &str) -> Option<RespSpec> {
    let v11 = match v {
        "1.1" => true,
        "1.0" => false,
        _ => return None,
    };
    let code: u16 = code.parse().ok()?;
    let mut out = vec![];
    if ops != "-" {
        for o in ops.split(';') {
            let (k, val) = match o.find(':') {
                Some(i) => (&o[..i], &o[i + 1..]),
                None => (o, ""),
            };
            let m_idx = |s: &str| -> Option<u8> {
                match s {
                    "GET" => Some(0),
                    "PUT" => Some(1),
                    "PATCH" => Some(2),
                    _ => None,
                }
            };
            out.push(match k {
                "b" => BOp::Body(unhex(val)),
                "t" => BOp::Type(val == "json"),
                "d" => BOp::Deprecation,
                "e" => BOp::Encoding,
                "s" => BOp::Server(unhex(val)),
                "a" => {
                    if val.is_empty() {
                        BOp::Allow(vec![])
                    } else {
                        BOp::Allow(val.split(',').filter_map(m_idx).collect())
                    }
                }
                "m" => BOp::AllowMethod(m_idx(val)?),
                "l" => BOp::Len(if val == "-" { None } else { Some(val.parse().ok()?) }),
                _ => return None,
            });
        }
    }
    Some(RespSpec { v11, code, ops: out })
}

pub fn run(rec: &mut Rec, path: &str) {
    let text = std::fs::read_to_string(path).expect("ops file");
    let mut conn: Option<ConnDriver> = None;
    let mut hdrs = micro_http::Headers::default();
    let mut rng = crate::rng::Rng::new(1);
    for line in text.lines() {
        let line = line.trim();
        if line.is_empty() {
            continue;
        }
        let parts: Vec<&str> = line.split(' ').collect();
        match parts.as_slice() {
            ["case", ..] => rec.op(line, line),
            ["#", ..] => rec.op(line, "#"),
            ["l00", _] => rec.op(line, "ok"),
            ["method", h] => crate::suites::tokens::op_method(rec, &unhex(h)),
            ["version", h] => crate::suites::tokens::op_version(rec, &unhex(h)),
            ["media", h] => crate::suites::tokens::op_media(rec, &unhex(h)),
            ["abspath", h] => crate::suites::tokens::abs_path_case(rec, &unhex(h), true),
            ["enc", h] => crate::suites::headers::op_enc(rec, &unhex(h)),
            ["hdrblock", h] => crate::suites::headers::block_case_quiet(rec, &unhex(h)),
            ["hdrnew"] => {
                hdrs = micro_http::Headers::default();
                rec.op(line, "ok");
            }
            ["hdrline", h] => {
                let l = unhex(h);
                match std::panic::catch_unwind(std::panic::AssertUnwindSafe(|| hdrs.parse_header_line(&l))) {
                    Err(_) => rec.op(line, "PANIC"),
                    Ok(Ok(())) => rec.op(line, &format!("ok {}", show_headers(&hdrs))),
                    Ok(Err(e)) => rec.op(line, &format!("err {} {}", show_req_err(&e), show_headers(&hdrs))),
                }
            }
            ["oneshot", m, h] => {
                let max = if *m == "-" { None } else { m.parse().ok() };
                crate::suites::connsuites::oneshot_op(rec, &unhex(h), max);
            }
            ["resp", v, code, ops] => {
                if let Some(spec) = parse_spec(v, code, ops) {
                    // emits `resp` and `respget` lines like the suite does
                    crate::suites::response::resp_case(rec, &mut rng, &spec, false);
                } else {
                    rec.op(line, "?");
                }
            }
            ["respget", ..] => {} // produced together with `resp`
            ["respw", v, code, ops, sched] => {
                if let Some(spec) = parse_spec(v, code, ops) {
                    use std::io::Write as _;
                    let steps: Vec<(u8, usize)> = sched
                        .split(',')
                        .filter(|t| !t.is_empty() && *t != "-")
                        .map(|t| match t {
                            "z" => (1u8, 0usize),
                            "i" => (2, 0),
                            "f" => (3, 0),
                            a => (0, a[1..].parse().unwrap_or(1)),
                        })
                        .collect();
                    let mut sink = crate::suites::response::SchedSink { sched: steps, pos: 0, acc: vec![] };
                    let ok = spec.build().write_all(&mut sink).is_ok();
                    let _ = sink.flush();
                    rec.op(line, &format!("{} {}", hx(&sink.acc), if ok { "ok" } else { "fail" }));
                } else {
                    rec.op(line, "?");
                }
            }
            ["conn", "new", "default"] => {
                let mut d = ConnDriver::new_default(rec);
                let _ = &mut d;
                conn = Some(d);
            }
            ["conn", "new", l] => {
                // ConnDriver::new emits `l00 …` and `conn new …` itself
                let d = ConnDriver::new_quiet(rec, l.parse().unwrap_or(51200), line);
                conn = Some(d);
            }
            ["conn", "recv", h, fds] => {
                if let Some(d) = conn.as_mut() {
                    let n = if *fds == "-" { 0 } else { fds.split(',').count() };
                    d.recv_once(rec, &unhex(h), n);
                }
            }
            ["conn", "more"] => {
                if let Some(d) = conn.as_mut() {
                    d.recv_more(rec);
                }
            }
            ["conn", "rerr", e] => {
                if let Some(d) = conn.as_mut() {
                    d.rerr(rec, e.parse().unwrap_or(11));
                }
            }
            ["conn", "pop"] => {
                if let Some(d) = conn.as_mut() {
                    d.pop(rec);
                }
            }
            ["conn", "popall"] => {
                if let Some(d) = conn.as_mut() {
                    d.popall(rec);
                }
            }
            ["conn", "enq", v, code, ops] => {
                if let (Some(d), Some(spec)) = (conn.as_mut(), parse_spec(v, code, ops)) {
                    d.enqueue(rec, &spec);
                }
            }
            ["conn", "write", w] => {
                if let Some(d) = conn.as_mut() {
                    let act = if *w == "z" {
                        WAct::Zero
                    } else if *w == "i" {
                        WAct::Intr
                    } else if *w == "f" {
                        WAct::Fail
                    } else {
                        WAct::Accept(w[1..].parse().unwrap_or(1))
                    };
                    d.write(rec, act);
                }
            }
            ["conn", "clear"] => {
                if let Some(d) = conn.as_mut() {
                    d.clear(rec);
                }
            }
            _ => rec.op(line, "?"),
        }
    }
}
