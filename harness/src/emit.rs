//! Recorder: writes the op stream (for the Lean driver), what the implementation did, the
//! implementation-level oracle failures and the coverage statistics of a run.
use std::collections::{BTreeMap, HashSet};
use std::sync::atomic::{AtomicU64, Ordering};
use std::sync::Mutex;

/// progress counter and the ops of the case in progress, shared with the watchdog thread (main.rs):
/// if no op completes for a while the code under test hangs, and the watchdog reports the case.
pub static PROGRESS: AtomicU64 = AtomicU64::new(0);
pub static CURRENT_CASE: Mutex<Vec<String>> = Mutex::new(Vec::new());
use std::fs::File;
use std::io::{BufWriter, Write};

pub struct Rec {
    ops: BufWriter<File>,
    out: BufWriter<File>,
    oracle: BufWriter<File>,
    pub n_ops: u64,
    pub n_conn_new: u64,
    pub n_cases: u64,
    pub n_oracle_fail: u64,
    pub hist: BTreeMap<String, u64>,
    nontrivial: HashSet<u64>,
    pub samples: Vec<String>,
    cur_case: Vec<String>,
    cur_hash: u64,
    cur_nontrivial: bool,
    pending_nt_op: bool,
    pub dir: String,
    pub max_samples: usize,
}

fn fnv(h: u64, s: &str) -> u64 {
    let mut h = h;
    for b in s.bytes() {
        h ^= b as u64;
        h = h.wrapping_mul(0x100000001b3);
    }
    h
}

impl Rec {
    pub fn new(dir: &str) -> Self {
        std::fs::create_dir_all(dir).unwrap();
        let f = |n: &str| BufWriter::new(File::create(format!("{}/{}", dir, n)).unwrap());
        Rec {
            ops: f("ops.txt"),
            out: f("impl.out"),
            oracle: f("oracle.jsonl"),
            n_ops: 0,
            n_conn_new: 0,
            n_cases: 0,
            n_oracle_fail: 0,
            hist: BTreeMap::new(),
            nontrivial: HashSet::new(),
            samples: vec![],
            cur_case: vec![],
            cur_hash: 0xcbf29ce484222325,
            cur_nontrivial: false,
            pending_nt_op: false,
            dir: dir.to_string(),
            max_samples: 6,
        }
    }

    /// Start a new case (a unit that can be replayed on its own: it must begin by resetting
    /// whatever state it uses).
    pub fn case(&mut self, descr: &str) {
        self.end_case();
        self.n_cases += 1;
        let d = descr.replace(' ', "_");
        self.op(&format!("case {} {}", self.n_cases, d), &format!("case {} {}", self.n_cases, d));
    }

    fn end_case(&mut self) {
        if self.cur_case.is_empty() {
            return;
        }
        if self.cur_nontrivial {
            self.nontrivial.insert(self.cur_hash);
        }
        if self.samples.len() < self.max_samples && (self.cur_nontrivial || self.n_cases % 97 == 1) {
            let mut s = self.cur_case.join(" ; ");
            if s.len() > 600 {
                s.truncate(600);
                s.push_str("…");
            }
            self.samples.push(s);
        }
        self.cur_case.clear();
        self.cur_hash = 0xcbf29ce484222325;
        self.cur_nontrivial = false;
    }

    /// One operation: the protocol line and what the implementation did.
    pub fn op(&mut self, op: &str, impl_out: &str) {
        debug_assert!(!op.contains('\n') && !impl_out.contains('\n'));
        writeln!(self.ops, "{}", op).unwrap();
        writeln!(self.out, "{}", impl_out).unwrap();
        self.n_ops += 1;
        PROGRESS.fetch_add(1, Ordering::Relaxed);
        if let Ok(mut c) = CURRENT_CASE.lock() {
            if op.starts_with("case ") {
                c.clear();
            }
            if c.len() < 400 {
                c.push(op.to_string());
            }
        }
        if self.pending_nt_op {
            self.pending_nt_op = false;
            self.nontrivial.insert(fnv(0xcbf29ce484222325, op));
            if self.samples.len() < self.max_samples && self.nontrivial.len() % 37 == 1 {
                self.samples.push(format!("{} => {}", op, impl_out));
            }
        }
        if !op.starts_with("case ") {
            self.cur_hash = fnv(self.cur_hash, op);
            if self.cur_case.len() < 40 {
                self.cur_case.push(op.to_string());
            }
        } else {
            self.cur_case.push(op.to_string());
        }
    }

    /// Tell the watchdog which call is about to be made (recorded only if it never returns).
    pub fn about_to(what: &str) {
        if let Ok(mut c) = CURRENT_CASE.lock() {
            if c.len() < 401 {
                c.push(format!("# in progress: {}", what));
            }
        }
    }

    /// Mark the current case as non-trivial by the suite's rule.
    pub fn nontrivial(&mut self) {
        self.cur_nontrivial = true;
    }

    /// Mark the NEXT op as a non-trivial item of its own (for enumerations inside one big case).
    pub fn nontrivial_op(&mut self) {
        self.pending_nt_op = true;
    }

    /// Count an item identified by `key` as distinct and non-trivial (oracle-only cases).
    pub fn nontrivial_key(&mut self, key: &str) {
        self.nontrivial.insert(fnv(0xcbf29ce484222325, key));
    }

    pub fn count(&mut self, key: &str) {
        *self.hist.entry(key.to_string()).or_insert(0) += 1;
    }

    /// An implementation-level oracle of property `prop` failed: a demonstrated violation.
    pub fn oracle_fail(&mut self, prop: &str, what: &str, replay: &[String]) {
        self.n_oracle_fail += 1;
        let esc = |s: &str| s.replace('\\', "\\\\").replace('"', "\\\"");
        let lines: Vec<String> = replay.iter().map(|l| format!("\"{}\"", esc(l))).collect();
        writeln!(
            self.oracle,
            "{{\"property\":\"{}\",\"case\":{},\"what\":\"{}\",\"replay\":[{}]}}",
            prop,
            self.n_cases,
            esc(what),
            lines.join(",")
        )
        .unwrap();
    }

    pub fn finish(mut self, extra: &[(&str, String)]) {
        self.end_case();
        self.ops.flush().unwrap();
        self.out.flush().unwrap();
        self.oracle.flush().unwrap();
        let esc = |s: &str| s.replace('\\', "\\\\").replace('"', "\\\"");
        let hist: Vec<String> = self.hist.iter().map(|(k, v)| format!("\"{}\":{}", esc(k), v)).collect();
        let samples: Vec<String> = self.samples.iter().map(|s| format!("\"{}\"", esc(s))).collect();
        let mut extra_s = String::new();
        for (k, v) in extra {
            extra_s.push_str(&format!(",\"{}\":\"{}\"", k, esc(v)));
        }
        let mut f = File::create(format!("{}/stats.json", self.dir)).unwrap();
        writeln!(
            f,
            "{{\"ops\":{},\"cases\":{},\"distinct_nontrivial\":{},\"oracle_failures\":{},\"distribution\":{{{}}},\"samples\":[{}]{}}}",
            self.n_ops,
            self.n_cases,
            self.nontrivial.len(),
            self.n_oracle_fail,
            hist.join(","),
            samples.join(","),
            extra_s
        )
        .unwrap();
    }
}
