//! Fault injection at the libc boundary. The harness binary defines `recvmsg`, `send` and `write` itself (std's
//! `UnixStream::write` is `send(.., MSG_NOSIGNAL)` — seen with strace; `write` is kept for other stream types), so the
//! static linker resolves every reference to them inside this executable (vmm-sys-util's `raw_recvmsg`,
//! std's `impl Write for UnixStream`) to these functions instead of glibc's. Without an armed fault both
//! pass straight through to the system call, so the code under test is the real code on real sockets; with one,
//! the next call on that descriptor returns what the history asks for — end of stream or an errno on an `IN`
//! event that carries no hang-up flag, `EINTR` / `EAGAIN` / zero bytes / a short count on a write — results a
//! real AF_UNIX peer cannot be made to produce on demand. Nothing in /repo is instrumented.
//!
//! Per-descriptor counters of the calls made are kept as well (oracle: one `recv` per `IN` event handled,
//! one `write` per `OUT` event handled, none on descriptors that reported nothing).
use std::sync::atomic::{AtomicI32, AtomicU32, Ordering};

const NFD: usize = 1024;
/// 0 = none, -1 = end of stream (recv) / zero bytes (write), > 0 = errno, <= -1000 = short write of (-v - 1000) bytes
static RECV_FAULT: [AtomicI32; NFD] = [const { AtomicI32::new(0) }; NFD];
static WRITE_FAULT: [AtomicI32; NFD] = [const { AtomicI32::new(0) }; NFD];
static RECV_CALLS: [AtomicU32; NFD] = [const { AtomicU32::new(0) }; NFD];
static WRITE_CALLS: [AtomicU32; NFD] = [const { AtomicU32::new(0) }; NFD];
/// counting is only switched on around calls into the code under test
static COUNTING: AtomicI32 = AtomicI32::new(0);

#[derive(Clone, Copy, Debug, PartialEq)]
pub enum RecvFault {
    Eof,
    Errno(i32),
}

#[derive(Clone, Copy, Debug, PartialEq)]
pub enum WriteFault {
    Zero,
    Errno(i32),
    Short(usize),
}

fn idx(fd: i32) -> Option<usize> {
    if fd >= 0 && (fd as usize) < NFD {
        Some(fd as usize)
    } else {
        None
    }
}

pub fn arm_recv(fd: i32, f: RecvFault) {
    if let Some(i) = idx(fd) {
        RECV_FAULT[i].store(match f { RecvFault::Eof => -1, RecvFault::Errno(e) => e }, Ordering::SeqCst);
    }
}

pub fn arm_write(fd: i32, f: WriteFault) {
    if let Some(i) = idx(fd) {
        WRITE_FAULT[i].store(
            match f {
                WriteFault::Zero => -1,
                WriteFault::Errno(e) => e,
                WriteFault::Short(k) => -1000 - (k as i32),
            },
            Ordering::SeqCst,
        );
    }
}

pub fn disarm_recv(fd: i32) {
    if let Some(i) = idx(fd) {
        RECV_FAULT[i].store(0, Ordering::SeqCst);
    }
}

pub fn disarm_write(fd: i32) {
    if let Some(i) = idx(fd) {
        WRITE_FAULT[i].store(0, Ordering::SeqCst);
    }
}

pub fn disarm_all() {
    for i in 0..NFD {
        RECV_FAULT[i].store(0, Ordering::SeqCst);
        WRITE_FAULT[i].store(0, Ordering::SeqCst);
    }
}

pub fn start_counting() {
    for i in 0..NFD {
        RECV_CALLS[i].store(0, Ordering::SeqCst);
        WRITE_CALLS[i].store(0, Ordering::SeqCst);
    }
    COUNTING.store(1, Ordering::SeqCst);
}

pub fn stop_counting() {
    COUNTING.store(0, Ordering::SeqCst);
}

pub fn recv_calls(fd: i32) -> u32 {
    idx(fd).map(|i| RECV_CALLS[i].load(Ordering::SeqCst)).unwrap_or(0)
}

pub fn write_calls(fd: i32) -> u32 {
    idx(fd).map(|i| WRITE_CALLS[i].load(Ordering::SeqCst)).unwrap_or(0)
}

unsafe fn set_errno(e: i32) {
    *libc::__errno_location() = e;
}

/// Interposed `recvmsg(2)`.
///
/// # Safety
/// Same contract as the libc function; arguments are passed unchanged to the system call.
#[no_mangle]
pub unsafe extern "C" fn recvmsg(fd: libc::c_int, msg: *mut libc::msghdr, flags: libc::c_int) -> libc::ssize_t {
    if let Some(i) = idx(fd) {
        if COUNTING.load(Ordering::Relaxed) != 0 {
            RECV_CALLS[i].fetch_add(1, Ordering::Relaxed);
        }
        // end of stream is permanent (as it is in the kernel); an errno is returned once
        let f = RECV_FAULT[i].load(Ordering::SeqCst);
        if f > 0 {
            RECV_FAULT[i].store(0, Ordering::SeqCst);
        }
        if f == -1 {
            if !msg.is_null() {
                (*msg).msg_controllen = 0;
                (*msg).msg_flags = 0;
            }
            return 0;
        } else if f > 0 {
            set_errno(f);
            return -1;
        }
    }
    libc::syscall(libc::SYS_recvmsg, fd as libc::c_long, msg, flags as libc::c_long) as libc::ssize_t
}

/// Interposed `write(2)` (std's `Write for UnixStream`, and everything else in this process).
///
/// `send(2)` — what std's `UnixStream::write` calls (with MSG_NOSIGNAL). Same faults and counters as `write`.
/// # Safety
/// Same contract as the libc function; arguments are passed unchanged to the system call.
#[no_mangle]
pub unsafe extern "C" fn send(fd: libc::c_int, buf: *const libc::c_void, count: libc::size_t, flags: libc::c_int) -> libc::ssize_t {
    let mut count = count;
    if let Some(i) = idx(fd) {
        if COUNTING.load(Ordering::Relaxed) != 0 {
            WRITE_CALLS[i].fetch_add(1, Ordering::Relaxed);
        }
        let f = WRITE_FAULT[i].load(Ordering::Relaxed);
        if f != 0 {
            WRITE_FAULT[i].store(0, Ordering::SeqCst);
            if f == -1 {
                return 0;
            } else if f > 0 {
                set_errno(f);
                return -1;
            } else if f <= -1000 {
                let k = (-(f + 1000)) as usize;
                if k < count {
                    count = k.max(1);
                }
            }
        }
    }
    libc::syscall(libc::SYS_sendto, fd as libc::c_long, buf, count, flags as libc::c_long, 0 as libc::c_long, 0 as libc::c_long) as libc::ssize_t
}

/// # Safety
/// Same contract as the libc function; arguments are passed unchanged to the system call.
#[no_mangle]
pub unsafe extern "C" fn write(fd: libc::c_int, buf: *const libc::c_void, count: libc::size_t) -> libc::ssize_t {
    let mut count = count;
    if let Some(i) = idx(fd) {
        if COUNTING.load(Ordering::Relaxed) != 0 {
            WRITE_CALLS[i].fetch_add(1, Ordering::Relaxed);
        }
        let f = WRITE_FAULT[i].load(Ordering::Relaxed);
        if f != 0 {
            WRITE_FAULT[i].store(0, Ordering::SeqCst);
            if f == -1 {
                return 0;
            } else if f > 0 {
                set_errno(f);
                return -1;
            } else if f <= -1000 {
                let k = (-(f + 1000)) as usize;
                if k < count {
                    count = k.max(1);
                }
            }
        }
    }
    libc::syscall(libc::SYS_write, fd as libc::c_long, buf, count) as libc::ssize_t
}
