//! World: a real `HttpServer` on a Unix socket plus simulated clients in the same (single) thread.
//! Everything the kernel tells the server during a `requests()` call is observed from outside
//! (own `epoll_wait(…, 0)` on the server's epoll fd right before the call, MSG_PEEK on the
//! server-side sockets, FIONREAD deltas on the client side, /proc/self/fd and /proc/self/fdinfo)
//! and written into the `srv poll` op, so that the Lean model can replay the call deterministically.
use crate::conn::RespSpec;
use crate::emit::Rec;
use crate::inject::{self, RecvFault, WriteFault};
use crate::show::*;
use micro_http::{HttpServer, ServerError, ServerRequest};
use std::collections::{BTreeMap, BTreeSet, VecDeque};
use std::io::{Read, Write};
use std::net::Shutdown;
use std::os::unix::io::{AsRawFd, RawFd};
use std::os::unix::net::UnixStream;
use std::panic::{catch_unwind, AssertUnwindSafe};
use vmm_sys_util::eventfd::EventFd;

pub const SERVER_FULL: &[u8] = b"HTTP/1.1 503\r\nServer: Firecracker API\r\nConnection: close\r\nContent-Length: 40\r\n\r\n{ \"error\": \"Too many open connections\" }";

pub struct ClientSim {
    pub sock: Option<UnixStream>,
    pub srv_fd: Option<RawFd>,
    pub accepted: bool,
    pub refused: bool,
    pub received: Vec<u8>,
    pub rd_shut: bool,
    pub wr_shut: bool,
    pub closed: bool,
    /// bytes in the client's receive queue at the last observation
    pub avail: usize,
    /// ever misbehaved (closed / shut down / sent garbage)
    pub misbehaved: bool,
    /// the server tried to write to this client and the write failed (peer shut down its read side)
    pub write_failed: bool,
    /// an injected fault told the server that this stream ended or failed (end of stream on a read, zero / error
    /// on a write): the server must treat the connection as closed although the client is still there
    pub srv_closed: bool,
    /// an injected read error (the server answers those with a 500)
    pub recv_err_injected: bool,
    /// the last read of this client ended with end-of-stream
    pub saw_eof: bool,
    /// the payload limit in force when this client was accepted (None = not accepted yet)
    pub limit: Option<usize>,
}

pub struct Held {
    pub req: ServerRequest,
    pub fd: RawFd,
    pub client: Option<usize>,
    pub tag: String,
}

pub struct World {
    pub server: Option<HttpServer>,
    /// a placeholder on descriptor 0 (scenario `descriptor-zero`): released right after the first client connected
    pub park0: Option<std::fs::File>,
    /// always keep the lowest free numbers away from the client's socket at connect (aimed descriptor-reuse scenarios)
    pub force_reserve: bool,
    pub path: String,
    pub epfd: RawFd,
    pub listener_fd: RawFd,
    pub kill_fd: Option<RawFd>,
    pub kill: Option<EventFd>,
    pub killed: bool,
    pub clients: Vec<ClientSim>,
    pub backlog: VecDeque<usize>,
    pub held: Vec<Held>,
    pub by_fd: BTreeMap<RawFd, usize>,
    pub log: Vec<String>,
    pub base_fds: BTreeSet<RawFd>,
    pub polls: usize,
    pub poll_errors: Vec<String>,
    pub respond_errors: Vec<String>,
    pub yielded: Vec<(RawFd, String)>,
    pub n_refused: usize,
    pub shutdown_polls: usize,
    pub nonshutdown_after_kill: usize,
    /// faults armed for the next `requests()` call (inject.rs), by server-side descriptor
    pub armed_recv: BTreeMap<RawFd, RecvFault>,
    pub armed_write: BTreeMap<RawFd, WriteFault>,
    pub faults_taken: usize,
    /// polls that reported the shutdown indication although the kill switch was never signalled
    pub spurious_shutdowns: usize,
    /// the server's current payload limit (applies to connections accepted from now on)
    pub cur_limit: usize,
}

pub fn open_fds() -> BTreeSet<RawFd> {
    // probing with fcntl opens no descriptor of its own (reading /proc/self/fd would)
    let mut s = BTreeSet::new();
    for fd in 0..1024 {
        // SAFETY: F_GETFD on an arbitrary number is harmless
        if unsafe { libc::fcntl(fd, libc::F_GETFD) } != -1 {
            s.insert(fd);
        }
    }
    s
}

/// (fd, interest mask) pairs registered in an epoll instance
pub fn epoll_registrations(epfd: RawFd) -> Vec<(RawFd, u32)> {
    let mut v = vec![];
    if let Ok(t) = std::fs::read_to_string(format!("/proc/self/fdinfo/{}", epfd)) {
        for l in t.lines() {
            if let Some(rest) = l.strip_prefix("tfd:") {
                let parts: Vec<&str> = rest.split_whitespace().collect();
                // "<fd> events: <hex> data: <hex> ..."
                if parts.len() >= 3 {
                    if let (Ok(fd), Ok(m)) = (parts[0].parse::<RawFd>(), u32::from_str_radix(parts[2], 16)) {
                        v.push((fd, m));
                    }
                }
            }
        }
    }
    v.sort();
    v
}

fn fionread(fd: RawFd) -> usize {
    let mut n: libc::c_int = 0;
    // SAFETY: FIONREAD writes an int
    let r = unsafe { libc::ioctl(fd, libc::FIONREAD, &mut n) };
    if r < 0 {
        0
    } else {
        n as usize
    }
}

fn peek(fd: RawFd, max: usize) -> Result<Vec<u8>, i32> {
    let mut buf = vec![0u8; max];
    // SAFETY: buffer of the given size
    let n = unsafe { libc::recv(fd, buf.as_mut_ptr() as *mut libc::c_void, max, libc::MSG_PEEK | libc::MSG_DONTWAIT) };
    if n < 0 {
        Err(std::io::Error::last_os_error().raw_os_error().unwrap_or(0))
    } else {
        buf.truncate(n as usize);
        Ok(buf)
    }
}

pub fn fd_writable(fd: RawFd) -> bool {
    let mut p = libc::pollfd { fd, events: libc::POLLOUT, revents: 0 };
    // SAFETY: one pollfd
    let r = unsafe { libc::poll(&mut p, 1, 0) };
    r > 0 && (p.revents & libc::POLLOUT) != 0
}

pub fn fd_ready(fd: RawFd) -> bool {
    let mut p = libc::pollfd { fd, events: libc::POLLIN, revents: 0 };
    // SAFETY: one pollfd
    let r = unsafe { libc::poll(&mut p, 1, 0) };
    r > 0 && (p.revents & libc::POLLIN) != 0
}

static mut SOCK_COUNTER: u64 = 0;
/// set by a scenario right before it creates a world: descriptor 0 of the process is free and is to be kept free (parked)
/// until the first client connects, so that the SERVER's accept lands on the number 0
pub static mut WANT_ZERO: bool = false;

impl World {
    pub fn new(rec: &mut Rec, with_kill: bool, limit: Option<usize>) -> World {
        // SAFETY: single-threaded harness
        let n = unsafe {
            SOCK_COUNTER += 1;
            SOCK_COUNTER
        };
        let dir = std::env::var("MH_SOCK_DIR").unwrap_or_else(|_| "/verif/work".to_string());
        let path = format!("{}/.mh-{}-{}.sock", dir, std::process::id(), n);
        let _ = std::fs::remove_file(&path);
        let base = open_fds();
        // SAFETY: single-threaded harness
        let want_zero = unsafe {
            let w = WANT_ZERO;
            WANT_ZERO = false;
            w
        };
        let park0: Option<std::fs::File> = if want_zero {
            let f = std::fs::File::open("/dev/null").expect("park");
            if f.as_raw_fd() == 0 { Some(f) } else { None }
        } else {
            None
        };
        // both constructors occur: every third world hands the server a listener it bound itself (`new_from_fd`)
        let mut server = if n % 3 == 2 {
            use std::os::unix::io::IntoRawFd;
            let l = std::os::unix::net::UnixListener::bind(&path).expect("bind");
            // SAFETY: the descriptor is owned by nobody else after into_raw_fd
            unsafe { HttpServer::new_from_fd(l.into_raw_fd()).expect("new_from_fd") }
        } else {
            HttpServer::new(&path).expect("bind")
        };
        // both documented orders occur: the kill switch installed before `start_server` (every other world) or after it
        let mut kill_pair: Option<(EventFd, RawFd)> = None;
        let kill_first = with_kill && n % 2 == 0;
        if kill_first {
            let ev = EventFd::new(libc::EFD_NONBLOCK).unwrap();
            let clone = ev.try_clone().unwrap();
            let kfd = clone.as_raw_fd();
            server.add_kill_switch(clone).unwrap();
            kill_pair = Some((ev, kfd));
        }
        server.start_server().expect("start");
        let epfd = server.epoll().as_raw_fd();
        let regs = epoll_registrations(epfd);
        let kfd_opt = kill_pair.as_ref().map(|p| p.1);
        let listener_fd = regs.iter().map(|x| x.0).find(|fd| Some(*fd) != kfd_opt).unwrap_or(-1);
        let mut w = World {
            server: Some(server),
            park0,
            force_reserve: false,
            path,
            epfd,
            listener_fd,
            kill_fd: None,
            kill: None,
            killed: false,
            clients: vec![],
            backlog: VecDeque::new(),
            held: vec![],
            by_fd: BTreeMap::new(),
            log: vec![],
            base_fds: base,
            polls: 0,
            poll_errors: vec![],
            respond_errors: vec![],
            yielded: vec![],
            n_refused: 0,
            shutdown_polls: 0,
            nonshutdown_after_kill: 0,
            armed_recv: BTreeMap::new(),
            armed_write: BTreeMap::new(),
            faults_taken: 0,
            spurious_shutdowns: 0,
            cur_limit: limit.unwrap_or(51200),
        };
        w.emit(rec, "srv new".into(), "ok".into());
        if let Some(l) = limit {
            w.server.as_mut().unwrap().set_payload_max_size(l);
            w.emit(rec, format!("srv limit {}", l), "ok".into());
        }
        if let Some((ev, kfd)) = kill_pair {
            w.kill_fd = Some(kfd);
            w.kill = Some(ev);
            w.emit(rec, "srv killadd".into(), "ok".into());
        } else if with_kill {
            let ev = EventFd::new(libc::EFD_NONBLOCK).unwrap();
            let clone = ev.try_clone().unwrap();
            w.kill_fd = Some(clone.as_raw_fd());
            w.server.as_mut().unwrap().add_kill_switch(clone).unwrap();
            w.kill = Some(ev);
            w.emit(rec, "srv killadd".into(), "ok".into());
        }
        w
    }

    pub fn emit(&mut self, rec: &mut Rec, op: String, out: String) {
        rec.op(&op, &out);
        self.log.push(op);
    }

    pub fn note(&mut self, rec: &mut Rec, text: &str) {
        let op = format!("# {}", text.replace('\n', " "));
        rec.op(&op, "#");
        self.log.push(op);
    }

    pub fn set_limit(&mut self, rec: &mut Rec, l: usize) {
        self.cur_limit = l;
        self.server.as_mut().unwrap().set_payload_max_size(l);
        self.emit(rec, format!("srv limit {}", l), "ok".into());
    }

    pub fn connect(&mut self, rec: &mut Rec) -> usize {
        // Harness and server share one descriptor table. Every other connect first occupies the lowest free
        // descriptor numbers with placeholders, so that the CLIENT's socket gets a higher number and the hole —
        // typically the number a connection (or the server's copy of the kill switch) released a moment ago — is
        // still free when the server accepts: descriptor numbers are then reused on the SERVER side, which is what the
        // identity clauses (C07, C18) are about.
        let reserve = self.force_reserve || (self.clients.len() + self.polls) % 2 == 0;
        let placeholders: Vec<std::fs::File> = if reserve { (0..2).filter_map(|_| std::fs::File::open("/dev/null").ok()).collect() } else { vec![] };
        let (s, connected) = match UnixStream::connect(&self.path) {
            Ok(s) => (s, true),
            // the server is gone (a poll panicked and it was dropped): the scenario goes on with a stand-in that nobody
            // listens to, so that the oracles at its end still run and report the panic with the history
            Err(_) => (UnixStream::pair().expect("socketpair").0, false),
        };
        drop(placeholders);
        // descriptor 0 becomes free only now: the client's socket has its number already, the server's accept gets 0
        drop(self.park0.take());
        s.set_nonblocking(true).unwrap();
        let i = self.clients.len();
        self.clients.push(ClientSim {
            sock: Some(s),
            srv_fd: None,
            accepted: false,
            refused: false,
            received: vec![],
            rd_shut: false,
            wr_shut: false,
            closed: false,
            avail: 0,
            misbehaved: false,
            write_failed: false,
            srv_closed: false,
            recv_err_injected: false,
            saw_eof: false,
            limit: None,
        });
        if connected {
            self.backlog.push_back(i);
            self.note(rec, &format!("client {} connect", i));
        } else {
            self.clients[i].misbehaved = true;
            self.note(rec, &format!("client {} could not connect: the server is gone", i));
        }
        i
    }

    pub fn send(&mut self, rec: &mut Rec, i: usize, bytes: &[u8]) -> bool {
        let wr_shut = self.clients[i].wr_shut;
        let ok = match self.clients[i].sock.as_mut() {
            Some(s) if !wr_shut => s.write_all(bytes).is_ok(),
            _ => false,
        };
        self.note(rec, &format!("client {} send {} {}", i, hx(bytes), if ok { "ok" } else { "failed" }));
        ok
    }

    pub fn client_read(&mut self, rec: &mut Rec, i: usize) -> usize {
        let mut total = 0;
        let mut eof = false;
        let rd_shut = self.clients[i].rd_shut;
        let mut got: Vec<u8> = vec![];
        if let Some(s) = self.clients[i].sock.as_mut() {
            if !rd_shut {
                let mut buf = vec![0u8; 65536];
                loop {
                    match s.read(&mut buf) {
                        Ok(0) => {
                            eof = true;
                            break;
                        }
                        Ok(n) => {
                            got.extend_from_slice(&buf[..n]);
                            total += n;
                        }
                        Err(e) => {
                            // a peer that closed with OUR unread input in its socket shows as ECONNRESET, not as end of
                            // stream: either way this client has been disconnected
                            if e.kind() != std::io::ErrorKind::WouldBlock && e.kind() != std::io::ErrorKind::Interrupted {
                                eof = true;
                            }
                            break;
                        }
                    }
                }
            }
        }
        self.clients[i].received.extend_from_slice(&got);
        self.clients[i].saw_eof = eof;
        self.clients[i].avail = 0;
        self.note(rec, &format!("client {} read {}{}", i, total, if eof { " eof" } else { "" }));
        total
    }

    pub fn close(&mut self, rec: &mut Rec, i: usize) {
        self.clients[i].sock = None;
        self.clients[i].closed = true;
        self.clients[i].misbehaved = true;
        self.clients[i].avail = 0;
        self.note(rec, &format!("client {} close", i));
    }

    pub fn shutdown(&mut self, rec: &mut Rec, i: usize, how: Shutdown) {
        if let Some(s) = self.clients[i].sock.as_ref() {
            let _ = s.shutdown(how);
        }
        match how {
            Shutdown::Read => self.clients[i].rd_shut = true,
            Shutdown::Write => self.clients[i].wr_shut = true,
            Shutdown::Both => {
                self.clients[i].rd_shut = true;
                self.clients[i].wr_shut = true;
            }
        }
        self.clients[i].misbehaved = true;
        self.note(rec, &format!("client {} shutdown {:?}", i, how));
    }

    pub fn signal_kill(&mut self, rec: &mut Rec) {
        if let Some(k) = self.kill.as_ref() {
            let _ = k.write(1);
            self.killed = true;
        }
        self.note(rec, "kill switch signalled");
    }

    /// the application resets the kill switch through its own handle (reads the eventfd) and carries on
    pub fn clear_kill(&mut self, rec: &mut Rec) {
        if let Some(k) = self.kill.as_ref() {
            let _ = k.read();
            self.killed = false;
        }
        self.note(rec, "kill switch reset by the application (eventfd read)");
    }

    pub fn ready(&self) -> bool {
        fd_ready(self.epfd)
    }

    /// The next `recv` the server makes on client `i`'s connection returns end of stream / fails with an errno
    /// (inject.rs) — on an `IN` event that carries no hang-up flag, which a real AF_UNIX peer cannot produce.
    pub fn arm_recv_fault(&mut self, rec: &mut Rec, i: usize, f: RecvFault) {
        if let Some(fd) = self.clients[i].srv_fd {
            if self.by_fd.get(&fd) == Some(&i) {
                inject::arm_recv(fd, f);
                self.armed_recv.insert(fd, f);
                self.note(rec, &format!("inject: next recv on fd {} (client {}) -> {:?}", fd, i, f));
            }
        }
    }

    /// The next `write` the server makes on client `i`'s connection returns zero / fails with an errno / is cut
    /// short to `k` bytes.
    pub fn arm_write_fault(&mut self, rec: &mut Rec, i: usize, f: WriteFault) {
        if let Some(fd) = self.clients[i].srv_fd {
            if self.by_fd.get(&fd) == Some(&i) {
                inject::arm_write(fd, f);
                self.armed_write.insert(fd, f);
                self.note(rec, &format!("inject: next write on fd {} (client {}) -> {:?}", fd, i, f));
            }
        }
    }

    fn interest_text(&self) -> String {
        let regs = epoll_registrations(self.epfd);
        let v: Vec<String> = regs
            .iter()
            .filter(|(fd, _)| *fd != self.listener_fd && Some(*fd) != self.kill_fd)
            .map(|(fd, m)| format!("{}:{}", fd, if m & 0x4 != 0 { "O" } else { "I" }))
            .collect();
        format!("int=[{}]", v.join(","))
    }

    /// bytes that arrived in each client's receive queue since the last observation (peeked, not consumed)
    fn observe_client_deltas(&mut self) -> BTreeMap<usize, Vec<u8>> {
        let mut out = BTreeMap::new();
        for (i, c) in self.clients.iter_mut().enumerate() {
            if let Some(s) = c.sock.as_ref() {
                if c.rd_shut {
                    continue;
                }
                let now = fionread(s.as_raw_fd());
                if now > c.avail {
                    let all = peek(s.as_raw_fd(), now).unwrap_or_default();
                    let delta = all[c.avail.min(all.len())..].to_vec();
                    c.avail = now;
                    out.insert(i, delta);
                }
            }
        }
        out
    }

    /// Validate the kernel model (lean/MicroHttp/Kernel.lean, assumption E7) against the real kernel: per
    /// connection the unread byte count, whether the peer is gone, whether the socket is writable — and the
    /// set of connection descriptors epoll actually reports. The model predicts that set from its interest map.
    pub fn kern_probe(&mut self, rec: &mut Rec) {
        if self.server.is_none() {
            return;
        }
        let mut evs: [libc::epoll_event; 12] = [libc::epoll_event { events: 0, u64: 0 }; 12];
        // SAFETY: array of 12 events
        let n = unsafe { libc::epoll_wait(self.epfd, evs.as_mut_ptr(), 12, 0) };
        let n = if n < 0 { 0 } else { n as usize };
        let mut reported: Vec<RawFd> = evs.iter().take(n).map(|e| e.u64 as RawFd).filter(|fd| self.by_fd.contains_key(fd)).collect();
        reported.sort();
        let mut entries = vec![];
        for (fd, i) in &self.by_fd {
            let c = &self.clients[*i];
            let gone = c.closed || c.wr_shut;
            entries.push(format!("{}:{}:{}:{}", fd, fionread(*fd), if gone { 1 } else { 0 }, if fd_writable(*fd) { 1 } else { 0 }));
        }
        let out = format!("ready=[{}]", reported.iter().map(|f| f.to_string()).collect::<Vec<_>>().join(","));
        self.emit(rec, format!("srv kern {}", entries.join(" ")).trim_end().to_string(), out);
    }

    /// One `requests()` call (only when the epoll fd is ready, unless `force`), recorded as a `srv poll` op.
    /// Returns false if the server was not ready.
    pub fn poll(&mut self, rec: &mut Rec) -> bool {
        if self.server.is_none() || !self.ready() {
            return false;
        }
        self.polls += 1;
        self.kern_probe(rec);
        // what the server's epoll_wait is about to return
        let mut evs: [libc::epoll_event; 12] = [libc::epoll_event { events: 0, u64: 0 }; 12];
        // SAFETY: array of 12 events
        let n = unsafe { libc::epoll_wait(self.epfd, evs.as_mut_ptr(), 12, 0) };
        let n = if n < 0 { 0 } else { n as usize };
        let fds_before = open_fds();
        // make sure client-side baselines are current
        let _ = self.observe_client_deltas();
        struct Pending {
            fd: RawFd,
            flags: String,
            rd: String,
            is_out: bool,
        }
        let mut toks: Vec<Result<String, Pending>> = vec![];
        let mut listener_events = 0;
        for e in evs.iter().take(n) {
            let fd = e.u64 as RawFd;
            let m = e.events;
            if Some(fd) == self.kill_fd {
                toks.push(Ok("K".into()));
                break; // the server returns at the first kill event
            } else if fd == self.listener_fd {
                listener_events += 1;
                toks.push(Ok("L?".into()));
            } else {
                let mut flags = String::new();
                if m & 0x1 != 0 {
                    flags.push('i');
                }
                if m & 0x4 != 0 {
                    flags.push('o');
                }
                if m & (0x8 | 0x10 | 0x2000) != 0 {
                    flags.push('h');
                }
                let hup = flags.contains('h');
                let rd = if flags.contains('i') && !hup && self.armed_recv.contains_key(&fd) {
                    match self.armed_recv[&fd] {
                        RecvFault::Eof => "d.".to_string(),
                        RecvFault::Errno(e) => format!("e{},{}", e, hx(vmm_sys_util::errno::Error::new(e).to_string().as_bytes())),
                    }
                } else if flags.contains('i') && !hup {
                    match peek(fd, 4096) {
                        Ok(b) => format!("d{}", hx(&b)),
                        Err(e) => format!("e{},{}", e, hx(vmm_sys_util::errno::Error::new(e).to_string().as_bytes())),
                    }
                } else {
                    "-".to_string()
                };
                let is_out = !hup && !flags.contains('i') && flags.contains('o');
                if flags.is_empty() {
                    flags.push('-');
                }
                toks.push(Err(Pending { fd, flags, rd, is_out }));
            }
        }
        // the call itself
        Rec::about_to("server.requests()");
        let server = self.server.as_mut().unwrap();
        inject::start_counting();
        let res = catch_unwind(AssertUnwindSafe(|| server.requests()));
        inject::stop_counting();
        // which armed faults did the server run into?
        let mut recv_taken: BTreeMap<RawFd, RecvFault> = BTreeMap::new();
        let mut write_taken: BTreeMap<RawFd, WriteFault> = BTreeMap::new();
        // a fault counts as taken if the server made the call on that descriptor during this poll
        let mut still_armed: BTreeMap<RawFd, RecvFault> = BTreeMap::new();
        for (fd, f) in std::mem::take(&mut self.armed_recv) {
            if inject::recv_calls(fd) > 0 {
                recv_taken.insert(fd, f);
            }
            if f == RecvFault::Eof {
                // end of stream stays (the kernel never un-ends a stream) until the descriptor is released
                still_armed.insert(fd, f);
            } else {
                inject::disarm_recv(fd);
            }
        }
        self.armed_recv = still_armed;
        for (fd, f) in std::mem::take(&mut self.armed_write) {
            inject::disarm_write(fd);
            if inject::write_calls(fd) > 0 {
                write_taken.insert(fd, f);
            }
        }
        self.faults_taken += recv_taken.len() + write_taken.len();
        for (fd, f) in &recv_taken {
            if let Some(i) = self.by_fd.get(fd).cloned() {
                self.clients[i].misbehaved = true;
                match f {
                    RecvFault::Eof => self.clients[i].srv_closed = true,
                    RecvFault::Errno(_) => self.clients[i].recv_err_injected = true,
                }
            }
        }
        for (fd, f) in &write_taken {
            if let Some(i) = self.by_fd.get(fd).cloned() {
                match f {
                    WriteFault::Zero => {
                        self.clients[i].srv_closed = true;
                        self.clients[i].misbehaved = true;
                    }
                    WriteFault::Errno(e) if *e != libc::EINTR => {
                        self.clients[i].srv_closed = true;
                        self.clients[i].misbehaved = true;
                    }
                    _ => {}
                }
            }
        }
        let fds_after = open_fds();
        let deltas = self.observe_client_deltas();
        // accepted / refused
        let new_fds: Vec<RawFd> = fds_after.difference(&fds_before).cloned().collect();
        let gone: Vec<RawFd> = fds_before.difference(&fds_after).cloned().collect();
        let mut refused_now = 0;
        let killed_now = toks.iter().any(|t| matches!(t, Ok(s) if s == "K"));
        let panicked = res.is_err();
        let mut accepted_fd: Option<RawFd> = None;
        // listener events that precede a kill event were handled; those after were not reached
        if listener_events > 0 && !panicked {
            if let Some(i) = self.backlog.pop_front() {
                if let Some(fd) = new_fds.first() {
                    self.clients[i].srv_fd = Some(*fd);
                    self.clients[i].accepted = true;
                    self.clients[i].limit = Some(self.cur_limit);
                    self.by_fd.insert(*fd, i);
                    accepted_fd = Some(*fd);
                } else if killed_now && !toks.iter().take_while(|t| !matches!(t, Ok(s) if s == "K")).any(|t| matches!(t, Ok(s) if s == "L?")) {
                    // the kill event came first: nothing was accepted
                    self.backlog.push_front(i);
                } else {
                    self.clients[i].refused = true;
                    refused_now += 1;
                    self.n_refused += 1;
                }
            }
        }
        // writes per server fd (from the client side)
        let mut w_by_fd: BTreeMap<RawFd, Vec<u8>> = BTreeMap::new();
        for (i, d) in &deltas {
            if let Some(fd) = self.clients[*i].srv_fd {
                if !self.clients[*i].refused {
                    w_by_fd.insert(fd, d.clone());
                }
            }
        }
        let mut ev_txt: Vec<String> = vec![];
        let mut maybe_failed: Vec<(RawFd, usize)> = vec![];
        for t in toks {
            match t {
                Ok(s) if s == "L?" => ev_txt.push(format!("L{}", accepted_fd.unwrap_or(9999))),
                Ok(s) => ev_txt.push(s),
                Err(p) => {
                    let wr = if p.is_out && matches!(write_taken.get(&p.fd), Some(WriteFault::Zero) | Some(WriteFault::Errno(_))) {
                        match write_taken[&p.fd] {
                            WriteFault::Zero => "z".to_string(),
                            WriteFault::Errno(e) if e == libc::EINTR => "i".to_string(),
                            _ => "f".to_string(),
                        }
                    } else if p.is_out {
                        let d = w_by_fd.get(&p.fd).map(|v| v.len()).unwrap_or(0);
                        if d > 0 {
                            format!("a{}", d)
                        } else {
                            let ci = self.by_fd.get(&p.fd).cloned();
                            let dead = ci.map(|i| self.clients[i].rd_shut || self.clients[i].closed).unwrap_or(true);
                            if dead {
                                // (whether the server really WROTE and failed — or found nothing to write on a stale OUT
                                // registration — is settled below from what the server did with the connection)
                                if let Some(i) = ci {
                                    maybe_failed.push((p.fd, i));
                                }
                                "f".to_string()
                            } else {
                                "i".to_string()
                            }
                        }
                    } else {
                        "-".to_string()
                    };
                    ev_txt.push(format!("C{}:{}:{}:{}", p.fd, p.flags, p.rd, wr));
                }
            }
        }
        // dropped connections: server-side descriptors that disappeared
        let dropped: Vec<RawFd> = gone.iter().filter(|fd| self.by_fd.contains_key(fd)).cloned().collect();
        for fd in &dropped {
            inject::disarm_recv(*fd);
            self.armed_recv.remove(fd);
            if let Some(i) = self.by_fd.remove(fd) {
                // keep srv_fd for reporting but mark as released
                self.clients[i].accepted = false;
            }
        }
        // a write to a dead peer that accepted nothing FAILED iff the server treated the connection as dead afterwards:
        // it released it in this poll, or kept it (requests in flight) without going back to waiting for input. A stale
        // OUT registration with nothing queued is not a failed write: the server goes back to IN and keeps the connection.
        {
            let regs = epoll_registrations(self.epfd);
            for (fd, i) in maybe_failed {
                let gone_now = dropped.contains(&fd);
                let still_out = regs.iter().any(|(f, m)| *f == fd && m & 0x4 != 0);
                // … or, directly: the server made a write call on that descriptor during this poll (interposed `write`,
                // inject.rs) — with nothing queued it makes none
                let wrote = inject::write_calls(fd) > 0;
                if gone_now || still_out || wrote {
                    self.clients[i].write_failed = true;
                }
            }
        }
        let w_txt: Vec<String> = w_by_fd.iter().map(|(fd, b)| format!("{}:{}", fd, hx(b))).collect();
        let tail = format!(
            "w=[{}] {} dropped=[{}] refused={}",
            w_txt.join(","),
            self.interest_text(),
            dropped.iter().map(|f| f.to_string()).collect::<Vec<_>>().join(","),
            refused_now
        );
        let out = match res {
            Err(_) => {
                self.poll_errors.push("PANIC".into());
                self.server = None;
                format!("PANIC {}", tail)
            }
            Ok(Err(ServerError::ShutdownEvent)) => {
                self.shutdown_polls += 1;
                if !self.killed {
                    // C18, second clause: before the switch is signalled its presence changes nothing
                    self.spurious_shutdowns += 1;
                }
                format!("shutdown {}", tail)
            }
            Ok(Err(e)) => {
                self.poll_errors.push(format!("{:?}", e));
                format!("err({:?}) {}", e, tail).replace('\n', " ")
            }
            Ok(Ok(reqs)) => {
                let mut shown = vec![];
                for r in reqs {
                    let dbg = format!("{:?}", r);
                    let fd: RawFd = dbg.rfind("id: ").and_then(|p| dbg[p + 4..].trim_end_matches(|c| c == '}' || c == ' ').parse().ok()).unwrap_or(-1);
                    let text = show_request(r.inner(), &[]);
                    let uri = uri_text(r.inner());
                    shown.push(format!("{}:{}", fd, text));
                    self.yielded.push((fd, uri.clone()));
                    let client = self.by_fd.get(&fd).cloned();
                    self.held.push(Held { req: r, fd, client, tag: uri });
                }
                format!("ok reqs=[{}] {}", shown.join("|"), tail)
            }
        };
        if self.killed && !out.starts_with("shutdown") {
            self.nonshutdown_after_kill += 1;
        }
        let op = format!("srv poll {}", ev_txt.join(" "));
        self.emit(rec, op, out);
        true
    }

    /// `requests()` on a server with NOTHING to do, interrupted by a signal: `epoll_wait` returns EINTR, which
    /// the server must treat as "no events" (return normally, empty). Only call when the epoll fd is not ready.
    pub fn poll_interrupted(&mut self, rec: &mut Rec) {
        if self.server.is_none() || self.ready() {
            return;
        }
        extern "C" fn on_alarm(_: libc::c_int) {}
        #[repr(C)]
        struct Timeval {
            tv_sec: libc::c_long,
            tv_usec: libc::c_long,
        }
        #[repr(C)]
        struct Itimerval {
            it_interval: Timeval,
            it_value: Timeval,
        }
        extern "C" {
            fn setitimer(which: libc::c_int, new_value: *const Itimerval, old_value: *mut Itimerval) -> libc::c_int;
        }
        // SAFETY: installs a no-op handler WITHOUT SA_RESTART and arms a one-shot 30 ms timer
        unsafe {
            let mut sa: libc::sigaction = std::mem::zeroed();
            sa.sa_sigaction = on_alarm as usize;
            sa.sa_flags = 0;
            libc::sigemptyset(&mut sa.sa_mask);
            libc::sigaction(libc::SIGALRM, &sa, std::ptr::null_mut());
            let it = Itimerval {
                it_interval: Timeval { tv_sec: 0, tv_usec: 0 },
                it_value: Timeval { tv_sec: 0, tv_usec: 30_000 },
            };
            setitimer(0 /* ITIMER_REAL */, &it, std::ptr::null_mut());
        }
        Rec::about_to("server.requests() interrupted by a signal");
        let server = self.server.as_mut().unwrap();
        let res = catch_unwind(AssertUnwindSafe(|| server.requests()));
        let tail = format!("w=[] {} dropped=[] refused=0", self.interest_text());
        let out = match res {
            Err(_) => {
                self.poll_errors.push("PANIC".into());
                format!("PANIC {}", tail)
            }
            Ok(Ok(reqs)) => format!("ok reqs=[{}] {}", if reqs.is_empty() { "" } else { "?" }, tail),
            Ok(Err(ServerError::ShutdownEvent)) => format!("shutdown {}", tail),
            Ok(Err(e)) => {
                self.poll_errors.push(format!("interrupted poll: {:?}", e));
                format!("err({:?}) {}", e, tail).replace('\n', " ")
            }
        };
        self.note(rec, "the next poll is interrupted by a signal while nothing is ready (EINTR)");
        self.emit(rec, "srv poll".to_string(), out);
    }

    /// Answer held request number `k` with `spec`.
    pub fn respond(&mut self, rec: &mut Rec, k: usize, spec: &RespSpec) {
        if k >= self.held.len() {
            return;
        }
        if self.server.is_none() {
            // the server is gone (it panicked): drop the request so that callers' loops over `held` end
            self.held.remove(k);
            return;
        }
        let h = self.held.remove(k);
        let resp = spec.build();
        let mut slot = Some(resp);
        let sresp = h.req.process(|_| slot.take().unwrap());
        let server = self.server.as_mut().unwrap();
        let r = catch_unwind(AssertUnwindSafe(|| server.respond(sresp)));
        let out = match r {
            Err(_) => {
                self.respond_errors.push("PANIC".into());
                "PANIC".to_string()
            }
            Ok(Ok(())) => "ok".to_string(),
            Ok(Err(ServerError::Underflow)) => {
                self.respond_errors.push("Underflow".into());
                "underflow".to_string()
            }
            Ok(Err(e)) => {
                self.respond_errors.push(format!("{:?}", e));
                format!("err({:?})", e)
            }
        };
        let op = format!("srv respond {} {}", h.fd, spec.proto());
        let int = self.interest_text();
        self.emit(rec, op, format!("{} {}", out, int));
    }

    /// `enqueue_responses` for the held requests `ks` (indices into `held`, distinct), each with a small body.
    pub fn respond_many(&mut self, rec: &mut Rec, mut ks: Vec<usize>, bodies: Vec<Vec<u8>>) {
        if self.server.is_none() {
            self.held.clear();
            return;
        }
        ks.sort_unstable();
        ks.dedup();
        let mut items = vec![];
        let mut resps = vec![];
        // remove from the back so that indices stay valid
        let mut taken: Vec<Held> = vec![];
        for k in ks.iter().rev() {
            if *k < self.held.len() {
                taken.push(self.held.remove(*k));
            }
        }
        taken.reverse();
        for (h, b) in taken.into_iter().zip(bodies.into_iter()) {
            let spec = RespSpec { v11: true, code: 200, ops: vec![crate::conn::BOp::Body(b.clone())] };
            let mut slot = Some(spec.build());
            resps.push(h.req.process(|_| slot.take().unwrap()));
            items.push(format!("{},1.1,200,{}", h.fd, hx(&b)));
        }
        let server = self.server.as_mut().unwrap();
        let r = catch_unwind(AssertUnwindSafe(|| server.enqueue_responses(resps)));
        let out = match r {
            Err(_) => "PANIC".to_string(),
            Ok(Ok(())) => "ok".to_string(),
            Ok(Err(ServerError::Underflow)) => {
                self.respond_errors.push("Underflow".into());
                "underflow".to_string()
            }
            Ok(Err(e)) => {
                self.respond_errors.push(format!("{:?}", e));
                format!("err({:?})", e)
            }
        };
        let int = self.interest_text();
        self.emit(rec, format!("srv respondmany {}", items.join(" ")), format!("{} {}", out, int));
    }

    pub fn flush(&mut self, rec: &mut Rec) {
        if self.server.is_none() {
            return;
        }
        let _ = self.observe_client_deltas();
        Rec::about_to("server.flush_outgoing_writes()");
        let server = self.server.as_mut().unwrap();
        let r = catch_unwind(AssertUnwindSafe(|| server.flush_outgoing_writes()));
        let deltas = self.observe_client_deltas();
        let mut w_by_fd: BTreeMap<RawFd, Vec<u8>> = BTreeMap::new();
        for (i, d) in &deltas {
            if let Some(fd) = self.clients[*i].srv_fd {
                w_by_fd.insert(fd, d.clone());
            }
        }
        // budget per connection the server still holds: what the socket accepted
        let mut budgets = vec![];
        for (fd, i) in &self.by_fd {
            let d = w_by_fd.get(fd).map(|v| v.len()).unwrap_or(0);
            let dead = self.clients[*i].rd_shut || self.clients[*i].closed;
            budgets.push(format!("{}:{}{}", fd, d, if dead { "x" } else { "" }));
        }
        let w_txt: Vec<String> = w_by_fd.iter().map(|(fd, b)| format!("{}:{}", fd, hx(b))).collect();
        let out = if r.is_err() { "PANIC".to_string() } else { format!("ok w=[{}] {}", w_txt.join(","), self.interest_text()) };
        self.emit(rec, format!("srv flushb {}", budgets.join(" ")), out);
    }

    /// server-side descriptors currently open beyond the baseline (listener, epoll, kill switch, connections)
    pub fn server_fds(&self) -> BTreeSet<RawFd> {
        let now = open_fds();
        let client_fds: BTreeSet<RawFd> = self.clients.iter().filter_map(|c| c.sock.as_ref().map(|s| s.as_raw_fd())).collect();
        let kill_h = self.kill.as_ref().map(|k| k.as_raw_fd());
        now.difference(&self.base_fds).filter(|fd| !client_fds.contains(fd) && Some(**fd) != kill_h).cloned().collect()
    }

    pub fn teardown(&mut self) {
        inject::disarm_all();
        self.armed_recv.clear();
        self.armed_write.clear();
        self.held.clear();
        self.clients.clear();
        self.server = None;
        let _ = std::fs::remove_file(&self.path);
    }
}

impl Drop for World {
    fn drop(&mut self) {
        let _ = std::fs::remove_file(&self.path);
    }
}

/// Split a client's received bytes into responses: (status, body) — a small independent reader.
pub fn split_responses(mut b: &[u8]) -> (Vec<(u16, Vec<u8>)>, usize) {
    let mut out = vec![];
    loop {
        if b.is_empty() {
            return (out, 0);
        }
        let head_end = match b.windows(4).position(|w| w == b"\r\n\r\n") {
            Some(p) => p + 4,
            None => return (out, b.len()),
        };
        let head = &b[..head_end];
        let text = String::from_utf8_lossy(head).to_string();
        let mut lines = text.split("\r\n");
        let status_line = lines.next().unwrap_or("");
        let code: u16 = status_line.split(' ').nth(1).and_then(|c| c.parse().ok()).unwrap_or(0);
        let mut cl = 0usize;
        for l in lines {
            if let Some(v) = l.strip_prefix("Content-Length: ") {
                cl = v.trim().parse().unwrap_or(0);
            }
        }
        if b.len() < head_end + cl {
            return (out, b.len());
        }
        out.push((code, b[head_end..head_end + cl].to_vec()));
        b = &b[head_end + cl..];
    }
}
