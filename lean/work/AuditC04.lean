import MicroHttp.Props.C04
import MicroHttp.Props.Tables
import MicroHttp.Props.C01
import MicroHttp.Props.C04Limit
#print axioms MicroHttp.C04.payload_iff
#print axioms MicroHttp.C04.payload_error
#print axioms MicroHttp.C04.payload_rejected_early
#print axioms MicroHttp.C04.body_bound
#print axioms MicroHttp.C04.line_within
#print axioms MicroHttp.C04.line_too_long
#print axioms MicroHttp.C04.server_limit
#print axioms MicroHttp.C04.bad_request_reports
#print axioms MicroHttp.Tables.buffer_size
#print axioms MicroHttp.Tables.max_payload_size
#print axioms MicroHttp.Tables.crlf_len
#print axioms MicroHttp.C01.tryRead_refines
#print axioms MicroHttp.C01.sched_refines
#print axioms MicroHttp.Tables.display_request_error_templates
#print axioms MicroHttp.Tables.display_header_error_templates
#print axioms MicroHttp.Tables.invalid_method_texts
#print axioms MicroHttp.Tables.invalid_version_texts
#print axioms MicroHttp.Tables.invalid_uri_texts
#print axioms MicroHttp.Tables.bad_request_prefix
#print axioms MicroHttp.Tables.bad_request_suffix
#print axioms MicroHttp.Tables.header_error_display
#print axioms MicroHttp.Tables.request_error_display
#print axioms MicroHttp.Tables.bad_request_body
#print axioms MicroHttp.C04.setLimit_only_limit
#print axioms MicroHttp.C04.read_after_setLimit
#print axioms MicroHttp.Tables.no_shared_state
#print axioms MicroHttp.Tables.no_interior_mutability
#print axioms MicroHttp.Tables.server_new
#print axioms MicroHttp.Tables.server_new_from_fd
#print axioms MicroHttp.Tables.server_set_limit
#print axioms MicroHttp.Tables.conn_set_limit
#print axioms MicroHttp.Tables.accept_configures_limit
#print axioms MicroHttp.Tables.conn_fields
#print axioms MicroHttp.Tables.client_fields
#print axioms MicroHttp.Tables.server_fields
