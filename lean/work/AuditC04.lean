import MicroHttp.Props.C04
import MicroHttp.Props.Tables
import MicroHttp.Props.C01
#print axioms MicroHttp.C04.payload_iff
#print axioms MicroHttp.C04.payload_error
#print axioms MicroHttp.C04.payload_rejected_early
#print axioms MicroHttp.C04.body_bound
#print axioms MicroHttp.C04.line_within
#print axioms MicroHttp.C04.line_too_long
#print axioms MicroHttp.C04.server_limit
#print axioms MicroHttp.C04.bad_request_reports
#print axioms MicroHttp.Tables.buffer_size
#print axioms MicroHttp.Tables.max_payload_size
#print axioms MicroHttp.Tables.crlf_len
#print axioms MicroHttp.C01.tryRead_refines
#print axioms MicroHttp.C01.sched_refines
