import MicroHttp.Props.C01
import MicroHttp.Props.C01Buffer
import MicroHttp.Props.C01IO
import MicroHttp.Props.Tables
#print axioms MicroHttp.C01.tryRead_err
#print axioms MicroHttp.C01.tryRead_eof
#print axioms MicroHttp.C01.tryRead_refines
#print axioms MicroHttp.C01.sched_refines
#print axioms MicroHttp.C01.stream_determines
#print axioms MicroHttp.C01.schedule_independent
#print axioms MicroHttp.C01.feed_append
#print axioms MicroHttp.C01.new00_abs
#print axioms MicroHttp.C01.tryRead00_simulates
#print axioms MicroHttp.C01.reads00_simulate
#print axioms MicroHttp.C01.copyLoop_spec
#print axioms MicroHttp.C01.zeroLoop_spec
#print axioms MicroHttp.C01.write_keeps_input
#print axioms MicroHttp.C01.read_respects_input
#print axioms MicroHttp.C01.output_side_invisible
#print axioms MicroHttp.C01.history_input_is_reads_only
#print axioms MicroHttp.Tables.no_shared_state
#print axioms MicroHttp.Tables.no_interior_mutability
#print axioms MicroHttp.Tables.conn_new
#print axioms MicroHttp.Tables.conn_fields
#print axioms MicroHttp.Tables.reset_block
