import MicroHttp.Props.C01
#print axioms MicroHttp.C01.tryRead_err
#print axioms MicroHttp.C01.tryRead_eof
#print axioms MicroHttp.C01.tryRead_refines
#print axioms MicroHttp.C01.sched_refines
#print axioms MicroHttp.C01.stream_determines
#print axioms MicroHttp.C01.schedule_independent
#print axioms MicroHttp.C01.feed_append
