import MicroHttp.Props.C17
import MicroHttp.Props.Tables
#print axioms MicroHttp.C17.routeKey_injective
#print axioms MicroHttp.C17.dispatch_first_registered
#print axioms MicroHttp.C17.addRoute_duplicate
#print axioms MicroHttp.C17.addRoute_fresh
#print axioms MicroHttp.C17.handle_spec
#print axioms MicroHttp.Tables.no_shared_state
#print axioms MicroHttp.Tables.no_interior_mutability
#print axioms MicroHttp.Tables.method_to_str
#print axioms MicroHttp.Tables.router_add_key
#print axioms MicroHttp.Tables.router_add
#print axioms MicroHttp.Tables.router_dispatch_key
#print axioms MicroHttp.Tables.router_handle
#print axioms MicroHttp.Tables.uri_abs_path
#print axioms MicroHttp.Tables.routes_fields
