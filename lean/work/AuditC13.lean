import MicroHttp.Props.C13
import MicroHttp.Props.C01
import MicroHttp.Props.Tables
#print axioms MicroHttp.C13.cont_iff
#print axioms MicroHttp.C13.cont_only_at_end_of_headers
#print axioms MicroHttp.C13.body_byte_no_cont
#print axioms MicroHttp.C13.cont_before_body
#print axioms MicroHttp.C13.cont_response
#print axioms MicroHttp.C13.server_switches_to_out
#print axioms MicroHttp.C01.tryRead_refines
#print axioms MicroHttp.C01.sched_refines
#print axioms MicroHttp.Tables.no_shared_state
#print axioms MicroHttp.Tables.no_interior_mutability
#print axioms MicroHttp.Tables.server_set_limit
#print axioms MicroHttp.Tables.conn_set_limit
#print axioms MicroHttp.Tables.accept_configures_limit
#print axioms MicroHttp.Tables.conn_fields
#print axioms MicroHttp.Tables.reset_block
#print axioms MicroHttp.Tables.client_fields
