import MicroHttp.Props.C15
import MicroHttp.Props.C15Fold
import MicroHttp.Props.Tables
#print axioms MicroHttp.C15.name_case_insensitive
#print axioms MicroHttp.C15.name_recognised
#print axioms MicroHttp.C15.trim_padding
#print axioms MicroHttp.C15.splitOnce_mkLine
#print axioms MicroHttp.C15.no_colon_fatal
#print axioms MicroHttp.C15.non_utf8_fatal
#print axioms MicroHttp.C15.content_length_rule
#print axioms MicroHttp.C15.accept_rule
#print axioms MicroHttp.C15.content_type_server_rule
#print axioms MicroHttp.C15.expect_rule
#print axioms MicroHttp.C15.transfer_encoding_rule
#print axioms MicroHttp.C15.accept_encoding_rule
#print axioms MicroHttp.C15.encoding_rejects_iff
#print axioms MicroHttp.C15.custom_rule
#print axioms MicroHttp.C15.insertCustom_lookup
#print axioms MicroHttp.C15.fatal_iff
#print axioms MicroHttp.C15.block_eq_lines
#print axioms MicroHttp.C15.content_length_last_wins
#print axioms MicroHttp.C15.expect_any
#print axioms MicroHttp.C15.accept_last_wins
#print axioms MicroHttp.C15.chunked_any
#print axioms MicroHttp.C15.custom_last_wins
#print axioms MicroHttp.C15.untouched_fields
#print axioms MicroHttp.Tables.header_raw
#print axioms MicroHttp.Tables.header_tryFrom
#print axioms MicroHttp.Tables.media_tryFrom
#print axioms MicroHttp.Tables.no_shared_state
#print axioms MicroHttp.Tables.no_interior_mutability
#print axioms MicroHttp.Tables.headers_fields
