import MicroHttp.Props.C11
import MicroHttp.Props.Tables
#print axioms MicroHttp.C11.reset_after_error
#print axioms MicroHttp.C11.read_depends_on_parser_only
#print axioms MicroHttp.C11.after_error_like_new
#print axioms MicroHttp.C11.rejected_request_dropped
#print axioms MicroHttp.C11.server_yields_nothing_on_error
#print axioms MicroHttp.Tables.no_shared_state
#print axioms MicroHttp.Tables.no_interior_mutability
#print axioms MicroHttp.Tables.conn_new
#print axioms MicroHttp.Tables.conn_fields
#print axioms MicroHttp.Tables.reset_block
#print axioms MicroHttp.Tables.reset_is_model
#print axioms MicroHttp.Tables.client_fields
