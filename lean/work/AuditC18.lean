import MicroHttp.Props.C18
#print axioms MicroHttp.C18.kill_wins
#print axioms MicroHttp.C18.registered_fits_batch
#print axioms MicroHttp.C18.transparent
#print axioms MicroHttp.C18.kill_switch_kept
