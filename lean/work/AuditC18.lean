import MicroHttp.Props.C18
import MicroHttp.Props.C18History
import MicroHttp.Props.C18Transparent
import MicroHttp.Props.Tables
#print axioms MicroHttp.C18.kill_wins
#print axioms MicroHttp.C18.registered_fits_batch
#print axioms MicroHttp.C18.transparent
#print axioms MicroHttp.C18.kill_switch_kept
#print axioms MicroHttp.C18.step_keeps_kill
#print axioms MicroHttp.C18.history_keeps_kill
#print axioms MicroHttp.C18.every_poll_with_kill_reports_shutdown
#print axioms MicroHttp.C18.from_new
#print axioms MicroHttp.C18.step_setKill
#print axioms MicroHttp.C18.run_setKill
#print axioms MicroHttp.C18.transparent_history
#print axioms MicroHttp.Tables.event_array_extra
#print axioms MicroHttp.Tables.max_connections
#print axioms MicroHttp.Tables.no_shared_state
#print axioms MicroHttp.Tables.no_interior_mutability
#print axioms MicroHttp.Tables.server_new
#print axioms MicroHttp.Tables.server_new_from_fd
#print axioms MicroHttp.Tables.client_fields
#print axioms MicroHttp.Tables.server_fields
