import MicroHttp.Props.C07
#print axioms MicroHttp.C07.yielded_tokens
#print axioms MicroHttp.C07.outstanding_token_identifies
#print axioms MicroHttp.C07.respond_routes
#print axioms MicroHttp.C07.respond_unknown_dropped
#print axioms MicroHttp.C07.respond_closed_dropped
#print axioms MicroHttp.C07.event_frame
#print axioms MicroHttp.C07.wrote_own_bytes
#print axioms MicroHttp.C07.server_reply_to_own_input
