import MicroHttp.Props.C07
import MicroHttp.Props.C07History
import MicroHttp.Props.C08System
import MicroHttp.Props.C10History
import MicroHttp.Props.Tables
#print axioms MicroHttp.C07.yielded_tokens
#print axioms MicroHttp.C07.outstanding_token_identifies
#print axioms MicroHttp.C07.respond_routes
#print axioms MicroHttp.C07.respond_unknown_dropped
#print axioms MicroHttp.C07.respond_closed_dropped
#print axioms MicroHttp.C07.event_frame
#print axioms MicroHttp.C07.wrote_own_bytes
#print axioms MicroHttp.C07.server_reply_to_own_input
#print axioms MicroHttp.C07.token_identifies_throughout
#print axioms MicroHttp.C07.every_answer_routed
#print axioms MicroHttp.C08.received_is_own_queue
#print axioms MicroHttp.C08.queue_is_answers_and_interims
#print axioms MicroHttp.C10.history_inv
#print axioms MicroHttp.C10.reachable
#print axioms MicroHttp.Tables.is_done_pred
#print axioms MicroHttp.Tables.client_enqueue
#print axioms MicroHttp.Tables.no_shared_state
#print axioms MicroHttp.Tables.no_interior_mutability
#print axioms MicroHttp.Tables.client_new
#print axioms MicroHttp.Tables.client_fields
#print axioms MicroHttp.Tables.server_fields
