import MicroHttp.Props.C09
import MicroHttp.Props.C09History
import MicroHttp.Props.C10History
import MicroHttp.Props.Tables
#print axioms MicroHttp.C09.poll_returns
#print axioms MicroHttp.C09.poll_ok_without_kill
#print axioms MicroHttp.C09.all_events_handled
#print axioms MicroHttp.C09.hangup_closes
#print axioms MicroHttp.C09.failed_write_closes
#print axioms MicroHttp.C09.closed_and_answered_is_swept
#print axioms MicroHttp.C09.others_unaffected
#print axioms MicroHttp.C09.stale_out_is_harmless
#print axioms MicroHttp.C09.call_succeeds
#print axioms MicroHttp.C09.no_call_ever_fails
#print axioms MicroHttp.C09.no_call_ever_fails_from_new
#print axioms MicroHttp.C10.respondMany_inv
#print axioms MicroHttp.C10.history_inv
#print axioms MicroHttp.Tables.client_write_state
#print axioms MicroHttp.Tables.no_shared_state
#print axioms MicroHttp.Tables.no_interior_mutability
#print axioms MicroHttp.Tables.client_fields
#print axioms MicroHttp.Tables.server_fields
