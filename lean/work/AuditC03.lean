import MicroHttp.Props.C03
import MicroHttp.Props.C04Limit
import MicroHttp.Props.Tables
#print axioms MicroHttp.C03.P0_wf
#print axioms MicroHttp.C03.inv_new
#print axioms MicroHttp.C03.tryRead_safe
#print axioms MicroHttp.C03.tryWrite_inv
#print axioms MicroHttp.C03.ops_safe
#print axioms MicroHttp.C03.oneShot_no_panic
#print axioms MicroHttp.C03.requestLine_no_panic
#print axioms MicroHttp.C04.body_survives_lower_limit
#print axioms MicroHttp.C04.setLimit_only_limit
#print axioms MicroHttp.Tables.no_shared_state
#print axioms MicroHttp.Tables.no_interior_mutability
#print axioms MicroHttp.Tables.conn_new
#print axioms MicroHttp.Tables.server_set_limit
#print axioms MicroHttp.Tables.conn_set_limit
#print axioms MicroHttp.Tables.accept_configures_limit
#print axioms MicroHttp.Tables.conn_fields
#print axioms MicroHttp.Tables.reset_block
