import MicroHttp.Props.C03
#print axioms MicroHttp.C03.P0_wf
#print axioms MicroHttp.C03.inv_new
#print axioms MicroHttp.C03.tryRead_safe
#print axioms MicroHttp.C03.tryWrite_inv
#print axioms MicroHttp.C03.ops_safe
#print axioms MicroHttp.C03.oneShot_no_panic
#print axioms MicroHttp.C03.requestLine_no_panic
