import MicroHttp.Props.C06
import MicroHttp.Props.C06IO
import MicroHttp.Props.Tables
#print axioms MicroHttp.C06.pending_iff
#print axioms MicroHttp.C06.enqueue_unsent
#print axioms MicroHttp.C06.tryWrite_spec
#print axioms MicroHttp.C06.history_prefix
#print axioms MicroHttp.C06.read_preserves_unsent
#print axioms MicroHttp.C06.pop_preserves_unsent
#print axioms MicroHttp.C06.history_prefix_io
#print axioms MicroHttp.Tables.pending_write_pred
#print axioms MicroHttp.Tables.no_shared_state
#print axioms MicroHttp.Tables.no_interior_mutability
#print axioms MicroHttp.Tables.conn_new
#print axioms MicroHttp.Tables.conn_fields
#print axioms MicroHttp.Tables.response_fields
