import MicroHttp.Props.C06
#print axioms MicroHttp.C06.pending_iff
#print axioms MicroHttp.C06.enqueue_unsent
#print axioms MicroHttp.C06.tryWrite_spec
#print axioms MicroHttp.C06.history_prefix
