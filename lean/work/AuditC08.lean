import MicroHttp.Props.C08
import MicroHttp.Props.C08Live
#print axioms MicroHttp.C08.respond_ok
#print axioms MicroHttp.C08.read_yields_deliveries
#print axioms MicroHttp.C08.respond_arms_out
#print axioms MicroHttp.C08.write_progress
#print axioms MicroHttp.C08.flush_delivers
#print axioms MicroHttp.C08.stale_out_repaired
#print axioms MicroHttp.C08.interest_follows_work
#print axioms MicroHttp.C08.no_spin
#print axioms MicroHttp.C08.no_lost_wakeup
#print axioms MicroHttp.C08.silent_means_idle
#print axioms MicroHttp.C08.batch_admissible
#print axioms MicroHttp.C08.poll_ok
#print axioms MicroHttp.C08.poll_progress
#print axioms MicroHttp.C08.lexLt_wf
