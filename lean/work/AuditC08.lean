import MicroHttp.Props.C08
#print axioms MicroHttp.C08.respond_ok
#print axioms MicroHttp.C08.read_yields_deliveries
#print axioms MicroHttp.C08.respond_arms_out
#print axioms MicroHttp.C08.write_progress
#print axioms MicroHttp.C08.flush_delivers
#print axioms MicroHttp.C08.stale_out_repaired
#print axioms MicroHttp.C08.interest_follows_work
