import MicroHttp.Props.C08
import MicroHttp.Props.C08History
import MicroHttp.Props.C08Live
import MicroHttp.Props.C08System
import MicroHttp.Props.Tables
#print axioms MicroHttp.C08.respond_ok
#print axioms MicroHttp.C08.read_yields_deliveries
#print axioms MicroHttp.C08.respond_arms_out
#print axioms MicroHttp.C08.write_progress
#print axioms MicroHttp.C08.flush_delivers
#print axioms MicroHttp.C08.stale_out_repaired
#print axioms MicroHttp.C08.interest_follows_work
#print axioms MicroHttp.C08.interest_follows_work_throughout
#print axioms MicroHttp.C08.every_answer_arms_out
#print axioms MicroHttp.C08.no_spin
#print axioms MicroHttp.C08.no_lost_wakeup
#print axioms MicroHttp.C08.silent_means_idle
#print axioms MicroHttp.C08.batch_admissible
#print axioms MicroHttp.C08.poll_ok
#print axioms MicroHttp.C08.poll_progress
#print axioms MicroHttp.C08.lexLt_wf
#print axioms MicroHttp.C08.system_inv
#print axioms MicroHttp.C08.sent_is_consumed_plus_unread
#print axioms MicroHttp.C08.yielded_is_spec
#print axioms MicroHttp.C08.received_is_own_queue
#print axioms MicroHttp.C08.queue_is_answers_and_interims
#print axioms MicroHttp.C08.answers_match_yields
#print axioms MicroHttp.C08.finitely_many_polls
#print axioms MicroHttp.C08.polls_end_idle
#print axioms MicroHttp.Tables.client_write_state
#print axioms MicroHttp.Tables.client_enqueue
#print axioms MicroHttp.Tables.no_shared_state
#print axioms MicroHttp.Tables.no_interior_mutability
#print axioms MicroHttp.Tables.server_new
#print axioms MicroHttp.Tables.server_new_from_fd
#print axioms MicroHttp.Tables.client_new
#print axioms MicroHttp.Tables.client_fields
#print axioms MicroHttp.Tables.server_fields
