import MicroHttp.Props.C02
import MicroHttp.Props.C01
import MicroHttp.Props.C01IO
import MicroHttp.Props.Tables
#print axioms MicroHttp.C02.reqline_precedence
#print axioms MicroHttp.C02.reqline_accept_iff
#print axioms MicroHttp.C02.grammar_accepted
#print axioms MicroHttp.C02.delivered_is_grammar
#print axioms MicroHttp.C02.prefix_requests_delivered
#print axioms MicroHttp.C02.first_bad_header_decides
#print axioms MicroHttp.C01.tryRead_refines
#print axioms MicroHttp.C01.sched_refines
#print axioms MicroHttp.C01.history_input_is_reads_only
#print axioms MicroHttp.Tables.no_shared_state
#print axioms MicroHttp.Tables.no_interior_mutability
#print axioms MicroHttp.Tables.conn_fields
#print axioms MicroHttp.Tables.headers_fields
#print axioms MicroHttp.Tables.request_fields
