import MicroHttp.Props.C16
import MicroHttp.Props.Tables
#print axioms MicroHttp.C16.method_tryFrom_iff
#print axioms MicroHttp.C16.method_tryFrom_none_iff
#print axioms MicroHttp.C16.method_roundtrip
#print axioms MicroHttp.C16.version_tryFrom_iff
#print axioms MicroHttp.C16.version_tryFrom_none_iff
#print axioms MicroHttp.C16.version_roundtrip
#print axioms MicroHttp.C16.media_tryFrom_iff
#print axioms MicroHttp.C16.media_roundtrip
#print axioms MicroHttp.C16.status_raw_eq_decimal
#print axioms MicroHttp.C16.status_raw_injective
#print axioms MicroHttp.C16.absPath_origin_form
#print axioms MicroHttp.C16.absPath_absolute_form
#print axioms MicroHttp.C16.absPath_other
#print axioms MicroHttp.C16.absPath_shape
#print axioms MicroHttp.Tables.method_raw
#print axioms MicroHttp.Tables.method_tryFrom
#print axioms MicroHttp.Tables.version_raw
#print axioms MicroHttp.Tables.version_tryFrom
#print axioms MicroHttp.Tables.media_as_str
#print axioms MicroHttp.Tables.media_tryFrom
#print axioms MicroHttp.Tables.status_raw
#print axioms MicroHttp.Tables.http_scheme_prefix
#print axioms MicroHttp.Tables.no_shared_state
#print axioms MicroHttp.Tables.method_to_str
#print axioms MicroHttp.Tables.uri_abs_path
#print axioms MicroHttp.Tables.fromFirstSlash_eq_dropWhile
