import MicroHttp.Props.C10
import MicroHttp.Props.C10Reap
import MicroHttp.Props.Tables
import MicroHttp.Props.C10History
#print axioms MicroHttp.C10.inv_new
#print axioms MicroHttp.C10.requests_inv
#print axioms MicroHttp.C10.respond_inv
#print axioms MicroHttp.C10.flush_inv
#print axioms MicroHttp.C10.refuse_at_capacity
#print axioms MicroHttp.C10.accept_below_capacity
#print axioms MicroHttp.C10.server_full_message
#print axioms MicroHttp.C10.reaped
#print axioms MicroHttp.C10.closed_released_when_answered
#print axioms MicroHttp.C10.only_done_are_dropped
#print axioms MicroHttp.Tables.max_connections
#print axioms MicroHttp.Tables.capacity_test_is_equality
#print axioms MicroHttp.Tables.server_full_message
#print axioms MicroHttp.C10.respondMany_inv
#print axioms MicroHttp.C10.step_inv
#print axioms MicroHttp.C10.history_inv
#print axioms MicroHttp.C10.reachable
#print axioms MicroHttp.C10.reaped_throughout
#print axioms MicroHttp.C10.refused_throughout
#print axioms MicroHttp.Tables.no_shared_state
#print axioms MicroHttp.Tables.no_interior_mutability
#print axioms MicroHttp.Tables.server_new
#print axioms MicroHttp.Tables.server_new_from_fd
#print axioms MicroHttp.Tables.client_new
#print axioms MicroHttp.Tables.client_fields
#print axioms MicroHttp.Tables.server_fields
