import MicroHttp.Props.C12
import MicroHttp.Props.C12Pop
import MicroHttp.Props.Tables
import MicroHttp.Props.C12Srv
#print axioms MicroHttp.C12.first_completer
#print axioms MicroHttp.C12.eof_keeps
#print axioms MicroHttp.C12.failed_read_keeps
#print axioms MicroHttp.C12.conservation
#print axioms MicroHttp.C12.pop_moves
#print axioms MicroHttp.C12.read_ignores_queue
#print axioms MicroHttp.C12.pop_timing_irrelevant
#print axioms MicroHttp.Tables.no_shared_state
#print axioms MicroHttp.Tables.no_interior_mutability
#print axioms MicroHttp.Tables.conn_new
#print axioms MicroHttp.C12Srv.client_write_keeps
#print axioms MicroHttp.C12Srv.respond_keeps
#print axioms MicroHttp.C12Srv.respondMany_keeps
#print axioms MicroHttp.C12Srv.out_event_keeps
#print axioms MicroHttp.C12Srv.flush_keeps
#print axioms MicroHttp.C12Srv.output_side_keeps_inputs
#print axioms MicroHttp.C12Srv.pending_descriptors_survive_output
#print axioms MicroHttp.Tables.conn_fields
#print axioms MicroHttp.Tables.reset_block
#print axioms MicroHttp.Tables.request_fields
