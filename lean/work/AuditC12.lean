import MicroHttp.Props.C12
#print axioms MicroHttp.C12.first_completer
#print axioms MicroHttp.C12.eof_keeps
#print axioms MicroHttp.C12.failed_read_keeps
#print axioms MicroHttp.C12.conservation
#print axioms MicroHttp.C12.pop_moves
