import MicroHttp.Props.C05
#print axioms MicroHttp.C05.layout
#print axioms MicroHttp.C05.length_rule
#print axioms MicroHttp.C05.built_selfDelimiting
#print axioms MicroHttp.C05.roundtrip
#print axioms MicroHttp.C05.view_status_version
#print axioms MicroHttp.C05.sink_independent
