import MicroHttp.Props.C05
import MicroHttp.Props.Tables
#print axioms MicroHttp.C05.layout
#print axioms MicroHttp.C05.length_rule
#print axioms MicroHttp.C05.built_selfDelimiting
#print axioms MicroHttp.C05.roundtrip
#print axioms MicroHttp.C05.view_status_version
#print axioms MicroHttp.C05.sink_independent
#print axioms MicroHttp.Tables.default_server
#print axioms MicroHttp.Tables.allow_delimiter
#print axioms MicroHttp.Tables.response_literals
#print axioms MicroHttp.Tables.response_literals_used
#print axioms MicroHttp.Tables.status_raw
#print axioms MicroHttp.Tables.version_raw
#print axioms MicroHttp.Tables.response_writer
#print axioms MicroHttp.Tables.allow_loop
#print axioms MicroHttp.Tables.response_new
#print axioms MicroHttp.Tables.response_apply
#print axioms MicroHttp.Tables.response_build
#print axioms MicroHttp.Tables.no_shared_state
#print axioms MicroHttp.Tables.no_interior_mutability
#print axioms MicroHttp.Tables.response_fields
