import MicroHttp.Props.C14
import MicroHttp.Props.C01
import MicroHttp.Props.Tables
#print axioms MicroHttp.C14.oneshot_sound
#print axioms MicroHttp.C14.conn_complete
#print axioms MicroHttp.C14.get_with_body_rejected
#print axioms MicroHttp.C14.max_rejects
#print axioms MicroHttp.C14.max_irrelevant
#print axioms MicroHttp.C01.tryRead_refines
#print axioms MicroHttp.C01.sched_refines
#print axioms MicroHttp.Tables.no_shared_state
#print axioms MicroHttp.Tables.no_interior_mutability
#print axioms MicroHttp.Tables.conn_fields
#print axioms MicroHttp.Tables.headers_fields
#print axioms MicroHttp.Tables.request_fields
