import MicroHttp.Props.C14
#print axioms MicroHttp.C14.oneshot_sound
#print axioms MicroHttp.C14.conn_complete
#print axioms MicroHttp.C14.get_with_body_rejected
#print axioms MicroHttp.C14.max_rejects
#print axioms MicroHttp.C14.max_irrelevant
