/-
  MicroHttp.Headers — `RequestError` / `HttpHeaderError` (common/mod.rs) and
  `Header::try_from`, `Headers::{parse_header_line, try_from}`, `Encoding::try_from` (common/headers.rs).
-/
import MicroHttp.Tokens
namespace MicroHttp

/-- `HttpHeaderError` (payload strings as UTF-8 bytes). -/
inductive HeaderErr
  | invalidFormat (key : List Byte)
  | invalidUtf8 (e : Utf8Error)
  | invalidValue (key value : List Byte)
  | sizeLimitExceeded (s : List Byte)
  | unsupportedName (key : List Byte)
  | unsupportedValue (key value : List Byte)
  deriving DecidableEq, Repr

inductive UriErr | empty | notUtf8
  deriving DecidableEq, Repr

/-- `RequestError`. -/
inductive ReqErr
  | bodyWithoutPendingRequest
  | headerError (e : HeaderErr)
  | headersWithoutPendingRequest
  | invalidHttpMethod
  | invalidHttpVersion
  | invalidRequest
  | invalidUri (k : UriErr)
  | overflow
  | underflow
  | sizeLimitExceeded (limit size : Nat)
  deriving DecidableEq, Repr

/-- Why a model step stopped abnormally: a reported error, or a Rust panic. -/
inductive Fault
  | parse (e : ReqErr)
  | panic (p : Panic)
  deriving DecidableEq, Repr

inductive Header
  | contentLength | contentType | expect | transferEncoding | server | accept | acceptEncoding
  deriving DecidableEq, Repr

def Header.raw : Header → List Byte
  | .contentLength => [0x43, 0x6F, 0x6E, 0x74, 0x65, 0x6E, 0x74, 0x2D, 0x4C, 0x65, 0x6E, 0x67, 0x74, 0x68] /- "Content-Length" -/
  | .contentType => [0x43, 0x6F, 0x6E, 0x74, 0x65, 0x6E, 0x74, 0x2D, 0x54, 0x79, 0x70, 0x65] /- "Content-Type" -/
  | .expect => [0x45, 0x78, 0x70, 0x65, 0x63, 0x74] /- "Expect" -/
  | .transferEncoding => [0x54, 0x72, 0x61, 0x6E, 0x73, 0x66, 0x65, 0x72, 0x2D, 0x45, 0x6E, 0x63, 0x6F, 0x64, 0x69, 0x6E, 0x67] /- "Transfer-Encoding" -/
  | .server => [0x53, 0x65, 0x72, 0x76, 0x65, 0x72] /- "Server" -/
  | .accept => [0x41, 0x63, 0x63, 0x65, 0x70, 0x74] /- "Accept" -/
  | .acceptEncoding => [0x41, 0x63, 0x63, 0x65, 0x70, 0x74, 0x2D, 0x45, 0x6E, 0x63, 0x6F, 0x64, 0x69, 0x6E, 0x67] /- "Accept-Encoding" -/

def Header.all : List Header :=
  [.contentLength, .contentType, .expect, .transferEncoding, .server, .accept, .acceptEncoding]

/-- `Header::try_from` (the error value is never inspected by callers: `if let Ok(head) = …`). -/
def Header.tryFrom (name : List Byte) : Option Header :=
  if !isUtf8 name then none
  else
    let t := trim (asciiLower name)
    Header.all.find? (fun h => asciiLower h.raw = t)

/-- `Headers` of a request. `custom` is the `HashMap<String,String>` as an association list
    (at most one entry per key, newest value). -/
structure Headers where
  contentLength : Nat := 0
  expect : Bool := false
  chunked : Bool := false
  accept : MediaType := .plainText
  custom : List (List Byte × List Byte) := []
  deriving DecidableEq, Repr

def Headers.default : Headers := {}

def insertCustom (m : List (List Byte × List Byte)) (k v : List Byte) : List (List Byte × List Byte) :=
  (m.filter (fun e => e.1 ≠ k)) ++ [(k, v)]

/-- `Encoding::try_from`. -/
def Encoding.tryFrom (bs : List Byte) : Except ReqErr Unit :=
  if bs.isEmpty then .error .invalidRequest
  else
    match utf8Check bs with
    | .error e => .error (.headerError (.invalidUtf8 e))
    | .ok _ =>
      let hasIdentity := containsSub ([0x69, 0x64, 0x65, 0x6E, 0x74, 0x69, 0x74, 0x79] /- "identity" -/) bs
      let rec go : List (List Byte) → Except ReqErr Unit
        | [] => .ok ()
        | enc :: rest =>
          let t := trim enc
          if t = [0x69, 0x64, 0x65, 0x6E, 0x74, 0x69, 0x74, 0x79, 0x3B, 0x71, 0x3D, 0x30] /- "identity;q=0" -/ then
            .error (.headerError (.invalidValue ([0x41, 0x63, 0x63, 0x65, 0x70, 0x74, 0x2D, 0x45, 0x6E, 0x63, 0x6F, 0x64, 0x69, 0x6E, 0x67] /- "Accept-Encoding" -/) enc))
          else if t = [0x2A, 0x3B, 0x71, 0x3D, 0x30] /- "*;q=0" -/ && !hasIdentity then
            .error (.headerError (.invalidValue ([0x41, 0x63, 0x63, 0x65, 0x70, 0x74, 0x2D, 0x45, 0x6E, 0x63, 0x6F, 0x64, 0x69, 0x6E, 0x67] /- "Accept-Encoding" -/) enc))
          else go rest
      go (splitOn COMMA bs)

/-- `Headers::parse_header_line`. -/
def Headers.parseHeaderLine (h : Headers) (line : List Byte) : Except ReqErr Headers :=
  match utf8Check line with
  | .error e => .error (.headerError (.invalidUtf8 e))
  | .ok _ =>
    match splitOnce COLON line with
    | (k, none) => .error (.headerError (.invalidFormat k))
    | (k, some v) =>
      match Header.tryFrom k with
      | some .contentLength =>
        match parseU32 (trim v) with
        | some n => .ok { h with contentLength := n }
        | none => .error (.headerError (.invalidValue k v))
      | some .contentType =>
        match MediaType.tryFrom (trim v) with
        | some _ => .ok h
        | none => .error (.headerError (.unsupportedValue k v))
      | some .accept =>
        match MediaType.tryFrom (trim v) with
        | some m => .ok { h with accept := m }
        | none => .error (.headerError (.unsupportedValue k v))
      | some .transferEncoding =>
        let t := trim v
        if t = [0x63, 0x68, 0x75, 0x6E, 0x6B, 0x65, 0x64] /- "chunked" -/ then .ok { h with chunked := true }
        else if t = [0x69, 0x64, 0x65, 0x6E, 0x74, 0x69, 0x74, 0x79] /- "identity" -/ then .ok h
        else .error (.headerError (.unsupportedValue k v))
      | some .expect =>
        if trim v = [0x31, 0x30, 0x30, 0x2D, 0x63, 0x6F, 0x6E, 0x74, 0x69, 0x6E, 0x75, 0x65] /- "100-continue" -/ then .ok { h with expect := true }
        else .error (.headerError (.unsupportedValue k v))
      | some .server => .ok h
      | some .acceptEncoding =>
        match Encoding.tryFrom (trim v) with
        | .ok _ => .ok h
        | .error e => .error e
      | none => .ok { h with custom := insertCustom h.custom (trim k) (trim v) }

def isUnsupportedValue : ReqErr → Bool
  | .headerError (.unsupportedValue _ _) => true
  | _ => false

/-- The rule shared by `Headers::try_from` and `HttpConnection::parse_headers`:
    an `UnsupportedValue` is ignored, every other error is fatal. -/
def Headers.applyLine (h : Headers) (line : List Byte) : Except ReqErr Headers :=
  match h.parseHeaderLine line with
  | .ok h' => .ok h'
  | .error e => if isUnsupportedValue e then .ok h else .error e

def Headers.foldLines : Headers → List (List Byte) → Except ReqErr Headers
  | h, [] => .ok h
  | h, l :: ls =>
    if l.isEmpty then .ok h
    else match h.applyLine l with
      | .ok h' => Headers.foldLines h' ls
      | .error e => .error e

/-- `Headers::try_from`. -/
def Headers.tryFrom (bs : List Byte) : Except ReqErr Headers :=
  if isUtf8 bs then Headers.foldLines Headers.default (splitCRLF bs)
  else .error .invalidRequest

end MicroHttp
