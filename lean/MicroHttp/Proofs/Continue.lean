/-
  Proofs.Continue — where the automaton emits the interim `100 Continue` (C13).
-/
import MicroHttp.Proofs.Feed
import MicroHttp.Server
namespace MicroHttp
variable {RL H : Type}

theorem cont_iff' (P : Params RL H) (L : Nat) (r : Req RL H) (a : Abs RL H) (outs : List (Out RL H))
    (h : processLine P L (.hdrs r) [] = .ok (a, outs)) :
    conts outs =
      if P.expect r.headers = true ∧ 0 < P.clen r.headers ∧ P.clen r.headers ≤ L
      then [P.contOf r.line] else [] := by
  simp only [processLine] at h
  split at h
  · rename_i h0
    cases h
    simp [conts, h0]
  · rename_i h0
    split at h
    · cases h
    · rename_i hL
      cases h
      by_cases he : P.expect r.headers = true
      · rw [if_pos he, if_pos ⟨he, by omega, by omega⟩]; rfl
      · rw [if_neg he, if_neg (fun h => he h.1)]; rfl

theorem cont_only_at_end_of_headers' (P : Params RL H) (L : Nat) (ph : Phase RL H) (l : List Byte)
    (a : Abs RL H) (outs : List (Out RL H)) (h : processLine P L ph l = .ok (a, outs))
    (hnot : ∀ r, ¬ (ph = .hdrs r ∧ l = [])) : conts outs = [] := by
  cases ph with
  | line =>
    simp only [processLine] at h
    split at h
    · cases h
    · cases h
    · cases h; rfl
  | hdrs r =>
    cases l with
    | nil => exact absurd ⟨rfl, rfl⟩ (hnot r)
    | cons y ys =>
      simp only [processLine] at h
      split at h
      · cases h
      · cases h; rfl
  | body r g n =>
    simp only [processLine] at h
    cases h; rfl

theorem body_byte_no_cont' (P : Params RL H) (L : Nat) (r : Req RL H) (got : List Byte) (need : Nat) (acc : List Byte)
    (b : Byte) (a : Abs RL H) (outs : List (Out RL H))
    (h : feedByte P L ⟨.body r got need, acc⟩ b = .ok (a, outs)) : conts outs = [] := by
  simp only [feedByte] at h
  split at h
  · cases h; rfl
  · cases h; rfl

/-- feeding the blank line CR LF in the `hdrs` phase is `processLine … []` -/
theorem feed_blank (P : Params RL H) (hB : 1 < P.B) (L : Nat) (r : Req RL H) (rest : List Byte) :
    feed P L ⟨.hdrs r, []⟩ (CRLF ++ rest) =
      match processLine P L (.hdrs r) [] with
      | .error e => ([], .error e)
      | .ok (a', o) => let (os, r) := feed P L a' rest; (o ++ os, r) := by
  have h := feed_line P L (.hdrs r) rfl CRLF 0 (by simp [findCRLF, CRLF]) (by omega) rest
  exact h

theorem cont_before_body' (P : Params RL H) (hB : 1 < P.B) (L : Nat) (r : Req RL H)
    (he : P.expect r.headers = true) (h0 : 0 < P.clen r.headers) (hL : P.clen r.headers ≤ L) :
    feed P L ⟨.hdrs r, []⟩ CRLF =
      ([.cont (P.contOf r.line)], .ok ⟨.body { r with body := some [] } [] (P.clen r.headers), []⟩) := by
  have h := feed_blank P hB L r []
  rw [List.append_nil] at h
  rw [h]
  simp [processLine, show ¬ P.clen r.headers = 0 by omega, show ¬ P.clen r.headers > L by omega, he, feed]

theorem cont_response' (rl : RequestLine) :
    (P0.contOf rl).status = .continue_ ∧ (P0.contOf rl).version = rl.version ∧
    (P0.contOf rl).contentLength = none ∧ (P0.contOf rl).body = none := by
  simp [P0, Response.new]

theorem server_switches_to_out' (c : Client) (rd : Recv) (t : List Byte) (c' : Client) (reqs : List Request)
    (h : c.read rd t = (c', reqs, none)) (hpw : pendingWrite c'.conn = true) (hc : c'.state ≠ .closed) :
    c'.state = .awaitingOut := by
  have key : ∀ (conn : Conn0) (cA cB : Client), cA.conn = conn → cB.conn = conn → cA.state = .awaitingOut →
      pendingWrite (if pendingWrite conn then cA else cB).conn = true →
      (if pendingWrite conn then cA else cB).state = .awaitingOut := by
    intro conn cA cB hA hB hs h
    by_cases hp : pendingWrite conn = true
    · simp [hp, hs]
    · simp [hp, hB] at h
  unfold Client.read at h
  cases htr : tryRead P0 c.conn rd with
  | mk conn' out =>
    rw [htr] at h
    cases out with
    | closed =>
      simp only at h
      obtain ⟨rfl, _⟩ := Prod.mk.inj h
      exact absurd rfl hc
    | panic p =>
      simp only at h
      have := (Prod.mk.inj (Prod.mk.inj h).2).2
      cases this
    | streamErr e =>
      simp only at h
      obtain ⟨rfl, _⟩ := Prod.mk.inj h
      exact key _ _ _ rfl rfl rfl hpw
    | parseErr e =>
      simp only at h
      obtain ⟨rfl, _⟩ := Prod.mk.inj h
      exact key _ _ _ rfl rfl rfl hpw
    | ok =>
      simp only at h
      obtain ⟨rfl, _⟩ := Prod.mk.inj h
      exact key _ _ _ rfl rfl rfl hpw

end MicroHttp
