/-
  `decimal` / `digitsVal` round trip and digit-only output (used by C05 `roundtrip`).
-/
import MicroHttp.Bytes
namespace MicroHttp.DigitLemmas
open MicroHttp

theorem digit_toNat (d : Nat) (h : d < 10) : ((0x30 : UInt8) + d.toUInt8).toNat = 48 + d := by
  have h48 : (0x30 : UInt8).toNat = 48 := rfl
  simp only [UInt8.toNat_add, Nat.toUInt8_eq, UInt8.toNat_ofNat', h48]
  omega

theorem digit_isDigit (d : Nat) (h : d < 10) : isDigit ((0x30 : UInt8) + d.toUInt8) = true := by
  have := digit_toNat d h
  have h48 : (0x30 : UInt8).toNat = 48 := rfl
  have h57 : (0x39 : UInt8).toNat = 57 := rfl
  simp only [isDigit, Bool.and_eq_true, decide_eq_true_eq, UInt8.le_iff_toNat_le, this, h48, h57]
  omega

theorem digitsVal_natDigits (fuel n : Nat) (acc : List Byte) (h : n < fuel) :
    ∃ k, ∀ a, digitsVal a (natDigits fuel n acc) = digitsVal (a * 10 ^ k + n) acc := by
  induction fuel generalizing n acc with
  | zero => omega
  | succ fuel ih =>
    rw [natDigits]
    have hd : n % 10 < 10 := Nat.mod_lt _ (by omega)
    have hstep : ∀ a, digitsVal a ((0x30 + (n % 10).toUInt8) :: acc) = digitsVal (a * 10 + n % 10) acc := by
      intro a
      rw [digitsVal, digit_isDigit _ hd, if_pos rfl, digit_toNat _ hd]
      congr 1
      omega
    by_cases hq : n / 10 = 0
    · simp only [hq, if_true]
      refine ⟨1, fun a => ?_⟩
      rw [hstep]; congr 1; omega
    · simp only [hq, if_false]
      obtain ⟨k, hk⟩ := ih (n / 10) ((0x30 + (n % 10).toUInt8) :: acc) (by omega)
      refine ⟨k + 1, fun a => ?_⟩
      rw [hk, hstep]
      congr 1
      rw [Nat.pow_succ, ← Nat.mul_assoc]
      generalize a * 10 ^ k = X
      omega

theorem digitsVal_decimal (n : Nat) : digitsVal 0 (decimal n) = some n := by
  obtain ⟨k, hk⟩ := digitsVal_natDigits (n + 1) n [] (by omega)
  rw [decimal, hk]; simp [digitsVal]

theorem natDigits_mem (fuel n : Nat) (acc : List Byte) :
    ∀ b ∈ natDigits fuel n acc, isDigit b = true ∨ b ∈ acc := by
  induction fuel generalizing n acc with
  | zero => intro b hb; exact Or.inr hb
  | succ fuel ih =>
    rw [natDigits]
    have hd : n % 10 < 10 := Nat.mod_lt _ (by omega)
    intro b hb
    have key : ∀ b ∈ ((0x30 + (n % 10).toUInt8) :: acc), isDigit b = true ∨ b ∈ acc := by
      intro b hb
      rcases List.mem_cons.1 hb with rfl | hb
      · exact Or.inl (digit_isDigit _ hd)
      · exact Or.inr hb
    by_cases hq : n / 10 = 0
    · simp only [hq, if_true] at hb; exact key b hb
    · simp only [hq, if_false] at hb
      rcases ih _ _ b hb with h | h
      · exact Or.inl h
      · exact key b h

theorem decimal_digits (n : Nat) : ∀ b ∈ decimal n, isDigit b = true := by
  intro b hb
  rcases natDigits_mem _ _ _ b hb with h | h
  · exact h
  · cases h

theorem decimalInt_nonneg (i : Int) (h : 0 ≤ i) : decimalInt i = decimal i.toNat := by
  unfold decimalInt
  rw [if_neg (by omega)]
  congr 1
  omega

end MicroHttp.DigitLemmas
