/-
  C05 `roundtrip`: the independent reader (`Spec/RespReader`) recovers every self-delimiting
  response from any concatenation.
-/
import MicroHttp.Proofs.ResponseLemmas
import MicroHttp.Proofs.DigitLemmas
namespace MicroHttp.ReaderLemmas
open MicroHttp MicroHttp.ResponseLemmas MicroHttp.DigitLemmas

abbrev noCR (l : List Byte) : Prop := ∀ b ∈ l, b ≠ CR

theorem noCRLF_nil : noCRLF [] = true := rfl

theorem noCRLF_cons (a : Byte) (l : List Byte) :
    noCRLF (a :: l) = (!CRLF.isPrefixOf (a :: l) && noCRLF l) := by
  unfold noCRLF
  rw [find]
  by_cases h : CRLF.isPrefixOf (a :: l) = true
  · simp [h]
  · simp only [h, Bool.false_eq_true, if_false]
    cases find CRLF l <;> simp

theorem noCRLF_single (a : Byte) : noCRLF [a] = true := by
  rw [noCRLF_cons]; simp [CRLF, List.isPrefixOf, noCRLF_nil]

theorem noCRLF_cons_cons (a b : Byte) (l : List Byte) :
    noCRLF (a :: b :: l) = (!(a == CR && b == LF) && noCRLF (b :: l)) := by
  rw [noCRLF_cons]
  congr 2
  simp only [CRLF, List.isPrefixOf, Bool.and_true]
  rw [Bool.beq_comm (a := CR), Bool.beq_comm (a := LF)]

theorem takeLine_append (l rest : List Byte) (h : noCRLF l = true) :
    takeLine (l ++ CRLF ++ rest) = some (l, rest) := by
  induction l with
  | nil => simp [CRLF, takeLine]
  | cons a l ih =>
    cases l with
    | nil =>
      have : ¬ (CR = LF) := by decide
      simp [CRLF, takeLine, this]
    | cons b l =>
      rw [noCRLF_cons_cons] at h
      simp only [Bool.and_eq_true, Bool.not_eq_true', Bool.and_eq_false_iff, beq_eq_false_iff_ne] at h
      have ih' := ih h.2
      simp only [List.cons_append] at ih' ⊢
      rw [takeLine]
      have : ¬ (a = CR ∧ b = LF) := by
        rintro ⟨h1, h2⟩; rcases h.1 with h' | h' <;> contradiction
      rw [if_neg this, ih']

theorem noCRLF_of_noCR (l : List Byte) (h : noCR l) : noCRLF l = true := by
  induction l with
  | nil => rfl
  | cons a l ih =>
    rw [noCRLF_cons, ih (fun b hb => h b (by simp [hb]))]
    have : (CR == a) = false := by
      have := h a (by simp); simpa using fun e => this e.symm
    simp [CRLF, List.isPrefixOf, this]

theorem noCRLF_append_of_noCR (p s : List Byte) (hp : noCR p) (hs : noCRLF s = true) :
    noCRLF (p ++ s) = true := by
  induction p with
  | nil => exact hs
  | cons a p ih =>
    rw [List.cons_append, noCRLF_cons, ih (fun b hb => hp b (by simp [hb]))]
    have : (CR == a) = false := by
      have := hp a (by simp); simpa using fun e => this e.symm
    simp [CRLF, List.isPrefixOf, this]

theorem noCR_append {p s : List Byte} (hp : noCR p) (hs : noCR s) : noCR (p ++ s) := by
  intro b hb
  rcases List.mem_append.1 hb with h | h
  · exact hp b h
  · exact hs b h

theorem noCR_method (m : Method) : noCR m.raw := by
  cases m <;> decide

theorem noCR_allowPieces (ms : List Method) : noCR (allowPieces ms).flatten := by
  induction ms with
  | nil => intro b hb; simp [allowPieces] at hb
  | cons m ms ih =>
    cases ms with
    | nil => simpa [allowPieces] using noCR_method m
    | cons m' ms =>
      rw [allowPieces]
      · intro b hb
        simp only [List.flatten_cons, List.mem_append] at hb
        rcases hb with hb | hb | hb
        · exact noCR_method m b hb
        · revert b; decide
        · exact ih b hb
      · simp

theorem isDigit_ne_CR (b : Byte) (h : isDigit b = true) : b ≠ CR := by
  rintro rfl; revert h; decide

theorem noCR_decimalInt (i : Int) : noCR (decimalInt i) := by
  unfold decimalInt
  split
  · intro b hb
    rcases List.mem_cons.1 hb with rfl | hb
    · decide
    · exact isDigit_ne_CR b (decimal_digits _ b hb)
  · intro b hb; exact isDigit_ne_CR b (decimal_digits _ b hb)

theorem noCR_mediaType (m : MediaType) : noCR m.raw := by
  cases m <;> decide

theorem noCR_version (v : Version) : noCR v.raw := by cases v <;> decide
theorem noCR_status (s : StatusCode) : noCR s.raw := by cases s <;> decide

def Good (l : List Byte) : Prop := noCRLF l = true ∧ l ≠ []

theorem good_prefix (p s : List Byte) (hp : noCR p) (hne : p ≠ []) (hs : noCRLF s = true) : Good (p ++ s) :=
  ⟨noCRLF_append_of_noCR p s hp hs, by cases p <;> simp at hne ⊢⟩

theorem good_prefix_noCR (p s : List Byte) (hp : noCR p) (hne : p ≠ []) (hs : noCR s) : Good (p ++ s) :=
  good_prefix p s hp hne (noCRLF_of_noCR s hs)

theorem headerLines_good (r : Response) (hs : noCRLF r.server = true) :
    ∀ l ∈ headerLines r, Good l := by
  obtain ⟨ver, st, cl, ct, dep, srv, allow, ae, body⟩ := r
  simp only at hs
  have g1 := good_prefix [0x53, 0x65, 0x72, 0x76, 0x65, 0x72, 0x3A, 0x20] srv (by decide) (by simp) hs
  have g2 : Good [0x43, 0x6F, 0x6E, 0x6E, 0x65, 0x63, 0x74, 0x69, 0x6F, 0x6E, 0x3A, 0x20, 0x6B, 0x65, 0x65, 0x70,
    0x2D, 0x61, 0x6C, 0x69, 0x76, 0x65] := ⟨by decide, by simp⟩
  have g3 := good_prefix_noCR [0x41, 0x6C, 0x6C, 0x6F, 0x77, 0x3A, 0x20] _ (by decide) (by simp)
    (noCR_allowPieces allow)
  have g4 : Good [0x44, 0x65, 0x70, 0x72, 0x65, 0x63, 0x61, 0x74, 0x69, 0x6F, 0x6E, 0x3A, 0x20, 0x74, 0x72, 0x75, 0x65] :=
    ⟨by decide, by simp⟩
  have g5 := good_prefix_noCR [0x43, 0x6F, 0x6E, 0x74, 0x65, 0x6E, 0x74, 0x2D, 0x54, 0x79, 0x70, 0x65, 0x3A, 0x20] _
    (by decide) (by simp) (noCR_mediaType ct)
  have g6 := fun n => good_prefix_noCR
    [0x43, 0x6F, 0x6E, 0x74, 0x65, 0x6E, 0x74, 0x2D, 0x4C, 0x65, 0x6E, 0x67, 0x74, 0x68, 0x3A, 0x20] _
    (by decide) (by simp) (noCR_decimalInt n)
  have g7 : Good [0x41, 0x63, 0x63, 0x65, 0x70, 0x74, 0x2D, 0x45, 0x6E, 0x63, 0x6F, 0x64, 0x69, 0x6E, 0x67, 0x3A, 0x20,
          0x69, 0x64, 0x65, 0x6E, 0x74, 0x69, 0x74, 0x79] := ⟨by decide, by simp⟩
  simp only [headerLines]
  cases cl <;> cases dep <;> cases ae <;> cases hal : allow.isEmpty <;>
    simp only [List.forall_mem_append, List.forall_mem_cons, List.not_mem_nil, false_imp_iff,
      implies_true, if_true, if_false, Bool.false_eq_true, g1, g2, g3, g4, g5, g6, g7, and_self]

theorem takeHeaders_lines (lines : List (List Byte)) (rest : List Byte) (fuel : Nat)
    (hg : ∀ l ∈ lines, Good l) (hf : lines.length < fuel) :
    takeHeaders fuel ((lines.map (· ++ CRLF)).flatten ++ CRLF ++ rest) = some (lines, rest) := by
  induction lines generalizing fuel with
  | nil =>
    cases fuel with
    | zero => omega
    | succ fuel =>
      have := takeLine_append [] rest rfl
      simp only [List.nil_append] at this
      simp [takeHeaders, this]
  | cons l ls ih =>
    cases fuel with
    | zero => omega
    | succ fuel =>
      have hl := hg l (by simp)
      have e : ((l :: ls).map (· ++ CRLF)).flatten ++ CRLF ++ rest =
          l ++ CRLF ++ ((ls.map (· ++ CRLF)).flatten ++ CRLF ++ rest) := by
        simp [List.append_assoc]
      rw [e, takeHeaders, takeLine_append l _ hl.1]
      have ih' := ih fuel (fun l' hl' => hg l' (by simp [hl'])) (by simp at hf; omega)
      cases l with
      | nil => exact absurd rfl hl.2
      | cons a l => simp only [ih']

theorem length_le_flatten (lines : List (List Byte)) :
    lines.length ≤ ((lines.map (· ++ CRLF)).flatten).length := by
  induction lines with
  | nil => simp
  | cons l ls ih => simp [CRLF] at ih ⊢; omega

theorem splitOnce_version (v : Version) (rest : List Byte) :
    splitOnce SP (v.raw ++ SP :: rest) = (v.raw, some rest) := by
  cases v <;> simp [Version.raw, splitOnce, SP]

theorem splitStatus_line (v : Version) (s : StatusCode) :
    splitStatus (v.raw ++ [SP] ++ s.raw ++ [SP]) = some (v.raw, s.raw) := by
  have e : v.raw ++ [SP] ++ s.raw ++ [SP] = v.raw ++ SP :: (s.raw ++ [SP]) := by simp
  rw [e, splitStatus, splitOnce_version]
  simp

theorem contentLengthOf_none (r : Response) (h : r.contentLength = none) :
    contentLengthOf (headerLines r) = none := by
  obtain ⟨ver, st, cl, ct, dep, srv, allow, ae, body⟩ := r
  simp only at h
  subst h
  simp only [headerLines]
  cases dep <;> cases ae <;> cases hal : allow.isEmpty <;>
    simp [contentLengthOf, CL_PREFIX, List.isPrefixOf]

theorem contentLengthOf_some (r : Response) (n : Nat) (h : r.contentLength = some (n : Int)) :
    contentLengthOf (headerLines r) = some n := by
  obtain ⟨ver, st, cl, ct, dep, srv, allow, ae, body⟩ := r
  simp only at h
  subst h
  have hd : decimalInt (n : Int) = decimal n := by
    rw [decimalInt_nonneg _ (by omega)]; simp
  simp only [headerLines, hd]
  cases dep <;> cases ae <;> cases hal : allow.isEmpty <;>
    simp [contentLengthOf, CL_PREFIX, List.isPrefixOf, digitsVal_decimal]

theorem noCRLF_statusLine (v : Version) (s : StatusCode) :
    noCRLF (v.raw ++ [SP] ++ s.raw ++ [SP]) = true := by
  apply noCRLF_of_noCR
  have hsp : noCR [SP] := by decide
  exact noCR_append (noCR_append (noCR_append (noCR_version v) hsp) (noCR_status s)) hsp

theorem serialize_shape (r : Response) (rest : List Byte) :
    r.serialize ++ rest =
      (r.version.raw ++ [SP] ++ r.status.raw ++ [SP]) ++ CRLF ++
        (((headerLines r).map (· ++ CRLF)).flatten ++ CRLF ++ (r.body.getD [] ++ rest)) := by
  rw [layout]
  simp [CRLF, List.append_assoc]

theorem readOne_serialize (r : Response) (h : SelfDelimiting r) (rest : List Byte) :
    readOne (r.serialize ++ rest) = some (view r, rest) := by
  rw [serialize_shape, readOne, takeLine_append _ _ (noCRLF_statusLine _ _)]
  simp only [splitStatus_line]
  rw [takeHeaders_lines _ _ _ (headerLines_good r h.1)]
  · simp only
    obtain ⟨hs, hb⟩ := h
    cases hbody : r.body with
    | none =>
      rw [hbody] at hb
      simp only at hb
      rcases hb with hb | hb
      · rw [contentLengthOf_none r hb]
        simp [view, hbody]
      · rw [contentLengthOf_some r 0 (by simpa using hb)]
        simp [view, hbody]
    | some b =>
      rw [hbody] at hb
      simp only at hb
      rw [contentLengthOf_some r b.length hb]
      simp [view, hbody]
  · have := length_le_flatten (headerLines r)
    simp only [List.length_append]
    omega

theorem serialize_ne_nil (r : Response) : r.serialize ≠ [] := by
  rw [layout]; cases r.version <;> simp [Version.raw]

theorem roundtrip (rs : List Response) (h : ∀ r ∈ rs, SelfDelimiting r) (fuel : Nat) (hfuel : rs.length < fuel) :
    readAll fuel (rs.flatMap Response.serialize) = (rs.map view, []) := by
  induction rs generalizing fuel with
  | nil =>
    cases fuel with
    | zero => simp at hfuel
    | succ fuel => simp [readAll]
  | cons r rs ih =>
    cases fuel with
    | zero => simp at hfuel
    | succ fuel =>
      have hne : (r.serialize ++ rs.flatMap Response.serialize).isEmpty = false := by
        have := serialize_ne_nil r
        cases hser : r.serialize with
        | nil => exact absurd hser this
        | cons a l => rfl
      rw [List.flatMap_cons, readAll]
      simp only [hne, Bool.false_eq_true, if_false]
      rw [readOne_serialize r (h r (by simp))]
      simp only
      rw [ih (fun r' hr' => h r' (by simp [hr'])) fuel (by simp at hfuel; omega)]
      simp

end MicroHttp.ReaderLemmas
