/-
  Proofs.WriteSide — the output side of a connection (C06): `try_write` hands out exactly the next
  unsent bytes.  Everything here needs only the `rbuf` clause of the invariant (`RB`).
-/
import MicroHttp.Proofs.Safe
namespace MicroHttp
variable {RL H : Type}

/-- the bytes still to be handed to the stream, in order (same as `C06.unsent`) -/
def unsent' (c : Conn RL H) : List Byte := (c.respBuf.getD []) ++ c.respQ.flatMap Response.serialize

/-- the `rbuf` clause of `Inv` -/
def RB (c : Conn RL H) : Prop := c.respBuf ≠ some []

theorem RB_new (L : Nat) : RB (Conn.new L : Conn RL H) := by simp [RB, Conn.new]

theorem RB_enqueue (c : Conn RL H) (r : Response) (h : RB c) : RB (enqueue c r) := h

theorem pending_iff' (c : Conn RL H) (hI : RB c) :
    pendingWrite c = true ↔ unsent' c ≠ [] := by
  unfold pendingWrite unsent' RB at *
  cases hb : c.respBuf with
  | some b =>
    have : b ≠ [] := by intro h; subst h; exact hI hb
    simp [this]
  | none =>
    cases hq : c.respQ with
    | nil => simp
    | cons r q => simp [serialize_ne_nil r]

theorem enqueue_unsent' (c : Conn RL H) (r : Response) :
    unsent' (enqueue c r) = unsent' c ++ r.serialize := by
  simp [unsent', enqueue, List.flatMap_append]

/-- the part of `tryWrite` after the buffer to write from has been determined -/
def writeStep (c1 : Conn RL H) (buf : List Byte) (w : SinkStep) : Conn RL H × WriteOut × List Byte × Bool :=
  match w with
  | .accept k =>
    let n := min (max k 1) buf.length
    if n = 0 then (clearWrite c1, .closed, [], true)
    else if n ≠ buf.length then ({ c1 with respBuf := some (buf.drop n) }, .ok, buf.take n, true)
    else ({ c1 with respBuf := none }, .ok, buf, true)
  | .zero => (clearWrite c1, .closed, [], true)
  | .interrupted => (c1, .ok, [], true)
  | .fail => (clearWrite c1, .closed, [], true)

theorem tryWrite_some (c : Conn RL H) (b : List Byte) (w : SinkStep) (hb : c.respBuf = some b) :
    tryWrite c w = writeStep c b w := by
  unfold tryWrite writeStep
  simp only [hb]
  cases w <;> rfl

theorem tryWrite_nil (c : Conn RL H) (w : SinkStep) (hb : c.respBuf = none) (hq : c.respQ = []) :
    tryWrite c w = (c, .invalidWrite, [], false) := by
  unfold tryWrite
  simp only [hb, hq]

theorem tryWrite_cons (c : Conn RL H) (w : SinkStep) (r : Response) (q : List Response)
    (hb : c.respBuf = none) (hq : c.respQ = r :: q) :
    tryWrite c w = writeStep { c with respQ := q, respBuf := some r.serialize } r.serialize w := by
  unfold tryWrite writeStep
  simp only [hb, hq]
  cases w <;> rfl

theorem writeStep_spec (c1 : Conn RL H) (b : List Byte) (hb : c1.respBuf = some b) (hne : b ≠ [])
    (w : SinkStep) :
    (writeStep c1 b w).2.1 ≠ .invalidWrite ∧ (writeStep c1 b w).2.2.2 = true ∧ unsent' c1 ≠ [] ∧
    RB (writeStep c1 b w).1 ∧
    ((writeStep c1 b w).2.1 = .ok → (writeStep c1 b w).2.2.1 ++ unsent' (writeStep c1 b w).1 = unsent' c1) ∧
    ((writeStep c1 b w).2.1 = .closed → unsent' (writeStep c1 b w).1 = [] ∧ (writeStep c1 b w).2.2.1 = [] ∧
        pendingWrite (writeStep c1 b w).1 = false) ∧
    (∀ k, w = .accept k → (writeStep c1 b w).2.1 = .ok ∧ (writeStep c1 b w).2.2.1 ≠ []) ∧
    (w = .interrupted → (writeStep c1 b w).2.1 = .ok ∧ (writeStep c1 b w).2.2.1 = []) ∧
    ((w = .zero ∨ w = .fail) → (writeStep c1 b w).2.1 = .closed) := by
  have hlen : 0 < b.length := List.length_pos_iff.mpr hne
  have hu : unsent' c1 = b ++ c1.respQ.flatMap Response.serialize := by simp [unsent', hb]
  have hune : unsent' c1 ≠ [] := by rw [hu]; simp [hne]
  cases w with
  | accept k =>
    have hn0 : ¬ min (max k 1) b.length = 0 := by omega
    by_cases hn : min (max k 1) b.length = b.length
    · have hres : writeStep c1 b (.accept k) = ({ c1 with respBuf := none }, .ok, b, true) := by
        simp only [writeStep, if_neg hn0]; rw [if_neg (by simpa using hn)]
      rw [hres]
      refine ⟨by simp, rfl, hune, by simp [RB], ?_, by simp, ?_, by simp, by simp⟩
      · intro _; rw [hu]; simp [unsent']
      · intro k' _; exact ⟨rfl, hne⟩
    · have hres : writeStep c1 b (.accept k) =
          ({ c1 with respBuf := some (b.drop (min (max k 1) b.length)) }, .ok,
           b.take (min (max k 1) b.length), true) := by
        simp only [writeStep, if_neg hn0]; rw [if_pos (by simpa using hn)]
      rw [hres]
      refine ⟨by simp, rfl, hune, ?_, ?_, by simp, ?_, by simp, by simp⟩
      · simp only [RB, ne_eq, Option.some.injEq, List.drop_eq_nil_iff]; omega
      · intro _
        rw [hu]
        simp only [unsent', Option.getD_some]
        rw [← List.append_assoc, List.take_append_drop]
      · intro k' _
        refine ⟨rfl, ?_⟩
        intro h'
        have := congrArg List.length h'
        rw [List.length_take, List.length_nil] at this; omega
  | zero =>
    refine ⟨by simp [writeStep], rfl, hune, by simp [writeStep, RB, clearWrite], by simp [writeStep],
      ?_, by simp, by simp, by simp [writeStep]⟩
    intro _; simp [writeStep, unsent', clearWrite, pendingWrite]
  | interrupted =>
    refine ⟨by simp [writeStep], rfl, hune, ?_, by simp [writeStep], by simp [writeStep], by simp,
      by simp [writeStep], by simp⟩
    simp only [writeStep, RB, hb, ne_eq, Option.some.injEq]; exact hne
  | fail =>
    refine ⟨by simp [writeStep], rfl, hune, by simp [writeStep, RB, clearWrite], by simp [writeStep],
      ?_, by simp, by simp, by simp [writeStep]⟩
    intro _; simp [writeStep, unsent', clearWrite, pendingWrite]

/-- the conclusion of `C06.tryWrite_spec`, plus preservation of `RB` -/
def WSpec (c c' : Conn RL H) (w : SinkStep) (out : WriteOut) (bytes : List Byte) (called : Bool) : Prop :=
    (out = .ok → bytes ++ unsent' c' = unsent' c ∧ called = true ∧ unsent' c ≠ []) ∧
    (out = .closed → unsent' c' = [] ∧ bytes = [] ∧ called = true ∧ pendingWrite c' = false) ∧
    (out = .invalidWrite → c' = c ∧ bytes = [] ∧ called = false ∧ unsent' c = []) ∧
    (unsent' c = [] → out = .invalidWrite) ∧
    (∀ k, w = .accept k → unsent' c ≠ [] → out = .ok ∧ bytes ≠ []) ∧
    (w = .interrupted → unsent' c ≠ [] → out = .ok ∧ bytes = []) ∧
    ((w = .zero ∨ w = .fail) → unsent' c ≠ [] → out = .closed) ∧ RB c'

theorem tryWrite_spec' (c : Conn RL H) (hI : RB c) (w : SinkStep)
    (c' : Conn RL H) (out : WriteOut) (bytes : List Byte) (called : Bool)
    (h : tryWrite c w = (c', out, bytes, called)) :
    WSpec c c' w out bytes called := by
  have core : ∀ (c1 : Conn RL H) (b : List Byte), c1.respBuf = some b → b ≠ [] → unsent' c1 = unsent' c →
      tryWrite c w = writeStep c1 b w → WSpec c c' w out bytes called := by
    intro c1 b hb hne hu heq
    rw [heq] at h
    obtain ⟨s1, s2, s3, s4, s5, s6, s7, s8, s9⟩ := writeStep_spec c1 b hb hne w
    rw [h] at s1 s2 s4 s5 s6 s7 s8 s9
    simp only at s1 s2 s4 s5 s6 s7 s8 s9
    rw [hu] at s3 s5
    exact ⟨fun ho => ⟨s5 ho, s2, s3⟩, fun ho => ⟨(s6 ho).1, (s6 ho).2.1, s2, (s6 ho).2.2⟩,
      fun ho => absurd ho s1, fun hu' => absurd hu' s3, fun k hk _ => s7 k hk, fun hw _ => s8 hw,
      fun hw _ => s9 hw, s4⟩
  cases hb : c.respBuf with
  | some b =>
    have hne : b ≠ [] := by intro h'; subst h'; exact hI hb
    exact core c b hb hne rfl (tryWrite_some c b w hb)
  | none =>
    cases hq : c.respQ with
    | nil =>
      rw [tryWrite_nil c w hb hq] at h
      simp only [Prod.mk.injEq] at h
      obtain ⟨rfl, rfl, rfl, rfl⟩ := h
      have hu : unsent' c = [] := by simp [unsent', hb, hq]
      refine ⟨by simp, by simp, fun _ => ⟨rfl, rfl, rfl, hu⟩, fun _ => rfl, fun k _ hne => absurd hu hne,
        fun _ hne => absurd hu hne, fun _ hne => absurd hu hne, hI⟩
    | cons r q =>
      refine core { c with respQ := q, respBuf := some r.serialize } r.serialize rfl (serialize_ne_nil r) ?_
        (tryWrite_cons c w r q hb hq)
      simp [unsent', hb, hq]

/-- one write step of a history, in the bookkeeping of `C06.runW` -/
theorem write_step_hist (c : Conn RL H) (hI : RB c) (w : SinkStep) (sent queued : List Byte)
    (hs : sent ++ unsent' c = queued)
    (c' : Conn RL H) (out : WriteOut) (bytes : List Byte) (called : Bool)
    (h : tryWrite c w = (c', out, bytes, called)) :
    RB c' ∧ (out = .closed → unsent' c' = []) ∧ (out ≠ .closed → (sent ++ bytes) ++ unsent' c' = queued) := by
  obtain ⟨s1, s2, s3, _, _, _, _, s8⟩ := tryWrite_spec' c hI w c' out bytes called h
  refine ⟨s8, fun ho => (s2 ho).1, ?_⟩
  intro ho
  cases out with
  | closed => exact absurd rfl ho
  | ok => rw [List.append_assoc, (s1 rfl).1]; exact hs
  | invalidWrite =>
    obtain ⟨rfl, rfl, _, _⟩ := s3 rfl
    simpa using hs

theorem hist_final (c : Conn RL H) (hI : RB c) (sent queued : List Byte) (hs : sent ++ unsent' c = queued) :
    sent <+: queued ∧ (pendingWrite c = true ↔ sent ≠ queued) := by
  refine ⟨⟨_, hs⟩, ?_⟩
  rw [pending_iff' c hI, ← hs]
  constructor
  · intro h h'
    apply h
    have := congrArg List.length h'
    simp at this
    exact this
  · intro h h'
    apply h
    rw [h']; simp

end MicroHttp
