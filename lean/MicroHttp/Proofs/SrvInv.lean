/-
  Proofs.SrvInv — the server invariant is inductive: kept by every event (`handleEv`), by the
  dead-connection sweep, by `respond` on an outstanding token and by `flush`.
-/
import MicroHttp.Proofs.SrvStep
namespace MicroHttp

theorem eq_of_fd_eq {cs : List Client} (hnd : (cs.map (·.fd)).Nodup) {c d : Client}
    (hc : c ∈ cs) (hd : d ∈ cs) (h : d.fd = c.fd) : d = c := by
  have h1 := findClient_of_mem hnd hc
  have h2 := findClient_of_mem hnd hd
  rw [h, h1] at h2
  exact (Option.some.inj h2).symm

theorem SrvInv.find {s : Srv} (h : SrvInv s) {c : Client} (hc : c ∈ s.conns) :
    findClient s.conns c.fd = some c := findClient_of_mem h.fdsNodup hc

/-- Replacing the entry of one connection (same descriptor and identity, still a good connection)
    while its tokens — and only its tokens — change, in step with its in-flight counter. -/
theorem SrvInv_replace {s s' : Srv} (h : SrvInv s) {c c'' : Client} (hc : c ∈ s.conns)
    (hfd : c''.fd = c.fd) (hinst : c''.inst = c.inst) (hok : ClientOK c'')
    (h1 : s'.conns = replaceClient s.conns c'') (h3 : s'.nextInst = s.nextInst)
    (hmem : ∀ tok ∈ s'.outstanding, tok ∈ s.outstanding ∨ tok = ⟨c.fd, c.inst⟩)
    (hcnt : c''.inflight = s'.outstanding.count ⟨c.fd, c.inst⟩)
    (hoth : ∀ tok : Token, tok.fd ≠ c.fd → s'.outstanding.count tok = s.outstanding.count tok) :
    SrvInv s' := by
  have hnd := h.fdsNodup
  have hsame : ∀ d ∈ s.conns, d.fd = c''.fd → d = c := fun d hd e => eq_of_fd_eq hnd hc hd (e.trans hfd)
  refine ⟨?_, ?_, ?_, ?_, ?_, ?_, ?_⟩
  · unfold Srv.fds; rw [h1, replaceClient_fds]; exact hnd
  · unfold Srv.insts; rw [h1, replaceClient_map]
    · exact h.instsNodup
    · intro d hd e; rw [hsame d hd e, hinst]
  · intro x hx
    rw [h1] at hx; rw [h3]
    rcases mem_replaceClient hx with ⟨rfl, _⟩ | ⟨hx', _⟩
    · rw [hinst]; exact h.instsFresh c hc
    · exact h.instsFresh x hx'
  · rw [h1, replaceClient_length]; exact h.cap
  · intro x hx
    rw [h1] at hx
    rcases mem_replaceClient hx with ⟨rfl, _⟩ | ⟨hx', _⟩
    · exact hok
    · exact h.clients x hx'
  · intro tok htok
    rw [h1]
    rcases hmem tok htok with hold | rfl
    · obtain ⟨d, hd, e1, e2⟩ := h.tokensLive tok hold
      by_cases hdc : d.fd = c''.fd
      · have := hsame d hd hdc; subst this
        exact ⟨c'', mem_replaceClient_self hd hdc, by rw [hfd, e1], by rw [hinst, e2]⟩
      · exact ⟨d, mem_replaceClient_of_ne hd hdc, e1, e2⟩
    · exact ⟨c'', mem_replaceClient_self hc hfd.symm, hfd, hinst⟩
  · intro x hx
    rw [h1] at hx
    rcases mem_replaceClient hx with ⟨rfl, _⟩ | ⟨hx', hne⟩
    · rw [hfd, hinst]; exact hcnt
    · rw [hoth _ (by rw [← hfd]; exact hne)]
      exact h.inflight x hx'

/-- special case: the tokens do not change -/
theorem SrvInv_replace_same {s s' : Srv} (h : SrvInv s) {c c'' : Client} (hc : c ∈ s.conns)
    (hfd : c''.fd = c.fd) (hinst : c''.inst = c.inst) (hok : ClientOK c'')
    (hin : c''.inflight = c.inflight)
    (h1 : s'.conns = replaceClient s.conns c'') (h2 : s'.outstanding = s.outstanding)
    (h3 : s'.nextInst = s.nextInst) : SrvInv s' := by
  refine SrvInv_replace h hc hfd hinst hok h1 h3 ?_ ?_ ?_
  · intro tok ht; left; rw [← h2]; exact ht
  · rw [h2, hin]; exact h.inflight c hc
  · intro tok _; rw [h2]

/-- special case: `n` tokens of the connection are appended -/
theorem SrvInv_replace_append {s s' : Srv} (h : SrvInv s) {c c'' : Client} (hc : c ∈ s.conns)
    (hfd : c''.fd = c.fd) (hinst : c''.inst = c.inst) (hok : ClientOK c'')
    {α : Type} (reqs : List α) (hin : c''.inflight = c.inflight + reqs.length)
    (h1 : s'.conns = replaceClient s.conns c'')
    (h2 : s'.outstanding = s.outstanding ++ reqs.map (fun _ => (⟨c.fd, c.inst⟩ : Token)))
    (h3 : s'.nextInst = s.nextInst) : SrvInv s' := by
  have hmap : ∀ l : List α,
      l.map (fun _ => (⟨c.fd, c.inst⟩ : Token)) = List.replicate l.length ⟨c.fd, c.inst⟩ := by
    intro l
    induction l with
    | nil => rfl
    | cons a as ih => simp only [List.map_cons, List.length_cons, List.replicate_succ, ih]
  have hmap := hmap reqs
  rw [hmap] at h2
  refine SrvInv_replace h hc hfd hinst hok h1 h3 ?_ ?_ ?_
  · intro tok ht
    rw [h2] at ht
    rcases List.mem_append.mp ht with ht | ht
    · left; exact ht
    · right; exact (List.mem_replicate.mp ht).2
  · rw [h2, List.count_append, List.count_replicate_self, hin, h.inflight c hc]
  · intro tok hne
    rw [h2, List.count_append]
    have : List.count tok (List.replicate reqs.length (⟨c.fd, c.inst⟩ : Token)) = 0 := by
      apply List.count_eq_zero.mpr
      intro hm
      have := (List.mem_replicate.mp hm).2
      apply hne; rw [this]
    rw [this, Nat.add_zero]

/-! ### accept -/

theorem filter_fd_ne_of_not_mem (cs : List Client) (newFd : Nat) (h : newFd ∉ cs.map (·.fd)) :
    cs.filter (·.fd ≠ newFd) = cs := by
  apply List.filter_eq_self.mpr
  intro a ha
  simp only [ne_eq, decide_not, Bool.not_eq_eq_eq_not, Bool.not_true, decide_eq_false_iff_not]
  intro e
  exact h (List.mem_map.mpr ⟨a, ha, e⟩)

theorem handleEv_listener_full (s : Srv) (newFd : Nat) (h : s.conns.length = MAX_CONNECTIONS) :
    handleEv s (.listener newFd) = (s, [], [.refused newFd], none) := by
  simp only [handleEv, h, if_true]

theorem handleEv_listener_accept (s : Srv) (newFd : Nat) (h : s.conns.length ≠ MAX_CONNECTIONS) :
    handleEv s (.listener newFd) =
      ({ s with conns := s.conns.filter (·.fd ≠ newFd) ++
                  [{ fd := newFd, inst := s.nextInst, conn := Conn.new s.limit }],
                nextInst := s.nextInst + 1 }, [], [.accepted newFd s.nextInst], none) := by
  simp only [handleEv, h, if_false]

theorem SrvInv_accept (s : Srv) (h : SrvInv s) (newFd : Nat) (hfd : newFd ∉ s.fds)
    (hlen : s.conns.length ≠ MAX_CONNECTIONS) :
    SrvInv { s with conns := s.conns.filter (·.fd ≠ newFd) ++
                      [{ fd := newFd, inst := s.nextInst, conn := Conn.new s.limit }],
                    nextInst := s.nextInst + 1 } := by
  rw [filter_fd_ne_of_not_mem s.conns newFd hfd]
  have hfresh : s.nextInst ∉ s.insts := by
    intro hm
    obtain ⟨d, hd, e⟩ := List.mem_map.mp hm
    have := h.instsFresh d hd
    omega
  have hnew : ClientOK { fd := newFd, inst := s.nextInst, conn := Conn.new s.limit } :=
    ⟨C03.inv_new P0 C03.P0_wf s.limit, rfl, by simp [pendingWrite, Conn.new], by simp⟩
  refine ⟨?_, ?_, ?_, ?_, ?_, ?_, ?_⟩
  · simp only [Srv.fds, List.map_append, List.map_cons, List.map_nil]
    rw [List.nodup_append]
    refine ⟨h.fdsNodup, by simp, ?_⟩
    intro a ha b hb
    simp only [List.mem_singleton] at hb
    subst hb
    intro e; subst e; exact hfd ha
  · simp only [Srv.insts, List.map_append, List.map_cons, List.map_nil]
    rw [List.nodup_append]
    refine ⟨h.instsNodup, by simp, ?_⟩
    intro a ha b hb
    simp only [List.mem_singleton] at hb
    subst hb
    intro e; subst e; exact hfresh ha
  · intro x hx
    simp only [List.mem_append, List.mem_singleton] at hx
    simp only
    rcases hx with hx | rfl
    · have := h.instsFresh x hx; omega
    · simp
  · have := h.cap
    simp only [List.length_append, List.length_singleton]
    omega
  · intro x hx
    simp only [List.mem_append, List.mem_singleton] at hx
    rcases hx with hx | rfl
    · exact h.clients x hx
    · exact hnew
  · intro tok ht
    obtain ⟨d, hd, e1, e2⟩ := h.tokensLive tok ht
    exact ⟨d, List.mem_append_left _ hd, e1, e2⟩
  · intro x hx
    simp only [List.mem_append, List.mem_singleton] at hx
    rcases hx with hx | rfl
    · exact h.inflight x hx
    · simp only
      symm
      apply List.count_eq_zero.mpr
      intro hm
      obtain ⟨d, hd, _, e2⟩ := h.tokensLive _ hm
      simp only at e2
      have := h.instsFresh d hd
      omega

/-! ### one event -/

/-- The server invariant is kept by every admissible event, aborting or not. -/
theorem handleEv_inv (s : Srv) (h : SrvInv s) (ev : Ev) (hev : EvOK s ev) : SrvInv (handleEv s ev).1 := by
  cases ev with
  | kill => simp only [handleEv]; split <;> exact h
  | listener newFd =>
    by_cases hlen : s.conns.length = MAX_CONNECTIONS
    · rw [handleEv_listener_full s newFd hlen]; exact h
    · rw [handleEv_listener_accept s newFd hlen]; exact SrvInv_accept s h newFd hev hlen
  | client fd fl rd t w =>
    obtain ⟨c, hf, hin, hout⟩ := hev
    obtain ⟨hc, hcfd⟩ := findClient_some hf
    have hok := h.clients c hc
    cases hh : fl.hup with
    | true =>
      rw [handleEv_hup s fd fl rd t w c hf hh]
      refine SrvInv_replace_same (c'' := { c with conn := clearWrite c.conn, state := .closed })
        h hc rfl rfl ?_ rfl rfl rfl rfl
      exact ⟨clearWrite_inv P0 _ hok.conn, hok.drained, by simp [pendingWrite_clearWrite], by simp⟩
    | false =>
      cases hi : fl.inn with
      | true =>
        have hs : c.state ≠ .awaitingOut := by
          intro hs
          have h1 := hok.out_interest hs
          rw [hin hi] at h1; cases h1
        obtain ⟨hcore, hnp⟩ := ClientCore_read c hok hs rd t
        rw [handleEv_in s fd fl rd t w c hf hh hi hnp]
        refine SrvInv_replace_append h hc ?_ ?_ (ClientOK_armOut _ hcore) (c.read rd t).2.1 ?_ rfl rfl rfl
        · rw [armOut_fd, Client.read_fd]
        · rw [armOut_inst, Client.read_inst]
        · rw [armOut_inflight, Client.read_inflight]
      | false =>
        cases ho : fl.out with
        | true =>
          rw [handleEv_out s fd fl rd t w c hf hh hi ho]
          refine SrvInv_replace_same h hc ?_ ?_ (ClientOK_armIn _ (ClientOK_write c hok w)) ?_ rfl rfl rfl
          · rw [armIn_fd, Client.write_fd]
          · rw [armIn_inst, Client.write_inst]
          · rw [armIn_inflight, Client.write_inflight]
        | false => rw [handleEv_noflags s fd fl rd t w c hf hh hi ho]; exact h

/-- Under the invariant an admissible event aborts only for the kill switch. -/
theorem handleEv_abort (s : Srv) (h : SrvInv s) (ev : Ev) (hev : EvOK s ev) :
    (ev = .kill ∧ (handleEv s ev).2.2.2 = some .shutdown) ∨ (ev ≠ .kill ∧ (handleEv s ev).2.2.2 = none) := by
  cases ev with
  | kill =>
    left
    have hk : s.hasKill = true := hev
    simp only [handleEv, hk, if_true, and_self]
  | listener newFd =>
    right
    refine ⟨(by intro e; cases e), ?_⟩
    simp only [handleEv]; split <;> rfl
  | client fd fl rd t w =>
    right
    refine ⟨(by intro e; cases e), ?_⟩
    obtain ⟨c, hf, hin, hout⟩ := hev
    obtain ⟨hc, hcfd⟩ := findClient_some hf
    have hok := h.clients c hc
    cases hh : fl.hup with
    | true => rw [handleEv_hup s fd fl rd t w c hf hh]
    | false =>
      cases hi : fl.inn with
      | true =>
        have hs : c.state ≠ .awaitingOut := by
          intro hs
          have h1 := hok.out_interest hs
          rw [hin hi] at h1; cases h1
        obtain ⟨hcore, hnp⟩ := ClientCore_read c hok hs rd t
        rw [handleEv_in s fd fl rd t w c hf hh hi hnp]
      | false =>
        cases ho : fl.out with
        | true => rw [handleEv_out s fd fl rd t w c hf hh hi ho]
        | false => rw [handleEv_noflags s fd fl rd t w c hf hh hi ho]

/-! ### sweep -/

theorem SrvInv.not_done_of_token {s : Srv} (h : SrvInv s) {c : Client} (hc : c ∈ s.conns)
    (ht : (⟨c.fd, c.inst⟩ : Token) ∈ s.outstanding) : c.isDone = false := by
  have h1 := h.inflight c hc
  have h2 : 0 < s.outstanding.count ⟨c.fd, c.inst⟩ := List.count_pos_iff.mpr ht
  unfold Client.isDone
  have : ¬ c.inflight = 0 := by omega
  simp [this]

theorem sweep_inv (s : Srv) (h : SrvInv s) : SrvInv (sweep s).1 := by
  unfold sweep
  have hsub : (s.conns.filter (fun c => !c.isDone)).Sublist s.conns := List.filter_sublist
  refine ⟨?_, ?_, ?_, ?_, ?_, ?_, ?_⟩
  · exact List.Nodup.sublist (List.Sublist.map _ hsub) h.fdsNodup
  · exact List.Nodup.sublist (List.Sublist.map _ hsub) h.instsNodup
  · intro c hc; exact h.instsFresh c ((List.mem_filter.mp hc).1)
  · exact Nat.le_trans (List.length_filter_le _ _) h.cap
  · intro c hc; exact h.clients c ((List.mem_filter.mp hc).1)
  · intro tok ht
    obtain ⟨d, hd, e1, e2⟩ := h.tokensLive tok ht
    refine ⟨d, ?_, e1, e2⟩
    apply List.mem_filter.mpr
    refine ⟨hd, ?_⟩
    have : (⟨d.fd, d.inst⟩ : Token) = tok := by cases tok; simp only at e1 e2; rw [e1, e2]
    rw [h.not_done_of_token hd (by rw [this]; exact ht)]
    rfl
  · intro c hc; exact h.inflight c ((List.mem_filter.mp hc).1)

/-! ### a batch -/

/-- `runEvents` under the invariant: the invariant is kept, and the batch aborts exactly when it
    contains the kill event, with `shutdown`. -/
theorem runEvents_inv (evs : List Ev) (s : Srv) (h : SrvInv s) (hev : EvsOK s evs)
    (reqs : List (Token × Request)) (effs : List Effect) :
    SrvInv (runEvents s evs reqs effs).1 ∧
    ((Ev.kill ∈ evs ∧ (runEvents s evs reqs effs).2.2.2 = some .shutdown) ∨
     (Ev.kill ∉ evs ∧ (runEvents s evs reqs effs).2.2.2 = none)) := by
  induction evs generalizing s reqs effs with
  | nil => exact ⟨h, Or.inr ⟨by simp, rfl⟩⟩
  | cons ev evs ih =>
    obtain ⟨hev1, hev2⟩ := hev
    have hinv := handleEv_inv s h ev hev1
    rw [runEvents]
    rcases handleEv_abort s h ev hev1 with ⟨rfl, ha⟩ | ⟨hne, ha⟩
    · revert hinv ha
      generalize handleEv s Ev.kill = p
      obtain ⟨s', r', e', a'⟩ := p
      intro hinv ha
      simp only at ha hinv
      subst ha
      exact ⟨hinv, Or.inl ⟨by simp, rfl⟩⟩
    · have hrest := hev2 ha
      revert hinv ha hrest
      generalize handleEv s ev = p
      obtain ⟨s', r', e', a'⟩ := p
      intro hinv ha hrest
      simp only at ha hinv hrest
      subst ha
      simp only
      obtain ⟨g1, g2⟩ := ih s' hinv hrest (reqs ++ r') (effs ++ e')
      refine ⟨g1, ?_⟩
      rcases g2 with ⟨k, g⟩ | ⟨k, g⟩
      · exact Or.inl ⟨List.mem_cons_of_mem _ k, g⟩
      · refine Or.inr ⟨?_, g⟩
        intro hm
        rcases List.mem_cons.mp hm with e | e
        · exact hne e.symm
        · exact k e

theorem requests_eq_aborted (s : Srv) (evs : List Ev) (a : Abort)
    (h : (runEvents s evs [] []).2.2.2 = some a) :
    requests s evs = ((runEvents s evs [] []).1, .aborted a, (runEvents s evs [] []).2.2.1) := by
  unfold requests
  revert h
  generalize runEvents s evs [] [] = p
  obtain ⟨s', r', e', a'⟩ := p
  intro h
  simp only at h
  subst h
  rfl

theorem requests_eq_ok (s : Srv) (evs : List Ev) (h : (runEvents s evs [] []).2.2.2 = none) :
    requests s evs = ((sweep (runEvents s evs [] []).1).1, .ok (runEvents s evs [] []).2.1,
      (runEvents s evs [] []).2.2.1 ++ (sweep (runEvents s evs [] []).1).2) := by
  unfold requests
  revert h
  generalize runEvents s evs [] [] = p
  obtain ⟨s', r', e', a'⟩ := p
  intro h
  simp only at h
  subst h
  rfl

theorem requests_inv' (s : Srv) (h : SrvInv s) (evs : List Ev) (hev : EvsOK s evs) :
    SrvInv (requests s evs).1 := by
  obtain ⟨g1, g2⟩ := runEvents_inv evs s h hev [] []
  rcases g2 with ⟨_, g⟩ | ⟨_, g⟩
  · rw [requests_eq_aborted s evs _ g]; exact g1
  · rw [requests_eq_ok s evs g]; exact sweep_inv _ g1

/-! ### respond -/

theorem SrvInv.token_client {s : Srv} (h : SrvInv s) {tok : Token} (ht : tok ∈ s.outstanding) :
    ∃ c, c ∈ s.conns ∧ findClient s.conns tok.fd = some c ∧ c.fd = tok.fd ∧ c.inst = tok.inst ∧
      0 < c.inflight := by
  obtain ⟨c, hc, e1, e2⟩ := h.tokensLive tok ht
  refine ⟨c, hc, by rw [← e1]; exact h.find hc, e1, e2, ?_⟩
  rw [h.inflight c hc]
  apply List.count_pos_iff.mpr
  have : (⟨c.fd, c.inst⟩ : Token) = tok := by cases tok; simp only at e1 e2; rw [e1, e2]
  rw [this]; exact ht

/-- the connection as `respond` leaves it (before the in-flight counter is decremented) -/
def respondClient (c : Client) (r : Response) : Client :=
  let c1 : Client := if c.state = .awaitingIn then { c with state := .awaitingOut, interest := .out } else c
  if c1.state ≠ .closed then { c1 with conn := enqueue c1.conn r } else c1

theorem respond_eq_some (s : Srv) (tok : Token) (r : Response) (c : Client)
    (hf : findClient s.conns tok.fd = some c) (hpos : 0 < c.inflight) :
    respond s tok r =
      ({ s with conns := replaceClient s.conns
                  { respondClient c r with inflight := (respondClient c r).inflight - 1 },
                outstanding := s.outstanding.erase tok }, .ok,
       if c.state = .awaitingIn then [Effect.interest c.fd .out] else []) := by
  have hinf : (respondClient c r).inflight = c.inflight := by
    unfold respondClient; simp only; split <;> split <;> rfl
  have hne : ¬ (respondClient c r).inflight = 0 := by omega
  unfold respond
  simp only [hf]
  unfold respondClient at hne ⊢
  by_cases hs : c.state = .awaitingIn
  · simp only [hs, if_true] at hne ⊢
    rw [if_neg hne]
  · simp only [hs, if_false] at hne ⊢
    rw [if_neg hne]

theorem respondClient_fd (c : Client) (r : Response) : (respondClient c r).fd = c.fd := by
  unfold respondClient; simp only; split <;> split <;> rfl
theorem respondClient_inst (c : Client) (r : Response) : (respondClient c r).inst = c.inst := by
  unfold respondClient; simp only; split <;> split <;> rfl
theorem respondClient_inflight (c : Client) (r : Response) : (respondClient c r).inflight = c.inflight := by
  unfold respondClient; simp only; split <;> split <;> rfl

theorem respondClient_closed (c : Client) (r : Response) (h : c.state = .closed) : respondClient c r = c := by
  unfold respondClient; simp [h]

theorem respondClient_open (c : Client) (r : Response) (h : c.state ≠ .closed) :
    (respondClient c r).state = .awaitingOut ∧ (respondClient c r).conn = enqueue c.conn r ∧
    (c.state = .awaitingIn → (respondClient c r).interest = .out) ∧
    (c.state = .awaitingOut → (respondClient c r).interest = c.interest) := by
  unfold respondClient
  cases hs : c.state with
  | closed => exact absurd hs h
  | awaitingIn => simp
  | awaitingOut => simp [hs]

theorem ClientOK_respondClient (c : Client) (hc : ClientOK c) (r : Response) :
    ClientOK (respondClient c r) := by
  by_cases hcl : c.state = .closed
  · rw [respondClient_closed c r hcl]; exact hc
  · obtain ⟨h1, h2, h3, h4⟩ := respondClient_open c r hcl
    refine ⟨by rw [h2]; exact enqueue_inv P0 _ hc.conn r, by rw [h2]; exact hc.drained, ?_, ?_⟩
    · rw [h2, h1]; simp [pendingWrite_enqueue]
    · intro _
      cases hs : c.state with
      | closed => exact absurd hs hcl
      | awaitingIn => exact h3 hs
      | awaitingOut => rw [h4 hs]; exact hc.out_interest hs

theorem respond_inv' (s : Srv) (h : SrvInv s) (tok : Token) (htok : tok ∈ s.outstanding) (r : Response) :
    SrvInv (respond s tok r).1 := by
  obtain ⟨c, hc, hf, e1, e2, hpos⟩ := h.token_client htok
  have htk : (⟨c.fd, c.inst⟩ : Token) = tok := by cases tok; simp only at e1 e2; rw [e1, e2]
  rw [respond_eq_some s tok r c hf hpos]
  have hok := ClientOK_respondClient c (h.clients c hc) r
  refine SrvInv_replace (c'' := { respondClient c r with inflight := (respondClient c r).inflight - 1 })
    h hc (respondClient_fd c r) (respondClient_inst c r) ?_ rfl rfl ?_ ?_ ?_
  · exact ⟨hok.conn, hok.drained, hok.pending_iff, hok.out_interest⟩
  · intro t ht; left; exact List.mem_of_mem_erase ht
  · simp only
    rw [htk, List.count_erase_self, respondClient_inflight, h.inflight c hc, htk]
  · intro t hne
    simp only
    rw [List.count_erase_of_ne]
    intro e; apply hne; rw [e, e1]

/-! ### flush -/

theorem flush_inv' (s : Srv) (h : SrvInv s) (script : Nat → List SinkStep) : SrvInv (flush s script).1 := by
  have hconns : (flush s script).1.conns = s.conns.map (fun c => (flushClient c (script c.fd)).1) := by
    unfold flush; simp only [List.map_map]; rfl
  have ho : (flush s script).1.outstanding = s.outstanding := rfl
  have hn : (flush s script).1.nextInst = s.nextInst := rfl
  have hP := fun c (hc : c ∈ s.conns) => flushClient_props (script c.fd) c (h.clients c hc)
  have hfds : (flush s script).1.fds = s.fds := by
    unfold Srv.fds; rw [hconns, List.map_map]
    apply List.map_congr_left
    intro c hc; exact (hP c hc).2.1
  have hinsts : (flush s script).1.insts = s.insts := by
    unfold Srv.insts; rw [hconns, List.map_map]
    apply List.map_congr_left
    intro c hc; exact (hP c hc).2.2.1
  refine ⟨by rw [hfds]; exact h.fdsNodup, by rw [hinsts]; exact h.instsNodup, ?_, ?_, ?_, ?_, ?_⟩
  · intro x hx
    rw [hconns] at hx
    obtain ⟨c, hc, rfl⟩ := List.mem_map.mp hx
    rw [hn, (hP c hc).2.2.1]; exact h.instsFresh c hc
  · rw [hconns, List.length_map]; exact h.cap
  · intro x hx
    rw [hconns] at hx
    obtain ⟨c, hc, rfl⟩ := List.mem_map.mp hx
    exact (hP c hc).1
  · intro tok ht
    rw [ho] at ht
    obtain ⟨c, hc, e1, e2⟩ := h.tokensLive tok ht
    refine ⟨(flushClient c (script c.fd)).1, ?_, ?_, ?_⟩
    · rw [hconns]; exact List.mem_map.mpr ⟨c, hc, rfl⟩
    · rw [(hP c hc).2.1]; exact e1
    · rw [(hP c hc).2.2.1]; exact e2
  · intro x hx
    rw [hconns] at hx
    obtain ⟨c, hc, rfl⟩ := List.mem_map.mp hx
    rw [ho, (hP c hc).2.1, (hP c hc).2.2.1, (hP c hc).2.2.2]
    exact h.inflight c hc

end MicroHttp
