/-
  Proofs.Utf8Append — valid UTF-8 is closed under concatenation (`isUtf8_append`), via: with enough
  fuel, success of `utf8Go` depends neither on the fuel nor on the start offset.
-/
import MicroHttp.Proofs.HeaderLemmas
namespace MicroHttp.Utf8Append
open MicroHttp

def okB : Except Utf8Error Unit → Bool
  | .ok _ => true
  | .error _ => false

theorem isUtf8_eq (bs : List Byte) : isUtf8 bs = okB (utf8Check bs) := by
  unfold isUtf8 okB; cases utf8Check bs <;> rfl

/-- with enough fuel, success does not depend on fuel or offset -/
theorem okB_indep (f o : Nat) (bs : List Byte) :
    ∀ f' o', bs.length ≤ f → bs.length ≤ f' → okB (utf8Go f o bs) = okB (utf8Go f' o' bs) := by
  fun_induction utf8Go f o bs
  all_goals intro f' o' h1 h2
  all_goals (try (simp at h1; done))
  all_goals (try (cases f' with
    | zero => simp at h2
    | succ f' => ?_))
  all_goals (try (simp only [utf8Go, okB, *]; done))
  all_goals (try (simp (config := {zetaDelta := true}) only [utf8Go, okB, *, if_true, if_false] at *
                  rename_i ih; apply ih <;> (simp only [List.length_cons] at *; omega)))
  all_goals (try (simp (config := {zetaDelta := true}) only [utf8Go, okB, *, if_true, if_false,
    Bool.false_eq_true, Bool.not_eq_true, Bool.not_eq_eq_eq_not, Bool.not_true, Bool.not_false] at *; done))

theorem okB_append (f o : Nat) (a : List Byte) :
    utf8Go f o a = .ok () → a.length ≤ f → ∀ (b : List Byte) (f' o' : Nat), (a ++ b).length ≤ f' →
      okB (utf8Go f' o' (a ++ b)) = isUtf8 b := by
  fun_induction utf8Go f o a
  all_goals intro hok h1 b f' o' h2
  all_goals (try (cases hok; done))
  all_goals (try (simp at h1; done))
  all_goals (try (cases f' with
    | zero => simp at h2
    | succ f' => ?_))
  case case1 =>
    rw [isUtf8_eq]
    exact okB_indep _ _ _ _ _ (by simpa using h2) (Nat.le_refl _)
  all_goals
    rename_i ih
    have h3 := ih hok (by simp only [List.length_cons] at h1; omega) b f'
    simp (config := {zetaDelta := true}) only [List.cons_append, utf8Go, *, if_true, if_false,
      Bool.false_eq_true, Bool.not_eq_true, Bool.not_eq_eq_eq_not, Bool.not_true] at *
    apply h3
    simp only [List.length_cons, List.length_append] at *
    omega

/-- valid UTF-8 followed by anything is valid iff the remainder is -/
theorem isUtf8_append (a b : List Byte) (ha : isUtf8 a = true) : isUtf8 (a ++ b) = isUtf8 b := by
  have hok := HeaderLemmas.utf8Check_of_isUtf8 ha
  rw [isUtf8_eq (a ++ b)]
  exact okB_append a.length 0 a hok (Nat.le_refl _) b _ 0 (Nat.le_refl _)

theorem isUtf8_append_true (a b : List Byte) (ha : isUtf8 a = true) (hb : isUtf8 b = true) :
    isUtf8 (a ++ b) = true := by rw [isUtf8_append a b ha, hb]

end MicroHttp.Utf8Append
