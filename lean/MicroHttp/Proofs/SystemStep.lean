/-
  Proofs.SystemStep — what the event the kernel reports for one connection (`stepClient`) does to the
  per-descriptor invariant `FdOK`: a read runs the specification over exactly the bytes taken
  (C01.tryRead_refines composed with `feed_append`), a write sends the next unsent bytes.
-/
import MicroHttp.Proofs.SystemFd
import MicroHttp.Props.C03
namespace MicroHttp

/-! ### what one read does -/

theorem Client.read_ok (c : Client) (rd : Recv) (t : List Byte) (c1 : Conn0)
    (h : tryRead P0 c.conn rd = (c1, .ok)) :
    (c.read rd t).1.conn = { c1 with parsed := [] } ∧ (c.read rd t).2.1 = c1.parsed := by
  rw [Client.read_eq]
  simp only [h]
  constructor
  · split <;> rfl
  · trivial

/-- the 400 reply to a parse error -/
def reply400 (e : ReqErr) : Response :=
  (Response.new .http11 .badRequest).apply (.setBody (badRequestBody e))

theorem Client.read_parseErr (c : Client) (rd : Recv) (t : List Byte) (c1 : Conn0) (e : ReqErr)
    (h : tryRead P0 c.conn rd = (c1, .parseErr e)) :
    (c.read rd t).1.conn = enqueue { c1 with parsed := [] } (reply400 e) ∧ (c.read rd t).2.1 = [] := by
  rw [Client.read_eq]
  simp only [h]
  constructor
  · split <;> rfl
  · trivial

theorem unsentC_respQ_append (c d : Conn0) (l : List Response) (hq : d.respQ = c.respQ ++ l)
    (hb : d.respBuf = c.respBuf) : unsentC d = unsentC c ++ l.flatMap Response.serialize := by
  unfold unsentC
  rw [hq, hb, List.flatMap_append, List.append_assoc]

/-- One read of a non-empty chunk: the connection consumes `chunk.take m` (`m` the room in its
    buffer), and the invariant follows the specification over these bytes. -/
theorem FdOK_read (c : Client) (hok : ClientOK c) (chunk : List Byte) (hne : chunk ≠ [])
    {L : Nat} {sent got : List Byte} {yl : List Request} {q sup : List Response} {ntok : Nat}
    (h : FdOK c.conn L sent chunk got yl q sup ntok) :
    ∃ new, (c.read (.data chunk []) []).1.conn.respQ = c.conn.respQ ++ new ∧
      FdOK (c.read (.data chunk []) []).1.conn L sent (chunk.drop (P0.B - c.conn.win.length)) got
        (yl ++ (c.read (.data chunk []) []).2.1) (q ++ new) sup
        (ntok + (c.read (.data chunk []) []).2.1.length) := by
  cases htr : tryRead P0 c.conn (.data chunk []) with
  | mk c1 out =>
  cases hfd : feed P0 c.conn.limit (absOf c.conn) (chunk.take (P0.B - c.conn.win.length)) with
  | mk outs r =>
  obtain ⟨p1, p2, p3, p4, p5, p6⟩ :=
    tryRead_refines' P0 C03.P0_wf c.conn hok.conn chunk [] hne c1 out htr outs r hfd
  have hfn := feed_filesNil P0 c.conn.limit (absOf c.conn) _ h.filesNil outs r hfd
  rw [h.files, hok.drained, List.append_nil, List.nil_append, attach_nil_delivers outs hfn.1] at p1
  obtain ⟨used, ints, e1, e2, e3⟩ := h.inn
  have hsplit : sent = (used ++ chunk.take (P0.B - c.conn.win.length)) ++
      chunk.drop (P0.B - c.conn.win.length) := by
    rw [e1, List.append_assoc, List.take_append_drop]
  rw [h.limit] at hfd
  -- the specification over the longer consumed prefix
  have hspec : ∀ outs' a', feed P0 L Abs.fresh (used ++ chunk.take (P0.B - c.conn.win.length)) = (outs', .ok a') →
      ∃ o0, yl = delivers o0 ∧ ints = conts o0 ∧ outs' = o0 ++ outs ∧ r = .ok a' := by
    intro outs' a' hf
    rw [feed_append] at hf
    cases h0 : feed P0 L Abs.fresh used with
    | mk o0 r0 =>
      rw [h0] at hf
      cases r0 with
      | error e => simp only at hf; cases hf
      | ok a0 =>
        obtain ⟨ha0, hy, hi⟩ := e3 o0 a0 h0
        simp only [← ha0, hfd] at hf
        obtain ⟨rfl, rfl⟩ := Prod.mk.inj hf
        exact ⟨o0, hy, hi, rfl, rfl⟩
  cases r with
  | ok a =>
    obtain ⟨rfl, ha, hfiles⟩ := p6
    obtain ⟨hconn, hreqs⟩ := Client.read_ok c (.data chunk []) [] c1 htr
    rw [hconn, hreqs, p1]
    refine ⟨conts outs, p2, ?_⟩
    refine ⟨by rw [← h.limit]; exact p4, ?_, ?_, ⟨_, ints ++ conts outs, hsplit, e2.append_right _, ?_⟩, ?_, ?_⟩
    · show c1.files = []
      rw [hfiles, h.files]; split <;> rfl
    · have := hfn.2 a rfl
      rw [← ha] at this
      exact this
    · intro outs' a' hf
      obtain ⟨o0, hy, hi, rfl, hr⟩ := hspec outs' a' hf
      cases hr
      refine ⟨ha, ?_, ?_⟩
      · rw [hy, delivers_append]
      · rw [hi, conts_append]
    · have := unsentC_respQ_append c.conn { c1 with parsed := [] } (conts outs) p2 p3
      rw [this, ← List.append_assoc, h.out, List.flatMap_append]
    · have := h.toks
      simp only [List.length_append]
      omega
  | error e =>
    obtain ⟨rfl, hfresh⟩ := p6
    obtain ⟨hconn, hreqs⟩ := Client.read_parseErr c (.data chunk []) [] c1 e htr
    rw [hconn, hreqs]
    have hq : (enqueue { c1 with parsed := [] } (reply400 e)).respQ = c.conn.respQ ++ (conts outs ++ [reply400 e]) := by
      show c1.respQ ++ [reply400 e] = _
      rw [p2, List.append_assoc]
    refine ⟨conts outs ++ [reply400 e], hq, ?_⟩
    obtain ⟨f1, f2, f3, f4, f5, f6⟩ := hfresh
    refine ⟨by rw [← h.limit]; exact p4, f6, ?_, ⟨_, ints ++ (conts outs ++ [reply400 e]), hsplit,
      e2.append_right _, ?_⟩, ?_, ?_⟩
    · show (phaseOf c1).filesNil
      unfold phaseOf
      rw [f1]
      trivial
    · intro outs' a' hf
      obtain ⟨_, _, _, _, hr⟩ := hspec outs' a' hf
      cases hr
    · have := unsentC_respQ_append c.conn (enqueue { c1 with parsed := [] } (reply400 e)) _ hq p3
      rw [this, ← List.append_assoc, h.out, ← List.flatMap_append]
    · have := h.toks
      simp only [List.append_nil, List.length_nil]
      omega

/-! ### what one write does -/

theorem tryWrite_parser {RL H : Type} (c : Conn RL H) (w : SinkStep) :
    ∃ q b, (tryWrite c w).1 = { c with respQ := q, respBuf := b } := by
  unfold tryWrite
  cases hb : c.respBuf <;> cases hq : c.respQ <;> cases w <;> simp only [clearWrite] <;>
    (repeat' split) <;> first
      | exact ⟨_, _, rfl⟩
      | (refine ⟨c.respQ, c.respBuf, ?_⟩; rw [hb, hq])

/-- a write touches only the response queue and buffer: the bytes written are the next unsent ones -/
theorem FdOK_write (c : Client) (hok : ClientOK c) (hs : c.state = .awaitingOut) (k : Nat)
    {L : Nat} {sent unread got : List Byte} {yl : List Request} {q sup : List Response} {ntok : Nat}
    (h : FdOK c.conn L sent unread got yl q sup ntok) :
    FdOK (c.write (.accept k)).1.conn L sent unread (got ++ (c.write (.accept k)).2) yl q sup ntok := by
  obtain ⟨_, h2, _, _⟩ := Client.write_accept c hok hs k
  rw [Client.write_conn] at h2 ⊢
  obtain ⟨q', b', hc'⟩ := tryWrite_parser c.conn (.accept k)
  refine ⟨by rw [hc']; exact h.limit, by rw [hc']; exact h.files, by rw [hc']; exact h.filesNil, ?_, ?_, h.toks⟩
  · obtain ⟨used, ints, e1, e2, e3⟩ := h.inn
    refine ⟨used, ints, e1, e2, ?_⟩
    intro outs a hf
    rw [hc']
    exact e3 outs a hf
  · rw [List.append_assoc, h2]; exact h.out

/-! ### the event of one connection -/

/-- the requests the event of connection `c` yields -/
def stepReqs (c : Client) (k : KSock) : List Request :=
  match c.interest with
  | .inn => if k.unread.isEmpty then [] else (c.read (.data k.unread []) []).2.1
  | .out => []

/-- the bytes the event of connection `c` writes to the client -/
def stepBytes (c : Client) (k : KSock) : List Byte :=
  match c.interest with
  | .inn => []
  | .out => if 0 < k.space then (c.write (.accept k.space)).2 else []

/-- the responses the event of connection `c` appends to its queue (`newlyQueued` of System.lean) -/
def stepNew (c : Client) (k : KSock) : List Response :=
  if 0 < takenFrom c k then (stepClient c k).conn.respQ.drop c.conn.respQ.length else []

theorem drop_min_length {α : Type} (l : List α) (m : Nat) : l.drop (min l.length m) = l.drop m := by
  rcases Nat.le_total l.length m with hle | hle
  · rw [Nat.min_eq_left hle, List.drop_eq_nil_of_le (Nat.le_refl _), List.drop_eq_nil_of_le hle]
  · rw [Nat.min_eq_right hle]

theorem FdOK_step (c : Client) (k : KSock) (hok : ClientOK c) (hcl : c.state ≠ .closed)
    (hpg : k.peerGone = false)
    {L : Nat} {sent got : List Byte} {yl : List Request} {q sup : List Response} {ntok : Nat}
    (h : FdOK c.conn L sent k.unread got yl q sup ntok) :
    FdOK (stepClient c k).conn L sent (k.unread.drop (takenFrom c k)) (got ++ stepBytes c k)
      (yl ++ stepReqs c k) (q ++ stepNew c k) sup (ntok + (stepReqs c k).length) := by
  have hsame : ∀ d : Conn0, d = c.conn → FdOK d L sent (k.unread.drop 0) (got ++ []) (yl ++ []) (q ++ []) sup
      (ntok + ([] : List Request).length) := by
    intro d hd
    subst hd
    simpa using h
  cases hi : c.interest with
  | inn =>
    cases hu : k.unread.isEmpty with
    | true =>
      have hu' : k.unread = [] := List.isEmpty_iff.mp hu
      have e1 : stepClient c k = c := by unfold stepClient; rw [hi]; simp only [hu, if_true]
      have e2 : takenFrom c k = 0 := takenFrom_empty c k hu'
      have e3 : stepReqs c k = [] := by unfold stepReqs; rw [hi]; simp only [hu, if_true]
      have e4 : stepBytes c k = [] := by unfold stepBytes; rw [hi]
      have e5 : stepNew c k = [] := by unfold stepNew; rw [e2]; rfl
      rw [e1, e2, e3, e4, e5]
      exact hsame _ rfl
    | false =>
      have hne : k.unread ≠ [] := by intro e; rw [e] at hu; cases hu
      have e1 : stepClient c k = armOut (c.read (.data k.unread []) []).1 := by
        unfold stepClient; rw [hi]; simp only [hu, Bool.false_eq_true, if_false]
      have hpos : 0 < takenFrom c k := takenFrom_pos c k hok hpg hi hne
      have e2 : takenFrom c k = min k.unread.length (P0.B - c.conn.win.length) := by
        unfold takenFrom takes
        simp [hpg, hi, hu]
      have e3 : stepReqs c k = (c.read (.data k.unread []) []).2.1 := by
        unfold stepReqs; rw [hi]; simp only [hu, Bool.false_eq_true, if_false]
      have e4 : stepBytes c k = [] := by unfold stepBytes; rw [hi]
      obtain ⟨new, hq, hfd⟩ := FdOK_read c hok k.unread hne h
      have e5 : stepNew c k = new := by
        unfold stepNew
        rw [if_pos hpos, e1, armOut_conn, hq, List.drop_left]
      rw [e2, drop_min_length, e3, e4, e5, e1, armOut_conn, List.append_nil]
      exact hfd
  | out =>
    have e2 : takenFrom c k = 0 := takenFrom_out c k hi
    have e3 : stepReqs c k = [] := by unfold stepReqs; rw [hi]
    have e5 : stepNew c k = [] := by unfold stepNew; rw [e2]; rfl
    rw [e2, e3, e5]
    by_cases hsp : 0 < k.space
    · have e4 : stepBytes c k = (c.write (.accept k.space)).2 := by
        unfold stepBytes; rw [hi]; simp only [hsp, if_true]
      cases hs : c.state with
      | closed => exact absurd hs hcl
      | awaitingIn =>
        have hp : pendingWrite c.conn = false := hok.nopending (by rw [hs]; intro e; cases e)
        have hw : c.write (.accept k.space) = ({ c with state := .awaitingIn }, []) := by
          rw [Client.write_eq, tryWrite_nopending c.conn _ hp]
          simp only [hs, reduceCtorEq, if_false]
        rw [e4, hw, stepClient_stale c k hok hi hs hsp]
        exact hsame _ rfl
      | awaitingOut =>
        have e1 : stepClient c k = armIn (c.write (.accept k.space)).1 := by
          unfold stepClient; rw [hi]; simp only [hsp, if_true]
        have := FdOK_write c hok hs k.space h
        rw [e1, armIn_conn, e4]
        simpa using this
    · have e1 : stepClient c k = c := by unfold stepClient; rw [hi]; simp only [hsp, if_false]
      have e4 : stepBytes c k = [] := by unfold stepBytes; rw [hi]; simp only [hsp, if_false]
      rw [e1, e4]
      exact hsame _ rfl

end MicroHttp
