/-
  Proofs.OneShot — `RequestLine::try_from` and `Request::try_from` never panic.
-/
import MicroHttp.ConnSpec
namespace MicroHttp

theorem isPrefixOf_length {seq l : List Byte} (h : seq.isPrefixOf l = true) : seq.length ≤ l.length :=
  (List.isPrefixOf_iff_prefix.mp h).length_le

/-- `find` returns a position where the whole pattern fits -/
theorem find_some_bound (seq l : List Byte) (i : Nat) (h : find seq l = some i) :
    i + seq.length ≤ l.length := by
  induction l generalizing i with
  | nil => simp [find] at h
  | cons b bs ih =>
    simp only [find] at h
    split at h
    · rename_i hp
      cases h
      simpa using isPrefixOf_length hp
    · simp only [Option.map_eq_some_iff] at h
      obtain ⟨j, hj, rfl⟩ := h
      have := ih j hj
      simp; omega

theorem find_some_prefix (seq l : List Byte) (i : Nat) (h : find seq l = some i) :
    seq.isPrefixOf (l.drop i) = true := by
  induction l generalizing i with
  | nil => simp [find] at h
  | cons b bs ih =>
    simp only [find] at h
    split at h
    · rename_i hp
      cases h
      simpa using hp
    · simp only [Option.map_eq_some_iff] at h
      obtain ⟨j, hj, rfl⟩ := h
      simpa using ih j hj

theorem parts_no_panic (l : List Byte) (p : Panic) : RequestLine.parts l ≠ .error (.panic p) := by
  unfold RequestLine.parts
  cases h1 : find [SP] l with
  | none => simp
  | some me =>
    have b1 := find_some_bound _ _ _ h1
    simp only [List.length_cons, List.length_nil] at b1
    have s1 : slice l 0 me = .ok ((l.drop 0).take (me - 0)) := by
      simp [slice]; omega
    have s2 : sliceFrom l (me + 1) = .ok (l.drop (me + 1)) := by
      simp [sliceFrom]; omega
    simp only [s1, s2, bind, Except.bind]
    cases h2 : find [SP] (l.drop (me + 1)) with
    | none => simp
    | some ue =>
      have b2 := find_some_bound _ _ _ h2
      simp only [List.length_cons, List.length_nil] at b2
      have s3 : slice (l.drop (me + 1)) 0 ue = .ok (((l.drop (me + 1)).drop 0).take (ue - 0)) := by
        simp only [slice]; rw [if_pos]; constructor <;> omega
      have s4 : sliceFrom (l.drop (me + 1)) (ue + 1) = .ok ((l.drop (me + 1)).drop (ue + 1)) := by
        simp only [sliceFrom]; rw [if_pos]; omega
      simp only [s3, s4, pure, Except.pure]
      intro h; cases h

theorem requestLine_no_panic' (l : List Byte) (p : Panic) : RequestLine.tryFrom l ≠ .error (.panic p) := by
  unfold RequestLine.tryFrom
  cases hp : RequestLine.parts l with
  | error f =>
    simp only [bind, Except.bind]
    intro h
    cases h
    exact parts_no_panic l p hp
  | ok v =>
    obtain ⟨m, u, v⟩ := v
    simp only [bind, Except.bind]
    split
    · intro h; cases h
    · split
      · intro h; cases h
      · split
        · intro h; cases h
        · intro h; cases h

end MicroHttp

namespace MicroHttp

theorem CRLF_prefix_shape (l : List Byte) (h : CRLF.isPrefixOf l = true) : ∃ t, l = CR :: LF :: t := by
  obtain ⟨t, ht⟩ := List.isPrefixOf_iff_prefix.mp h
  exact ⟨t, by rw [← ht]; rfl⟩

/-- a list that starts with CR LF cannot have its first CR LF CR LF at index 1 -/
theorem find4_ne_one (t : List Byte) : find CRLFCRLF (CR :: LF :: t) ≠ some 1 := by
  have hne : (CR == LF) = false := by decide
  simp only [find, CRLFCRLF, List.isPrefixOf, hne, Bool.false_and, Bool.false_eq_true, if_false]
  split
  · intro h; cases h
  · intro h
    simp only [Option.map_map, Option.map_eq_some_iff, Function.comp] at h
    obtain ⟨j, _, hj⟩ := h
    omega

def NoPanic {α : Type} (x : Except Fault α) : Prop := ∀ p, x ≠ .error (.panic p)

theorem NoPanic.ok {α : Type} (a : α) : NoPanic (.ok a : Except Fault α) := by intro p h; cases h
theorem NoPanic.pure {α : Type} (a : α) : NoPanic (pure a : Except Fault α) := by intro p h; cases h
theorem NoPanic.parse {α : Type} (e : ReqErr) : NoPanic (.error (.parse e) : Except Fault α) := by
  intro p h; cases h
theorem NoPanic.bind {α β : Type} (x : Except Fault α) (f : α → Except Fault β) (a : α)
    (hx : x = .ok a) (hf : NoPanic (f a)) : NoPanic (x >>= f) := by
  subst hx; exact hf

theorem tryFrom_limit (bs : List Byte) (maxLen : Option Nat) :
    Request.tryFrom bs maxLen = Request.tryFrom bs none ∨
    Request.tryFrom bs maxLen = .error (.parse .invalidRequest) := by
  unfold Request.tryFrom
  cases maxLen with
  | none => left; rfl
  | some lim =>
    simp only
    by_cases h : decide (bs.length ≥ lim) = true
    · right; rw [if_pos h]
    · left; rw [if_neg h]; simp only [Bool.false_eq_true, if_false]

theorem oneShot_none (bs : List Byte) : NoPanic (Request.tryFrom bs none) := by
  unfold Request.tryFrom
  simp only [Bool.false_eq_true, if_false]
  cases h1 : find CRLF bs with
  | none => exact NoPanic.parse _
  | some rle =>
    have b1 := find_some_bound _ _ _ h1
    simp only [CRLF, List.length_cons, List.length_nil] at b1
    obtain ⟨t, ht⟩ := CRLF_prefix_shape _ (find_some_prefix _ _ _ h1)
    have s1 : slice bs 0 rle = .ok ((bs.drop 0).take (rle - 0)) := by
      simp only [slice]; rw [if_pos]; constructor <;> omega
    have s2 : sliceFrom bs rle = .ok (bs.drop rle) := by
      simp only [sliceFrom]; rw [if_pos]; omega
    have s3 : sliceFrom bs (rle + 2) = .ok (bs.drop (rle + 2)) := by
      simp only [sliceFrom]; rw [if_pos]; omega
    simp only
    refine NoPanic.bind _ _ _ s1 ?_
    split
    · exact NoPanic.parse _
    · cases hrl : RequestLine.tryFrom ((bs.drop 0).take (rle - 0)) with
      | error f =>
        intro p h
        cases f with
        | parse e => cases h
        | panic q => exact requestLine_no_panic' _ q hrl
      | ok rl =>
        refine NoPanic.bind _ _ _ rfl ?_
        refine NoPanic.bind _ _ _ s2 ?_
        cases h2 : find CRLFCRLF (bs.drop rle) with
        | none => exact NoPanic.parse _
        | some he0 =>
          cases he0 with
          | zero => exact NoPanic.pure _
          | succ k =>
            have b2 := find_some_bound _ _ _ h2
            simp only [CRLFCRLF, List.length_cons, List.length_nil, List.length_drop] at b2
            have hk : 1 ≤ k := by
              cases k with
              | zero => rw [ht] at h2; exact absurd h2 (find4_ne_one t)
              | succ j => omega
            have s4 : checkedSub (k + 1) 2 = .ok (k + 1 - 2) := by
              simp only [checkedSub]; rw [if_pos]; omega
            have s5 : slice (bs.drop (rle + 2)) 0 (k + 1 - 2) =
                .ok (((bs.drop (rle + 2)).drop 0).take (k + 1 - 2 - 0)) := by
              simp only [slice, List.length_drop]; rw [if_pos]; constructor <;> omega
            have s6 : checkedSub (bs.drop (rle + 2)).length (k + 1 - 2 + 4) =
                .ok ((bs.drop (rle + 2)).length - (k + 1 - 2 + 4)) := by
              simp only [checkedSub, List.length_drop]; rw [if_pos]; omega
            have s7 : sliceFrom (bs.drop (rle + 2)) (k + 1 - 2 + 4) =
                .ok ((bs.drop (rle + 2)).drop (k + 1 - 2 + 4)) := by
              simp only [sliceFrom, List.length_drop]; rw [if_pos]; omega
            simp only
            refine NoPanic.bind _ _ _ s3 ?_
            refine NoPanic.bind _ _ _ s4 ?_
            refine NoPanic.bind _ _ _ s5 ?_
            split
            · exact NoPanic.parse _
            · split
              · exact NoPanic.pure _
              · split
                · exact NoPanic.parse _
                · refine NoPanic.bind _ _ _ s6 ?_
                  split
                  · exact NoPanic.parse _
                  · refine NoPanic.bind _ _ _ s7 ?_
                    split
                    · exact NoPanic.pure _
                    · exact NoPanic.parse _

theorem oneShot_no_panic' (bs : List Byte) (maxLen : Option Nat) (p : Panic) :
    Request.tryFrom bs maxLen ≠ .error (.panic p) := by
  rcases tryFrom_limit bs maxLen with h | h
  · rw [h]; exact oneShot_none bs p
  · rw [h]; intro h'; cases h'

end MicroHttp
