/-
  Proofs.SystemPoll — what one `World.poll` of a well-behaved world yields, writes and adds to the
  outstanding tokens, PER DESCRIPTOR, in closed form: for a connection `x` exactly what its own event
  does (`stepReqs`, `stepBytes`), for every other descriptor nothing.
  Companion of `KernelPoll.poll_conns` (the connection table after the poll).
-/
import MicroHttp.Proofs.SystemStep
import MicroHttp.Proofs.KernelPoll
namespace MicroHttp

/-! ### projections of requests / effects to one descriptor -/

theorem bytesTo_append (fd : Nat) (a b : List Effect) : bytesTo fd (a ++ b) = bytesTo fd a ++ bytesTo fd b := by
  induction a with
  | nil => rfl
  | cons e es ih =>
    cases e <;> simp only [List.cons_append, bytesTo, ih, List.append_assoc]

theorem reqsOf_append (fd : Nat) (a b : List (Token × Request)) :
    reqsOf fd (a ++ b) = reqsOf fd a ++ reqsOf fd b := by
  unfold reqsOf
  rw [List.filter_append, List.map_append]

theorem reqsOf_map_tok (fd : Nat) (tok : Token) (l : List Request) :
    reqsOf fd (l.map (fun r => (tok, r))) = if tok.fd = fd then l else [] := by
  unfold reqsOf
  by_cases h : tok.fd = fd
  · rw [if_pos h, List.filter_eq_self.mpr, List.map_map]
    · simp [Function.comp_def]
    · intro x hx
      obtain ⟨r, _, rfl⟩ := List.mem_map.mp hx
      simpa using h
  · rw [if_neg h, List.filter_eq_nil_iff.mpr]
    · rfl
    · intro x hx
      obtain ⟨r, _, rfl⟩ := List.mem_map.mp hx
      simpa using h

theorem filter_map_const_tok (fd : Nat) (tok : Token) (l : List Request) :
    ((l.map (fun _ => tok)).filter (fun t => t.fd = fd)).length = if tok.fd = fd then l.length else 0 := by
  by_cases h : tok.fd = fd
  · rw [if_pos h, List.filter_eq_self.mpr, List.length_map]
    intro x hx
    obtain ⟨r, _, rfl⟩ := List.mem_map.mp hx
    simpa using h
  · rw [if_neg h, List.filter_eq_nil_iff.mpr]
    · rfl
    · intro x hx
      obtain ⟨r, _, rfl⟩ := List.mem_map.mp hx
      simpa using h

/-! ### one connection event, observed -/

theorem handleEv_connEvent_obs (s : Srv) (c : Client) (k : KSock)
    (hf : findClient s.conns c.fd = some c) (hok : ClientOK c) (hpg : k.peerGone = false)
    (hr : connReady c k = true) :
    (handleEv s (connEvent c k)).2.1 = (stepReqs c k).map (fun r => ((⟨c.fd, c.inst⟩ : Token), r)) ∧
    (handleEv s (connEvent c k)).1.outstanding =
      s.outstanding ++ (stepReqs c k).map (fun _ => (⟨c.fd, c.inst⟩ : Token)) ∧
    ∀ fd, bytesTo fd (handleEv s (connEvent c k)).2.2.1 = if c.fd = fd then stepBytes c k else [] := by
  cases hi : c.interest with
  | inn =>
    rw [connReady_inn c k hi, hpg] at hr
    simp only [Bool.false_or, Bool.not_eq_true'] at hr
    have hs := not_awaitingOut_of_inn hok hi
    obtain ⟨_, hnp⟩ := ClientCore_read c hok hs (.data k.unread []) []
    have e3 : stepReqs c k = (c.read (.data k.unread []) []).2.1 := by
      unfold stepReqs; rw [hi]; simp only [hr, Bool.false_eq_true, if_false]
    have e4 : stepBytes c k = [] := by unfold stepBytes; rw [hi]
    unfold connEvent
    rw [handleEv_in s c.fd _ _ _ _ c hf hpg (by simp [hi, hr]) hnp, e3, e4]
    refine ⟨rfl, rfl, ?_⟩
    intro fd
    simp only
    split <;> simp [bytesTo]
  | out =>
    rw [connReady_out c k hi, hpg] at hr
    simp only [Bool.false_or, decide_eq_true_eq] at hr
    have e3 : stepReqs c k = [] := by unfold stepReqs; rw [hi]
    have e4 : stepBytes c k = (c.write (.accept k.space)).2 := by
      unfold stepBytes; rw [hi]; simp only [hr, if_true]
    unfold connEvent
    rw [handleEv_out s c.fd _ _ _ _ c hf hpg (by simp [hi]) (by simp [hi, hr]), e3, e4]
    refine ⟨rfl, by simp, ?_⟩
    intro fd
    simp only
    rw [bytesTo_append]
    have h2 : bytesTo fd (if (c.write (.accept k.space)).1.state = .awaitingIn
        then [Effect.interest c.fd .inn] else []) = [] := by
      split <;> rfl
    rw [h2, List.append_nil]
    cases hb : (c.write (.accept k.space)).2 with
    | nil => simp [bytesTo]
    | cons b bs => simp [bytesTo]

/-! ### the connection events of a batch, observed -/

theorem runEvents_clients_obs (sock : Nat → KSock) (fd : Nat) (cs : List Client) (s : Srv)
    (hnd : (s.conns.map (·.fd)).Nodup) (hcs : (cs.map (·.fd)).Nodup)
    (h : ∀ c ∈ cs, findClient s.conns c.fd = some c ∧ ClientOK c ∧ (sock c.fd).peerGone = false ∧
      connReady c (sock c.fd) = true)
    (reqs : List (Token × Request)) (effs : List Effect) :
    reqsOf fd (runEvents s (cs.map (fun c => connEvent c (sock c.fd))) reqs effs).2.1 =
      reqsOf fd reqs ++ (cs.filter (fun c => c.fd = fd)).flatMap (fun c => stepReqs c (sock c.fd)) ∧
    bytesTo fd (runEvents s (cs.map (fun c => connEvent c (sock c.fd))) reqs effs).2.2.1 =
      bytesTo fd effs ++ (cs.filter (fun c => c.fd = fd)).flatMap (fun c => stepBytes c (sock c.fd)) ∧
    ((runEvents s (cs.map (fun c => connEvent c (sock c.fd))) reqs effs).1.outstanding.filter
        (fun t => t.fd = fd)).length =
      (s.outstanding.filter (fun t => t.fd = fd)).length +
        ((cs.filter (fun c => c.fd = fd)).flatMap (fun c => stepReqs c (sock c.fd))).length := by
  induction cs generalizing s reqs effs with
  | nil => simp [runEvents]
  | cons c cs ih =>
    obtain ⟨hf, hok, hpg, hr⟩ := h c List.mem_cons_self
    obtain ⟨h1, h2⟩ := handleEv_connEvent s c (sock c.fd) hf hok hpg hr
    obtain ⟨o1, o2, o3⟩ := handleEv_connEvent_obs s c (sock c.fd) hf hok hpg hr
    simp only [List.map_cons, List.nodup_cons] at hcs
    rw [List.map_cons, runEvents_cons_ok _ _ _ _ _ h2]
    have hsfd := stepClient_fd c (sock c.fd)
    have hnd1 : ((handleEv s (connEvent c (sock c.fd))).1.conns.map (·.fd)).Nodup := by
      rw [h1, replaceClient_fds]; exact hnd
    have hrest : ∀ d ∈ cs, findClient (handleEv s (connEvent c (sock c.fd))).1.conns d.fd = some d ∧
        ClientOK d ∧ (sock d.fd).peerGone = false ∧ connReady d (sock d.fd) = true := by
      intro d hd
      obtain ⟨g1, g2⟩ := h d (List.mem_cons_of_mem _ hd)
      refine ⟨?_, g2⟩
      rw [h1, findClient_replace_ne _ _ _ ?_]
      · exact g1
      · rw [hsfd]
        intro e
        exact hcs.1 (List.mem_map.mpr ⟨d, hd, e.symm⟩)
    obtain ⟨i1, i2, i3⟩ := ih _ hnd1 hcs.2 hrest (reqs ++ (handleEv s (connEvent c (sock c.fd))).2.1)
      (effs ++ (handleEv s (connEvent c (sock c.fd))).2.2.1)
    rw [i1, i2, i3, reqsOf_append, bytesTo_append, o1, o2, o3 fd, reqsOf_map_tok, List.filter_append,
      List.length_append, filter_map_const_tok, List.filter_cons]
    by_cases hfd : c.fd = fd
    · simp only [hfd, if_true, decide_true, List.flatMap_cons, List.append_assoc, List.length_append]
      refine ⟨trivial, trivial, ?_⟩
      omega
    · simp only [hfd, if_false, decide_false, List.append_nil, Bool.false_eq_true]
      refine ⟨trivial, trivial, ?_⟩
      omega

/-! ### the whole batch -/

theorem flatMap_filter_ready {α β : Type} (l : List α) (r p : α → Bool) (f : α → List β)
    (h : ∀ x ∈ l, r x = false → f x = []) :
    ((l.filter r).filter p).flatMap f = (l.filter p).flatMap f := by
  induction l with
  | nil => rfl
  | cons x xs ih =>
    have ih' := ih (fun y hy => h y (List.mem_cons_of_mem _ hy))
    cases hr : r x <;> cases hp : p x <;>
      simp only [List.filter_cons, hr, hp, if_true, if_false, Bool.false_eq_true, List.flatMap_cons, ih']
    rw [h x List.mem_cons_self hr, List.nil_append]

theorem stepReqs_not_ready (c : Client) (k : KSock) (hpg : k.peerGone = false)
    (hr : connReady c k = false) : stepReqs c k = [] := by
  unfold stepReqs
  cases hi : c.interest with
  | inn =>
    rw [connReady_inn c k hi, hpg] at hr
    simp only [Bool.false_or, Bool.not_eq_false'] at hr
    simp only [hr, if_true]
  | out => rfl

theorem stepBytes_not_ready (c : Client) (k : KSock) (hpg : k.peerGone = false)
    (hr : connReady c k = false) : stepBytes c k = [] := by
  unfold stepBytes
  cases hi : c.interest with
  | inn => rfl
  | out =>
    rw [connReady_out c k hi, hpg] at hr
    simp only [Bool.false_or, decide_eq_false_iff_not] at hr
    simp only [hr, if_false]

/-- handling the connection events of the batch from a table that extends the original one -/
theorem runEvents_ready_obs (w : World) (h : SrvInv w.srv) (hw : w.WellBehaved) (fd : Nat) (s1 : Srv)
    (extra : List Client) (h1 : s1.conns = w.srv.conns ++ extra) (hnd : (s1.conns.map (·.fd)).Nodup)
    (reqs : List (Token × Request)) (effs : List Effect) :
    reqsOf fd (runEvents s1 ((readyConns w).map (fun c => connEvent c (w.sock c.fd))) reqs effs).2.1 =
      reqsOf fd reqs ++
        (w.srv.conns.filter (fun c => c.fd = fd)).flatMap (fun c => stepReqs c (w.sock c.fd)) ∧
    bytesTo fd (runEvents s1 ((readyConns w).map (fun c => connEvent c (w.sock c.fd))) reqs effs).2.2.1 =
      bytesTo fd effs ++
        (w.srv.conns.filter (fun c => c.fd = fd)).flatMap (fun c => stepBytes c (w.sock c.fd)) ∧
    ((runEvents s1 ((readyConns w).map (fun c => connEvent c (w.sock c.fd))) reqs effs).1.outstanding.filter
        (fun t => t.fd = fd)).length =
      (s1.outstanding.filter (fun t => t.fd = fd)).length +
        ((w.srv.conns.filter (fun c => c.fd = fd)).flatMap (fun c => stepReqs c (w.sock c.fd))).length := by
  have hyp : ∀ c ∈ readyConns w, findClient s1.conns c.fd = some c ∧ ClientOK c ∧
      (w.sock c.fd).peerGone = false ∧ connReady c (w.sock c.fd) = true := by
    intro c hc
    obtain ⟨hm, hr⟩ := mem_readyConns hc
    refine ⟨findClient_of_mem hnd ?_, h.clients c hm, (hw.2.1 c hm).1, hr⟩
    rw [h1]; exact List.mem_append_left _ hm
  obtain ⟨g1, g2, g3⟩ :=
    runEvents_clients_obs w.sock fd (readyConns w) s1 hnd (readyConns_nodup w h) hyp reqs effs
  have e1 : ((readyConns w).filter (fun c => c.fd = fd)).flatMap (fun c => stepReqs c (w.sock c.fd)) =
      (w.srv.conns.filter (fun c => c.fd = fd)).flatMap (fun c => stepReqs c (w.sock c.fd)) := by
    unfold readyConns
    apply flatMap_filter_ready
    intro x hx hr
    exact stepReqs_not_ready x _ (hw.2.1 x hx).1 hr
  have e2 : ((readyConns w).filter (fun c => c.fd = fd)).flatMap (fun c => stepBytes c (w.sock c.fd)) =
      (w.srv.conns.filter (fun c => c.fd = fd)).flatMap (fun c => stepBytes c (w.sock c.fd)) := by
    unfold readyConns
    apply flatMap_filter_ready
    intro x hx hr
    exact stepBytes_not_ready x _ (hw.2.1 x hx).1 hr
  rw [← e1, ← e2]
  exact ⟨g1, g2, g3⟩

/-- the listener event yields nothing, writes nothing to a connection, adds no token -/
theorem handleEv_listener_obs (s : Srv) (fd0 fd : Nat) :
    (handleEv s (.listener fd0)).2.1 = [] ∧ bytesTo fd (handleEv s (.listener fd0)).2.2.1 = [] ∧
    (handleEv s (.listener fd0)).1.outstanding = s.outstanding := by
  by_cases hlen : s.conns.length = MAX_CONNECTIONS
  · rw [handleEv_listener_full s fd0 hlen]; exact ⟨rfl, rfl, rfl⟩
  · rw [handleEv_listener_accept s fd0 hlen]; exact ⟨rfl, rfl, rfl⟩

theorem runEvents_batch_obs (w : World) (h : SrvInv w.srv) (hw : w.WellBehaved) (fd : Nat) :
    reqsOf fd (runEvents w.srv w.batch [] []).2.1 =
      (w.srv.conns.filter (fun c => c.fd = fd)).flatMap (fun c => stepReqs c (w.sock c.fd)) ∧
    bytesTo fd (runEvents w.srv w.batch [] []).2.2.1 =
      (w.srv.conns.filter (fun c => c.fd = fd)).flatMap (fun c => stepBytes c (w.sock c.fd)) ∧
    ((runEvents w.srv w.batch [] []).1.outstanding.filter (fun t => t.fd = fd)).length =
      (w.srv.outstanding.filter (fun t => t.fd = fd)).length +
        ((w.srv.conns.filter (fun c => c.fd = fd)).flatMap (fun c => stepReqs c (w.sock c.fd))).length := by
  rw [batch_eq]
  cases hb : w.backlog with
  | nil =>
    simp only [List.nil_append]
    have := runEvents_ready_obs w h hw fd w.srv [] (List.append_nil _).symm h.fdsNodup [] []
    simpa [reqsOf, bytesTo] using this
  | cons fd0 rest =>
    have hfd : fd0 ∉ w.srv.fds := (hw.2.2.1 fd0 (by rw [hb]; exact List.mem_cons_self)).1
    obtain ⟨l1, l2⟩ := handleEv_listener_conns w.srv fd0 hfd
    obtain ⟨o1, o2, o3⟩ := handleEv_listener_obs w.srv fd0 fd
    simp only [List.singleton_append]
    rw [runEvents_cons_ok _ _ _ _ _ l2]
    have hinv := handleEv_inv w.srv h (.listener fd0) hfd
    have := runEvents_ready_obs w h hw fd _ _ l1 hinv.fdsNodup ([] ++ (handleEv w.srv (.listener fd0)).2.1)
      ([] ++ (handleEv w.srv (.listener fd0)).2.2.1)
    rw [o3, bytesTo_append, o2, o1] at this
    rw [o1]
    simpa [reqsOf, bytesTo] using this

/-! ### the whole poll -/

/-- the requests a poll returns (`[]` if it aborts, which it does not in a well-behaved world) -/
def pollReqs (w : World) : List (Token × Request) :=
  match (requests w.srv w.batch).2.1 with
  | .ok reqs => reqs
  | .aborted _ => []

theorem bytesTo_sweep (fd : Nat) (s : Srv) : bytesTo fd (sweep s).2 = [] := by
  unfold sweep
  simp only
  generalize s.conns.filter (fun c => c.isDone) = l
  induction l with
  | nil => rfl
  | cons x xs ih => simp only [List.map_cons, bytesTo, ih]

/-- per descriptor: what the poll yields, writes, and adds to the outstanding tokens -/
theorem poll_obs (w : World) (h : SrvInv w.srv) (hw : w.WellBehaved) (fd : Nat) :
    reqsOf fd (pollReqs w) =
      (w.srv.conns.filter (fun c => c.fd = fd)).flatMap (fun c => stepReqs c (w.sock c.fd)) ∧
    bytesTo fd (requests w.srv w.batch).2.2 =
      (w.srv.conns.filter (fun c => c.fd = fd)).flatMap (fun c => stepBytes c (w.sock c.fd)) ∧
    (w.poll.1.srv.outstanding.filter (fun t => t.fd = fd)).length =
      (w.srv.outstanding.filter (fun t => t.fd = fd)).length +
        ((w.srv.conns.filter (fun c => c.fd = fd)).flatMap (fun c => stepReqs c (w.sock c.fd))).length := by
  obtain ⟨_, g2⟩ := runEvents_batch w h hw
  obtain ⟨o1, o2, o3⟩ := runEvents_batch_obs w h hw fd
  unfold pollReqs
  rw [poll_srv, requests_eq_ok _ _ g2]
  simp only
  rw [bytesTo_append, bytesTo_sweep, List.append_nil]
  exact ⟨o1, o2, o3⟩

theorem filter_fd_eq_of_mem {cs : List Client} (hnd : (cs.map (·.fd)).Nodup) {x : Client} (hx : x ∈ cs) :
    cs.filter (fun c => c.fd = x.fd) = [x] := by
  induction cs with
  | nil => cases hx
  | cons y ys ih =>
    simp only [List.map_cons, List.nodup_cons] at hnd
    rw [List.filter_cons]
    rcases List.mem_cons.mp hx with rfl | hx'
    · simp only [decide_true, if_true, List.cons.injEq, true_and]
      apply List.filter_eq_nil_iff.mpr
      intro z hz
      simp only [decide_eq_true_eq]
      intro e
      exact hnd.1 (List.mem_map.mpr ⟨z, hz, e⟩)
    · have hne : ¬ y.fd = x.fd := by
        intro e
        exact hnd.1 (List.mem_map.mpr ⟨x, hx', e.symm⟩)
      simp only [hne, decide_false, Bool.false_eq_true, if_false]
      exact ih hnd.2 hx'

theorem filter_fd_eq_of_not_mem {cs : List Client} {fd : Nat} (h : fd ∉ cs.map (·.fd)) :
    cs.filter (fun c => c.fd = fd) = [] := by
  apply List.filter_eq_nil_iff.mpr
  intro z hz
  simp only [decide_eq_true_eq]
  intro e
  exact h (List.mem_map.mpr ⟨z, hz, e⟩)

/-- a connection: exactly what its own event does -/
theorem poll_obs_conn (w : World) (h : SrvInv w.srv) (hw : w.WellBehaved) (x : Client) (hx : x ∈ w.srv.conns) :
    reqsOf x.fd (pollReqs w) = stepReqs x (w.sock x.fd) ∧
    bytesTo x.fd (requests w.srv w.batch).2.2 = stepBytes x (w.sock x.fd) ∧
    (w.poll.1.srv.outstanding.filter (fun t => t.fd = x.fd)).length =
      (w.srv.outstanding.filter (fun t => t.fd = x.fd)).length + (stepReqs x (w.sock x.fd)).length := by
  have := poll_obs w h hw x.fd
  rw [filter_fd_eq_of_mem h.fdsNodup hx] at this
  simpa using this

/-- any other descriptor: nothing -/
theorem poll_obs_none (w : World) (h : SrvInv w.srv) (hw : w.WellBehaved) (fd : Nat) (hfd : fd ∉ w.srv.fds) :
    reqsOf fd (pollReqs w) = [] ∧ bytesTo fd (requests w.srv w.batch).2.2 = [] := by
  have := poll_obs w h hw fd
  rw [filter_fd_eq_of_not_mem hfd] at this
  exact ⟨by simpa using this.1, by simpa using this.2.1⟩

end MicroHttp
