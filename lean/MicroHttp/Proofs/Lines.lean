/-
  Proofs.Lines — CRLF-separated lines: `find CRLFCRLF` follows the line structure (the first
  CR LF CR LF is where a line-by-line scan meets its first empty line), `splitCRLF` is the iterated
  first-CRLF split, and a byte string with a CR LF CR LF decomposes into non-empty lines, a blank
  line and a remainder.
-/
import MicroHttp.Proofs.GrammarInv
import MicroHttp.Proofs.OneShot
namespace MicroHttp.Lines
open MicroHttp MicroHttp.Grammar

/-- header lines each followed by CR LF -/
def joinLines (ls : List (List Byte)) : List Byte := (ls.map (· ++ CRLF)).flatten

/-- header lines separated by CR LF -/
def inter : List (List Byte) → List Byte
  | [] => []
  | [l] => l
  | l :: l' :: ls => l ++ CRLF ++ inter (l' :: ls)

theorem joinLines_nil : joinLines [] = [] := rfl
theorem joinLines_cons (l : List Byte) (ls : List (List Byte)) :
    joinLines (l :: ls) = l ++ CRLF ++ joinLines ls := by simp [joinLines]

theorem joinLines_eq_inter (ls : List (List Byte)) (h : ls ≠ []) : joinLines ls = inter ls ++ CRLF := by
  induction ls with
  | nil => exact absurd rfl h
  | cons l ls ih =>
    cases ls with
    | nil => simp [joinLines, inter]
    | cons l' ls' =>
      rw [joinLines_cons, ih (by simp), inter]
      simp

/-! ### `find CRLFCRLF` along lines -/

theorem find4_CRLF_cons (X : List Byte) :
    find CRLFCRLF (CR :: LF :: X) =
      if CRLF.isPrefixOf X then some 0 else (find CRLFCRLF X).map (· + 2) := by
  have hne : (CR == LF) = false := by decide
  have e1 : CRLFCRLF.isPrefixOf (CR :: LF :: X) = CRLF.isPrefixOf X := by
    simp [CRLFCRLF, CRLF, List.isPrefixOf]
  have e2 : CRLFCRLF.isPrefixOf (LF :: X) = false := by
    simp [CRLFCRLF, List.isPrefixOf]; intro h; exact absurd h (by decide)
  rw [find, e1]
  split
  · rfl
  · rw [find, e2]
    simp only [Bool.false_eq_true, if_false, Option.map_map]
    congr 1

theorem find4_skip (l X : List Byte) (h : findCRLF l = none) :
    find CRLFCRLF (l ++ CR :: LF :: X) = (find CRLFCRLF (CR :: LF :: X)).map (· + l.length) := by
  induction l with
  | nil => simp
  | cons a l ih =>
    have hl : findCRLF l = none := by
      cases l with
      | nil => rfl
      | cons b t =>
        rw [findCRLF] at h
        split at h
        · cases h
        · simpa using h
    have hp : CRLFCRLF.isPrefixOf (a :: (l ++ CR :: LF :: X)) = false := by
      cases l with
      | nil =>
        simp only [List.nil_append, CRLFCRLF, List.isPrefixOf]
        have : (LF == CR) = false := by decide
        simp [this]
      | cons b t =>
        rw [findCRLF] at h
        split at h
        · cases h
        · rename_i hab
          simp only [List.cons_append, CRLFCRLF, List.isPrefixOf]
          rw [Bool.and_eq_false_iff, Bool.and_eq_false_iff]
          by_cases h1 : a = CR
          · right; left
            simp only [beq_eq_false_iff_ne, ne_eq]
            intro h2; exact hab ⟨h1, h2.symm⟩
          · left
            simp only [beq_eq_false_iff_ne, ne_eq]
            intro h2; exact h1 h2.symm
    rw [List.cons_append, find, hp, ih hl]
    simp only [Bool.false_eq_true, if_false, Option.map_map, List.length_cons]
    congr 1

/-- the first CR LF CR LF of `l CRLF lines CRLF rest` is the CRLF that ends the last line -/
theorem find4_lines (l : List Byte) (ls : List (List Byte)) (rest : List Byte)
    (hl : findCRLF l = none) (hls : ∀ x ∈ ls, x ≠ [] ∧ findCRLF x = none) :
    find CRLFCRLF (l ++ CRLF ++ joinLines ls ++ CRLF ++ rest) = some (l.length + (joinLines ls).length) := by
  induction ls generalizing l with
  | nil =>
    have : l ++ CRLF ++ joinLines [] ++ CRLF ++ rest = l ++ CR :: LF :: (CR :: LF :: rest) := by
      simp [joinLines, CRLF]
    rw [this, find4_skip l _ hl, find4_CRLF_cons]
    simp [CRLF, List.isPrefixOf, joinLines]
  | cons x ls ih =>
    obtain ⟨hx0, hx⟩ := hls x (List.mem_cons_self ..)
    have e : l ++ CRLF ++ joinLines (x :: ls) ++ CRLF ++ rest =
        l ++ CR :: LF :: (x ++ CRLF ++ joinLines ls ++ CRLF ++ rest) := by
      rw [joinLines_cons]; simp [CRLF]
    have hnp : CRLF.isPrefixOf (x ++ CRLF ++ joinLines ls ++ CRLF ++ rest) = false := by
      cases hp : CRLF.isPrefixOf (x ++ CRLF ++ joinLines ls ++ CRLF ++ rest) with
      | false => rfl
      | true =>
        exfalso
        obtain ⟨t, ht⟩ := CRLF_prefix_shape _ hp
        have h0 : findCRLF (x ++ CRLF ++ joinLines ls ++ CRLF ++ rest) = some 0 := by
          rw [ht]; simp [findCRLF]
        have h1 : findCRLF (x ++ CRLF ++ joinLines ls ++ CRLF ++ rest) = some x.length := by
          have := findCRLF_append x (joinLines ls ++ CRLF ++ rest) hx
          simpa [CRLF] using this
        rw [h0] at h1
        simp only [Option.some.injEq] at h1
        exact hx0 (List.length_eq_zero_iff.mp h1.symm)
    rw [e, find4_skip l _ hl, find4_CRLF_cons, hnp,
      ih x hx (fun y hy => hls y (List.mem_cons_of_mem _ hy))]
    simp only [Bool.false_eq_true, if_false, Option.map_some, joinLines_cons, List.length_append]
    simp [CRLF]; omega

/-- a CR LF-prefixed string containing CR LF CR LF: non-empty lines, a blank line, a remainder -/
theorem find4_decompose :
    ∀ (n : Nat) (s : List Byte), s.length < n → ∀ q, find CRLFCRLF (CR :: LF :: s) = some q →
      ∃ ls rest, s = joinLines ls ++ CRLF ++ rest ∧ ∀ l ∈ ls, l ≠ [] ∧ findCRLF l = none := by
  intro n
  induction n with
  | zero => intro s h; omega
  | succ n ih =>
    intro s hlen q hq
    rw [find4_CRLF_cons] at hq
    cases hp : CRLF.isPrefixOf s with
    | true =>
      obtain ⟨t, ht⟩ := CRLF_prefix_shape _ hp
      exact ⟨[], t, by simp [joinLines, ht, CRLF], by intro l hl; cases hl⟩
    | false =>
      rw [hp] at hq
      simp only [Bool.false_eq_true, if_false, Option.map_eq_some_iff] at hq
      obtain ⟨q', hq', _⟩ := hq
      cases hc : findCRLF s with
      | none =>
        exfalso
        -- a CR LF CR LF occurrence is a CR LF occurrence
        have hpre := find_some_prefix _ _ _ hq'
        obtain ⟨t, ht⟩ := List.isPrefixOf_iff_prefix.mp hpre
        have e : s = s.take q' ++ CR :: LF :: (CR :: LF :: t) := by
          conv => lhs; rw [← List.take_append_drop q' s, ← ht]
          simp [CRLFCRLF]
        rw [e] at hc
        have := findCRLF_prefix_none (s.take q' ++ [CR, LF]) (CR :: LF :: t) (by simpa using hc)
        -- but `p ++ [CR, LF]` always contains a CR LF
        have hex : ∀ p : List Byte, findCRLF (p ++ [CR, LF]) ≠ none := by
          intro p
          induction p with
          | nil => simp [findCRLF]
          | cons a p ihp =>
            cases p with
            | nil =>
              simp only [List.cons_append, List.nil_append, findCRLF]
              split
              · simp
              · simp
            | cons b p' =>
              simp only [List.cons_append] at ihp ⊢
              rw [findCRLF]
              split
              · simp
              · simpa using ihp
        exact hex _ this
      | some i =>
        have hsplit := findCRLF_split s i hc
        have hb := findCRLF_some_bound s i hc
        have hi : s.take i ≠ [] := by
          intro h0
          rw [h0] at hsplit
          rw [hsplit] at hp
          simp [CRLF, List.isPrefixOf] at hp
        have hno := findCRLF_take_none s i hc
        rw [hsplit, find4_skip _ _ hno] at hq'
        simp only [Option.map_eq_some_iff] at hq'
        obtain ⟨q'', hq'', _⟩ := hq'
        obtain ⟨ls, rest, hs, hls⟩ := ih (s.drop (i + 2)) (by simp; omega) q'' hq''
        refine ⟨s.take i :: ls, rest, ?_, ?_⟩
        · conv => lhs; rw [hsplit, hs]
          rw [joinLines_cons]; simp [CRLF]
        · intro l hl
          rcases List.mem_cons.mp hl with rfl | hl
          · exact ⟨hi, hno⟩
          · exact hls l hl

/-! ### `splitCRLF` along lines -/

theorem findCRLF_tail_none (a : Byte) (l : List Byte) (h : findCRLF (a :: l) = none) : findCRLF l = none := by
  cases l with
  | nil => rfl
  | cons b t =>
    rw [findCRLF] at h
    split at h
    · cases h
    · simpa using h

theorem splitCRLF_noCRLF (l : List Byte) (h : findCRLF l = none) : splitCRLF l = [l] := by
  induction l with
  | nil => rfl
  | cons a l ih =>
    have ih' := ih (findCRLF_tail_none a l h)
    cases l with
    | nil => rfl
    | cons b t =>
      rw [findCRLF] at h
      split at h
      · cases h
      · rename_i hab
        have hc : (a == CR && b == LF) = false := by
          rw [Bool.and_eq_false_iff]
          by_cases h1 : a = CR
          · right; simp only [beq_eq_false_iff_ne, ne_eq]; intro h2; exact hab ⟨h1, h2⟩
          · left; simp only [beq_eq_false_iff_ne, ne_eq]; exact h1
        rw [splitCRLF, hc, ih']
        rfl

theorem splitCRLF_line (l X : List Byte) (h : findCRLF l = none) :
    splitCRLF (l ++ CR :: LF :: X) = l :: splitCRLF X := by
  induction l with
  | nil => simp [splitCRLF]
  | cons a l ih =>
    have ih' := ih (findCRLF_tail_none a l h)
    cases l with
    | nil =>
      have hc : (a == CR && CR == LF) = false := by
        have : (CR == LF) = false := by decide
        simp [this]
      simp only [List.cons_append, List.nil_append] at ih' ⊢
      rw [splitCRLF, hc, ih']
      rfl
    | cons b t =>
      rw [findCRLF] at h
      split at h
      · cases h
      · rename_i hab
        have hc : (a == CR && b == LF) = false := by
          rw [Bool.and_eq_false_iff]
          by_cases h1 : a = CR
          · right; simp only [beq_eq_false_iff_ne, ne_eq]; intro h2; exact hab ⟨h1, h2⟩
          · left; simp only [beq_eq_false_iff_ne, ne_eq]; exact h1
        simp only [List.cons_append] at ih' ⊢
        rw [splitCRLF, hc, ih']
        rfl

theorem splitCRLF_joinLines (ls : List (List Byte)) (X : List Byte)
    (hls : ∀ l ∈ ls, findCRLF l = none) :
    splitCRLF (joinLines ls ++ X) = ls ++ splitCRLF X := by
  induction ls with
  | nil => simp [joinLines]
  | cons l ls ih =>
    have e : joinLines (l :: ls) ++ X = l ++ CR :: LF :: (joinLines ls ++ X) := by
      rw [joinLines_cons]; simp [CRLF]
    rw [e, splitCRLF_line l _ (hls l (List.mem_cons_self ..)),
      ih (fun x hx => hls x (List.mem_cons_of_mem _ hx))]
    rfl

theorem splitCRLF_inter (ls : List (List Byte)) (hne : ls ≠ [])
    (hls : ∀ l ∈ ls, findCRLF l = none) : splitCRLF (inter ls) = ls := by
  induction ls with
  | nil => exact absurd rfl hne
  | cons l ls ih =>
    cases ls with
    | nil => exact splitCRLF_noCRLF l (hls l (List.mem_cons_self ..))
    | cons l' ls' =>
      have e : inter (l :: l' :: ls') = l ++ CR :: LF :: inter (l' :: ls') := by
        rw [inter]; simp [CRLF]
      rw [e, splitCRLF_line l _ (hls l (List.mem_cons_self ..)),
        ih (by simp) (fun x hx => hls x (List.mem_cons_of_mem _ hx))]

end MicroHttp.Lines
