/-
  Proofs.Safe — the invariant is kept by every public operation and `try_read` never panics.
-/
import MicroHttp.Proofs.Sched
namespace MicroHttp
variable {RL H : Type}

theorem serialize_ne_nil (r : Response) : r.serialize ≠ [] := by
  intro h
  have : SP ∈ r.serialize := by
    simp [Response.serialize, Response.pieces]
  rw [h] at this
  simp at this

theorem tryRead_safe' (P : Params RL H) (hP : P.WF) (c : Conn RL H) (hI : Inv P c) (inp : Recv) :
    Inv P (tryRead P c inp).1 ∧ ∀ p, (tryRead P c inp).2 ≠ .panic p := by
  cases inp with
  | err e => rw [tryRead_err' P c hI e]; exact ⟨hI, by intro p h; cases h⟩
  | data chunk fds =>
    by_cases hne : chunk = []
    · subst hne
      rw [tryRead_eof' P c hI fds]
      exact ⟨⟨hI.notReady, hI.winShort, hI.winNoCRLF, hI.hdr, hI.bod, hI.nb, hI.rbuf⟩, by intro p h; cases h⟩
    · cases htr : tryRead P c (.data chunk fds) with
      | mk c' out =>
        cases hfd : feed P c.limit (absOf c) (chunk.take (P.B - c.win.length)) with
        | mk outs r =>
          obtain ⟨_, _, _, _, p5, p6⟩ := tryRead_refines' P hP c hI chunk fds hne c' out htr outs r hfd
          refine ⟨p5, ?_⟩
          intro p hp
          simp only at hp
          subst hp
          cases r with
          | ok a => exact absurd p6.1 (by intro h; cases h)
          | error e => exact absurd p6.1 (by intro h; cases h)

theorem Inv_of_parser_eq (P : Params RL H) (c d : Conn RL H) (hI : Inv P c)
    (h1 : d.state = c.state) (h2 : d.pending = c.pending) (h3 : d.win = c.win)
    (h4 : d.bodyVec = c.bodyVec) (h5 : d.toRead = c.toRead) (h6 : d.respBuf ≠ some []) : Inv P d := by
  refine ⟨by rw [h1]; exact hI.notReady, by rw [h3]; exact hI.winShort, by rw [h3]; exact hI.winNoCRLF,
    by rw [h1, h2]; exact hI.hdr, ?_, by rw [h1, h4]; exact hI.nb, h6⟩
  rw [h1, h2, h3, h4, h5]; exact hI.bod

theorem tryWrite_inv' (P : Params RL H) (c : Conn RL H) (hI : Inv P c) (w : SinkStep) :
    Inv P (tryWrite c w).1 := by
  have hdrop : ∀ (buf : List Byte) (n : Nat), n ≤ buf.length → n ≠ buf.length → buf.drop n ≠ [] := by
    intro buf n h1 h2 h3
    have := congrArg List.length h3
    simp at this; omega
  unfold tryWrite
  cases hb : c.respBuf with
  | some b =>
    simp only
    cases w with
    | accept k =>
      simp only
      split
      · exact Inv_of_parser_eq P c _ hI rfl rfl rfl rfl rfl (by simp [clearWrite])
      · split
        · rename_i hn
          refine Inv_of_parser_eq P c _ hI rfl rfl rfl rfl rfl ?_
          simp only [ne_eq, Option.some.injEq]
          exact hdrop b _ (Nat.min_le_right _ _) hn
        · exact Inv_of_parser_eq P c _ hI rfl rfl rfl rfl rfl (by simp)
    | zero => exact Inv_of_parser_eq P c _ hI rfl rfl rfl rfl rfl (by simp [clearWrite])
    | interrupted => exact Inv_of_parser_eq P c _ hI rfl rfl rfl rfl rfl (by rw [hb]; rw [← hb]; exact hI.rbuf)
    | fail => exact Inv_of_parser_eq P c _ hI rfl rfl rfl rfl rfl (by simp [clearWrite])
  | none =>
    simp only
    cases hq : c.respQ with
    | nil => simp only; exact hI
    | cons r q =>
      simp only
      cases w with
      | accept k =>
        simp only
        split
        · exact Inv_of_parser_eq P c _ hI rfl rfl rfl rfl rfl (by simp [clearWrite])
        · split
          · rename_i hn
            refine Inv_of_parser_eq P c _ hI rfl rfl rfl rfl rfl ?_
            simp only [ne_eq, Option.some.injEq]
            exact hdrop _ _ (Nat.min_le_right _ _) hn
          · exact Inv_of_parser_eq P c _ hI rfl rfl rfl rfl rfl (by simp)
      | zero => exact Inv_of_parser_eq P c _ hI rfl rfl rfl rfl rfl (by simp [clearWrite])
      | interrupted =>
        exact Inv_of_parser_eq P c _ hI rfl rfl rfl rfl rfl (by simpa using serialize_ne_nil r)
      | fail => exact Inv_of_parser_eq P c _ hI rfl rfl rfl rfl rfl (by simp [clearWrite])

theorem enqueue_inv (P : Params RL H) (c : Conn RL H) (hI : Inv P c) (r : Response) :
    Inv P (enqueue c r) :=
  Inv_of_parser_eq P c _ hI rfl rfl rfl rfl rfl hI.rbuf

theorem popParsed_inv (P : Params RL H) (c : Conn RL H) (hI : Inv P c) : Inv P (popParsed c).1 := by
  unfold popParsed
  cases c.parsed with
  | nil => exact hI
  | cons r rs => exact Inv_of_parser_eq P c _ hI rfl rfl rfl rfl rfl hI.rbuf

theorem clearWrite_inv (P : Params RL H) (c : Conn RL H) (hI : Inv P c) : Inv P (clearWrite c) :=
  Inv_of_parser_eq P c _ hI rfl rfl rfl rfl rfl (by simp [clearWrite])

end MicroHttp
