/-
  Proofs.SrvFlush — what `Client.write` and the flush loop send: always the next unsent bytes of the
  connection's own queue; progress; complete delivery when the socket accepts everything.
-/
import MicroHttp.Proofs.SrvClient
namespace MicroHttp

/-- the bytes handed to the stream are a prefix of the connection's own unsent bytes -/
theorem Client.write_prefix (c : Client) (w : SinkStep) : (c.write w).2 <+: unsentC c.conn := by
  rw [Client.write_eq]
  cases h : (tryWrite c.conn w).2.1 with
  | ok => exact tryWrite_prefix c.conn w
  | closed => exact tryWrite_prefix c.conn w
  | invalidWrite => exact List.nil_prefix

/-- an accepted write on a connection waiting for writability -/
theorem Client.write_accept (c : Client) (hc : ClientOK c) (hs : c.state = .awaitingOut) (k : Nat) :
    (c.write (.accept k)).2 ≠ [] ∧
    (c.write (.accept k)).2 ++ unsentC (c.write (.accept k)).1.conn = unsentC c.conn ∧
    ((c.write (.accept k)).1.state = .awaitingIn ↔ unsentC (c.write (.accept k)).1.conn = []) ∧
    ((c.write (.accept k)).1.state = .awaitingOut ↔ unsentC (c.write (.accept k)).1.conn ≠ []) := by
  have hp := hc.pending_iff.mpr hs
  obtain ⟨h1, h2, h3⟩ := tryWrite_accept c.conn hc.conn.rbuf hp k
  have hI := C03.tryWrite_inv P0 c.conn hc.conn (.accept k)
  have hiff := unsentC_eq_nil_iff (tryWrite c.conn (.accept k)).1 hI.rbuf
  rw [Client.write_eq, h1]
  simp only
  refine ⟨h2, h3, ?_, ?_⟩
  · rw [hiff, hs]
    cases hpw : pendingWrite (tryWrite c.conn (SinkStep.accept k)).1 <;> simp
  · rw [ne_eq, hiff, hs]
    cases hpw : pendingWrite (tryWrite c.conn (SinkStep.accept k)).1 <;> simp

theorem flushClient_not_out (c : Client) (ws : List SinkStep) (h : c.state ≠ .awaitingOut) :
    flushClient c ws = (c, []) := by
  cases ws with
  | nil => rfl
  | cons w ws => rw [flushClient, if_neg h]

theorem flushClient_cons_out (c : Client) (w : SinkStep) (ws : List SinkStep) (h : c.state = .awaitingOut) :
    flushClient c (w :: ws) = ((flushClient (c.write w).1 ws).1, (c.write w).2 ++ (flushClient (c.write w).1 ws).2) := by
  rw [flushClient, if_pos h]

/-- number of `write` calls needed when each takes a whole buffer -/
def writesNeeded (c : Client) : Nat := c.conn.respQ.length + (if c.conn.respBuf.isSome then 1 else 0)

theorem flushClient_full (ws : List SinkStep) (c : Client) (hc : ClientOK c)
    (hall : ∀ w ∈ ws, ∃ k, w = .accept k ∧ (unsentC c.conn).length ≤ k)
    (hlen : writesNeeded c ≤ ws.length) :
    (flushClient c ws).2 = (if c.state = .awaitingOut then unsentC c.conn else []) ∧
    (c.state = .awaitingOut → (flushClient c ws).1.state = .awaitingIn ∧ unsentC (flushClient c ws).1.conn = []) := by
  induction ws generalizing c with
  | nil =>
    have hns : c.state ≠ .awaitingOut := by
      intro hs
      have hp := hc.pending_iff.mpr hs
      unfold writesNeeded at hlen
      simp only [List.length_nil, Nat.le_zero_eq, Nat.add_eq_zero_iff, List.length_eq_zero_iff] at hlen
      unfold pendingWrite at hp
      rw [hlen.1] at hp
      cases hb : c.conn.respBuf with
      | none => simp [hb] at hp
      | some b => simp [hb] at hlen
    rw [flushClient, if_neg hns]
    exact ⟨rfl, fun h => absurd h hns⟩
  | cons w ws ih =>
    by_cases hs : c.state = .awaitingOut
    · obtain ⟨k, rfl, hk⟩ := hall w List.mem_cons_self
      have hp := hc.pending_iff.mpr hs
      obtain ⟨a1, a2, a3, a4⟩ := Client.write_accept c hc hs k
      obtain ⟨f1, f2⟩ := tryWrite_accept_full c.conn hc.conn.rbuf hp k hk
      rw [← Client.write_conn] at f1 f2
      have hc' := ClientOK_write c hc (.accept k)
      have hlen2 : (unsentC (c.write (.accept k)).1.conn).length ≤ (unsentC c.conn).length := by
        rw [← a2, List.length_append]; omega
      have hneed : writesNeeded (c.write (.accept k)).1 ≤ ws.length := by
        unfold writesNeeded at hlen ⊢
        rw [f1]
        simp only [List.length_cons] at hlen
        simp only [Option.isSome_none, Bool.false_eq_true, if_false, Nat.add_zero]
        omega
      have hall' : ∀ w ∈ ws, ∃ k', w = .accept k' ∧ (unsentC (c.write (.accept k)).1.conn).length ≤ k' := by
        intro w' hw'
        obtain ⟨k', e, hk'⟩ := hall w' (List.mem_cons_of_mem _ hw')
        exact ⟨k', e, Nat.le_trans hlen2 hk'⟩
      obtain ⟨i1, i2⟩ := ih (c.write (.accept k)).1 hc' hall' hneed
      rw [flushClient_cons_out c _ ws hs, if_pos hs]
      simp only
      by_cases hs' : (c.write (.accept k)).1.state = .awaitingOut
      · rw [if_pos hs'] at i1
        refine ⟨by rw [i1, a2], fun _ => i2 hs'⟩
      · have hnil : unsentC (c.write (.accept k)).1.conn = [] := by
          cases hu : unsentC (c.write (.accept k)).1.conn with
          | nil => rfl
          | cons x xs => exact absurd (a4.mpr (by rw [hu]; simp)) hs'
        rw [if_neg hs'] at i1
        refine ⟨by rw [i1, ← a2, hnil], fun _ => ?_⟩
        rw [flushClient_not_out _ ws hs']
        exact ⟨a3.mpr hnil, hnil⟩
    · rw [flushClient_not_out c _ hs, if_neg hs]
      exact ⟨rfl, fun h => absurd h hs⟩

end MicroHttp
