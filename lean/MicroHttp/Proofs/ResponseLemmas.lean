/-
  Helper lemmas for C05 (response serialization): layout, builder invariants, sink independence.
  The definitions `plainOp`, `noCRLF`, `headerLines`, `SelfDelimiting` duplicate (verbatim) those of
  `MicroHttp.Props.C05`, which imports this file; the Props file identifies them by `rfl`.
-/
import MicroHttp.Response
import MicroHttp.Spec.RespReader
namespace MicroHttp.ResponseLemmas
open MicroHttp

def plainOp : BuildOp → Bool
  | .setContentLength _ => false
  | _ => true

def noCRLF (l : List Byte) : Bool := (find CRLF l).isNone

def headerLines (r : Response) : List (List Byte) :=
  [[0x53, 0x65, 0x72, 0x76, 0x65, 0x72, 0x3A, 0x20] ++ r.server,
   [0x43, 0x6F, 0x6E, 0x6E, 0x65, 0x63, 0x74, 0x69, 0x6F, 0x6E, 0x3A, 0x20, 0x6B, 0x65, 0x65, 0x70,
    0x2D, 0x61, 0x6C, 0x69, 0x76, 0x65]] ++
  (if r.allow.isEmpty then [] else
    [[0x41, 0x6C, 0x6C, 0x6F, 0x77, 0x3A, 0x20] ++ (allowPieces r.allow).flatten]) ++
  (if r.deprecation then
    [[0x44, 0x65, 0x70, 0x72, 0x65, 0x63, 0x61, 0x74, 0x69, 0x6F, 0x6E, 0x3A, 0x20, 0x74, 0x72, 0x75, 0x65]]
   else []) ++
  (match r.contentLength with
   | none => []
   | some n =>
     [[0x43, 0x6F, 0x6E, 0x74, 0x65, 0x6E, 0x74, 0x2D, 0x54, 0x79, 0x70, 0x65, 0x3A, 0x20] ++ r.contentType.raw,
      [0x43, 0x6F, 0x6E, 0x74, 0x65, 0x6E, 0x74, 0x2D, 0x4C, 0x65, 0x6E, 0x67, 0x74, 0x68, 0x3A, 0x20] ++ decimalInt n] ++
     (if r.acceptEncoding then
        [[0x41, 0x63, 0x63, 0x65, 0x70, 0x74, 0x2D, 0x45, 0x6E, 0x63, 0x6F, 0x64, 0x69, 0x6E, 0x67, 0x3A, 0x20,
          0x69, 0x64, 0x65, 0x6E, 0x74, 0x69, 0x74, 0x79]]
      else []))

def SelfDelimiting (r : Response) : Prop :=
  noCRLF r.server = true ∧
  (match r.body with
   | none => r.contentLength = none ∨ r.contentLength = some 0
   | some b => r.contentLength = some (b.length : Int))

def view (r : Response) : RespView := ⟨r.version.raw, r.status.raw, headerLines r, r.body.getD []⟩

theorem layout (r : Response) :
    r.serialize =
      r.version.raw ++ [SP] ++ r.status.raw ++ [SP, CR, LF] ++
      ((headerLines r).map (· ++ CRLF)).flatten ++ CRLF ++ (r.body.getD []) := by
  obtain ⟨ver, st, cl, ct, dep, srv, allow, ae, body⟩ := r
  simp only [Response.serialize, Response.pieces, headerLines]
  cases body <;> cases cl <;> cases dep <;> cases ae <;> cases hal : allow.isEmpty <;>
    simp [CRLF, COLON, SP, CR, LF]

theorem foldl_inv {P : Response → Prop} (ops : List BuildOp) (r : Response)
    (Q : BuildOp → Prop)
    (h0 : P r) (hstep : ∀ r op, Q op → P r → P (r.apply op)) (hops : ∀ op ∈ ops, Q op) :
    P (ops.foldl Response.apply r) := by
  induction ops generalizing r with
  | nil => exact h0
  | cons op ops ih =>
    simp only [List.foldl_cons]
    apply ih
    · exact hstep r op (hops op (by simp)) h0
    · intro op' h'; exact hops op' (by simp [h'])

def LenInv (s : StatusCode) (r : Response) : Prop :=
    ((s ≠ .continue_ ∧ s ≠ .noContent) → r.contentLength.isSome = true) ∧
    (∀ b, r.body = some b → r.contentLength = some (asI32 b.length)) ∧
    (r.body = none → (r.contentLength = some 0 ∧ s ≠ .continue_ ∧ s ≠ .noContent) ∨
                      (r.contentLength = none ∧ (s = .continue_ ∨ s = .noContent)))

theorem lenInv_new (v : Version) (s : StatusCode) : LenInv s (Response.new v s) := by
  cases s <;> simp [LenInv, Response.new]

theorem lenInv_step (s : StatusCode) (r : Response) (op : BuildOp) (hp : plainOp op = true)
    (h : LenInv s r) : LenInv s (r.apply op) := by
  cases op <;> first | (exact h) | (simp [plainOp] at hp) | skip
  simp [LenInv, Response.apply]

theorem length_rule (v : Version) (s : StatusCode) (ops : List BuildOp) (hops : ∀ op ∈ ops, plainOp op = true) :
    LenInv s (Response.build v s ops) :=
  foldl_inv (P := LenInv s) ops _ (fun op => plainOp op = true) (lenInv_new v s)
    (fun r op hq hp => lenInv_step s r op hq hp) hops

theorem asI32_small (n : Nat) (h : n < 2147483648) : asI32 n = (n : Int) := by
  unfold asI32
  have : n % 4294967296 = n := Nat.mod_eq_of_lt (by omega)
  simp only [this, h, if_true]

def OpOk (op : BuildOp) : Prop :=
  plainOp op = true ∧ (∀ sv, op = .setServer sv → noCRLF sv = true) ∧
    (∀ b, op = .setBody b → b.length < 2147483648)

theorem sd_new (v : Version) (s : StatusCode) : SelfDelimiting (Response.new v s) := by
  refine ⟨(by decide : noCRLF DEFAULT_SERVER = true), ?_⟩
  cases s <;> simp [Response.new]

theorem sd_step (r : Response) (op : BuildOp) (hq : OpOk op) (h : SelfDelimiting r) :
    SelfDelimiting (r.apply op) := by
  obtain ⟨hp, hs, hb⟩ := hq
  cases op with
  | setContentLength n => simp [plainOp] at hp
  | setBody b =>
    refine ⟨h.1, ?_⟩
    simp only [Response.apply]
    rw [asI32_small _ (hb b rfl)]
  | setServer sv => exact ⟨hs sv rfl, h.2⟩
  | _ => exact h

theorem writeAllOne_spec (sched : List SinkStep) (buf acc : List Byte) :
    ∃ t, (writeAllOne sched buf acc).1 = acc ++ t ∧ t <+: buf ∧
      ((writeAllOne sched buf acc).2.2 = true → t = buf) ∧
      ((writeAllOne sched buf acc).2.2 = false → t.length < buf.length) := by
  fun_induction writeAllOne sched buf acc with
  | case1 buf acc =>
    refine ⟨[], by simp, List.nil_prefix, ?_, ?_⟩
    · intro h; simp at h; exact h.symm
    · intro h; cases buf <;> simp at h ⊢
  | case2 s sched buf acc hb =>
    refine ⟨[], by simp, List.nil_prefix, ?_, ?_⟩
    · intro _; simp at hb; exact hb.symm
    · intro h; simp at h
  | case3 sched buf acc hb k n ih =>
    obtain ⟨t, h1, h2, h3, h4⟩ := ih
    refine ⟨buf.take n ++ t, by rw [h1, List.append_assoc], ?_, ?_, ?_⟩
    · have := (List.prefix_append_right_inj (buf.take n)).2 h2
      rwa [List.take_append_drop] at this
    · intro h; rw [h3 h, List.take_append_drop]
    · intro h
      have := h4 h
      have hl : (buf.take n).length + (buf.drop n).length = buf.length := by
        rw [← List.length_append, List.take_append_drop]
      rw [List.length_append]; omega
  | case4 sched buf acc hb =>
    refine ⟨[], by simp, List.nil_prefix, ?_, ?_⟩
    · intro h; simp at h
    · intro _; cases buf <;> simp at hb ⊢
  | case5 sched buf acc hb ih => exact ih
  | case6 sched buf acc hb =>
    refine ⟨[], by simp, List.nil_prefix, ?_, ?_⟩
    · intro h; simp at h
    · intro _; cases buf <;> simp at hb ⊢

theorem writeAllPieces_spec (sched : List SinkStep) (ps : List (List Byte)) (acc : List Byte) :
    ∃ t, (writeAllPieces sched ps acc).1 = acc ++ t ∧ t <+: ps.flatten ∧
      ((writeAllPieces sched ps acc).2 = true → t = ps.flatten) ∧
      ((writeAllPieces sched ps acc).2 = false → t.length < ps.flatten.length) := by
  induction ps generalizing sched acc with
  | nil => exact ⟨[], by simp [writeAllPieces]⟩
  | cons p ps ih =>
    obtain ⟨t, h1, h2, h3, h4⟩ := writeAllOne_spec sched p acc
    rw [writeAllPieces]
    rcases hw : writeAllOne sched p acc with ⟨acc', sched', ok⟩
    rw [hw] at h1 h3 h4
    simp only at h1 h3 h4
    cases ok with
    | true =>
      simp only
      obtain ⟨t', g1, g2, g3, g4⟩ := ih sched' acc'
      have ht := h3 rfl
      subst ht
      refine ⟨t ++ t', by rw [g1, h1, List.append_assoc], ?_, ?_, ?_⟩
      · simpa using (List.prefix_append_right_inj t).2 g2
      · intro h; rw [g3 h]; simp
      · intro h; have := g4 h; simp only [List.flatten_cons, List.length_append]; omega
    | false =>
      simp only
      refine ⟨t, h1, ?_, ?_, ?_⟩
      · simp only [List.flatten_cons]
        exact List.IsPrefix.trans h2 (List.prefix_append _ _)
      · intro h; cases h
      · intro _; have := h4 rfl; simp only [List.flatten_cons, List.length_append]; omega

theorem built_selfDelimiting (v : Version) (s : StatusCode) (ops : List BuildOp)
    (hops : ∀ op ∈ ops, plainOp op = true)
    (hsrv : ∀ sv, BuildOp.setServer sv ∈ ops → noCRLF sv = true)
    (hbody : ∀ b, BuildOp.setBody b ∈ ops → b.length < 2147483648) :
    SelfDelimiting (Response.build v s ops) :=
  foldl_inv (P := SelfDelimiting) ops _ OpOk (sd_new v s) sd_step
    (fun op hop => ⟨hops op hop, fun sv e => hsrv sv (e ▸ hop), fun b e => hbody b (e ▸ hop)⟩)

theorem sink_independent (r : Response) (sched : List SinkStep) :
    (r.writeAll sched).1 <+: r.serialize ∧
    ((r.writeAll sched).2 = true → (r.writeAll sched).1 = r.serialize) ∧
    ((r.writeAll sched).2 = false → (r.writeAll sched).1.length < r.serialize.length) := by
  obtain ⟨t, h1, h2, h3, h4⟩ := writeAllPieces_spec sched r.pieces []
  simp only [List.nil_append] at h1
  unfold Response.writeAll Response.serialize
  rw [h1]
  exact ⟨h2, h3, h4⟩

theorem Version.raw_injective (v v' : Version) (h : v.raw = v'.raw) : v = v' := by
  cases v <;> cases v' <;> first | rfl | (exfalso; revert h; decide)

theorem StatusCode.raw_injective (s s' : StatusCode) (h : s.raw = s'.raw) : s = s' := by
  cases s <;> cases s' <;> first | rfl | (exfalso; revert h; decide)

theorem view_status_version (r r' : Response) (h : view r = view r') :
    r.status = r'.status ∧ r.version = r'.version ∧ r.body.getD [] = r'.body.getD [] :=
  ⟨StatusCode.raw_injective _ _ (congrArg RespView.code h),
   Version.raw_injective _ _ (congrArg RespView.version h),
   congrArg RespView.body h⟩

end MicroHttp.ResponseLemmas
