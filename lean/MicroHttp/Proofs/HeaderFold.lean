/-
  Helper lemmas for `MicroHttp.Props.C15Fold` (whole-block rules for Accept, Transfer-Encoding and
  custom entries).  `acceptOf`, `isChunkedLine`, `customOf`, `customValueFor` duplicate (verbatim)
  the definitions of `MicroHttp.Props.C15Fold`, which imports this file.
-/
import MicroHttp.Headers
import MicroHttp.Proofs.HeaderLemmas
namespace MicroHttp.HeaderFold
open MicroHttp MicroHttp.HeaderLemmas

def acceptOf (line : List Byte) : Option MediaType :=
  match splitOnce COLON line with
  | (k, some v) => if Header.tryFrom k = some .accept then MediaType.tryFrom (trim v) else none
  | _ => none

def isChunkedLine (line : List Byte) : Bool :=
  match splitOnce COLON line with
  | (k, some v) => Header.tryFrom k = some .transferEncoding &&
      trim v = [0x63, 0x68, 0x75, 0x6E, 0x6B, 0x65, 0x64]
  | _ => false

def customOf (line : List Byte) : Option (List Byte × List Byte) :=
  match splitOnce COLON line with
  | (k, some v) => if Header.tryFrom k = none then some (trim k, trim v) else none
  | _ => none

def customValueFor (name : List Byte) (line : List Byte) : Option (List Byte) :=
  match customOf line with
  | some (k, v) => if k = name then some v else none
  | none => none

/-- what an accepted line does to `accept`, `chunked` and the custom entries -/
theorem applyLine_ok (h h' : Headers) (line : List Byte) (hok : h.applyLine line = .ok h') :
    h'.accept = (acceptOf line).getD h.accept ∧
    h'.chunked = (h.chunked || isChunkedLine line) ∧
    ∀ name, lookupCustom h'.custom name =
      (match customValueFor name line with
       | some v => some v
       | none => lookupCustom h.custom name) := by
  cases hu : isUtf8 line with
  | false =>
    obtain ⟨e, he⟩ := non_utf8_fatal h line hu
    rw [he] at hok; cases hok
  | true =>
    rcases hs : splitOnce COLON line with ⟨k, _ | v⟩
    · rw [split_none_fatal h line k hu hs] at hok; cases hok
    · cases hn : Header.tryFrom k with
      | none =>
        rw [custom_rule h line k v hu hs hn] at hok
        cases hok
        refine ⟨by simp [acceptOf, hs, hn], by simp [isChunkedLine, hs, hn], ?_⟩
        intro name
        rw [insertCustom_lookup]
        by_cases hk : name = trim k
        · simp [customValueFor, customOf, hs, hn, hk]
        · have hk' : ¬ trim k = name := fun e => hk e.symm
          simp [customValueFor, customOf, hs, hn, hk, hk']
      | some hd =>
        cases hd with
        | contentLength =>
          rw [content_length_rule h line k v hu hs hn] at hok
          cases hp : parseU32 (trim v) with
          | some n =>
            rw [hp] at hok; cases hok
            simp [acceptOf, isChunkedLine, customValueFor, customOf, hs, hn]
          | none => rw [hp] at hok; cases hok
        | acceptEncoding =>
          rw [accept_encoding_rule h line k v hu hs hn] at hok
          cases hp : Encoding.tryFrom (trim v) with
          | ok u =>
            rw [hp] at hok; cases hok
            simp [acceptOf, isChunkedLine, customValueFor, customOf, hs, hn]
          | error e => rw [hp] at hok; cases hok
        | contentType =>
          rw [content_type_server_rule h line k v hu hs (Or.inl hn)] at hok
          cases hok
          simp [acceptOf, isChunkedLine, customValueFor, customOf, hs, hn]
        | server =>
          rw [content_type_server_rule h line k v hu hs (Or.inr hn)] at hok
          cases hok
          simp [acceptOf, isChunkedLine, customValueFor, customOf, hs, hn]
        | expect =>
          rw [expect_rule h line k v hu hs hn] at hok
          cases hok
          by_cases ht : trim v = [0x31, 0x30, 0x30, 0x2D, 0x63, 0x6F, 0x6E, 0x74, 0x69, 0x6E, 0x75, 0x65]
          · simp [acceptOf, isChunkedLine, customValueFor, customOf, hs, hn, ht]
          · simp [acceptOf, isChunkedLine, customValueFor, customOf, hs, hn, ht]
        | transferEncoding =>
          rw [transfer_encoding_rule h line k v hu hs hn] at hok
          cases hok
          by_cases ht : trim v = [0x63, 0x68, 0x75, 0x6E, 0x6B, 0x65, 0x64]
          · simp [acceptOf, isChunkedLine, customValueFor, customOf, hs, hn, ht]
          · simp [acceptOf, isChunkedLine, customValueFor, customOf, hs, hn, ht]
        | accept =>
          rw [accept_rule h line k v hu hs hn] at hok
          cases hm : MediaType.tryFrom (trim v) <;> rw [hm] at hok <;> cases hok <;>
            simp [acceptOf, isChunkedLine, customValueFor, customOf, hs, hn, hm]

theorem accept_last_wins (h0 h : Headers) (ls : List (List Byte))
    (hne : ∀ l ∈ ls, l ≠ []) (hf : Headers.foldLines h0 ls = .ok h) :
    h.accept = ((ls.reverse.findSome? acceptOf).getD h0.accept) := by
  induction ls generalizing h0 with
  | nil => simp [Headers.foldLines] at hf; simp [hf]
  | cons l ls ih =>
    obtain ⟨h1, ha, hf'⟩ := foldLines_cons h0 h l ls (hne l (by simp)) hf
    have := ih h1 (fun l' hl' => hne l' (by simp [hl'])) hf'
    rw [this, (applyLine_ok h0 h1 l ha).1, List.reverse_cons, List.findSome?_append]
    cases ls.reverse.findSome? acceptOf with
    | some x => simp
    | none => simp

theorem chunked_any (h0 h : Headers) (ls : List (List Byte))
    (hne : ∀ l ∈ ls, l ≠ []) (hf : Headers.foldLines h0 ls = .ok h) :
    h.chunked = (h0.chunked || ls.any isChunkedLine) := by
  induction ls generalizing h0 with
  | nil => simp [Headers.foldLines] at hf; simp [hf]
  | cons l ls ih =>
    obtain ⟨h1, ha, hf'⟩ := foldLines_cons h0 h l ls (hne l (by simp)) hf
    have := ih h1 (fun l' hl' => hne l' (by simp [hl'])) hf'
    rw [this, (applyLine_ok h0 h1 l ha).2.1, List.any_cons, Bool.or_assoc]

theorem custom_last_wins (h0 h : Headers) (ls : List (List Byte))
    (hne : ∀ l ∈ ls, l ≠ []) (hf : Headers.foldLines h0 ls = .ok h) (name : List Byte) :
    lookupCustom h.custom name =
      (match ls.reverse.findSome? (customValueFor name) with
       | some v => some v
       | none => lookupCustom h0.custom name) := by
  induction ls generalizing h0 with
  | nil => simp [Headers.foldLines] at hf; simp [hf]
  | cons l ls ih =>
    obtain ⟨h1, ha, hf'⟩ := foldLines_cons h0 h l ls (hne l (by simp)) hf
    have := ih h1 (fun l' hl' => hne l' (by simp [hl'])) hf'
    rw [this, (applyLine_ok h0 h1 l ha).2.2 name, List.reverse_cons, List.findSome?_append]
    cases ls.reverse.findSome? (customValueFor name) with
    | some x => simp
    | none => simp

/-- `findSome?` finds nothing when every element maps to `none` (stated with `all … isNone`) -/
theorem findSome?_none_of_all {α β} (f : α → Option β) (xs : List α)
    (hall : xs.all (fun x => (f x).isNone) = true) : xs.findSome? f = none := by
  rw [List.findSome?_eq_none_iff]
  intro x hx
  have := List.all_eq_true.1 hall x hx
  simpa using this

theorem any_false_of_all_not {α} (p : α → Bool) (xs : List α)
    (hall : xs.all (fun x => !p x) = true) : xs.any p = false := by
  rw [List.any_eq_false]
  intro x hx
  have := List.all_eq_true.1 hall x hx
  simpa using this

theorem all_reverse' {α} (p : α → Bool) (xs : List α) (hall : xs.all p = true) :
    xs.reverse.all p = true := by
  rw [List.all_eq_true] at hall ⊢
  intro x hx
  exact hall x (List.mem_reverse.1 hx)

theorem untouched_fields (h0 h : Headers) (ls : List (List Byte))
    (hne : ∀ l ∈ ls, l ≠ []) (hf : Headers.foldLines h0 ls = .ok h) :
    (ls.all (fun l => (clOf l).isNone) → h.contentLength = h0.contentLength) ∧
    (ls.all (fun l => (acceptOf l).isNone) → h.accept = h0.accept) ∧
    (ls.all (fun l => !isExpectLine l) → h.expect = h0.expect) ∧
    (ls.all (fun l => !isChunkedLine l) → h.chunked = h0.chunked) := by
  refine ⟨fun hall => ?_, fun hall => ?_, fun hall => ?_, fun hall => ?_⟩
  · rw [content_length_last_wins h0 h ls hne hf,
      findSome?_none_of_all clOf _ (all_reverse' _ _ hall)]
    rfl
  · rw [accept_last_wins h0 h ls hne hf,
      findSome?_none_of_all acceptOf _ (all_reverse' _ _ hall)]
    rfl
  · rw [expect_any h0 h ls hne hf, any_false_of_all_not isExpectLine _ hall, Bool.or_false]
  · rw [chunked_any h0 h ls hne hf, any_false_of_all_not isChunkedLine _ hall, Bool.or_false]

end MicroHttp.HeaderFold
