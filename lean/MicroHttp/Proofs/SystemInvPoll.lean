/-
  Proofs.SystemInvPoll — a poll made when the epoll descriptor signals preserves the system
  invariant: the closed form of the connection table (`poll_conns`) and of what each descriptor
  observes (`poll_obs_*`) reduce it to one `stepClient` per connection (`FdOK_step`) and one freshly
  accepted connection (`FdOK_new`).
-/
import MicroHttp.Proofs.SystemInv
import MicroHttp.Proofs.KernelMeasure
namespace MicroHttp

/-- the descriptor the poll accepts (as recorded by `Sys.step` for `limitOf`) -/
def acceptedFd (s : Sys) : Option Nat :=
  match s.w.backlog with
  | fd :: _ => if s.w.srv.conns.length < MAX_CONNECTIONS then some fd else none
  | [] => none

theorem step_poll_ready (s : Sys) (hr : s.w.ready = true) :
    s.step .poll =
      { s with
        w := s.w.poll.1,
        gotBy := fun fd => s.gotBy fd ++ bytesTo fd (requests s.w.srv s.w.batch).2.2,
        yielded := fun fd => s.yielded fd ++ reqsOf fd (pollReqs s.w),
        queued := fun fd =>
          s.queued fd ++
            (match findClient s.w.srv.conns fd with
             | some c => newlyQueued s.w.srv s.w.poll.1.srv fd (decide (0 < takenFrom c (s.w.sock fd)))
             | none => []),
        limitOf := match acceptedFd s with
          | some fd => upd s.limitOf fd s.w.srv.limit
          | none => s.limitOf } := by
  simp only [Sys.step, hr, if_true]
  rfl

theorem step_poll_silent (s : Sys) (hr : s.w.ready = false) : s.step .poll = s := by
  simp only [Sys.step, hr, Bool.false_eq_true, if_false]

theorem newPart_nil (w : World) (hb : w.backlog = []) : newPart w = [] := by
  unfold newPart; rw [hb]

theorem newPart_cons (w : World) (fd0 : Nat) (rest : List Nat) (hb : w.backlog = fd0 :: rest)
    (hlt : w.srv.conns.length < MAX_CONNECTIONS) : newPart w = [newClient w.srv fd0] := by
  unfold newPart acceptedBy
  rw [hb]
  simp only
  rw [if_neg (by omega)]

/-- what the poll does to the ghost logs of the descriptor of a connection -/
theorem poll_logs_conn (s : Sys) (h : SysInv s) (hr : s.w.ready = true) (x : Client) (hx : x ∈ s.w.srv.conns) :
    (s.step .poll).limitOf x.fd = s.limitOf x.fd ∧
    (s.step .poll).sentBy x.fd = s.sentBy x.fd ∧
    (s.step .poll).gotBy x.fd = s.gotBy x.fd ++ stepBytes x (s.w.sock x.fd) ∧
    (s.step .poll).yielded x.fd = s.yielded x.fd ++ stepReqs x (s.w.sock x.fd) ∧
    (s.step .poll).queued x.fd = s.queued x.fd ++ stepNew x (s.w.sock x.fd) ∧
    (s.step .poll).supplied x.fd = s.supplied x.fd := by
  obtain ⟨o1, o2, _⟩ := poll_obs_conn s.w h.srv h.wb x hx
  have hfind := h.srv.find hx
  have hpinv := (poll_ok' s.w h.srv h.wb).2.1
  have hmem : stepClient x (s.w.sock x.fd) ∈ s.w.poll.1.srv.conns := by
    rw [poll_conns s.w h.srv h.wb]
    exact List.mem_append_left _ (List.mem_map.mpr ⟨x, hx, rfl⟩)
  have hfind' : findClient s.w.poll.1.srv.conns x.fd = some (stepClient x (s.w.sock x.fd)) := by
    have := findClient_of_mem hpinv.fdsNodup hmem
    rw [stepClient_fd] at this
    exact this
  rw [step_poll_ready s hr]
  refine ⟨?_, rfl, ?_, ?_, ?_, rfl⟩
  · show (match acceptedFd s with
          | some fd => upd s.limitOf fd s.w.srv.limit
          | none => s.limitOf) x.fd = s.limitOf x.fd
    unfold acceptedFd
    cases hb : s.w.backlog with
    | nil => rfl
    | cons fd0 rest =>
      simp only
      split
      · have hne : x.fd ≠ fd0 := by
          intro e
          exact (h.wb.2.2.1 fd0 (by rw [hb]; exact List.mem_cons_self)).1 (e ▸ mem_fds hx)
        show upd s.limitOf fd0 s.w.srv.limit x.fd = _
        rw [upd_ne _ _ _ _ hne]
      · rfl
  · show s.gotBy x.fd ++ bytesTo x.fd (requests s.w.srv s.w.batch).2.2 = _
    rw [o2]
  · show s.yielded x.fd ++ reqsOf x.fd (pollReqs s.w) = _
    rw [o1]
  · show s.queued x.fd ++
        (match findClient s.w.srv.conns x.fd with
         | some c => newlyQueued s.w.srv s.w.poll.1.srv x.fd (decide (0 < takenFrom c (s.w.sock x.fd)))
         | none => []) = _
    rw [hfind]
    simp only
    unfold newlyQueued stepNew
    rw [hfind, hfind']
    simp only [decide_eq_true_eq]

/-- … and to those of a descriptor without a connection -/
theorem poll_logs_none (s : Sys) (h : SysInv s) (hr : s.w.ready = true) (fd : Nat) (hfd : fd ∉ s.w.srv.fds) :
    (s.step .poll).sentBy fd = s.sentBy fd ∧ (s.step .poll).gotBy fd = s.gotBy fd ∧
    (s.step .poll).yielded fd = s.yielded fd ∧ (s.step .poll).queued fd = s.queued fd ∧
    (s.step .poll).supplied fd = s.supplied fd := by
  obtain ⟨o1, o2⟩ := poll_obs_none s.w h.srv h.wb fd hfd
  have hnone := findClient_none_of_not_mem _ _ hfd
  rw [step_poll_ready s hr]
  refine ⟨rfl, ?_, ?_, ?_, rfl⟩
  · show s.gotBy fd ++ bytesTo fd (requests s.w.srv s.w.batch).2.2 = _
    rw [o2, List.append_nil]
  · show s.yielded fd ++ reqsOf fd (pollReqs s.w) = _
    rw [o1, List.append_nil]
  · show s.queued fd ++
        (match findClient s.w.srv.conns fd with
         | some c => newlyQueued s.w.srv s.w.poll.1.srv fd (decide (0 < takenFrom c (s.w.sock fd)))
         | none => []) = _
    rw [hnone, List.append_nil]

theorem poll_world (s : Sys) (hr : s.w.ready = true) : (s.step .poll).w = s.w.poll.1 := by
  rw [step_poll_ready s hr]

theorem poll_limit_accepted (s : Sys) (hr : s.w.ready = true) (fd0 : Nat) (rest : List Nat)
    (hb : s.w.backlog = fd0 :: rest) (hlt : s.w.srv.conns.length < MAX_CONNECTIONS) :
    (s.step .poll).limitOf fd0 = s.w.srv.limit := by
  rw [step_poll_ready s hr]
  show (match acceptedFd s with
        | some fd => upd s.limitOf fd s.w.srv.limit
        | none => s.limitOf) fd0 = _
  unfold acceptedFd
  rw [hb]
  simp only [hlt, if_true]
  rw [upd_same]

theorem SysInv_poll (s : Sys) (h : SysInv s) : SysInv (s.step .poll) := by
  cases hr : s.w.ready with
  | false => rw [step_poll_silent s hr]; exact h
  | true =>
    obtain ⟨_, hpinv, hpwb⟩ := poll_ok' s.w h.srv h.wb
    have hw := poll_world s hr
    have hconns := poll_conns s.w h.srv h.wb
    -- the new part of the connection table
    have hnew : (s.w.backlog = [] ∧ newPart s.w = []) ∨
        ∃ fd0 rest, s.w.backlog = fd0 :: rest ∧ newPart s.w = [newClient s.w.srv fd0] ∧
          s.w.srv.conns.length < MAX_CONNECTIONS ∧ fd0 ∉ s.w.srv.fds := by
      cases hb : s.w.backlog with
      | nil => left; exact ⟨rfl, newPart_nil s.w hb⟩
      | cons fd0 rest =>
        right
        have hc := h.cap
        rw [hb, List.length_cons] at hc
        have hlt : s.w.srv.conns.length < MAX_CONNECTIONS := by omega
        exact ⟨fd0, rest, rfl, newPart_cons s.w fd0 rest hb hlt, hlt,
          (h.wb.2.2.1 fd0 (by rw [hb]; exact List.mem_cons_self)).1⟩
    have hfds_sub : ∀ fd, fd ∈ s.w.srv.fds → fd ∈ s.w.poll.1.srv.fds := by
      intro fd hm
      obtain ⟨x, hx, rfl⟩ := List.mem_map.mp hm
      unfold Srv.fds
      rw [hconns]
      apply List.mem_map.mpr
      exact ⟨stepClient x (s.w.sock x.fd), List.mem_append_left _ (List.mem_map.mpr ⟨x, hx, rfl⟩),
        stepClient_fd x _⟩
    refine ⟨by rw [hw]; exact hpinv, by rw [hw]; exact hpwb, ?_, ?_, ?_, ?_⟩
    · rw [hw, hconns, poll_backlog, List.length_append, List.length_map]
      have hc := h.cap
      rcases hnew with ⟨hb, hn⟩ | ⟨fd0, rest, hb, hn, _, _⟩
      · rw [hb, hn]; rw [hb] at hc; simpa using hc
      · rw [hb, hn]; rw [hb] at hc
        simp only [List.length_cons, List.length_nil, List.drop_succ_cons, List.drop_zero] at hc ⊢
        omega
    · intro c' hc'
      rw [hw, hconns] at hc'
      rw [hw]
      rcases List.mem_append.mp hc' with hc' | hc'
      · obtain ⟨x, hx, rfl⟩ := List.mem_map.mp hc'
        obtain ⟨l1, l2, l3, l4, l5, l6⟩ := poll_logs_conn s h hr x hx
        obtain ⟨_, _, o3⟩ := poll_obs_conn s.w h.srv h.wb x hx
        have hu := (poll_sock_of_some s.w x.fd x (h.srv.find hx)).1
        rw [stepClient_fd, l1, l2, l3, l4, l5, l6, hu]
        have ht : tokCount s.w.poll.1.srv x.fd = tokCount s.w.srv x.fd + (stepReqs x (s.w.sock x.fd)).length := o3
        rw [ht]
        exact FdOK_step x (s.w.sock x.fd) (h.srv.clients x hx) (h.wb.2.1 x hx).2 (h.wb.2.1 x hx).1
          (h.conns x hx)
      · rcases hnew with ⟨_, hn⟩ | ⟨fd0, rest, hb, hn, hlt, hfd0⟩
        · rw [hn] at hc'; cases hc'
        · rw [hn] at hc'
          have : c' = newClient s.w.srv fd0 := by simpa using hc'
          subst this
          show FdOK (Conn.new s.w.srv.limit) ((s.step .poll).limitOf fd0) ((s.step .poll).sentBy fd0)
            (s.w.poll.1.sock fd0).unread ((s.step .poll).gotBy fd0) ((s.step .poll).yielded fd0)
            ((s.step .poll).queued fd0) ((s.step .poll).supplied fd0) (tokCount s.w.poll.1.srv fd0)
          obtain ⟨l2, l3, l4, l5, l6⟩ := poll_logs_none s h hr fd0 hfd0
          obtain ⟨q1, q2, q3, q4, q5⟩ := h.others fd0 hfd0
          have ht : tokCount s.w.poll.1.srv fd0 = 0 := by
            have := (poll_obs s.w h.srv h.wb fd0).2.2
            rw [filter_fd_eq_of_not_mem hfd0] at this
            have h0 := tokCount_zero h.srv hfd0
            unfold tokCount at h0 ⊢
            rw [this, h0]
            rfl
          rw [poll_limit_accepted s hr fd0 rest hb hlt, l2, l3, l4, l5, l6, q1, q2, q3, q4, q5, ht,
            poll_sock_of_none s.w fd0 (findClient_none_of_not_mem _ _ hfd0)]
          exact FdOK_new _ _
    · intro fd hfd
      rw [hw] at hfd ⊢
      have hfd0 : fd ∉ s.w.srv.fds := fun hm => hfd (hfds_sub fd hm)
      obtain ⟨l2, l3, l4, l5, l6⟩ := poll_logs_none s h hr fd hfd0
      rw [l2, l3, l4, l5, l6, poll_sock_of_none s.w fd (findClient_none_of_not_mem _ _ hfd0)]
      exact h.others fd hfd0
    · intro fd hfd hfb
      rw [hw] at hfd hfb
      have hfd0 : fd ∉ s.w.srv.fds := fun hm => hfd (hfds_sub fd hm)
      rw [(poll_logs_none s h hr fd hfd0).1]
      apply h.unknown fd hfd0
      intro hmem
      rcases hnew with ⟨hb, _⟩ | ⟨fd0, rest, hb, hn, _, _⟩
      · rw [hb] at hmem; cases hmem
      · rw [poll_backlog, hb] at hfb
        simp only [List.drop_succ_cons, List.drop_zero] at hfb
        rw [hb] at hmem
        rcases List.mem_cons.mp hmem with e | e
        · apply hfd
          unfold Srv.fds
          rw [hconns, hn, e]
          simp [newClient]
        · exact hfb e

end MicroHttp
