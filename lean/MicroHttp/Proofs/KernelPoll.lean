/-
  Proofs.KernelPoll — one `World.poll` in a well-behaved world, in closed form: the batch is
  admissible, every ready connection is handled once (`stepClient`), the head of the backlog is
  accepted or refused, nothing is swept.
-/
import MicroHttp.Proofs.KernelStep
import MicroHttp.Props.C09
namespace MicroHttp

/-- `stepClient` applied to the connections whose descriptor is in `fds` -/
def stepIn (fds : List Nat) (sock : Nat → KSock) (x : Client) : Client :=
  if x.fd ∈ fds then stepClient x (sock x.fd) else x

/-- the events of a list of distinct ready connections, handled one after the other: each of them
    is stepped, nothing else changes -/
theorem runEvents_clients (sock : Nat → KSock) (cs : List Client) (s : Srv)
    (hnd : (s.conns.map (·.fd)).Nodup) (hcs : (cs.map (·.fd)).Nodup)
    (h : ∀ c ∈ cs, findClient s.conns c.fd = some c ∧ ClientOK c ∧ (sock c.fd).peerGone = false ∧
      connReady c (sock c.fd) = true)
    (reqs : List (Token × Request)) (effs : List Effect) :
    (runEvents s (cs.map (fun c => connEvent c (sock c.fd))) reqs effs).1.conns =
      s.conns.map (stepIn (cs.map (·.fd)) sock) ∧
    (runEvents s (cs.map (fun c => connEvent c (sock c.fd))) reqs effs).2.2.2 = none := by
  induction cs generalizing s reqs effs with
  | nil =>
    refine ⟨?_, rfl⟩
    simp only [List.map_nil, runEvents]
    have : ∀ x ∈ s.conns, stepIn [] sock x = x := by
      intro x _; simp [stepIn]
    rw [List.map_congr_left this, List.map_id']
  | cons c cs ih =>
    obtain ⟨hf, hok, hpg, hr⟩ := h c List.mem_cons_self
    obtain ⟨h1, h2⟩ := handleEv_connEvent s c (sock c.fd) hf hok hpg hr
    simp only [List.map_cons, List.nodup_cons] at hcs
    rw [List.map_cons, runEvents_cons_ok _ _ _ _ _ h2]
    have hsfd := stepClient_fd c (sock c.fd)
    have hnd1 : ((handleEv s (connEvent c (sock c.fd))).1.conns.map (·.fd)).Nodup := by
      rw [h1, replaceClient_fds]; exact hnd
    have hrest : ∀ d ∈ cs, findClient (handleEv s (connEvent c (sock c.fd))).1.conns d.fd = some d ∧
        ClientOK d ∧ (sock d.fd).peerGone = false ∧ connReady d (sock d.fd) = true := by
      intro d hd
      obtain ⟨g1, g2⟩ := h d (List.mem_cons_of_mem _ hd)
      refine ⟨?_, g2⟩
      rw [h1, findClient_replace_ne _ _ _ ?_]
      · exact g1
      · rw [hsfd]
        intro e
        exact hcs.1 (List.mem_map.mpr ⟨d, hd, e.symm⟩)
    obtain ⟨i1, i2⟩ := ih _ hnd1 hcs.2 hrest (reqs ++ (handleEv s (connEvent c (sock c.fd))).2.1)
      (effs ++ (handleEv s (connEvent c (sock c.fd))).2.2.1)
    refine ⟨?_, i2⟩
    rw [i1, h1]
    unfold replaceClient
    rw [List.map_map]
    apply List.map_congr_left
    intro x hx
    simp only [Function.comp]
    by_cases hxc : x.fd = c.fd
    · have hxeq : x = c := eq_of_fd_eq hnd (findClient_some hf).1 hx hxc
      subst hxeq
      rw [if_pos (by rw [hsfd])]
      unfold stepIn
      rw [if_neg (by rw [hsfd]; exact hcs.1), if_pos (by simp)]
    · rw [if_neg (by rw [hsfd]; exact hxc)]
      unfold stepIn
      simp only [List.map_cons, List.mem_cons, hxc, false_or]

/-- the connection `accept` creates -/
def newClient (s : Srv) (fd : Nat) : Client := { fd := fd, inst := s.nextInst, conn := Conn.new s.limit }

/-- what the listener event adds to the connection table -/
def acceptedBy (s : Srv) (fd : Nat) : List Client :=
  if s.conns.length = MAX_CONNECTIONS then [] else [newClient s fd]

theorem handleEv_listener_conns (s : Srv) (fd : Nat) (hfd : fd ∉ s.fds) :
    (handleEv s (.listener fd)).1.conns = s.conns ++ acceptedBy s fd ∧
    (handleEv s (.listener fd)).2.2.2 = none := by
  unfold acceptedBy
  by_cases hlen : s.conns.length = MAX_CONNECTIONS
  · rw [handleEv_listener_full s fd hlen, if_pos hlen, List.append_nil]
    exact ⟨rfl, rfl⟩
  · rw [handleEv_listener_accept s fd hlen, if_neg hlen]
    refine ⟨?_, rfl⟩
    simp only
    rw [filter_fd_ne_of_not_mem s.conns fd hfd]
    rfl

/-- the connections the kernel reports -/
def readyConns (w : World) : List Client := w.srv.conns.filter (fun c => connReady c (w.sock c.fd))

theorem batch_eq (w : World) :
    w.batch = (match w.backlog with
      | [] => []
      | fd :: _ => [Ev.listener fd]) ++ (readyConns w).map (fun c => connEvent c (w.sock c.fd)) := rfl

theorem readyConns_nodup (w : World) (h : SrvInv w.srv) : ((readyConns w).map (·.fd)).Nodup :=
  List.Nodup.sublist (List.Sublist.map _ List.filter_sublist) h.fdsNodup

theorem mem_readyConns {w : World} {c : Client} (hc : c ∈ readyConns w) :
    c ∈ w.srv.conns ∧ connReady c (w.sock c.fd) = true := List.mem_filter.mp hc

/-- handling the connection events of the batch from a table that extends the original one -/
theorem runEvents_ready (w : World) (h : SrvInv w.srv) (hw : w.WellBehaved) (s1 : Srv) (extra : List Client)
    (h1 : s1.conns = w.srv.conns ++ extra) (hnd : (s1.conns.map (·.fd)).Nodup)
    (reqs : List (Token × Request)) (effs : List Effect) :
    (runEvents s1 ((readyConns w).map (fun c => connEvent c (w.sock c.fd))) reqs effs).1.conns =
      w.srv.conns.map (fun x => stepClient x (w.sock x.fd)) ++ extra ∧
    (runEvents s1 ((readyConns w).map (fun c => connEvent c (w.sock c.fd))) reqs effs).2.2.2 = none := by
  have hyp : ∀ c ∈ readyConns w, findClient s1.conns c.fd = some c ∧ ClientOK c ∧
      (w.sock c.fd).peerGone = false ∧ connReady c (w.sock c.fd) = true := by
    intro c hc
    obtain ⟨hm, hr⟩ := mem_readyConns hc
    refine ⟨findClient_of_mem hnd ?_, h.clients c hm, (hw.2.1 c hm).1, hr⟩
    rw [h1]; exact List.mem_append_left _ hm
  obtain ⟨g1, g2⟩ := runEvents_clients w.sock (readyConns w) s1 hnd (readyConns_nodup w h) hyp reqs effs
  refine ⟨?_, g2⟩
  rw [g1, h1, List.map_append]
  congr 1
  · apply List.map_congr_left
    intro x hx
    unfold stepIn
    split
    · rfl
    · rename_i hnm
      have hnr : connReady x (w.sock x.fd) = false := by
        cases hr : connReady x (w.sock x.fd) with
        | false => rfl
        | true =>
          exfalso; apply hnm
          exact List.mem_map.mpr ⟨x, List.mem_filter.mpr ⟨hx, hr⟩, rfl⟩
      rw [stepClient_not_ready x _ (hw.2.1 x hx).1 hnr]
  · have : ∀ x ∈ extra, stepIn ((readyConns w).map (·.fd)) w.sock x = x := by
      intro x hx
      unfold stepIn
      rw [if_neg]
      intro hm
      obtain ⟨c, hc, e⟩ := List.mem_map.mp hm
      rw [h1, List.map_append, List.nodup_append] at hnd
      exact hnd.2.2 c.fd (List.mem_map.mpr ⟨c, (mem_readyConns hc).1, rfl⟩) x.fd
        (List.mem_map.mpr ⟨x, hx, rfl⟩) e
    rw [List.map_congr_left this, List.map_id']

/-- what the poll adds to the connection table: the head of the backlog unless the table is full -/
def newPart (w : World) : List Client :=
  match w.backlog with
  | [] => []
  | fd :: _ => acceptedBy w.srv fd

/-- closed form of the event loop of one poll -/
theorem runEvents_batch (w : World) (h : SrvInv w.srv) (hw : w.WellBehaved) :
    (runEvents w.srv w.batch [] []).1.conns =
      w.srv.conns.map (fun x => stepClient x (w.sock x.fd)) ++ newPart w ∧
    (runEvents w.srv w.batch [] []).2.2.2 = none := by
  rw [batch_eq]
  unfold newPart
  cases hb : w.backlog with
  | nil =>
    simp only [List.nil_append]
    have := runEvents_ready w h hw w.srv [] (List.append_nil _).symm h.fdsNodup [] []
    rw [List.append_nil] at this ⊢
    exact this
  | cons fd rest =>
    have hfd : fd ∉ w.srv.fds := (hw.2.2.1 fd (by rw [hb]; exact List.mem_cons_self)).1
    obtain ⟨l1, l2⟩ := handleEv_listener_conns w.srv fd hfd
    simp only [List.singleton_append]
    rw [runEvents_cons_ok _ _ _ _ _ l2]
    have hinv := handleEv_inv w.srv h (.listener fd) hfd
    exact runEvents_ready w h hw _ _ l1 hinv.fdsNodup _ _

/-! ### the batch is admissible -/

theorem EvsOK_clients (sock : Nat → KSock) (cs : List Client) (s : Srv) (hcs : (cs.map (·.fd)).Nodup)
    (h : ∀ c ∈ cs, findClient s.conns c.fd = some c) :
    EvsOK s (cs.map (fun c => connEvent c (sock c.fd))) := by
  induction cs generalizing s with
  | nil => exact trivial
  | cons c cs ih =>
    simp only [List.map_cons, List.nodup_cons] at hcs
    refine ⟨connEvent_ok s c _ (h c List.mem_cons_self), fun _ => ih _ hcs.2 ?_⟩
    intro d hd
    have hne : c.fd ≠ d.fd := fun e => hcs.1 (List.mem_map.mpr ⟨d, hd, e.symm⟩)
    unfold connEvent
    rw [C09.others_unaffected s c.fd d.fd hne]
    exact h d (List.mem_cons_of_mem _ hd)

theorem batch_admissible' (w : World) (h : SrvInv w.srv) (hw : w.WellBehaved) : EvsOK w.srv w.batch := by
  rw [batch_eq]
  cases hb : w.backlog with
  | nil =>
    simp only [List.nil_append]
    exact EvsOK_clients w.sock _ w.srv (readyConns_nodup w h) (fun c hc => h.find (mem_readyConns hc).1)
  | cons fd rest =>
    have hfd : fd ∉ w.srv.fds := (hw.2.2.1 fd (by rw [hb]; exact List.mem_cons_self)).1
    simp only [List.singleton_append]
    refine ⟨hfd, fun _ => EvsOK_clients w.sock _ _ (readyConns_nodup w h) ?_⟩
    intro c hc
    have hinv := handleEv_inv w.srv h (.listener fd) hfd
    apply findClient_of_mem hinv.fdsNodup
    rw [(handleEv_listener_conns w.srv fd hfd).1]
    exact List.mem_append_left _ (mem_readyConns hc).1

theorem batch_no_kill (w : World) : Ev.kill ∉ w.batch := by
  rw [batch_eq]
  intro hm
  rcases List.mem_append.mp hm with hm | hm
  · cases hb : w.backlog with
    | nil => rw [hb] at hm; cases hm
    | cons fd rest => rw [hb] at hm; simp at hm
  · obtain ⟨c, _, e⟩ := List.mem_map.mp hm
    unfold connEvent at e
    cases e

/-! ### the whole poll -/

theorem poll_srv (w : World) : w.poll.1.srv = (requests w.srv w.batch).1 := rfl
theorem poll_res (w : World) : w.poll.2 = (requests w.srv w.batch).2.1 := rfl
theorem poll_backlog (w : World) : w.poll.1.backlog = w.backlog.drop 1 := rfl
theorem poll_kill (w : World) : w.poll.1.killSignalled = w.killSignalled := rfl

theorem poll_sock_of_none (w : World) (fd : Nat) (hf : findClient w.srv.conns fd = none) :
    w.poll.1.sock fd = w.sock fd := by
  show (match findClient w.srv.conns fd with
        | none => w.sock fd
        | some c => _) = _
  rw [hf]

theorem poll_sock_of_some (w : World) (fd : Nat) (c : Client) (hf : findClient w.srv.conns fd = some c) :
    (w.poll.1.sock fd).unread = (w.sock fd).unread.drop (takenFrom c (w.sock fd)) ∧
    (w.poll.1.sock fd).peerGone = (w.sock fd).peerGone := by
  have : w.poll.1.sock fd =
      (match findClient w.srv.conns fd with
        | none => w.sock fd
        | some c =>
          { w.sock fd with unread := (w.sock fd).unread.drop (takenFrom c (w.sock fd)),
                           space := (w.sock fd).space - writtenTo fd (requests w.srv w.batch).2.2 }) := rfl
  rw [this, hf]
  exact ⟨rfl, rfl⟩

theorem poll_sock_peerGone (w : World) (fd : Nat) : (w.poll.1.sock fd).peerGone = (w.sock fd).peerGone := by
  cases hf : findClient w.srv.conns fd with
  | none => rw [poll_sock_of_none w fd hf]
  | some c => exact (poll_sock_of_some w fd c hf).2

theorem sweep_none (s : Srv) (h : ∀ c ∈ s.conns, c.state ≠ .closed) : (sweep s).1 = s := by
  unfold sweep
  have : s.conns.filter (fun c => !c.isDone) = s.conns := by
    apply List.filter_eq_self.mpr
    intro c hc
    have := h c hc
    simp [Client.isDone, this]
  simp only [this]

theorem newPart_props (w : World) (hw : w.WellBehaved) (c : Client) (hc : c ∈ newPart w) :
    c.state = .awaitingIn ∧ c.interest = .inn ∧ unsentOf c = [] ∧
    ∃ rest, w.backlog = c.fd :: rest ∧ c.fd ∉ w.srv.fds := by
  unfold newPart at hc
  cases hb : w.backlog with
  | nil => rw [hb] at hc; cases hc
  | cons fd rest =>
    rw [hb] at hc
    simp only [acceptedBy] at hc
    split at hc
    · cases hc
    · simp only [List.mem_singleton] at hc
      subst hc
      refine ⟨rfl, rfl, rfl, rest, rfl, ?_⟩
      exact (hw.2.2.1 fd (by rw [hb]; exact List.mem_cons_self)).1

/-- closed form of the connection table after one poll -/
theorem poll_conns (w : World) (h : SrvInv w.srv) (hw : w.WellBehaved) :
    w.poll.1.srv.conns = w.srv.conns.map (fun x => stepClient x (w.sock x.fd)) ++ newPart w := by
  obtain ⟨g1, g2⟩ := runEvents_batch w h hw
  rw [poll_srv, requests_eq_ok _ _ g2]
  simp only
  rw [sweep_none, g1]
  intro c hc
  rw [g1] at hc
  rcases List.mem_append.mp hc with hc | hc
  · obtain ⟨x, hx, rfl⟩ := List.mem_map.mp hc
    exact stepClient_state x _ (h.clients x hx) (hw.2.1 x hx).2
  · rw [(newPart_props w hw c hc).1]; intro e; cases e

theorem poll_ok' (w : World) (h : SrvInv w.srv) (hw : w.WellBehaved) :
    (∃ reqs, w.poll.2 = .ok reqs) ∧ SrvInv w.poll.1.srv ∧ w.poll.1.WellBehaved := by
  have hadm := batch_admissible' w h hw
  refine ⟨?_, ?_, ?_⟩
  · rw [poll_res]
    exact C09.poll_ok_without_kill w.srv h w.batch hadm (batch_no_kill w)
  · rw [poll_srv]; exact requests_inv' w.srv h w.batch hadm
  · have hconns := poll_conns w h hw
    -- descriptors after the poll
    have hfds : ∀ fd, fd ∈ w.poll.1.srv.fds → fd ∈ w.srv.fds ∨ ∃ rest, w.backlog = fd :: rest := by
      intro fd hm
      unfold Srv.fds at hm
      rw [hconns] at hm
      obtain ⟨c, hc, rfl⟩ := List.mem_map.mp hm
      rcases List.mem_append.mp hc with hc | hc
      · obtain ⟨x, hx, rfl⟩ := List.mem_map.mp hc
        left; rw [stepClient_fd]; exact List.mem_map.mpr ⟨x, hx, rfl⟩
      · obtain ⟨_, _, _, rest, hb, _⟩ := newPart_props w hw c hc
        right; exact ⟨rest, hb⟩
    refine ⟨by rw [poll_kill]; exact hw.1, ?_, ?_, ?_⟩
    · intro c hc
      rw [poll_sock_peerGone]
      rw [hconns] at hc
      rcases List.mem_append.mp hc with hc | hc
      · obtain ⟨x, hx, rfl⟩ := List.mem_map.mp hc
        rw [stepClient_fd]
        exact ⟨(hw.2.1 x hx).1, stepClient_state x _ (h.clients x hx) (hw.2.1 x hx).2⟩
      · obtain ⟨hs, _, _, rest, hb, _⟩ := newPart_props w hw c hc
        refine ⟨(hw.2.2.1 c.fd (by rw [hb]; exact List.mem_cons_self)).2, ?_⟩
        rw [hs]; intro e; cases e
    · intro fd hfd
      rw [poll_backlog] at hfd
      have hfd0 : fd ∈ w.backlog := List.mem_of_mem_drop hfd
      refine ⟨?_, by rw [poll_sock_peerGone]; exact (hw.2.2.1 fd hfd0).2⟩
      intro hm
      rcases hfds fd hm with hm | ⟨rest, hb⟩
      · exact (hw.2.2.1 fd hfd0).1 hm
      · have hnd := hw.2.2.2
        rw [hb] at hnd hfd
        simp only [List.drop_succ_cons, List.drop_zero] at hfd
        exact (List.nodup_cons.mp hnd).1 hfd
    · rw [poll_backlog]
      exact List.Nodup.sublist (List.drop_sublist 1 _) hw.2.2.2

end MicroHttp
