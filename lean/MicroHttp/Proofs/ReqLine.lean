/-
  Proofs.ReqLine — `RequestLine::parse_request_line` in closed form: the split at the first two SP
  is `takeWhile (· ≠ SP)` twice, and it succeeds iff the line has at least two SP.
  `parts3`, `spCount` duplicate (verbatim) the definitions of `MicroHttp.Props.C02`.
-/
import MicroHttp.Proofs.OneShot
import MicroHttp.Props.C16
namespace MicroHttp.ReqLine
open MicroHttp

def parts3 (l : List Byte) : List Byte × List Byte × List Byte :=
  let m := l.takeWhile (· ≠ SP)
  let rest := l.drop (m.length + 1)
  let u := rest.takeWhile (· ≠ SP)
  (m, u, rest.drop (u.length + 1))

def spCount (l : List Byte) : Nat := l.count SP

theorem slice_ok0 (buf : List Byte) (a b : Nat) (h1 : a ≤ b) (h2 : b ≤ buf.length) :
    slice buf a b = .ok ((buf.drop a).take (b - a)) := by
  simp [slice, h1, h2]

/-- searching a single byte -/
theorem find_single (c : Byte) (l : List Byte) :
    find [c] l = if c ∈ l then some (l.takeWhile (· ≠ c)).length else none := by
  induction l with
  | nil => simp [find]
  | cons b bs ih =>
    rw [find, ih]
    by_cases hb : b = c
    · subst hb; simp [List.isPrefixOf]
    · have hcb : ¬ c = b := fun h => hb h.symm
      have hp : ([c].isPrefixOf (b :: bs)) = false := by simp [List.isPrefixOf, hcb]
      simp only [hp, Bool.false_eq_true, if_false, List.mem_cons, hcb, false_or]
      by_cases hm : c ∈ bs
      · simp [hm, hb]
      · simp [hm]

/-- a list containing `c` splits at its first occurrence -/
theorem split_first (c : Byte) (l : List Byte) (h : c ∈ l) :
    l = l.takeWhile (· ≠ c) ++ c :: l.drop ((l.takeWhile (· ≠ c)).length + 1) := by
  induction l with
  | nil => simp at h
  | cons b bs ih =>
    by_cases hb : b = c
    · subst hb; simp
    · have hm : c ∈ bs := by
        rcases List.mem_cons.mp h with h | h
        · exact absurd h.symm hb
        · exact h
      have := ih hm
      simp only [List.takeWhile_cons, ne_eq, hb, not_false_eq_true, decide_true, if_true,
        List.length_cons, List.drop_succ_cons, List.cons_append]
      exact congrArg (b :: ·) this

theorem takeWhile_cons_ne (c b : Byte) (bs : List Byte) (h : b ≠ c) :
    (b :: bs).takeWhile (· ≠ c) = b :: bs.takeWhile (· ≠ c) := by
  rw [List.takeWhile_cons, if_pos (decide_eq_true h)]

theorem takeWhile_cons_eq (c : Byte) (bs : List Byte) :
    (c :: bs).takeWhile (· ≠ c) = [] := by
  rw [List.takeWhile_cons, if_neg]; simp

theorem takeWhile_not_mem (c : Byte) (l : List Byte) : c ∉ l.takeWhile (· ≠ c) := by
  induction l with
  | nil => simp
  | cons b bs ih =>
    by_cases hb : b = c
    · subst hb; rw [takeWhile_cons_eq]; simp
    · rw [takeWhile_cons_ne c b bs hb]
      intro h
      rcases List.mem_cons.mp h with h | h
      · exact hb h.symm
      · exact ih h

theorem takeWhile_append_first (c : Byte) (a b : List Byte) (h : c ∉ a) :
    (a ++ c :: b).takeWhile (· ≠ c) = a := by
  induction a with
  | nil => exact takeWhile_cons_eq c b
  | cons x xs ih =>
    simp only [List.mem_cons, not_or] at h
    have hx : x ≠ c := fun e => h.1 e.symm
    rw [List.cons_append, takeWhile_cons_ne c x _ hx, ih h.2]

theorem takeWhile_length_lt (c : Byte) (l : List Byte) (h : c ∈ l) :
    (l.takeWhile (· ≠ c)).length < l.length := by
  induction l with
  | nil => simp at h
  | cons b bs ih =>
    by_cases hb : b = c
    · subst hb; rw [takeWhile_cons_eq]; simp
    · rw [takeWhile_cons_ne c b bs hb]
      have hm : c ∈ bs := by
        rcases List.mem_cons.mp h with h | h
        · exact absurd h.symm hb
        · exact h
      have := ih hm
      simp only [List.length_cons]; omega

theorem count_takeWhile (c : Byte) (l : List Byte) : (l.takeWhile (· ≠ c)).count c = 0 :=
  List.count_eq_zero.mpr (takeWhile_not_mem c l)

theorem spCount_split (l : List Byte) (h : SP ∈ l) :
    spCount l = 1 + spCount (l.drop ((l.takeWhile (· ≠ SP)).length + 1)) := by
  have hs := split_first SP l h
  unfold spCount
  conv => lhs; rw [hs]
  rw [List.count_append, count_takeWhile, List.count_cons_self]
  omega

theorem spCount_lt_two (l : List Byte) :
    spCount l < 2 ↔ (SP ∉ l ∨ SP ∉ l.drop ((l.takeWhile (· ≠ SP)).length + 1)) := by
  by_cases h : SP ∈ l
  · rw [spCount_split l h]
    constructor
    · intro h2
      right
      have : spCount (l.drop ((l.takeWhile (· ≠ SP)).length + 1)) = 0 := by omega
      exact List.count_eq_zero.mp this
    · rintro (h2 | h2)
      · exact absurd h h2
      · have : spCount (l.drop ((l.takeWhile (· ≠ SP)).length + 1)) = 0 := List.count_eq_zero.mpr h2
        omega
  · have : spCount l = 0 := List.count_eq_zero.mpr h
    simp [this, h]

/-- closed form of `parse_request_line` -/
theorem parts_eq (l : List Byte) :
    RequestLine.parts l =
      if spCount l < 2 then .error (.parse .invalidRequest) else .ok (parts3 l) := by
  unfold RequestLine.parts
  rw [find_single]
  by_cases h1 : SP ∈ l
  · have hs := split_first SP l h1
    have hlen : (l.takeWhile (· ≠ SP)).length + 1 ≤ l.length := takeWhile_length_lt SP l h1
    simp only [h1, if_true]
    rw [slice_ok0 l 0 _ (Nat.zero_le _) (by omega)]
    have s2 : sliceFrom l ((l.takeWhile (· ≠ SP)).length + 1) =
        .ok (l.drop ((l.takeWhile (· ≠ SP)).length + 1)) := by
      simp only [sliceFrom]; rw [if_pos hlen]
    simp only [s2, bind, Except.bind]
    rw [find_single]
    generalize hrest : l.drop ((l.takeWhile (· ≠ SP)).length + 1) = rest
    by_cases h2 : SP ∈ rest
    · have hs2 := split_first SP rest h2
      have hlen2 : (rest.takeWhile (· ≠ SP)).length + 1 ≤ rest.length :=
        takeWhile_length_lt SP rest h2
      have hc : ¬ spCount l < 2 := by
        rw [spCount_lt_two, hrest]; simp [h1, h2]
      simp only [h2, if_true, hc, if_false]
      rw [slice_ok0 rest 0 _ (Nat.zero_le _) (by omega)]
      have s4 : sliceFrom rest ((rest.takeWhile (· ≠ SP)).length + 1) =
          .ok (rest.drop ((rest.takeWhile (· ≠ SP)).length + 1)) := by
        simp only [sliceFrom]; rw [if_pos hlen2]
      simp only [s4, pure, Except.pure, parts3, hrest, List.drop_zero, Nat.sub_zero]
      have t1 : l.take (l.takeWhile (· ≠ SP)).length = l.takeWhile (· ≠ SP) := by
        conv => lhs; arg 2; rw [hs]
        simp
      have t2 : rest.take (rest.takeWhile (· ≠ SP)).length = rest.takeWhile (· ≠ SP) := by
        conv => lhs; arg 2; rw [hs2]
        simp
      rw [t1, t2]
    · have hc : spCount l < 2 := by
        rw [spCount_lt_two, hrest]; exact Or.inr h2
      simp [h2, hc]
  · have hc : spCount l < 2 := by
      rw [spCount_lt_two]; exact Or.inl h1
    simp [h1, hc]

theorem reqline_precedence (l : List Byte) :
    RequestLine.tryFrom l =
      if spCount l < 2 then .error (.parse .invalidRequest)
      else
        let (m, u, v) := parts3 l
        match Method.tryFrom m with
        | none => .error (.parse .invalidHttpMethod)
        | some method =>
          if u = [] then .error (.parse (.invalidUri .empty))
          else if isUtf8 u = false then .error (.parse (.invalidUri .notUtf8))
          else match Version.tryFrom v with
            | none => .error (.parse .invalidHttpVersion)
            | some version => .ok ⟨method, u, version⟩ := by
  unfold RequestLine.tryFrom
  rw [parts_eq]
  by_cases hc : spCount l < 2
  · simp only [hc, if_true]; rfl
  · simp only [hc, if_false]
    generalize parts3 l = p
    obtain ⟨m, u, v⟩ := p
    simp only [bind, Except.bind]
    cases Method.tryFrom m with
    | none => rfl
    | some method =>
      simp only [Uri.tryFrom]
      cases u with
      | nil => rfl
      | cons x xs =>
        simp only [List.isEmpty_cons, Bool.false_eq_true, if_false, reduceCtorEq]
        cases hu : isUtf8 (x :: xs) with
        | false => simp
        | true =>
          simp only [if_true, Bool.true_eq_false, if_false]
          cases Version.tryFrom v <;> rfl

/-- a line with at least two SP is its three parts joined by SP -/
theorem parts3_join (l : List Byte) (h : ¬ spCount l < 2) :
    l = (parts3 l).1 ++ [SP] ++ (parts3 l).2.1 ++ [SP] ++ (parts3 l).2.2 ∧
    SP ∉ (parts3 l).1 ∧ SP ∉ (parts3 l).2.1 := by
  rw [spCount_lt_two] at h
  have h1 : SP ∈ l := Classical.byContradiction fun hn => h (Or.inl hn)
  have h2 : SP ∈ l.drop ((l.takeWhile (· ≠ SP)).length + 1) :=
    Classical.byContradiction fun hn => h (Or.inr hn)
  have e1 := split_first SP l h1
  have e2 := split_first SP _ h2
  refine ⟨?_, takeWhile_not_mem _ _, takeWhile_not_mem _ _⟩
  simp only [parts3, List.append_assoc, List.cons_append, List.nil_append]
  rw [← e2]; exact e1

theorem parts3_of_join (a b c : List Byte) (ha : SP ∉ a) (hb : SP ∉ b) :
    parts3 (a ++ [SP] ++ b ++ [SP] ++ c) = (a, b, c) ∧ ¬ spCount (a ++ [SP] ++ b ++ [SP] ++ c) < 2 := by
  have e : a ++ [SP] ++ b ++ [SP] ++ c = a ++ SP :: (b ++ SP :: c) := by simp
  have t1 : (a ++ SP :: (b ++ SP :: c)).takeWhile (· ≠ SP) = a := takeWhile_append_first SP a _ ha
  have d1 : (a ++ SP :: (b ++ SP :: c)).drop (a.length + 1) = b ++ SP :: c := by
    rw [show a ++ SP :: (b ++ SP :: c) = (a ++ [SP]) ++ (b ++ SP :: c) by simp]
    exact List.drop_left' (by simp)
  have t2 : (b ++ SP :: c).takeWhile (· ≠ SP) = b := takeWhile_append_first SP b _ hb
  have d2 : (b ++ SP :: c).drop (b.length + 1) = c := by
    rw [show b ++ SP :: c = (b ++ [SP]) ++ c by simp]
    exact List.drop_left' (by simp)
  rw [e]
  constructor
  · simp only [parts3, t1, d1, t2, d2]
  · simp only [spCount, List.count_append, List.count_cons_self]; omega

theorem method_raw_noSP (m : Method) : SP ∉ m.raw := by cases m <;> decide

theorem reqline_accept_iff (l : List Byte) (rl : RequestLine) :
    RequestLine.tryFrom l = .ok rl ↔
      (l = rl.method.raw ++ [SP] ++ rl.uri ++ [SP] ++ rl.version.raw ∧
       rl.uri ≠ [] ∧ SP ∉ rl.uri ∧ isUtf8 rl.uri = true) := by
  rw [reqline_precedence]
  constructor
  · intro h
    by_cases hc : spCount l < 2
    · simp only [hc, if_true] at h; cases h
    · simp only [hc, if_false] at h
      obtain ⟨hj, _, hu⟩ := parts3_join l hc
      generalize parts3 l = p at h hj hu
      obtain ⟨m, u, v⟩ := p
      simp only at h hj hu
      cases hm : Method.tryFrom m with
      | none => rw [hm] at h; cases h
      | some method =>
        rw [hm] at h
        simp only at h
        by_cases hu0 : u = []
        · simp only [hu0, if_true] at h; cases h
        · simp only [hu0, if_false] at h
          cases hutf : isUtf8 u with
          | false => rw [hutf] at h; simp only [if_true] at h; cases h
          | true =>
            rw [hutf] at h
            simp only [Bool.true_eq_false, if_false] at h
            cases hv : Version.tryFrom v with
            | none => rw [hv] at h; cases h
            | some version =>
              rw [hv] at h
              simp only [Except.ok.injEq] at h
              subst h
              have hm' := (C16.method_tryFrom_iff m method).mp hm
              have hv' := (C16.version_tryFrom_iff v version).mp hv
              subst hm' hv'
              exact ⟨hj, hu0, hu, hutf⟩
  · rintro ⟨hl, hne, hsp, hutf⟩
    obtain ⟨hp, hc⟩ := parts3_of_join rl.method.raw rl.uri rl.version.raw (method_raw_noSP _) hsp
    rw [← hl] at hp hc
    simp only [hc, if_false, hp, C16.method_roundtrip, hne, hutf, Bool.true_eq_false,
      C16.version_roundtrip]

end MicroHttp.ReqLine
