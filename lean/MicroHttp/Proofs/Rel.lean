/-
  Proofs.Rel — the relation between the result of `try_read`'s loop and the automaton, the loop
  invariant, `attach` bookkeeping, and the lemma that transfers the relation across one loop step.
-/
import MicroHttp.Proofs.Norm
namespace MicroHttp
variable {RL H : Type}

/-- a request completed by a parse function but not yet moved to `parsed` (state `ready`) -/
def preOut (c : Conn RL H) : List (Out RL H) :=
  match c.state, c.pending with
  | .ready, some r => [.deliver r]
  | _, _ => []

/-- invariant of `try_read`'s loop (the window is not part of it: it is only written on exit) -/
structure LInv (P : Params RL H) (c : Conn RL H) : Prop where
  hdr : c.state = .headers → ∃ r, c.pending = some r
  bod : c.state = .body → ∃ r, c.pending = some r ∧ c.bodyVec.length + c.toRead = P.clen r.headers ∧ 0 < c.toRead
  rdy : c.state = .ready → ∃ r, c.pending = some r
  nb : c.state ≠ .body → c.bodyVec = []

theorem attach_nil (l : List (Req RL H)) : attach [] l = l.map (fun r => { r with files := [] }) := by
  cases l <;> simp [attach]

theorem attach_append (fs : List Nat) (a b : List (Req RL H)) :
    attach fs (a ++ b) = attach fs a ++ attach (if a = [] then fs else []) b := by
  cases a with
  | nil => simp [attach]
  | cons x xs => cases b <;> simp [attach]

/-- what must hold of the loop's result `res` when started in `c` on the bytes `rest` -/
def Rel (P : Params RL H) (c : Conn RL H) (rest : List Byte) (res : Conn RL H × Option Fault) : Prop :=
  res.1.parsed = c.parsed ++ attach c.files (delivers (preOut c ++ (feed P c.limit ⟨phaseOf c, []⟩ rest).1)) ∧
  res.1.respQ = c.respQ ++ conts (feed P c.limit ⟨phaseOf c, []⟩ rest).1 ∧
  res.1.respBuf = c.respBuf ∧ res.1.limit = c.limit ∧
  match res.2 with
  | none =>
    (feed P c.limit ⟨phaseOf c, []⟩ rest).2 = .ok (absOf res.1) ∧ res.1.state ≠ .ready ∧ LInv P res.1 ∧
    res.1.win.length < P.B ∧ findCRLF res.1.win = none ∧ (res.1.state = .body → res.1.win = []) ∧
    res.1.files =
      (if delivers (preOut c ++ (feed P c.limit ⟨phaseOf c, []⟩ rest).1) = [] then c.files else [])
  | some (.parse e) => (feed P c.limit ⟨phaseOf c, []⟩ rest).2 = .error e
  | some (.panic _) => False

/-- One loop step from `c` to `c1` that corresponds to the automaton emitting `o` and that moves the
    requests `D` to `parsed`: the relation for the rest of the loop gives the relation for the whole. -/
theorem Rel_step (P : Params RL H) {c c1 : Conn RL H} {rest rest1 : List Byte} {o : List (Out RL H)}
    {D : List (Req RL H)} {res : Conn RL H × Option Fault}
    (h : Rel P c1 rest1 res)
    (hfeed : feed P c.limit ⟨phaseOf c, []⟩ rest =
      (o ++ (feed P c.limit ⟨phaseOf c1, []⟩ rest1).1, (feed P c.limit ⟨phaseOf c1, []⟩ rest1).2))
    (hlim : c1.limit = c.limit) (hbuf : c1.respBuf = c.respBuf)
    (hq : c1.respQ = c.respQ ++ conts o)
    (hD : delivers (preOut c ++ o) = D ++ delivers (preOut c1))
    (hpar : c1.parsed = c.parsed ++ attach c.files D)
    (hfiles : c1.files = if D = [] then c.files else []) : Rel P c rest res := by
  unfold Rel at h ⊢
  rw [hlim] at h
  rw [hfeed]
  generalize feed P c.limit ⟨phaseOf c1, []⟩ rest1 = fr at h ⊢
  obtain ⟨o1, r1⟩ := fr
  simp only at h ⊢
  obtain ⟨h1, h2, h3, h4, h5⟩ := h
  have hDD : delivers (preOut c ++ (o ++ o1)) = D ++ delivers (preOut c1 ++ o1) := by
    rw [← List.append_assoc, delivers_append, hD, delivers_append, List.append_assoc]
  refine ⟨?_, ?_, ?_, ?_, ?_⟩
  · rw [h1, hpar, hDD, attach_append, hfiles, List.append_assoc]
  · rw [h2, hq, conts_append, List.append_assoc]
  · rw [h3, hbuf]
  · exact h4
  · revert h5
    cases res.2 with
    | none =>
      simp only
      intro ⟨g1, g2, g3, g4, g5, g6, g7⟩
      refine ⟨g1, g2, g3, g4, g5, g6, ?_⟩
      rw [g7, hDD, hfiles]
      by_cases hd : D = []
      · simp [hd]
      · simp [hd]
    | some f =>
      cases f with
      | parse e => simp only; exact id
      | panic p => simp only; exact id

end MicroHttp
