/-
  Proofs.Sched — read schedules over a byte stream refine the automaton on the consumed prefix;
  the stream alone determines deliveries and the first error.
-/
import MicroHttp.Proofs.Files
namespace MicroHttp
variable {RL H : Type}

/-- the bytes `try_read` takes from `rest.take k` form the prefix of `rest` of length `takes …` -/
theorem taken_prefix (rest : List Byte) (k m : Nat) :
    (rest.take k).take m = rest.take (min (rest.take k).length m) ∧
    rest = (rest.take k).take m ++ rest.drop (min (rest.take k).length m) := by
  have h1 : (rest.take k).take m = rest.take (min (rest.take k).length m) := by
    rw [List.take_take]
    simp only [List.length_take]
    by_cases h : rest.length ≤ min m k
    · rw [List.take_of_length_le h, List.take_of_length_le (by omega)]
    · congr 1; omega
  exact ⟨h1, by rw [h1, List.take_append_drop]⟩

theorem absOf_filesNil_phase (c : Conn RL H) : (absOf c).phase = phaseOf c := rfl

def SchedPost (P : Params RL H) (L : Nat) (pre rest0 : List Byte) (c' : Conn RL H) (rest : List Byte)
    (err : Option ReqErr) : Prop :=
    ∃ used, rest0 = used ++ rest ∧ ∃ outs r, feed P L Abs.fresh (pre ++ used) = (outs, r) ∧
      c'.parsed = delivers outs ∧ c'.respQ = conts outs ∧
      (match err with
       | some e => r = .error e
       | none => r = .ok (absOf c') ∧ Inv P c')

theorem runSched_gen (P : Params RL H) (hP : P.WF) (L : Nat) (sched : List Step) :
    ∀ (c : Conn RL H) (pre rest0 : List Byte) (o0 : List (Out RL H)),
    Inv P c → c.files = [] → c.limit = L → (phaseOf c).filesNil →
    feed P L Abs.fresh pre = (o0, .ok (absOf c)) → c.parsed = delivers o0 → c.respQ = conts o0 →
    ∀ (c' : Conn RL H) (rest : List Byte) (err : Option ReqErr),
    runSched P c rest0 sched = (c', rest, err) → SchedPost P L pre rest0 c' rest err := by
  induction sched with
  | nil =>
    intro c pre rest0 o0 hI _ _ _ hfeed hpar hq c' rest err h
    simp only [runSched] at h
    obtain ⟨rfl, rfl, rfl⟩ := h
    exact ⟨[], by simp, o0, _, by simpa using hfeed, hpar, hq, rfl, hI⟩
  | cons s ss ih =>
    intro c pre rest0 o0 hI hfiles hlim hfn hfeed hpar hq c' rest err h
    have hskip : ∀ e, runSched P (tryRead P c (.err e)).1 rest0 ss = (c', rest, err) →
        SchedPost P L pre rest0 c' rest err := by
      intro e h
      rw [tryRead_err' P c hI e] at h
      exact ih c pre rest0 o0 hI hfiles hlim hfn hfeed hpar hq c' rest err h
    cases s with
    | fail e =>
      simp only [runSched] at h
      exact hskip e h
    | take k =>
      simp only [runSched] at h
      by_cases hemp : rest0.isEmpty = true
      · rw [if_pos hemp] at h
        exact hskip _ h
      · rw [if_neg hemp] at h
        have hne : rest0.take (max k 1) ≠ [] := by
          cases rest0 with
          | nil => simp at hemp
          | cons x xs =>
            obtain ⟨j, hj⟩ : ∃ j, max k 1 = j + 1 := ⟨max k 1 - 1, by omega⟩
            rw [hj]; simp
        obtain ⟨htk, hsplit⟩ := taken_prefix rest0 (max k 1) (P.B - c.win.length)
        cases htr : tryRead P c (.data (rest0.take (max k 1)) []) with
        | mk c1 out =>
          cases hfd : feed P c.limit (absOf c) ((rest0.take (max k 1)).take (P.B - c.win.length)) with
          | mk outs r =>
            have href := tryRead_refines' P hP c hI _ [] hne c1 out htr outs r hfd
            obtain ⟨p1, p2, _, p4, p5, p6⟩ := href
            have hfn' := feed_filesNil P c.limit (absOf c) _ hfn outs r hfd
            rw [hfiles, List.append_nil, attach_nil_delivers outs hfn'.1] at p1
            rw [hlim] at hfd
            have hfeed' := feed_append_ok P L _ _ pre
              ((rest0.take (max k 1)).take (P.B - c.win.length)) _ hfeed
            rw [hfd] at hfeed'
            simp only at hfeed'
            rw [htr] at h
            simp only [takes] at h
            cases r with
            | error e =>
              obtain ⟨rfl, _⟩ := p6
              simp only at h
              obtain ⟨rfl, rfl, rfl⟩ := h
              refine ⟨_, hsplit, o0 ++ outs, _, hfeed', ?_, ?_, rfl⟩
              · rw [p1, hpar, delivers_append]
              · rw [p2, hq, conts_append]
            | ok a =>
              obtain ⟨rfl, rfl, p7⟩ := p6
              simp only at h
              have hfiles1 : c1.files = [] := by
                rw [p7, hfiles]; split <;> rfl
              have hrec := ih c1 (pre ++ (rest0.take (max k 1)).take (P.B - c.win.length)) _ (o0 ++ outs)
                p5 hfiles1 (by rw [p4, hlim]) (hfn'.2 _ rfl) hfeed'
                (by rw [p1, hpar, delivers_append]) (by rw [p2, hq, conts_append]) c' rest err h
              obtain ⟨used, hu, outs', r', q1, q2, q3, q4⟩ := hrec
              refine ⟨(rest0.take (max k 1)).take (P.B - c.win.length) ++ used, ?_, outs', r', ?_, q2, q3, q4⟩
              · rw [List.append_assoc, ← hu]; exact hsplit
              · rw [← List.append_assoc]; exact q1

end MicroHttp

namespace MicroHttp
variable {RL H : Type}

theorem inv_new' (P : Params RL H) (hP : P.WF) (L : Nat) : Inv P (Conn.new L : Conn RL H) := by
  refine ⟨by simp [Conn.new], by simpa [Conn.new] using hP.bpos, by simp [Conn.new, find],
    by simp [Conn.new], by simp [Conn.new], by simp [Conn.new], by simp [Conn.new]⟩

theorem sched_core (P : Params RL H) (hP : P.WF) (L : Nat) (stream : List Byte) (sched : List Step)
    (c' : Conn RL H) (rest : List Byte) (err : Option ReqErr)
    (h : runSched P (Conn.new L) stream sched = (c', rest, err)) :
    SchedPost P L [] stream c' rest err :=
  runSched_gen P hP L sched (Conn.new L) [] stream [] (inv_new' P hP L) rfl rfl trivial
    (by simp [feed, Abs.fresh, absOf, phaseOf, Conn.new]) rfl rfl c' rest err h

theorem consumed_append (used rest : List Byte) : consumed (used ++ rest) rest = used := by
  simp [consumed]

theorem sched_refines' (P : Params RL H) (hP : P.WF) (L : Nat) (stream : List Byte) (sched : List Step)
    (c' : Conn RL H) (rest : List Byte) (err : Option ReqErr)
    (h : runSched P (Conn.new L) stream sched = (c', rest, err)) :
    rest <:+ stream ∧
    ∃ outs r, feed P L Abs.fresh (consumed stream rest) = (outs, r) ∧
      c'.parsed = delivers outs ∧ c'.respQ = conts outs ∧
      (match err with
       | some e => r = .error e
       | none => r = .ok (absOf c') ∧ Inv P c') := by
  obtain ⟨used, rfl, outs, r, h1, h2, h3, h4⟩ := sched_core P hP L stream sched c' rest err h
  refine ⟨List.suffix_append _ _, outs, r, ?_, h2, h3, ?_⟩
  · rw [consumed_append]; simpa using h1
  · cases err with
    | none => exact h4
    | some e => exact h4

theorem stream_determines' (P : Params RL H) (hP : P.WF) (L : Nat) (stream : List Byte) (sched : List Step)
    (c' : Conn RL H) (rest : List Byte) (err : Option ReqErr)
    (h : runSched P (Conn.new L) stream sched = (c', rest, err)) :
    (∀ e, err = some e → ∃ outs, feed P L Abs.fresh stream = (outs, .error e) ∧
        c'.parsed = delivers outs ∧ c'.respQ = conts outs) ∧
    (err = none → rest = [] → ∃ outs, feed P L Abs.fresh stream = (outs, .ok (absOf c')) ∧
        c'.parsed = delivers outs ∧ c'.respQ = conts outs) := by
  obtain ⟨used, rfl, outs, r, h1, h2, h3, h4⟩ := sched_core P hP L stream sched c' rest err h
  simp only [List.nil_append] at h1
  constructor
  · intro e he
    subst he
    simp only at h4
    subst h4
    exact ⟨outs, feed_append_err P L _ _ _ _ _ h1, h2, h3⟩
  · intro he hr
    subst he hr
    simp only at h4
    obtain ⟨rfl, _⟩ := h4
    exact ⟨outs, by simpa using h1, h2, h3⟩

theorem schedule_independent' (P : Params RL H) (hP : P.WF) (L : Nat) (stream : List Byte)
    (s₁ s₂ : List Step) (c₁ c₂ : Conn RL H) (r₁ r₂ : List Byte) (e₁ e₂ : Option ReqErr)
    (h₁ : runSched P (Conn.new L) stream s₁ = (c₁, r₁, e₁))
    (h₂ : runSched P (Conn.new L) stream s₂ = (c₂, r₂, e₂))
    (d₁ : e₁.isSome ∨ r₁ = []) (d₂ : e₂.isSome ∨ r₂ = []) :
    c₁.parsed = c₂.parsed ∧ c₁.respQ = c₂.respQ ∧ e₁ = e₂ := by
  have key : ∀ (s : List Step) (c : Conn RL H) (r : List Byte) (e : Option ReqErr),
      runSched P (Conn.new L) stream s = (c, r, e) → (e.isSome ∨ r = []) →
      ∃ outs res, feed P L Abs.fresh stream = (outs, res) ∧ c.parsed = delivers outs ∧
        c.respQ = conts outs ∧ e = (match res with | .ok _ => none | .error x => some x) := by
    intro s c r e h d
    have hd := stream_determines' P hP L stream s c r e h
    cases e with
    | some x =>
      obtain ⟨outs, g1, g2, g3⟩ := hd.1 x rfl
      exact ⟨outs, _, g1, g2, g3, rfl⟩
    | none =>
      have hr : r = [] := by
        rcases d with d | d
        · simp at d
        · exact d
      obtain ⟨outs, g1, g2, g3⟩ := hd.2 rfl hr
      exact ⟨outs, _, g1, g2, g3, rfl⟩
  obtain ⟨o1, res1, a1, a2, a3, a4⟩ := key s₁ c₁ r₁ e₁ h₁ d₁
  obtain ⟨o2, res2, b1, b2, b3, b4⟩ := key s₂ c₂ r₂ e₂ h₂ d₂
  rw [a1] at b1
  obtain ⟨rfl, rfl⟩ := Prod.mk.inj b1
  exact ⟨by rw [a2, b2], by rw [a3, b3], by rw [a4, b4]⟩

end MicroHttp
