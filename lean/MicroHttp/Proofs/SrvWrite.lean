/-
  Proofs.SrvWrite — facts about one `try_write` call that the server theorems need.
-/
import MicroHttp.Proofs.Safe
namespace MicroHttp
variable {RL H : Type}

/-- the bytes a connection still has to send -/
def unsentC (c : Conn RL H) : List Byte := (c.respBuf.getD []) ++ c.respQ.flatMap Response.serialize

theorem pendingWrite_false_iff (c : Conn RL H) :
    pendingWrite c = false ↔ c.respBuf = none ∧ c.respQ = [] := by
  unfold pendingWrite
  cases c.respBuf <;> cases c.respQ <;> simp

theorem pendingWrite_clearWrite (c : Conn RL H) : pendingWrite (clearWrite c) = false := by
  simp [pendingWrite, clearWrite]

theorem pendingWrite_enqueue (c : Conn RL H) (r : Response) : pendingWrite (enqueue c r) = true := by
  simp [pendingWrite, enqueue]

theorem flatMap_serialize_eq_nil (q : List Response) : q.flatMap Response.serialize = [] ↔ q = [] := by
  cases q with
  | nil => simp
  | cons r q =>
    simp only [List.flatMap_cons, List.append_eq_nil_iff, reduceCtorEq, iff_false, not_and]
    intro h; exact absurd h (serialize_ne_nil r)

/-- under the invariant, "nothing unsent" is "nothing pending" -/
theorem unsentC_eq_nil_iff (c : Conn RL H) (hb : c.respBuf ≠ some []) :
    unsentC c = [] ↔ pendingWrite c = false := by
  rw [pendingWrite_false_iff]
  unfold unsentC
  rw [List.append_eq_nil_iff, flatMap_serialize_eq_nil]
  cases hrb : c.respBuf with
  | none => simp
  | some b =>
    have : b ≠ [] := by intro h; apply hb; rw [hrb, h]
    simp [this]

theorem tryWrite_parsed (c : Conn RL H) (w : SinkStep) : (tryWrite c w).1.parsed = c.parsed := by
  unfold tryWrite
  cases c.respBuf <;> cases c.respQ <;> cases w <;> simp only [clearWrite] <;> (repeat' split) <;> rfl

theorem tryWrite_nopending (c : Conn RL H) (w : SinkStep) (h : pendingWrite c = false) :
    tryWrite c w = (c, .invalidWrite, [], false) := by
  obtain ⟨h1, h2⟩ := (pendingWrite_false_iff c).mp h
  unfold tryWrite
  simp only [h1, h2]

/-- the first buffer `try_write` works on and the connection holding it -/
def writeHead (c : Conn RL H) : Option (Conn RL H × List Byte) :=
  match c.respBuf with
  | some b => some (c, b)
  | none =>
    match c.respQ with
    | [] => none
    | r :: q => some ({ c with respQ := q, respBuf := some r.serialize }, r.serialize)

theorem writeHead_of_pending (c : Conn RL H) (hb : c.respBuf ≠ some []) (h : pendingWrite c = true) :
    ∃ c1 buf, writeHead c = some (c1, buf) ∧ buf ≠ [] ∧ c1.respBuf = some buf ∧
      unsentC c = buf ++ c1.respQ.flatMap Response.serialize ∧
      c1.respQ.length + 1 = c.respQ.length + (if c.respBuf.isSome then 1 else 0) ∧
      c1.parsed = c.parsed := by
  unfold writeHead unsentC
  cases hrb : c.respBuf with
  | some b =>
    refine ⟨c, b, rfl, ?_, hrb, by simp, by simp, rfl⟩
    intro h0; apply hb; rw [hrb, h0]
  | none =>
    cases hq : c.respQ with
    | nil => simp [pendingWrite, hrb, hq] at h
    | cons r q =>
      exact ⟨_, r.serialize, rfl, serialize_ne_nil r, rfl, by simp, by simp, rfl⟩

theorem tryWrite_eq (c : Conn RL H) (w : SinkStep) :
    tryWrite c w =
      match writeHead c with
      | none => (c, .invalidWrite, [], false)
      | some (c1, buf) =>
        match w with
        | .accept k =>
          let n := min (max k 1) buf.length
          if n = 0 then (clearWrite c1, .closed, [], true)
          else if n ≠ buf.length then ({ c1 with respBuf := some (buf.drop n) }, .ok, buf.take n, true)
          else ({ c1 with respBuf := none }, .ok, buf, true)
        | .zero => (clearWrite c1, .closed, [], true)
        | .interrupted => (c1, .ok, [], true)
        | .fail => (clearWrite c1, .closed, [], true) := by
  unfold tryWrite writeHead
  rfl

/-- an accepted write with something pending: progress -/
theorem tryWrite_accept (c : Conn RL H) (hb : c.respBuf ≠ some []) (h : pendingWrite c = true) (k : Nat) :
    (tryWrite c (.accept k)).2.1 = .ok ∧ (tryWrite c (.accept k)).2.2.1 ≠ [] ∧
    (tryWrite c (.accept k)).2.2.1 ++ unsentC (tryWrite c (.accept k)).1 = unsentC c := by
  obtain ⟨c1, buf, hh, hne, hrb, hun, _, _⟩ := writeHead_of_pending c hb h
  rw [tryWrite_eq, hh]
  simp only
  have hlen : 0 < buf.length := List.length_pos_iff.mpr hne
  have hn : ¬ min (max k 1) buf.length = 0 := by omega
  rw [if_neg hn]
  split
  · rename_i hn2
    refine ⟨rfl, ?_, ?_⟩
    · simp only [ne_eq, List.take_eq_nil_iff, not_or]; exact ⟨hn, hne⟩
    · rw [hun]; simp only [unsentC, Option.getD_some]
      rw [← List.append_assoc, List.take_append_drop]
  · refine ⟨rfl, hne, ?_⟩
    rw [hun]; simp [unsentC]

/-- a write that takes everything that is unsent empties the current buffer -/
theorem tryWrite_accept_full (c : Conn RL H) (hb : c.respBuf ≠ some []) (h : pendingWrite c = true) (k : Nat)
    (hk : (unsentC c).length ≤ k) :
    (tryWrite c (.accept k)).1.respBuf = none ∧
    (tryWrite c (.accept k)).1.respQ.length + 1 = c.respQ.length + (if c.respBuf.isSome then 1 else 0) := by
  obtain ⟨c1, buf, hh, hne, hrb, hun, hm, _⟩ := writeHead_of_pending c hb h
  rw [tryWrite_eq, hh]
  simp only
  have hlen : 0 < buf.length := List.length_pos_iff.mpr hne
  have hle : buf.length ≤ k := by
    have := congrArg List.length hun
    simp only [List.length_append] at this
    omega
  have hn : ¬ min (max k 1) buf.length = 0 := by omega
  have hn2 : min (max k 1) buf.length = buf.length := by omega
  rw [if_neg hn, if_neg (by simp [hn2])]
  exact ⟨rfl, hm⟩

/-- a refused write with something pending closes and clears -/
theorem tryWrite_failed (c : Conn RL H) (w : SinkStep) (hw : w = .zero ∨ w = .fail) (h : pendingWrite c = true) :
    (tryWrite c w).2.1 = .closed ∧ pendingWrite (tryWrite c w).1 = false := by
  rw [tryWrite_eq]
  cases hh : writeHead c with
  | none =>
    exfalso
    unfold writeHead at hh
    cases hrb : c.respBuf with
    | some b => simp [hrb] at hh
    | none =>
      cases hq : c.respQ with
      | nil => simp [pendingWrite, hrb, hq] at h
      | cons r q => simp [hrb, hq] at hh
  | some p =>
    obtain ⟨c1, buf⟩ := p
    rcases hw with rfl | rfl <;> exact ⟨rfl, pendingWrite_clearWrite c1⟩

/-- outcome analysis of one write -/
theorem tryWrite_cases (c : Conn RL H) (w : SinkStep) :
    ((tryWrite c w).2.1 = .invalidWrite ∧ pendingWrite c = false ∧ (tryWrite c w).1 = c ∧ (tryWrite c w).2.2.1 = []) ∨
    ((tryWrite c w).2.1 = .closed ∧ pendingWrite (tryWrite c w).1 = false ∧ (tryWrite c w).2.2.1 = []) ∨
    ((tryWrite c w).2.1 = .ok ∧ pendingWrite c = true ∧
      (tryWrite c w).2.2.1 ++ unsentC (tryWrite c w).1 = unsentC c) := by
  by_cases hp : pendingWrite c = false
  · left
    rw [tryWrite_nopending c w hp]
    exact ⟨rfl, hp, rfl, rfl⟩
  · right
    have hp' : pendingWrite c = true := by simpa using hp
    rw [tryWrite_eq]
    cases hh : writeHead c with
    | none =>
      exfalso
      unfold writeHead at hh
      cases hrb : c.respBuf with
      | some b => simp [hrb] at hh
      | none =>
        cases hq : c.respQ with
        | nil => simp [pendingWrite, hrb, hq] at hp'
        | cons r q => simp [hrb, hq] at hh
    | some p =>
      obtain ⟨c1, buf⟩ := p
      have hun : unsentC c = buf ++ c1.respQ.flatMap Response.serialize ∧ c1.respBuf = some buf := by
        unfold writeHead at hh
        unfold unsentC
        cases hrb : c.respBuf with
        | some b =>
          simp only [hrb, Option.some.injEq, Prod.mk.injEq] at hh
          obtain ⟨rfl, rfl⟩ := hh
          exact ⟨by simp, hrb⟩
        | none =>
          cases hq : c.respQ with
          | nil => simp [hrb, hq] at hh
          | cons r q =>
            simp only [hrb, hq, Option.some.injEq, Prod.mk.injEq] at hh
            obtain ⟨rfl, rfl⟩ := hh
            exact ⟨by simp, rfl⟩
      cases w with
      | accept k =>
        simp only
        split
        · left; exact ⟨rfl, pendingWrite_clearWrite c1, rfl⟩
        · split
          · right
            refine ⟨rfl, hp', ?_⟩
            rw [hun.1]; simp only [unsentC, Option.getD_some]
            rw [← List.append_assoc, List.take_append_drop]
          · right
            refine ⟨rfl, hp', ?_⟩
            rw [hun.1]; simp [unsentC]
      | zero => left; exact ⟨rfl, pendingWrite_clearWrite c1, rfl⟩
      | interrupted =>
        right
        refine ⟨rfl, hp', ?_⟩
        rw [hun.1]; simp [unsentC, hun.2]
      | fail => left; exact ⟨rfl, pendingWrite_clearWrite c1, rfl⟩

/-- the bytes a write hands to the stream are the next unsent bytes -/
theorem tryWrite_prefix (c : Conn RL H) (w : SinkStep) : (tryWrite c w).2.2.1 <+: unsentC c := by
  rcases tryWrite_cases c w with ⟨_, _, _, h⟩ | ⟨_, _, h⟩ | ⟨_, _, h⟩
  · rw [h]; exact List.nil_prefix
  · rw [h]; exact List.nil_prefix
  · exact ⟨_, h⟩

end MicroHttp
