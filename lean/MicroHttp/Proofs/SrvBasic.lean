/-
  Proofs.SrvBasic — list lemmas about `findClient` / `replaceClient` (the `HashMap` of the server).
-/
import MicroHttp.ServerSpec
namespace MicroHttp

theorem findClient_some {cs : List Client} {fd : Nat} {c : Client} (h : findClient cs fd = some c) :
    c ∈ cs ∧ c.fd = fd := by
  unfold findClient at h
  exact ⟨List.mem_of_find?_eq_some h, by simpa using List.find?_some h⟩

theorem findClient_none {cs : List Client} {fd : Nat} (h : findClient cs fd = none) :
    ∀ c ∈ cs, c.fd ≠ fd := by
  unfold findClient at h
  intro c hc
  have := List.find?_eq_none.mp h c hc
  simpa using this

theorem findClient_isSome_of_mem {cs : List Client} {c : Client} (hc : c ∈ cs) :
    ∃ d, findClient cs c.fd = some d := by
  cases h : findClient cs c.fd with
  | some d => exact ⟨d, rfl⟩
  | none => exact absurd rfl (findClient_none h c hc)

/-- with unique descriptors the lookup finds exactly the member -/
theorem findClient_of_mem {cs : List Client} (hnd : (cs.map (·.fd)).Nodup) {c : Client} (hc : c ∈ cs) :
    findClient cs c.fd = some c := by
  induction cs with
  | nil => cases hc
  | cons x xs ih =>
    simp only [List.map_cons, List.nodup_cons] at hnd
    unfold findClient
    rw [List.find?_cons]
    by_cases hx : x.fd = c.fd
    · simp only [hx, decide_true]
      cases List.mem_cons.mp hc with
      | inl h => rw [h]
      | inr h =>
        exfalso
        apply hnd.1
        rw [hx]
        exact List.mem_map.mpr ⟨c, h, rfl⟩
    · simp only [hx, decide_false]
      cases List.mem_cons.mp hc with
      | inl h => exact absurd (by rw [h]) hx
      | inr h => exact ih hnd.2 h

theorem replaceClient_fds (cs : List Client) (c : Client) :
    (replaceClient cs c).map (·.fd) = cs.map (·.fd) := by
  unfold replaceClient
  rw [List.map_map]
  apply List.map_congr_left
  intro x _
  simp only [Function.comp]
  split
  · rename_i h; exact h.symm
  · rfl

theorem replaceClient_length (cs : List Client) (c : Client) :
    (replaceClient cs c).length = cs.length := by
  simp [replaceClient]

theorem mem_replaceClient {cs : List Client} {c x : Client} (h : x ∈ replaceClient cs c) :
    (x = c ∧ ∃ d ∈ cs, d.fd = c.fd) ∨ (x ∈ cs ∧ x.fd ≠ c.fd) := by
  unfold replaceClient at h
  obtain ⟨y, hy, rfl⟩ := List.mem_map.mp h
  by_cases hfd : y.fd = c.fd
  · left; simp only [hfd, if_true]; exact ⟨trivial, y, hy, hfd⟩
  · right; simp only [hfd, if_false]; exact ⟨hy, hfd⟩

theorem mem_replaceClient_of_ne {cs : List Client} {c x : Client} (hx : x ∈ cs) (hne : x.fd ≠ c.fd) :
    x ∈ replaceClient cs c := by
  unfold replaceClient
  exact List.mem_map.mpr ⟨x, hx, by simp [hne]⟩

theorem mem_replaceClient_self {cs : List Client} {c d : Client} (hd : d ∈ cs) (hfd : d.fd = c.fd) :
    c ∈ replaceClient cs c := by
  unfold replaceClient
  exact List.mem_map.mpr ⟨d, hd, by simp [hfd]⟩

/-- looking up another descriptor is not affected by a replacement -/
theorem findClient_replace_ne (cs : List Client) (c : Client) (fd : Nat) (hne : c.fd ≠ fd) :
    findClient (replaceClient cs c) fd = findClient cs fd := by
  induction cs with
  | nil => rfl
  | cons x xs ih =>
    unfold findClient replaceClient at *
    rw [List.map_cons, List.find?_cons, List.find?_cons]
    by_cases hx : x.fd = c.fd
    · have h1 : ¬ c.fd = fd := hne
      simp only [hx, if_true, h1, decide_false]
      exact ih
    · simp only [hx, if_false]
      by_cases h2 : x.fd = fd
      · simp only [h2, decide_true]
      · simp only [h2, decide_false]
        exact ih

/-- looking up the replaced descriptor finds the replacement -/
theorem findClient_replace_self (cs : List Client) (c d : Client) (h : findClient cs c.fd = some d) :
    findClient (replaceClient cs c) c.fd = some c := by
  induction cs with
  | nil => cases h
  | cons x xs ih =>
    unfold findClient replaceClient at *
    rw [List.map_cons, List.find?_cons]
    rw [List.find?_cons] at h
    by_cases hx : x.fd = c.fd
    · simp only [hx, if_true, decide_true]
    · simp only [hx, if_false, decide_false] at h ⊢
      exact ih h

theorem replaceClient_map {β : Type} (f : Client → β) (cs : List Client) (c : Client)
    (h : ∀ d ∈ cs, d.fd = c.fd → f c = f d) :
    (replaceClient cs c).map f = cs.map f := by
  unfold replaceClient
  rw [List.map_map]
  apply List.map_congr_left
  intro x hx
  simp only [Function.comp]
  split
  · rename_i hfd; exact h x hx hfd
  · rfl

end MicroHttp
