/-
  Proofs.TryRead — one `try_read` call refines the automaton on the bytes it took.
-/
import MicroHttp.Proofs.LoopBody
namespace MicroHttp
variable {RL H : Type}

theorem tryRead_err' (P : Params RL H) (c : Conn RL H) (hI : Inv P c) (e : Nat) :
    tryRead P c (.err e) = (c, .streamErr e) := by
  have := hI.winShort
  simp [tryRead, show ¬ P.B ≤ c.win.length by omega]

theorem tryRead_eof' (P : Params RL H) (c : Conn RL H) (hI : Inv P c) (fds : List Nat) :
    tryRead P c (.data [] fds) = ({ c with files := c.files ++ fds }, .closed) := by
  have := hI.winShort
  simp [tryRead, show ¬ P.B ≤ c.win.length by omega]

/-- feeding the window from an empty accumulator rebuilds the abstract state -/
theorem feed_win (P : Params RL H) (L : Nat) (c : Conn RL H) (hI : Inv P c) (x : List Byte) :
    feed P L ⟨phaseOf c, []⟩ (c.win ++ x) = feed P L (absOf c) x := by
  by_cases hb : c.state = .body
  · obtain ⟨r, _, _, _, hw⟩ := hI.bod hb
    simp [absOf, hw]
  · have hline := phaseOf_isLine_of c hb
    have hno : findCRLF c.win = none := by rw [← find_CRLF_eq]; exact hI.winNoCRLF
    have hacc := feed_accumulate P L (phaseOf c) hline [] c.win (by simpa using hno) (by simpa using hI.winShort)
    rw [feed_append_ok P L _ _ _ x _ hacc]
    simp [absOf]

theorem Inv_resetParser (P : Params RL H) (hP : P.WF) (c : Conn RL H) (h : c.respBuf ≠ some []) :
    Inv P (resetParser c) := by
  refine ⟨by simp [resetParser], by simpa [resetParser] using hP.bpos, by simp [resetParser, find],
    by simp [resetParser], by simp [resetParser], by simp [resetParser], by simpa [resetParser] using h⟩

theorem ParserFresh_resetParser (c : Conn RL H) : ParserFresh (resetParser c) := by
  simp [ParserFresh, resetParser]

theorem tryRead_refines' (P : Params RL H) (hP : P.WF) (c : Conn RL H) (hI : Inv P c)
    (chunk : List Byte) (fds : List Nat) (hne : chunk ≠ [])
    (c' : Conn RL H) (out : ReadOut) (h : tryRead P c (.data chunk fds) = (c', out))
    (outs : List (Out RL H)) (r : Except ReqErr (Abs RL H))
    (hf : feed P c.limit (absOf c) (chunk.take (P.B - c.win.length)) = (outs, r)) :
    c'.parsed = c.parsed ++ attach (c.files ++ fds) (delivers outs) ∧
    c'.respQ = c.respQ ++ conts outs ∧ c'.respBuf = c.respBuf ∧ c'.limit = c.limit ∧ Inv P c' ∧
    (match r with
     | .ok a => out = .ok ∧ absOf c' = a ∧
                c'.files = (if delivers outs = [] then c.files ++ fds else [])
     | .error e => out = .parseErr e ∧ ParserFresh c') := by
  have hws := hI.winShort
  have hnr := hI.notReady
  have hlen : (c.win ++ chunk.take (P.B - c.win.length)).length ≤ P.B := by
    simp only [List.length_append, List.length_take]; omega
  have hcne : (chunk.take (P.B - c.win.length)).isEmpty = false := by
    cases chunk with
    | nil => exact absurd rfl hne
    | cons x xs =>
      obtain ⟨k, hk⟩ : ∃ k, P.B - c.win.length = k + 1 := ⟨P.B - c.win.length - 1, by omega⟩
      rw [hk]; simp
  have hL : LInv P { c with files := c.files ++ fds } :=
    ⟨hI.hdr, (fun hb => by obtain ⟨r, h1, h2, h3, _⟩ := hI.bod hb; exact ⟨r, h1, h2, h3⟩),
     (fun hr => absurd hr hnr), hI.nb⟩
  have hrel := loop_rel P hP _ hlen (fuelFor P) { c with files := c.files ++ fds } 0 (Nat.zero_le _)
    (by simp only [fuelFor, hnr, if_false]; simp only [List.length_append, List.length_take]; omega) hL
  have hph : phaseOf { c with files := c.files ++ fds } = phaseOf c := rfl
  have hpre : preOut { c with files := c.files ++ fds } = [] := by
    unfold preOut; simp only; cases hs : c.state <;> simp_all
  unfold Rel at hrel
  rw [hph, hpre, List.drop_zero] at hrel
  simp only at hrel
  rw [feed_win P c.limit c hI, hf] at hrel
  simp only [List.nil_append] at hrel
  unfold tryRead at h
  simp only [ge_iff_le, show ¬ P.B ≤ c.win.length by omega, if_false, hcne, Bool.false_eq_true] at h
  revert hrel h
  generalize loop P (fuelFor P) { c with files := c.files ++ fds } _ 0 _ = res
  obtain ⟨c2, flt⟩ := res
  intro hrel h
  obtain ⟨h1, h2, h3, h4, h5⟩ := hrel
  simp only at h1 h2 h3 h4 h5
  have hrb : c2.respBuf ≠ some [] := by rw [h3]; exact hI.rbuf
  cases flt with
  | none =>
    simp only at h h5
    obtain ⟨rfl, rfl⟩ := Prod.mk.inj h
    obtain ⟨g1, g2, g3, g4, g5, g6, g7⟩ := h5
    subst g1
    refine ⟨h1, h2, h3, h4, ?_, rfl, rfl, g7⟩
    refine ⟨g2, g4, by rw [find_CRLF_eq]; exact g5, g3.hdr, ?_, g3.nb, hrb⟩
    intro hb
    obtain ⟨r, q1, q2, q3⟩ := g3.bod hb
    exact ⟨r, q1, q2, q3, g6 hb⟩
  | some f =>
    cases f with
    | panic p => exact absurd h5 id
    | parse e =>
      simp only at h h5
      obtain ⟨rfl, rfl⟩ := Prod.mk.inj h
      subst h5
      exact ⟨h1, h2, h3, h4, Inv_resetParser P hP c2 hrb, rfl, ParserFresh_resetParser c2⟩

end MicroHttp
