/-
  Proofs.Norm — index-free normal forms of `parse_request_line`, `parse_headers`, `parse_body`
  when called as `try_read` calls them (stop = buf.length ≤ B, start ≤ stop): all slices are in
  bounds, no overflow/underflow branch is taken.
-/
import MicroHttp.Proofs.Feed
namespace MicroHttp
variable {RL H : Type}

theorem slice_ok (buf : List Byte) (a b : Nat) (h1 : a ≤ b) (h2 : b ≤ buf.length) :
    slice buf a b = .ok ((buf.drop a).take (b - a)) := by
  simp [slice, h1, h2]

theorem slice_to_end (buf : List Byte) (a : Nat) (h1 : a ≤ buf.length) :
    slice buf a buf.length = .ok (buf.drop a) := by
  rw [slice_ok buf a buf.length h1 (Nat.le_refl _)]
  congr 1
  apply List.take_of_length_le
  simp

theorem slice_prefix (buf : List Byte) (a i : Nat) (h : a + i ≤ buf.length) :
    slice buf a (a + i) = .ok ((buf.drop a).take i) := by
  rw [slice_ok buf a (a + i) (by omega) h]; simp

/-- index-free normal form of `parse_request_line` (no panic, slices resolved) -/
theorem parseRequestLine_norm (P : Params RL H) (c : Conn RL H) (buf : List Byte) (start : Nat)
    (hs : start ≤ buf.length) (hB : buf.length ≤ P.B) :
    parseRequestLine P c buf start buf.length =
      match findCRLF (buf.drop start) with
      | some i =>
        match P.parseRL ((buf.drop start).take i) with
        | .error e => .error e
        | .ok rl => .ok ({ c with pending := some ⟨rl, P.h0, none, []⟩, state := .headers }, start + i + 2, true)
      | none =>
        if buf.length = P.B ∧ start = 0 then .error (.parse .invalidRequest)
        else .ok ({ c with win := buf.drop start }, start, false) := by
  unfold parseRequestLine
  have h1 : ¬ buf.length < start := by omega
  have h2 : ¬ buf.length > P.B := by omega
  simp only [h1, h2, if_false, slice_to_end buf start hs, find_CRLF_eq]
  simp only [bind, Except.bind]
  cases hf : findCRLF (buf.drop start) with
  | none =>
    simp only
    split
    · rfl
    · simp only [shiftLeft, h1, h2, if_false, slice_to_end buf start hs, bind, Except.bind, pure, Except.pure]
  | some i =>
    have hb := findCRLF_some_bound _ _ hf
    simp at hb
    simp only [slice_prefix buf start i (by omega)]
    cases P.parseRL ((buf.drop start).take i) <;> rfl

/-- normal form of `parse_body` under the body invariant `bodyVec.length + toRead = clen` -/
theorem parseBody_norm (P : Params RL H) (c : Conn RL H) (buf : List Byte) (start : Nat) (r : Req RL H)
    (hs : start ≤ buf.length) (hB : buf.length ≤ P.B)
    (hp : c.pending = some r) (hinv : c.bodyVec.length + c.toRead = P.clen r.headers) :
    parseBody P c buf start buf.length =
      if c.toRead > buf.length - start then
        .ok ({ c with bodyVec := c.bodyVec ++ buf.drop start, toRead := c.toRead - (buf.length - start), win := [] },
             start, false)
      else
        .ok ({ c with bodyVec := [], toRead := 0,
                      pending := some { r with body := some (c.bodyVec ++ (buf.drop start).take c.toRead) },
                      state := .ready }, start + c.toRead, true) := by
  unfold parseBody
  have h1 : ¬ buf.length < start := by omega
  have h2 : ¬ buf.length > P.B := by omega
  simp only [h1, h2, if_false]
  split
  · simp only [slice_to_end buf start hs, bind, Except.bind, pure, Except.pure]
  · rename_i hgt
    have hle : start + c.toRead ≤ buf.length := by omega
    simp only [slice_prefix buf start c.toRead hle, bind, Except.bind, pure, Except.pure, hp]
    have hlen : (c.bodyVec ++ (buf.drop start).take c.toRead).length = P.clen r.headers := by
      simp; omega
    have h3 : ¬ P.clen r.headers > (c.bodyVec ++ (buf.drop start).take c.toRead).length := by omega
    have h4 : (c.bodyVec ++ (buf.drop start).take c.toRead).drop (P.clen r.headers) = [] := by
      apply List.drop_eq_nil_of_le; omega
    have h5 : (c.bodyVec ++ (buf.drop start).take c.toRead).take (P.clen r.headers)
        = c.bodyVec ++ (buf.drop start).take c.toRead := by
      apply List.take_of_length_le; omega
    simp only [h3, if_false, h4, h5, ne_eq, not_true_eq_false]

/-- normal form of `parse_headers` when a request is pending -/
theorem parseHeaders_norm (P : Params RL H) (c : Conn RL H) (buf : List Byte) (start : Nat) (r : Req RL H)
    (hs : start ≤ buf.length) (hB : buf.length ≤ P.B) (hp : c.pending = some r) :
    parseHeaders P c buf start buf.length =
      match findCRLF (buf.drop start) with
      | some 0 =>
        if P.clen r.headers = 0 then .ok ({ c with state := .ready }, start + 2, true)
        else if P.clen r.headers > c.limit then
          .error (.parse (.sizeLimitExceeded c.limit (P.clen r.headers)))
        else .ok ({ c with respQ := if P.expect r.headers then c.respQ ++ [P.contOf r.line] else c.respQ,
                           toRead := P.clen r.headers, pending := some { r with body := some [] },
                           state := .body }, start + 2, true)
      | some (i+1) =>
        match P.parseHL r.headers ((buf.drop start).take (i+1)) with
        | .error e => .error (.parse e)
        | .ok h' => .ok ({ c with pending := some { r with headers := h' } }, (i+1) + start + 2, true)
      | none =>
        if start = 0 ∧ buf.length = P.B then .error (.parse (P.hdrTooLong buf))
        else .ok ({ c with win := buf.drop start }, start, false) := by
  unfold parseHeaders
  have h1 : ¬ buf.length < start := by omega
  have h2 : ¬ buf.length > P.B := by omega
  simp only [h1, h2, if_false, slice_to_end buf start hs, find_CRLF_eq, bind, Except.bind]
  cases hf : findCRLF (buf.drop start) with
  | none =>
    simp only
    split
    · rfl
    · simp only [shiftLeft, h1, h2, if_false, slice_to_end buf start hs, bind, Except.bind, pure, Except.pure]
  | some i =>
    have hb := findCRLF_some_bound _ _ hf
    simp at hb
    cases i with
    | zero => simp only [hp, pure, Except.pure]
    | succ j =>
      simp only [hp]
      have : slice buf start (j + 1 + start) = .ok ((buf.drop start).take (j+1)) := by
        rw [Nat.add_comm]; exact slice_prefix buf start (j+1) (by omega)
      simp only [this, pure, Except.pure]
      cases P.parseHL r.headers ((buf.drop start).take (j+1)) <;> rfl

end MicroHttp
