/-
  `trim` ignores SP / HTAB padding (C15 `trim_padding`).
-/
import MicroHttp.Bytes
namespace MicroHttp.TrimLemmas
open MicroHttp

def isPad (b : Byte) : Prop := b = SP ∨ b = 0x09

theorem ws_len_pos : ∀ p ∈ wsPatterns, 1 ≤ p.length := by decide

theorem ws_tail_not_pad : ∀ p ∈ wsPatterns, ∀ b ∈ p.tail, b ≠ SP ∧ b ≠ 0x09 := by decide

theorem wsPrefixLen_some {bs : List Byte} {n : Nat} (h : wsPrefixLen bs = some n) :
    ∃ p ∈ wsPatterns, p.isPrefixOf bs = true ∧ n = p.length := by
  unfold wsPrefixLen at h
  cases hf : wsPatterns.find? (fun p => p.isPrefixOf bs) with
  | none => rw [hf] at h; cases h
  | some p =>
    rw [hf] at h
    simp only [Option.map_some, Option.some.injEq] at h
    exact ⟨p, List.mem_of_find?_eq_some hf, List.find?_some (p := fun (p : List Byte) => p.isPrefixOf bs) hf, h.symm⟩

theorem wsPrefixLen_bounds {bs : List Byte} {n : Nat} (h : wsPrefixLen bs = some n) :
    1 ≤ n ∧ n ≤ bs.length := by
  obtain ⟨p, hp, hpre, rfl⟩ := wsPrefixLen_some h
  refine ⟨ws_len_pos p hp, ?_⟩
  exact (List.isPrefixOf_iff_prefix.1 hpre).length_le

theorem wsPrefixLen_nil : wsPrefixLen [] = none := by decide

/-- fuel independence -/
theorem trimStartGo_fuel (fuel : Nat) (bs : List Byte) (h : bs.length ≤ fuel) :
    trimStartGo fuel bs = trimStartGo bs.length bs := by
  induction fuel using Nat.strongRecOn generalizing bs with
  | _ fuel ih =>
    cases fuel with
    | zero =>
      have : bs = [] := List.eq_nil_of_length_eq_zero (by omega)
      subst this; rfl
    | succ fuel =>
      cases bs with
      | nil => simp [trimStartGo, wsPrefixLen_nil]
      | cons b rest =>
        simp only [trimStartGo, List.length_cons]
        cases hw : wsPrefixLen (b :: rest) with
        | none => rfl
        | some n =>
          simp only
          have hb := wsPrefixLen_bounds hw
          have hl : ((b :: rest).drop n).length ≤ rest.length := by
            simp only [List.length_drop, List.length_cons]; omega
          simp only [List.length_cons] at h
          rw [ih fuel (by omega) _ (by omega), ih rest.length (by omega) _ hl]

theorem trimStart_eq (bs : List Byte) :
    trimStart bs = match wsPrefixLen bs with
      | some n => trimStart (bs.drop n)
      | none => bs := by
  cases bs with
  | nil => simp [trimStart, trimStartGo, wsPrefixLen_nil]
  | cons b rest =>
    unfold trimStart
    simp only [List.length_cons, trimStartGo]
    cases hw : wsPrefixLen (b :: rest) with
    | none => rfl
    | some n =>
      simp only
      have hb := wsPrefixLen_bounds hw
      apply trimStartGo_fuel
      simp only [List.length_drop, List.length_cons]; omega

theorem wsPrefixLen_pad (b : Byte) (rest : List Byte) (hb : isPad b) :
    wsPrefixLen (b :: rest) = some 1 := by
  rcases hb with rfl | rfl <;>
    simp [wsPrefixLen, wsPatterns, List.find?, List.isPrefixOf, SP]

theorem trimStart_pad_append (pre y : List Byte) (hpre : ∀ b ∈ pre, isPad b) :
    trimStart (pre ++ y) = trimStart y := by
  induction pre with
  | nil => rfl
  | cons b pre ih =>
    rw [List.cons_append, trimStart_eq, wsPrefixLen_pad b _ (hpre b (by simp))]
    simp only [List.drop_succ_cons, List.drop_zero]
    exact ih (fun b' hb' => hpre b' (by simp [hb']))

theorem trimStart_all_pad (post : List Byte) (hpost : ∀ b ∈ post, isPad b) : trimStart post = [] := by
  have := trimStart_pad_append post [] hpost
  simpa [trimStart, trimStartGo] using this

theorem isPrefixOf_append_pad (p x post : List Byte) (hp : ∀ b ∈ p, b ≠ SP ∧ b ≠ 0x09)
    (hpost : ∀ b ∈ post, isPad b) : p.isPrefixOf (x ++ post) = p.isPrefixOf x := by
  induction p generalizing x with
  | nil => simp
  | cons c p ih =>
    cases x with
    | nil =>
      cases post with
      | nil => rfl
      | cons d post =>
        have hd := hpost d (by simp)
        have hc := hp c (by simp)
        have : (c == d) = false := by
          rcases hd with rfl | rfl
          · simpa using hc.1
          · simpa using hc.2
        simp [List.isPrefixOf, this]
    | cons e x =>
      simp only [List.cons_append, List.isPrefixOf]
      rw [ih x (fun b hb => hp b (by simp [hb]))]

theorem find?_congr' {α : Type} (l : List α) (p q : α → Bool) (h : ∀ a ∈ l, p a = q a) :
    l.find? p = l.find? q := by
  induction l with
  | nil => rfl
  | cons a l ih =>
    simp only [List.find?_cons, h a (by simp)]
    rw [ih (fun b hb => h b (by simp [hb]))]

theorem wsPrefixLen_append_pad (x post : List Byte) (hx : x ≠ []) (hpost : ∀ b ∈ post, isPad b) :
    wsPrefixLen (x ++ post) = wsPrefixLen x := by
  unfold wsPrefixLen
  congr 1
  apply find?_congr'
  intro p hp
  cases x with
  | nil => exact absurd rfl hx
  | cons e x =>
    cases p with
    | nil => rfl
    | cons a p =>
      simp only [List.cons_append, List.isPrefixOf]
      rw [isPrefixOf_append_pad p x post (ws_tail_not_pad _ hp) hpost]

theorem trimStart_append_pad (x post : List Byte) (hpost : ∀ b ∈ post, isPad b) :
    trimStart (x ++ post) = if trimStart x = [] then [] else trimStart x ++ post := by
  induction hn : x.length using Nat.strongRecOn generalizing x with
  | _ n ih =>
    by_cases hx : x = []
    · subst hx
      have h1 : trimStart ([] : List Byte) = [] := rfl
      rw [List.nil_append, trimStart_all_pad post hpost, h1, if_pos rfl]
    · rw [trimStart_eq (x ++ post), trimStart_eq x, wsPrefixLen_append_pad x post hx hpost]
      cases hw : wsPrefixLen x with
      | none => simp [hx]
      | some k =>
        simp only
        have hb := wsPrefixLen_bounds hw
        rw [List.drop_append_of_le_length hb.2]
        exact ih (x.drop k).length (by simp only [List.length_drop]; omega) _ rfl

theorem wsSuffixLenRev_pad (b : Byte) (rest : List Byte) (hb : isPad b) :
    wsSuffixLenRev (b :: rest) = some 1 := by
  rcases hb with rfl | rfl <;>
    simp [wsSuffixLenRev, wsPatterns, List.find?, List.isPrefixOf, SP]

theorem trimEnd_concat_pad (y : List Byte) (b : Byte) (hb : isPad b) :
    trimEnd (y ++ [b]) = trimEnd y := by
  unfold trimEnd
  simp only [List.length_append, List.length_cons, List.length_nil, List.reverse_append,
    List.reverse_cons, List.reverse_nil, List.nil_append, List.cons_append, trimEndGo,
    wsSuffixLenRev_pad b _ hb, List.drop_succ_cons, List.drop_zero, Nat.zero_add]

theorem trimEnd_append_pad (y post : List Byte) (hpost : ∀ b ∈ post, isPad b) :
    trimEnd (y ++ post) = trimEnd y := by
  induction post generalizing y with
  | nil => simp
  | cons b post ih =>
    have : y ++ b :: post = (y ++ [b]) ++ post := by simp
    rw [this, ih _ (fun b' hb' => hpost b' (by simp [hb'])), trimEnd_concat_pad y b (hpost b (by simp))]

theorem trim_padding (pre post x : List Byte)
    (hpre : ∀ b ∈ pre, b = SP ∨ b = 0x09) (hpost : ∀ b ∈ post, b = SP ∨ b = 0x09) :
    trim (pre ++ x ++ post) = trim x := by
  unfold trim
  rw [List.append_assoc, trimStart_pad_append pre _ hpre, trimStart_append_pad x post hpost]
  by_cases h : trimStart x = []
  · simp [h]
  · rw [if_neg h, trimEnd_append_pad _ post hpost]

end MicroHttp.TrimLemmas
