/-
  Proofs.Feed — lemmas about the reference automaton: segmentation independence (`feed_append`),
  accumulation of an incomplete line, a complete line, a line that is too long, body bytes.
-/
import MicroHttp.Proofs.Find
namespace MicroHttp
variable {RL H : Type}

theorem feed_append (P : Params RL H) (L : Nat) (a : Abs RL H) (xs ys : List Byte) :
    feed P L a (xs ++ ys) =
      match feed P L a xs with
      | (o, .error e) => (o, .error e)
      | (o, .ok a') => let (o', r) := feed P L a' ys; (o ++ o', r) := by
  induction xs generalizing a with
  | nil => simp [feed]
  | cons x xs ih =>
    simp only [List.cons_append, feed]
    cases h : feedByte P L a x with
    | error e => simp
    | ok v =>
      obtain ⟨a', o⟩ := v
      simp only [ih]
      cases h2 : feed P L a' xs with
      | mk o1 r1 =>
        cases r1 with
        | error e => simp
        | ok a'' => simp [List.append_assoc]

theorem feed_append_ok (P : Params RL H) (L : Nat) (a a' : Abs RL H) (xs ys : List Byte) (o : List (Out RL H))
    (h : feed P L a xs = (o, .ok a')) :
    feed P L a (xs ++ ys) = (o ++ (feed P L a' ys).1, (feed P L a' ys).2) := by
  rw [feed_append, h]

theorem feed_append_err (P : Params RL H) (L : Nat) (a : Abs RL H) (xs ys : List Byte) (o : List (Out RL H))
    (e : ReqErr) (h : feed P L a xs = (o, .error e)) :
    feed P L a (xs ++ ys) = (o, .error e) := by
  rw [feed_append, h]

theorem delivers_append (a b : List (Out RL H)) : delivers (a ++ b) = delivers a ++ delivers b := by
  induction a with
  | nil => rfl
  | cons x xs ih => cases x <;> simp [delivers, ih]

theorem conts_append (a b : List (Out RL H)) : conts (a ++ b) = conts a ++ conts b := by
  induction a with
  | nil => rfl
  | cons x xs ih => cases x <;> simp [conts, ih]

def Phase.isLine : Phase RL H → Bool
  | .body .. => false
  | _ => true

/-- Feeding bytes that never complete a CRLF and never fill the buffer only accumulates. -/
theorem feed_accumulate (P : Params RL H) (L : Nat) (ph : Phase RL H)
    (hph : ph.isLine = true) (acc x : List Byte)
    (hno : findCRLF (acc ++ x) = none) (hlen : (acc ++ x).length < P.B) :
    feed P L ⟨ph, acc⟩ x = ([], .ok ⟨ph, acc ++ x⟩) := by
  induction x generalizing acc with
  | nil => simp [feed]
  | cons b bs ih =>
    have h1 : findCRLF (acc ++ [b]) = none := by
      apply findCRLF_prefix_none (acc ++ [b]) bs; simpa using hno
    have h2 : endsCRLF (acc ++ [b]) = false := findCRLF_none_endsCRLF _ h1
    have h3 : ¬ acc.length + 1 = P.B := by simp at hlen; omega
    have hfb : feedByte P L ⟨ph, acc⟩ b = .ok (⟨ph, acc ++ [b]⟩, []) := by
      unfold feedByte
      cases ph with
      | body r g n => simp [Phase.isLine] at hph
      | line => simp [h2, h3]
      | hdrs r => simp [h2, h3]
    simp only [feed, hfb]
    rw [ih (acc ++ [b]) (by simpa using hno) (by simpa using hlen)]
    simp

theorem feedByte_complete (P : Params RL H) (L : Nat) (ph : Phase RL H) (hph : ph.isLine = true)
    (acc : List Byte) (b : Byte) (h : endsCRLF (acc ++ [b]) = true) :
    feedByte P L ⟨ph, acc⟩ b = processLine P L ph ((acc ++ [b]).take ((acc ++ [b]).length - 2)) := by
  unfold feedByte
  cases ph with
  | body r g n => simp [Phase.isLine] at hph
  | line => simp [h]
  | hdrs r => simp [h]

theorem feed_line (P : Params RL H) (L : Nat) (ph : Phase RL H) (hph : ph.isLine = true)
    (s : List Byte) (i : Nat) (h : findCRLF s = some i) (hB : i + 2 ≤ P.B) (rest : List Byte) :
    feed P L ⟨ph, []⟩ (s.take (i + 2) ++ rest) =
      match processLine P L ph (s.take i) with
      | .error e => ([], .error e)
      | .ok (a', o) => let (os, r) := feed P L a' rest; (o ++ os, r) := by
  have hlen := findCRLF_some_bound s i h
  have hsplit : s.take (i + 2) = s.take (i + 1) ++ [s[i+1]'(by omega)] := by
    rw [List.take_add_one]
    simp [List.getElem?_eq_getElem (show i + 1 < s.length by omega)]
  have hnone := findCRLF_take_succ_none s i h
  have hends := findCRLF_take_ends s i h
  have hacc : feed P L ⟨ph, []⟩ (s.take (i + 1)) = ([], .ok ⟨ph, s.take (i + 1)⟩) := by
    have := feed_accumulate P L ph hph [] (s.take (i + 1)) (by simpa using hnone)
      (by simp; omega)
    simpa using this
  rw [hsplit, List.append_assoc, feed_append, hacc]
  simp only [List.singleton_append, feed, List.nil_append]
  rw [feedByte_complete P L ph hph _ _ (by rw [← hsplit]; exact hends)]
  rw [← hsplit]
  have htk : (s.take (i + 2)).take ((s.take (i + 2)).length - 2) = s.take i := by
    rw [List.take_take]; congr 1; simp; omega
  rw [htk]
  cases processLine P L ph (s.take i) with
  | error e => rfl
  | ok v => obtain ⟨a', o⟩ := v; rfl

theorem feed_tooLong (P : Params RL H) (L : Nat) (ph : Phase RL H) (hph : ph.isLine = true)
    (s : List Byte) (hno : findCRLF s = none) (hlen : s.length = P.B) (hB : 0 < P.B) :
    feed P L ⟨ph, []⟩ s = ([], .error (tooLong P ph s)) := by
  have hne : s ≠ [] := by intro h; subst h; simp at hlen; omega
  obtain ⟨acc, b, rfl⟩ : ∃ acc b, s = acc ++ [b] :=
    ⟨s.dropLast, s.getLast hne, (List.dropLast_concat_getLast hne).symm⟩
  have hlen' : acc.length + 1 = P.B := by simpa using hlen
  have hacc : feed P L ⟨ph, []⟩ acc = ([], .ok ⟨ph, acc⟩) := by
    have := feed_accumulate P L ph hph [] acc
      (by simpa using findCRLF_prefix_none acc [b] hno) (by simp; omega)
    simpa using this
  have hends : endsCRLF (acc ++ [b]) = false := findCRLF_none_endsCRLF _ hno
  have hfb : feedByte P L ⟨ph, acc⟩ b = .error (tooLong P ph (acc ++ [b])) := by
    unfold feedByte
    cases ph with
    | body r g n => simp [Phase.isLine] at hph
    | line => simp only [hends]; simp [hlen']
    | hdrs r => simp only [hends]; simp [hlen']
  rw [feed_append, hacc]
  simp [feed, hfb]

theorem feed_body_partial (P : Params RL H) (L : Nat) (r : Req RL H) (got x : List Byte) (need : Nat)
    (h : x.length < need) :
    feed P L ⟨.body r got need, []⟩ x = ([], .ok ⟨.body r (got ++ x) (need - x.length), []⟩) := by
  induction x generalizing got need with
  | nil => simp [feed]
  | cons b bs ih =>
    simp at h
    have h1 : ¬ need ≤ 1 := by omega
    simp only [feed, feedByte, h1, if_false]
    rw [ih (got ++ [b]) (need - 1) (by omega)]
    simp; omega

theorem feed_body_complete (P : Params RL H) (L : Nat) (r : Req RL H) (got x : List Byte) (need : Nat)
    (h : x.length = need) (h0 : 0 < need) :
    feed P L ⟨.body r got need, []⟩ x =
      ([.deliver { r with body := some (got ++ x) }], .ok ⟨.line, []⟩) := by
  induction x generalizing got need with
  | nil => simp at h; omega
  | cons b bs ih =>
    simp at h
    by_cases h1 : need ≤ 1
    · have : bs = [] := by
        have : bs.length = 0 := by omega
        exact List.length_eq_zero_iff.mp this
      subst this
      simp [feed, feedByte, h1]
    · simp only [feed, feedByte, h1, if_false]
      rw [ih (got ++ [b]) (need - 1) (by omega) (by omega)]
      simp

end MicroHttp
