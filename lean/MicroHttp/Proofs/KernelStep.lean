/-
  Proofs.KernelStep — what the event the kernel reports for ONE ready connection (`connEvent`) does to
  that connection (`stepClient`), in a world where the peer has not hung up: how many unread bytes are
  taken, how the unsent bytes and the registration change.
-/
import MicroHttp.Proofs.KernelBasic
namespace MicroHttp

/-- the connection after the server has handled the event the kernel reports for it
    (peer not gone): one `recv` if it is registered for input and input is waiting, one `write` if it
    is registered for output and the socket has room, nothing otherwise -/
def stepClient (c : Client) (k : KSock) : Client :=
  match c.interest with
  | .inn => if k.unread.isEmpty then c else armOut (c.read (.data k.unread []) []).1
  | .out => if 0 < k.space then armIn (c.write (.accept k.space)).1 else c

/-- stale OUT registration: registered for writability while waiting for input -/
def staleOut (c : Client) : Bool := c.interest == .out && c.state == .awaitingIn

theorem tryRead_data_not_closed {RL H : Type} (P : Params RL H) (c : Conn RL H) (hw : c.win.length < P.B)
    (chunk : List Byte) (fds : List Nat) (hne : chunk ≠ []) :
    (tryRead P c (.data chunk fds)).2 ≠ .closed := by
  have hcne : (chunk.take (P.B - c.win.length)).isEmpty = false := by
    cases chunk with
    | nil => exact absurd rfl hne
    | cons x xs =>
      obtain ⟨n, hn⟩ : ∃ n, P.B - c.win.length = n + 1 := ⟨P.B - c.win.length - 1, by omega⟩
      rw [hn]; simp
  unfold tryRead
  rw [if_neg (by omega)]
  simp only [hcne, Bool.false_eq_true, if_false]
  split <;> (intro h; cases h)

theorem stepClient_fd (c : Client) (k : KSock) : (stepClient c k).fd = c.fd := by
  unfold stepClient
  cases c.interest with
  | inn => simp only; split; rfl; rw [armOut_fd, Client.read_fd]
  | out => simp only; split; rw [armIn_fd, Client.write_fd]; rfl

theorem not_awaitingOut_of_inn {c : Client} (hok : ClientOK c) (hi : c.interest = .inn) :
    c.state ≠ .awaitingOut := by
  intro hs
  have := hok.out_interest hs
  rw [hi] at this; cases this

/-- the state after a read of a non-empty chunk -/
theorem Client.read_state_ne_closed (c : Client) (hok : ClientOK c) (hcl : c.state ≠ .closed)
    (chunk : List Byte) (hne : chunk ≠ []) (t : List Byte) :
    (c.read (.data chunk []) t).1.state ≠ .closed := by
  have hnc := tryRead_data_not_closed P0 c.conn hok.conn.winShort chunk [] hne
  rw [Client.read_eq]
  simp only
  cases hout : (tryRead P0 c.conn (.data chunk [])).2 with
  | closed => exact absurd hout hnc
  | streamErr e => simp only; split <;> simp [hcl]
  | parseErr e => simp only; split <;> simp [hcl]
  | ok => simp only; split <;> simp [hcl]
  | panic p => exact hcl

/-- the write the kernel offers to a connection that waits for input with nothing pending
    (stale OUT registration) only switches the registration back -/
theorem stepClient_stale (c : Client) (k : KSock) (hok : ClientOK c) (hi : c.interest = .out)
    (hs : c.state = .awaitingIn) (hsp : 0 < k.space) :
    stepClient c k = { c with state := .awaitingIn, interest := .inn } := by
  have hp : pendingWrite c.conn = false := hok.nopending (by rw [hs]; intro e; cases e)
  have hw : c.write (.accept k.space) = ({ c with state := .awaitingIn }, []) := by
    rw [Client.write_eq, tryWrite_nopending c.conn _ hp]
    simp only [hs, reduceCtorEq, if_false]
  unfold stepClient
  rw [hi]
  simp only [hsp, if_true, hw]
  unfold armIn
  simp only [if_true]

theorem stepClient_state (c : Client) (k : KSock) (hok : ClientOK c) (hcl : c.state ≠ .closed) :
    (stepClient c k).state ≠ .closed := by
  cases hi : c.interest with
  | inn =>
    unfold stepClient
    rw [hi]
    simp only
    split
    · exact hcl
    · rename_i hne
      rw [armOut_state]
      apply Client.read_state_ne_closed c hok hcl
      intro h; apply hne; rw [h]; rfl
  | out =>
    by_cases hsp : 0 < k.space
    · cases hs : c.state with
      | closed => exact absurd hs hcl
      | awaitingIn => rw [stepClient_stale c k hok hi hs hsp]; simp
      | awaitingOut =>
        unfold stepClient
        rw [hi]
        simp only [hsp, if_true]
        rw [armIn_state]
        obtain ⟨_, _, h3, h4⟩ := Client.write_accept c hok hs k.space
        intro hc
        cases hu : unsentC (c.write (.accept k.space)).1.conn with
        | nil => rw [h3.mpr hu] at hc; cases hc
        | cons x xs => rw [h4.mpr (by rw [hu]; simp)] at hc; cases hc
    · unfold stepClient
      rw [hi]
      simp only [hsp, if_false]
      exact hcl

theorem stepClient_not_ready (c : Client) (k : KSock) (hpg : k.peerGone = false)
    (hr : connReady c k = false) : stepClient c k = c := by
  unfold stepClient
  cases hi : c.interest with
  | inn =>
    rw [connReady_inn c k hi, hpg] at hr
    simp only [Bool.false_or, Bool.not_eq_false'] at hr
    simp only [hr, if_true]
  | out =>
    rw [connReady_out c k hi, hpg] at hr
    simp only [Bool.false_or, decide_eq_false_iff_not] at hr
    simp only [hr, if_false]

theorem unsentOf_eq (c : Client) : unsentOf c = unsentC c.conn := rfl

/-- an OUT-registered connection never gains unsent bytes from its event … -/
theorem stepClient_unsent_le (c : Client) (k : KSock) (hok : ClientOK c) (hcl : c.state ≠ .closed)
    (hi : c.interest = .out) : (unsentOf (stepClient c k)).length ≤ (unsentOf c).length := by
  by_cases hsp : 0 < k.space
  · cases hs : c.state with
    | closed => exact absurd hs hcl
    | awaitingIn => rw [stepClient_stale c k hok hi hs hsp]; exact Nat.le_refl _
    | awaitingOut =>
      unfold stepClient
      rw [hi]
      simp only [hsp, if_true]
      rw [unsentOf_eq, unsentOf_eq, armIn_conn]
      obtain ⟨_, h2, _, _⟩ := Client.write_accept c hok hs k.space
      rw [← h2, List.length_append]
      omega
  · unfold stepClient
    rw [hi]
    simp only [hsp, if_false]
    exact Nat.le_refl _

/-- … and loses at least one if it has any and the socket has room -/
theorem stepClient_unsent_lt (c : Client) (k : KSock) (hok : ClientOK c)
    (hi : c.interest = .out) (hs : c.state = .awaitingOut) (hsp : 0 < k.space) :
    (unsentOf (stepClient c k)).length < (unsentOf c).length := by
  unfold stepClient
  rw [hi]
  simp only [hsp, if_true]
  rw [unsentOf_eq, unsentOf_eq, armIn_conn]
  obtain ⟨h1, h2, _, _⟩ := Client.write_accept c hok hs k.space
  rw [← h2, List.length_append]
  have := List.length_pos_iff.mpr h1
  omega

/-- a connection that was handled is never left with a stale OUT registration -/
theorem stepClient_staleOut (c : Client) (k : KSock) (hok : ClientOK c) (hcl : c.state ≠ .closed)
    (hpg : k.peerGone = false) (h : staleOut (stepClient c k) = true) :
    staleOut c = true ∧ connReady c k = false := by
  cases hr : connReady c k with
  | false => rw [stepClient_not_ready c k hpg hr] at h; exact ⟨h, rfl⟩
  | true =>
    exfalso
    cases hi : c.interest with
    | inn =>
      rw [connReady_inn c k hi, hpg] at hr
      simp only [Bool.false_or, Bool.not_eq_true', ] at hr
      unfold stepClient at h
      rw [hi] at h
      simp only [hr, Bool.false_eq_true, if_false] at h
      unfold staleOut armOut at h
      split at h
      · rename_i hs
        simp only [hs] at h
        simp at h
      · simp only [Client.read_interest, hi] at h
        simp at h
    | out =>
      rw [connReady_out c k hi, hpg] at hr
      simp only [Bool.false_or, decide_eq_true_eq] at hr
      cases hs : c.state with
      | closed => exact absurd hs hcl
      | awaitingIn =>
        rw [stepClient_stale c k hok hi hs hr] at h
        simp [staleOut] at h
      | awaitingOut =>
        unfold stepClient at h
        rw [hi] at h
        simp only [hr, if_true] at h
        unfold staleOut armIn at h
        split at h
        · simp at h
        · rename_i hns
          simp only [Bool.and_eq_true, beq_iff_eq] at h
          exact hns h.2

/-! ### what the single `recv` takes -/

theorem takenFrom_le (c : Client) (k : KSock) : takenFrom c k ≤ k.unread.length := by
  unfold takenFrom takes
  split
  · exact Nat.min_le_left _ _
  · exact Nat.zero_le _

theorem takenFrom_pos (c : Client) (k : KSock) (hok : ClientOK c) (hpg : k.peerGone = false)
    (hi : c.interest = .inn) (hu : k.unread ≠ []) : 0 < takenFrom c k := by
  have hw := hok.conn.winShort
  have hl : 0 < k.unread.length := List.length_pos_iff.mpr hu
  have he : k.unread.isEmpty = false := by
    cases hk : k.unread with
    | nil => exact absurd hk hu
    | cons x xs => rfl
  unfold takenFrom takes
  simp only [hpg, hi, he, Bool.not_false, beq_self_eq_true, Bool.and_self, if_true]
  omega

theorem takenFrom_out (c : Client) (k : KSock) (hi : c.interest = .out) : takenFrom c k = 0 := by
  unfold takenFrom
  simp [hi]

theorem takenFrom_empty (c : Client) (k : KSock) (hu : k.unread = []) : takenFrom c k = 0 := by
  unfold takenFrom
  simp [hu]

/-! ### the event of one ready connection -/

theorem handleEv_connEvent (s : Srv) (c : Client) (k : KSock)
    (hf : findClient s.conns c.fd = some c) (hok : ClientOK c) (hpg : k.peerGone = false)
    (hr : connReady c k = true) :
    (handleEv s (connEvent c k)).1.conns = replaceClient s.conns (stepClient c k) ∧
    (handleEv s (connEvent c k)).2.2.2 = none := by
  cases hi : c.interest with
  | inn =>
    rw [connReady_inn c k hi, hpg] at hr
    simp only [Bool.false_or, Bool.not_eq_true'] at hr
    have hs := not_awaitingOut_of_inn hok hi
    obtain ⟨_, hnp⟩ := ClientCore_read c hok hs (.data k.unread []) []
    unfold connEvent
    rw [handleEv_in s c.fd _ _ _ _ c hf hpg (by simp [hi, hr]) hnp]
    unfold stepClient
    rw [hi]
    simp only [hr, Bool.false_eq_true, if_false, and_self]
  | out =>
    rw [connReady_out c k hi, hpg] at hr
    simp only [Bool.false_or, decide_eq_true_eq] at hr
    unfold connEvent
    rw [handleEv_out s c.fd _ _ _ _ c hf hpg (by simp [hi]) (by simp [hi, hr])]
    unfold stepClient
    rw [hi]
    simp only [hr, if_true, and_self]

/-- the event the kernel reports is one the server expects -/
theorem connEvent_ok (s : Srv) (c : Client) (k : KSock) (hf : findClient s.conns c.fd = some c) :
    EvOK s (connEvent c k) := by
  unfold connEvent EvOK
  refine ⟨c, hf, ?_, ?_⟩
  · intro h
    simp only [Bool.and_eq_true, beq_iff_eq] at h
    exact h.1
  · intro h
    simp only [Bool.and_eq_true, beq_iff_eq] at h
    exact h.1

end MicroHttp
