/-
  Proofs.SystemInv — the invariant of the whole system (`SysInv`): server invariant, well-behaved
  world, nobody is refused, every connection agrees with the ghost logs of its descriptor (`FdOK`),
  and descriptors without a connection have empty logs. It holds initially and is preserved by the
  actions of the environment (`connect`, `send`, `drain`, `respond`); `poll` is in SystemInvPoll.
-/
import MicroHttp.Proofs.SystemPoll
import MicroHttp.Props.C10
namespace MicroHttp

/-- outstanding tokens of descriptor `fd` -/
def tokCount (s : Srv) (fd : Nat) : Nat := (s.outstanding.filter (fun t => t.fd = fd)).length

structure SysInv (s : Sys) : Prop where
  srv : SrvInv s.w.srv
  wb : s.w.WellBehaved
  /-- at most MAX_CONNECTIONS clients ever connect: nobody is refused -/
  cap : s.w.srv.conns.length + s.w.backlog.length ≤ MAX_CONNECTIONS
  conns : ∀ c ∈ s.w.srv.conns,
    FdOK c.conn (s.limitOf c.fd) (s.sentBy c.fd) (s.w.sock c.fd).unread (s.gotBy c.fd) (s.yielded c.fd)
      (s.queued c.fd) (s.supplied c.fd) (tokCount s.w.srv c.fd)
  /-- a descriptor without a connection: everything it sent waits in the socket, nothing else happened -/
  others : ∀ fd, fd ∉ s.w.srv.fds →
    s.sentBy fd = (s.w.sock fd).unread ∧ s.gotBy fd = [] ∧ s.yielded fd = [] ∧ s.queued fd = [] ∧
    s.supplied fd = []
  /-- a descriptor that never connected has sent nothing -/
  unknown : ∀ fd, fd ∉ s.w.srv.fds → fd ∉ s.w.backlog → s.sentBy fd = []

theorem upd_same {α : Type} (f : Nat → α) (k : Nat) (v : α) : upd f k v k = v := by
  unfold upd; rw [if_pos rfl]

theorem upd_ne {α : Type} (f : Nat → α) (k : Nat) (v : α) (x : Nat) (h : x ≠ k) : upd f k v x = f x := by
  unfold upd; rw [if_neg h]

theorem mem_fds {s : Srv} {c : Client} (hc : c ∈ s.conns) : c.fd ∈ s.fds :=
  List.mem_map.mpr ⟨c, hc, rfl⟩

/-- no token names a descriptor without a connection -/
theorem tokCount_zero {s : Srv} (h : SrvInv s) {fd : Nat} (hfd : fd ∉ s.fds) : tokCount s fd = 0 := by
  unfold tokCount
  rw [List.filter_eq_nil_iff.mpr]
  · rfl
  · intro t ht
    simp only [decide_eq_true_eq]
    intro e
    obtain ⟨c, hc, e1, _⟩ := h.tokensLive t ht
    apply hfd
    rw [← e, ← e1]
    exact mem_fds hc

/-! ### the initial state -/

theorem SysInv_init : SysInv Sys.init := by
  refine ⟨C10.inv_new, ⟨rfl, ?_, ?_, List.nodup_nil⟩, Nat.zero_le _, ?_, ?_, ?_⟩
  · intro c hc; cases hc
  · intro fd hfd; cases hfd
  · intro c hc; cases hc
  · intro fd _; exact ⟨rfl, rfl, rfl, rfl, rfl⟩
  · intro fd _ _; rfl

/-! ### connect -/

theorem SysInv_connect (s : Sys) (h : SysInv s) (fd : Nat) (hop : s.opOK (.connect fd)) :
    SysInv (s.step (.connect fd)) := by
  obtain ⟨hfd, hbl, hlen⟩ := hop
  have e1 : (s.step (.connect fd)).w.srv = s.w.srv := rfl
  have e2 : (s.step (.connect fd)).w.backlog = s.w.backlog ++ [fd] := rfl
  have e3 : (s.step (.connect fd)).w.sock =
      upd s.w.sock fd { unread := [], peerGone := false, space := SOCK_SPACE } := rfl
  have e4 : (s.step (.connect fd)).w.killSignalled = s.w.killSignalled := rfl
  have g1 : (s.step (.connect fd)).sentBy = s.sentBy := rfl
  have g2 : (s.step (.connect fd)).gotBy = s.gotBy := rfl
  have g3 : (s.step (.connect fd)).yielded = s.yielded := rfl
  have g4 : (s.step (.connect fd)).queued = s.queued := rfl
  have g5 : (s.step (.connect fd)).supplied = s.supplied := rfl
  have g6 : (s.step (.connect fd)).limitOf = s.limitOf := rfl
  have hsock : ∀ x, x ≠ fd → (s.step (.connect fd)).w.sock x = s.w.sock x := by
    intro x hx; rw [e3, upd_ne _ _ _ _ hx]
  have hsockfd : (s.step (.connect fd)).w.sock fd = { unread := [], peerGone := false, space := SOCK_SPACE } := by
    rw [e3, upd_same]
  refine ⟨by rw [e1]; exact h.srv, ⟨by rw [e4]; exact h.wb.1, ?_, ?_, ?_⟩, ?_, ?_, ?_, ?_⟩
  · intro c hc
    rw [e1] at hc
    have hne : c.fd ≠ fd := fun e => hfd (e ▸ mem_fds hc)
    rw [hsock _ hne]
    exact h.wb.2.1 c hc
  · intro x hx
    rw [e2] at hx
    rw [e1]
    rcases List.mem_append.mp hx with hx | hx
    · have hne : x ≠ fd := fun e => hbl (e ▸ hx)
      rw [hsock _ hne]
      exact h.wb.2.2.1 x hx
    · have : x = fd := by simpa using hx
      subst this
      rw [hsockfd]
      exact ⟨hfd, rfl⟩
  · rw [e2]
    apply List.nodup_append.mpr
    refine ⟨h.wb.2.2.2, by simp, ?_⟩
    intro a ha b hb
    have : b = fd := by simpa using hb
    subst this
    intro e
    exact hbl (e ▸ ha)
  · rw [e1, e2, List.length_append, List.length_singleton]
    omega
  · intro c hc
    rw [e1] at hc
    have hne : c.fd ≠ fd := fun e => hfd (e ▸ mem_fds hc)
    rw [g1, g2, g3, g4, g5, g6, hsock _ hne, e1]
    exact h.conns c hc
  · intro x hx
    rw [e1] at hx
    rw [g1, g2, g3, g4, g5]
    by_cases hxe : x = fd
    · subst hxe
      rw [hsockfd]
      obtain ⟨_, o2, o3, o4, o5⟩ := h.others x hx
      exact ⟨h.unknown x hx hbl, o2, o3, o4, o5⟩
    · rw [hsock _ hxe]
      exact h.others x hx
  · intro x hx hxb
    rw [e1] at hx
    rw [e2] at hxb
    rw [g1]
    exact h.unknown x hx (fun hm => hxb (List.mem_append_left _ hm))

/-! ### send, drain -/

/-- changing a socket's queue or room does not touch anything the invariant of the world says -/
theorem SysInv_sock (s s' : Sys) (h : SysInv s)
    (e1 : s'.w.srv = s.w.srv) (e2 : s'.w.backlog = s.w.backlog) (e4 : s'.w.killSignalled = s.w.killSignalled)
    (hpg : ∀ x, (s'.w.sock x).peerGone = (s.w.sock x).peerGone)
    (g2 : s'.gotBy = s.gotBy) (g3 : s'.yielded = s.yielded) (g4 : s'.queued = s.queued)
    (g5 : s'.supplied = s.supplied) (g6 : s'.limitOf = s.limitOf)
    (fd : Nat) (bytes : List Byte) (hk : fd ∈ s.w.srv.fds ∨ fd ∈ s.w.backlog)
    (hu : (s'.w.sock fd).unread = (s.w.sock fd).unread ++ bytes) (hs : s'.sentBy fd = s.sentBy fd ++ bytes)
    (hu' : ∀ x, x ≠ fd → (s'.w.sock x).unread = (s.w.sock x).unread)
    (hs' : ∀ x, x ≠ fd → s'.sentBy x = s.sentBy x) : SysInv s' := by
  refine ⟨by rw [e1]; exact h.srv, ⟨by rw [e4]; exact h.wb.1, ?_, ?_, by rw [e2]; exact h.wb.2.2.2⟩, ?_, ?_, ?_, ?_⟩
  · intro c hc
    rw [e1] at hc
    rw [hpg]
    exact h.wb.2.1 c hc
  · intro x hx
    rw [e2] at hx
    rw [e1, hpg]
    exact h.wb.2.2.1 x hx
  · rw [e1, e2]; exact h.cap
  · intro c hc
    rw [e1] at hc
    rw [g2, g3, g4, g5, g6, e1]
    by_cases hce : c.fd = fd
    · rw [hce, hu, hs, ← hce]
      exact (h.conns c hc).send bytes
    · rw [hu' _ hce, hs' _ hce]
      exact h.conns c hc
  · intro x hx
    rw [e1] at hx
    rw [g2, g3, g4, g5]
    obtain ⟨o1, o2, o3, o4, o5⟩ := h.others x hx
    refine ⟨?_, o2, o3, o4, o5⟩
    by_cases hxe : x = fd
    · rw [hxe, hu, hs, ← hxe, o1]
    · rw [hu' _ hxe, hs' _ hxe, o1]
  · intro x hx hxb
    rw [e1] at hx
    rw [e2] at hxb
    have hne : x ≠ fd := by
      intro e
      rcases hk with hk | hk
      · exact hx (e ▸ hk)
      · exact hxb (e ▸ hk)
    rw [hs' _ hne]
    exact h.unknown x hx hxb

theorem SysInv_send (s : Sys) (h : SysInv s) (fd : Nat) (bytes : List Byte) (hop : s.opOK (.send fd bytes)) :
    SysInv (s.step (.send fd bytes)) := by
  have e3 : (s.step (.send fd bytes)).w.sock =
      upd s.w.sock fd { (s.w.sock fd) with unread := (s.w.sock fd).unread ++ bytes } := rfl
  have g1 : (s.step (.send fd bytes)).sentBy = upd s.sentBy fd (s.sentBy fd ++ bytes) := rfl
  refine SysInv_sock s _ h rfl rfl rfl ?_ rfl rfl rfl rfl rfl fd bytes hop ?_ ?_ ?_ ?_
  · intro x
    rw [e3]
    by_cases hx : x = fd
    · rw [hx, upd_same]
    · rw [upd_ne _ _ _ _ hx]
  · rw [e3, upd_same]
  · rw [g1, upd_same]
  · intro x hx; rw [e3, upd_ne _ _ _ _ hx]
  · intro x hx; rw [g1, upd_ne _ _ _ _ hx]

theorem SysInv_drain (s : Sys) (h : SysInv s) (fd n : Nat) (hop : s.opOK (.drain fd n)) :
    SysInv (s.step (.drain fd n)) := by
  have e3 : (s.step (.drain fd n)).w.sock =
      upd s.w.sock fd { (s.w.sock fd) with space := (s.w.sock fd).space + n } := rfl
  refine SysInv_sock s _ h rfl rfl rfl ?_ rfl rfl rfl rfl rfl fd [] hop ?_ ?_ ?_ ?_
  · intro x
    rw [e3]
    by_cases hx : x = fd
    · rw [hx, upd_same]
    · rw [upd_ne _ _ _ _ hx]
  · rw [e3, upd_same, List.append_nil]
  · rw [List.append_nil]; rfl
  · intro x hx; rw [e3, upd_ne _ _ _ _ hx]
  · intro x _; rfl

/-! ### respond -/

theorem filter_erase_of_false {α : Type} [DecidableEq α] (l : List α) (a : α) (p : α → Bool) (hp : p a = false) :
    (l.erase a).filter p = l.filter p := by
  induction l with
  | nil => rfl
  | cons x xs ih =>
    by_cases hx : x = a
    · subst hx
      rw [List.erase_cons_head, List.filter_cons, hp]
      rfl
    · rw [List.erase_cons_tail (by simpa using hx), List.filter_cons, List.filter_cons, ih]

theorem filter_erase_of_true {α : Type} [DecidableEq α] (l : List α) (a : α) (p : α → Bool) (hp : p a = true)
    (ha : a ∈ l) : ((l.erase a).filter p).length + 1 = (l.filter p).length := by
  induction l with
  | nil => cases ha
  | cons x xs ih =>
    by_cases hx : x = a
    · subst hx
      rw [List.erase_cons_head, List.filter_cons, hp]
      rfl
    · have ha' : a ∈ xs := by
        rcases List.mem_cons.mp ha with e | e
        · exact absurd e.symm hx
        · exact e
      rw [List.erase_cons_tail (by simpa using hx), List.filter_cons, List.filter_cons]
      cases hpx : p x
      · simpa using ih ha'
      · simp only [if_true, List.length_cons]
        have := ih ha'
        omega

theorem SysInv_respond (s : Sys) (h : SysInv s) (tok : Token) (r : Response) (hop : s.opOK (.respond tok r)) :
    SysInv (s.step (.respond tok r)) := by
  have htok : tok ∈ s.w.srv.outstanding := hop
  obtain ⟨c, hc, hf, hcfd, hcinst, hpos⟩ := h.srv.token_client htok
  have hcl : c.state ≠ .closed := (h.wb.2.1 c hc).2
  obtain ⟨_, hconn, _, _⟩ := respondClient_open c r hcl
  have e1 : (s.step (.respond tok r)).w.srv = (respond s.w.srv tok r).1 := rfl
  have e2 : (s.step (.respond tok r)).w.backlog = s.w.backlog := rfl
  have e3 : (s.step (.respond tok r)).w.sock = s.w.sock := rfl
  have e4 : (s.step (.respond tok r)).w.killSignalled = s.w.killSignalled := rfl
  have g1 : (s.step (.respond tok r)).sentBy = s.sentBy := rfl
  have g2 : (s.step (.respond tok r)).gotBy = s.gotBy := rfl
  have g3 : (s.step (.respond tok r)).yielded = s.yielded := rfl
  have g4 : (s.step (.respond tok r)).queued = upd s.queued tok.fd (s.queued tok.fd ++ [r]) := rfl
  have g5 : (s.step (.respond tok r)).supplied = upd s.supplied tok.fd (s.supplied tok.fd ++ [r]) := rfl
  have g6 : (s.step (.respond tok r)).limitOf = s.limitOf := rfl
  have hinv := respond_inv' s.w.srv h.srv tok htok r
  have hresp := respond_eq_some s.w.srv tok r c hf hpos
  have hconns : (respond s.w.srv tok r).1.conns = replaceClient s.w.srv.conns
      { respondClient c r with inflight := (respondClient c r).inflight - 1 } := by rw [hresp]
  have hout : (respond s.w.srv tok r).1.outstanding = s.w.srv.outstanding.erase tok := by rw [hresp]
  have hfds : (respond s.w.srv tok r).1.fds = s.w.srv.fds := by
    unfold Srv.fds; rw [hconns, replaceClient_fds]
  have hnewfd : ({ respondClient c r with inflight := (respondClient c r).inflight - 1 } : Client).fd = c.fd :=
    respondClient_fd c r
  refine ⟨by rw [e1]; exact hinv, ⟨by rw [e4]; exact h.wb.1, ?_, ?_, by rw [e2]; exact h.wb.2.2.2⟩, ?_, ?_, ?_, ?_⟩
  · intro x hx
    rw [e1, hconns] at hx
    rw [e3]
    rcases mem_replaceClient hx with ⟨rfl, _⟩ | ⟨hx', _⟩
    · rw [hnewfd]
      refine ⟨(h.wb.2.1 c hc).1, ?_⟩
      show (respondClient c r).state ≠ .closed
      rw [(respondClient_open c r hcl).1]
      intro e; cases e
    · exact h.wb.2.1 x hx'
  · intro x hx
    rw [e2] at hx
    rw [e1, hfds, e3]
    exact h.wb.2.2.1 x hx
  · rw [e1, hconns, replaceClient_length, e2]; exact h.cap
  · intro x hx
    rw [e1, hconns] at hx
    rw [g1, g2, g3, g4, g5, g6, e3, e1]
    rcases mem_replaceClient hx with ⟨rfl, _⟩ | ⟨hx', hne⟩
    · rw [hnewfd, ← hcfd, upd_same, upd_same]
      have hcount : tokCount (respond s.w.srv tok r).1 c.fd + 1 = tokCount s.w.srv c.fd := by
        unfold tokCount
        rw [hout]
        exact filter_erase_of_true _ _ _ (by simpa using hcfd.symm) htok
      have hold := h.conns c hc
      rw [← hcount] at hold
      have := hold.respond r
      rw [← hconn] at this
      exact this
    · rw [hnewfd] at hne
      have hne' : x.fd ≠ tok.fd := by rw [← hcfd]; exact hne
      rw [upd_ne _ _ _ _ hne', upd_ne _ _ _ _ hne']
      have hcount : tokCount (respond s.w.srv tok r).1 x.fd = tokCount s.w.srv x.fd := by
        unfold tokCount
        rw [hout, filter_erase_of_false]
        simpa using fun e => hne' e.symm
      rw [hcount]
      exact h.conns x hx'
  · intro x hx
    rw [e1, hfds] at hx
    have hne : x ≠ tok.fd := by
      intro e
      apply hx
      rw [e, ← hcfd]
      exact mem_fds hc
    rw [g1, g2, g3, g4, g5, e3, upd_ne _ _ _ _ hne, upd_ne _ _ _ _ hne]
    exact h.others x hx
  · intro x hx hxb
    rw [e1, hfds] at hx
    rw [e2] at hxb
    rw [g1]
    exact h.unknown x hx hxb

end MicroHttp
