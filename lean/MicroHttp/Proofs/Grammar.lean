/-
  Proofs.Grammar — the "if" direction of C02: bytes of the grammar are consumed line by line.
  `foldHL`, `LineOK`, `requestBytes` duplicate (verbatim) the definitions of `MicroHttp.Props.C02`.
-/
import MicroHttp.Proofs.Feed
namespace MicroHttp.Grammar
open MicroHttp
variable {RL H : Type}

def foldHL (P : Params RL H) : H → List (List Byte) → Except ReqErr H
  | h, [] => .ok h
  | h, l :: ls =>
    match P.parseHL h l with
    | .error e => .error e
    | .ok h' => foldHL P h' ls

def LineOK (P : Params RL H) (l : List Byte) : Prop := find CRLF l = none ∧ l.length + 2 ≤ P.B

def requestBytes (rlLine : List Byte) (hdrLines : List (List Byte)) (body : List Byte) : List Byte :=
  rlLine ++ CRLF ++ (hdrLines.map (· ++ CRLF)).flatten ++ CRLF ++ body

/-- the first CRLF of `l ++ CRLF ++ rest` is at `l.length` when `l` contains none -/
theorem findCRLF_append (l rest : List Byte) (h : findCRLF l = none) :
    findCRLF (l ++ CR :: LF :: rest) = some l.length := by
  fun_induction findCRLF l with
  | case1 a b t hab => simp at h
  | case2 a b t hab ih =>
    simp only [Option.map_eq_none_iff] at h
    have := ih h
    simp only [List.cons_append] at this ⊢
    rw [findCRLF, if_neg hab, this]
    simp
  | case3 l hl =>
    match l with
    | [] => simp [findCRLF]
    | [a] =>
      have : ¬ (a = CR ∧ CR = LF) := by intro h; exact absurd h.2 (by decide)
      simp [findCRLF, this]
    | a :: b :: t => exact absurd rfl (hl a b t)

/-- a complete line followed by anything: the line is processed, then the rest is fed -/
theorem feed_one_line (P : Params RL H) (L : Nat) (ph : Phase RL H) (hph : ph.isLine = true)
    (l rest : List Byte) (hno : findCRLF l = none) (hB : l.length + 2 ≤ P.B) :
    feed P L ⟨ph, []⟩ (l ++ CRLF ++ rest) =
      match processLine P L ph l with
      | .error e => ([], .error e)
      | .ok (a', o) => let (os, r) := feed P L a' rest; (o ++ os, r) := by
  have hf : findCRLF (l ++ CRLF) = some l.length := findCRLF_append l [] hno
  have := feed_line P L ph hph (l ++ CRLF) l.length hf hB rest
  have e1 : (l ++ CRLF).take (l.length + 2) = l ++ CRLF := by
    apply List.take_of_length_le; simp [CRLF]
  have e2 : (l ++ CRLF).take l.length = l := by simp
  rw [e1, e2] at this
  exact this

theorem processLine_hdr_cons (P : Params RL H) (L : Nat) (r : Req RL H) (l : List Byte) (hl : l ≠ []) :
    processLine P L (.hdrs r) l =
      match P.parseHL r.headers l with
      | .error e => .error e
      | .ok h' => .ok (⟨.hdrs { r with headers := h' }, []⟩, []) := by
  cases l with
  | nil => exact absurd rfl hl
  | cons x xs => simp only [processLine]; cases P.parseHL r.headers (x :: xs) <;> rfl

/-- acceptable header lines are folded into the pending request -/
theorem feed_hdr_lines (P : Params RL H) (L : Nat) (r : Req RL H) (lines : List (List Byte)) (h' : H)
    (rest : List Byte)
    (hlines : ∀ l ∈ lines, l ≠ [] ∧ LineOK P l) (hfold : foldHL P r.headers lines = .ok h') :
    feed P L ⟨.hdrs r, []⟩ ((lines.map (· ++ CRLF)).flatten ++ rest) =
      feed P L ⟨.hdrs { r with headers := h' }, []⟩ rest := by
  induction lines generalizing r with
  | nil =>
    simp only [foldHL, Except.ok.injEq] at hfold
    subst hfold
    simp
  | cons l ls ih =>
    obtain ⟨hne, hno, hB⟩ := hlines l (List.mem_cons_self ..)
    rw [find_CRLF_eq] at hno
    simp only [foldHL] at hfold
    cases hp : P.parseHL r.headers l with
    | error e => rw [hp] at hfold; cases hfold
    | ok h1 =>
      rw [hp] at hfold
      simp only at hfold
      simp only [List.map_cons, List.flatten_cons, List.append_assoc]
      have := feed_one_line P L (.hdrs r) rfl l ((ls.map (· ++ CRLF)).flatten ++ rest) hno hB
      rw [List.append_assoc] at this
      rw [this, processLine_hdr_cons P L r l hne, hp]
      simp only [List.nil_append]
      exact ih { r with headers := h1 } (fun l hl => hlines l (List.mem_cons_of_mem _ hl)) hfold

theorem first_bad_header_decides (P : Params RL H) (L : Nat) (r : Req RL H)
    (good : List (List Byte)) (bad rest : List Byte) (h' : H) (e : ReqErr)
    (hgood : ∀ l ∈ good, l ≠ [] ∧ LineOK P l) (hfold : foldHL P r.headers good = .ok h')
    (hbadOK : bad ≠ [] ∧ LineOK P bad) (hbad : P.parseHL h' bad = .error e) :
    feed P L ⟨.hdrs r, []⟩ ((good.map (· ++ CRLF)).flatten ++ bad ++ CRLF ++ rest) = ([], .error e) := by
  obtain ⟨hne, hno, hB⟩ := hbadOK
  rw [find_CRLF_eq] at hno
  rw [List.append_assoc, List.append_assoc, feed_hdr_lines P L r good h' _ hgood hfold]
  have := feed_one_line P L (.hdrs { r with headers := h' }) rfl bad rest hno hB
  rw [List.append_assoc] at this
  rw [this, processLine_hdr_cons P L _ bad hne]
  simp only [hbad]

theorem grammar_accepted (P : Params RL H) (_hP : P.WF) (L : Nat)
    (rlLine : List Byte) (hdrLines : List (List Byte)) (body : List Byte) (rl : RL) (h : H)
    (hrl : P.parseRL rlLine = .ok rl) (hrlOK : LineOK P rlLine)
    (hlines : ∀ l ∈ hdrLines, l ≠ [] ∧ LineOK P l)
    (hfold : foldHL P P.h0 hdrLines = .ok h)
    (hL : P.clen h ≤ L) (hbody : body.length = P.clen h) :
    feed P L Abs.fresh (requestBytes rlLine hdrLines body) =
      ((if P.expect h = true ∧ 0 < P.clen h then [Out.cont (P.contOf rl)] else []) ++
        [Out.deliver ⟨rl, h, if P.clen h = 0 then none else some body, []⟩],
       .ok Abs.fresh) := by
  obtain ⟨hno, hB⟩ := hrlOK
  rw [find_CRLF_eq] at hno
  have hB2 : ([] : List Byte).length + 2 ≤ P.B := by simp at hB ⊢; omega
  unfold requestBytes Abs.fresh
  rw [List.append_assoc, List.append_assoc,
    feed_one_line P L .line rfl rlLine _ hno hB]
  simp only [processLine, hrl, List.nil_append]
  rw [feed_hdr_lines P L ⟨rl, P.h0, none, []⟩ hdrLines h _ hlines hfold]
  have := feed_one_line P L (.hdrs ⟨rl, h, none, []⟩) rfl [] body (by simp [findCRLF]) hB2
  rw [List.nil_append] at this
  rw [this]
  simp only [processLine]
  by_cases h0 : P.clen h = 0
  · have hb : body = [] := List.length_eq_zero_iff.mp (by omega)
    subst hb
    simp [h0, feed]
  · have hL' : ¬ P.clen h > L := by omega
    simp only [h0, if_false, hL']
    rw [feed_body_complete P L _ [] body (P.clen h) hbody (by omega)]
    have hpos : 0 < P.clen h := by omega
    cases P.expect h <;> simp [hpos]
end MicroHttp.Grammar
