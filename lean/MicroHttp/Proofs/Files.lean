/-
  Proofs.Files — requests built by the automaton carry no descriptors, so `attach []` is the identity
  on what it delivers.
-/
import MicroHttp.Proofs.TryRead
namespace MicroHttp
variable {RL H : Type}

def Phase.filesNil : Phase RL H → Prop
  | .line => True
  | .hdrs r => r.files = []
  | .body r _ _ => r.files = []

def Out.filesNil : Out RL H → Prop
  | .deliver r => r.files = []
  | .cont _ => True

theorem processLine_filesNil (P : Params RL H) (L : Nat) (ph : Phase RL H) (l : List Byte)
    (hph : ph.filesNil) (a : Abs RL H) (o : List (Out RL H)) (h : processLine P L ph l = .ok (a, o)) :
    a.phase.filesNil ∧ ∀ x ∈ o, x.filesNil := by
  cases ph with
  | line =>
    simp only [processLine] at h
    split at h
    · cases h
    · cases h
    · cases h; simp [Phase.filesNil]
  | hdrs r =>
    cases l with
    | nil =>
      simp only [processLine] at h
      split at h
      · cases h; simpa [Phase.filesNil, Out.filesNil] using hph
      · split at h
        · cases h
        · cases h
          refine ⟨by simpa [Phase.filesNil] using hph, ?_⟩
          intro x hx
          split at hx
          · simp at hx; subst hx; simp [Out.filesNil]
          · simp at hx
    | cons y ys =>
      simp only [processLine] at h
      split at h
      · cases h
      · cases h; exact ⟨by simpa [Phase.filesNil] using hph, by simp⟩
  | body r g n =>
    simp only [processLine] at h
    cases h; exact ⟨hph, by simp⟩

theorem feedByte_filesNil (P : Params RL H) (L : Nat) (a : Abs RL H) (b : Byte)
    (ha : a.phase.filesNil) (a' : Abs RL H) (o : List (Out RL H)) (h : feedByte P L a b = .ok (a', o)) :
    a'.phase.filesNil ∧ ∀ x ∈ o, x.filesNil := by
  obtain ⟨ph, acc⟩ := a
  cases ph with
  | body r g n =>
    simp only [feedByte] at h
    split at h
    · cases h; simpa [Phase.filesNil, Out.filesNil] using ha
    · cases h; exact ⟨by simpa [Phase.filesNil] using ha, by simp⟩
  | line =>
    simp only [feedByte] at h
    split at h
    · exact processLine_filesNil P L _ _ ha _ _ h
    · split at h
      · cases h
      · cases h; exact ⟨ha, by simp⟩
  | hdrs r =>
    simp only [feedByte] at h
    split at h
    · exact processLine_filesNil P L _ _ ha _ _ h
    · split at h
      · cases h
      · cases h; exact ⟨ha, by simp⟩

theorem feed_filesNil (P : Params RL H) (L : Nat) (a : Abs RL H) (x : List Byte)
    (ha : a.phase.filesNil) (outs : List (Out RL H)) (r : Except ReqErr (Abs RL H))
    (h : feed P L a x = (outs, r)) :
    (∀ o ∈ outs, o.filesNil) ∧ ∀ a', r = .ok a' → a'.phase.filesNil := by
  induction x generalizing a outs r with
  | nil =>
    simp only [feed] at h
    obtain ⟨rfl, rfl⟩ := Prod.mk.inj h
    exact ⟨by simp, by intro a' h'; cases h'; exact ha⟩
  | cons b bs ih =>
    simp only [feed] at h
    cases hb : feedByte P L a b with
    | error e =>
      rw [hb] at h
      obtain ⟨rfl, rfl⟩ := Prod.mk.inj h
      exact ⟨by simp, by intro a' h'; cases h'⟩
    | ok v =>
      obtain ⟨a1, o1⟩ := v
      rw [hb] at h
      simp only at h
      obtain ⟨rfl, rfl⟩ := Prod.mk.inj h
      have h1 := feedByte_filesNil P L a b ha a1 o1 hb
      have h2 := ih a1 h1.1 _ _ rfl
      refine ⟨?_, h2.2⟩
      intro o ho
      rcases List.mem_append.mp ho with ho | ho
      · exact h1.2 o ho
      · exact h2.1 o ho

theorem attach_nil_delivers (outs : List (Out RL H)) (h : ∀ o ∈ outs, o.filesNil) :
    attach [] (delivers outs) = delivers outs := by
  rw [attach_nil]
  induction outs with
  | nil => simp [delivers]
  | cons o os ih =>
    have ih' := ih (fun x hx => h x (List.mem_cons_of_mem _ hx))
    cases o with
    | deliver r =>
      have hr : r.files = [] := h (.deliver r) (by simp)
      simp only [delivers, List.map_cons, ih']
      congr 1
      cases r; simp_all
    | cont v => simpa [delivers] using ih'

end MicroHttp
