/-
  Proofs.GrammarInv — inversion lemmas for the reference automaton: what a successful run from a
  line boundary looks like (one line at a time), and that a request in progress can only be left
  through a delivery.
-/
import MicroHttp.Proofs.Grammar
namespace MicroHttp.Grammar
open MicroHttp
variable {RL H : Type}

/-! ### positions -/

theorem findCRLF_split (bs : List Byte) (i : Nat) (h : findCRLF bs = some i) :
    bs = bs.take i ++ CR :: LF :: bs.drop (i + 2) := by
  fun_induction findCRLF bs generalizing i with
  | case1 a b rest hab => simp at h; subst h; simp [hab.1, hab.2]
  | case2 a b rest hab ih =>
    simp at h
    obtain ⟨j, hj, rfl⟩ := h
    have := ih j hj
    simp only [List.take_succ_cons, List.drop_succ_cons, List.cons_append]
    exact congrArg (a :: ·) this
  | case3 l hl => simp at h

theorem findCRLF_take_le_none (bs : List Byte) (i k : Nat) (h : findCRLF bs = some i) (hk : k ≤ i + 1) :
    findCRLF (bs.take k) = none := by
  have h1 := findCRLF_take_succ_none bs i h
  have e : bs.take (i + 1) = bs.take k ++ (bs.take (i + 1)).drop k := by
    have := (List.take_append_drop k (bs.take (i + 1))).symm
    rw [List.take_take, Nat.min_eq_left hk] at this
    exact this
  rw [e] at h1
  exact findCRLF_prefix_none _ _ h1

theorem findCRLF_take_none (bs : List Byte) (i : Nat) (h : findCRLF bs = some i) :
    findCRLF (bs.take i) = none := findCRLF_take_le_none bs i i h (by omega)

/-! ### one line at a time -/

theorem feed_prefix_tooLong (P : Params RL H) (hB : 0 < P.B) (L : Nat) (ph : Phase RL H)
    (hph : ph.isLine = true) (bs : List Byte)
    (hno : findCRLF (bs.take P.B) = none) (hlen : P.B ≤ bs.length) :
    feed P L ⟨ph, []⟩ bs = ([], .error (tooLong P ph (bs.take P.B))) := by
  have h1 := feed_tooLong P L ph hph (bs.take P.B) hno (by simp; omega) hB
  have := feed_append_err P L ⟨ph, []⟩ (bs.take P.B) (bs.drop P.B) [] _ h1
  rwa [List.take_append_drop] at this

/-- A successful run from a line boundary either never completes a line, or processes its first
    line and continues with the rest. -/
theorem line_inv (P : Params RL H) (hB : 0 < P.B) (L : Nat) (ph : Phase RL H) (hph : ph.isLine = true)
    (bs : List Byte) (outs : List (Out RL H)) (a : Abs RL H)
    (hf : feed P L ⟨ph, []⟩ bs = (outs, .ok a)) :
    (findCRLF bs = none ∧ bs.length < P.B ∧ outs = [] ∧ a = ⟨ph, bs⟩) ∨
    (∃ i a' o outs', findCRLF bs = some i ∧ i + 2 ≤ P.B ∧
      processLine P L ph (bs.take i) = .ok (a', o) ∧
      feed P L a' (bs.drop (i + 2)) = (outs', .ok a) ∧ outs = o ++ outs') := by
  cases hc : findCRLF bs with
  | none =>
    by_cases hl : bs.length < P.B
    · left
      have := feed_accumulate P L ph hph [] bs (by simpa using hc) (by simpa using hl)
      rw [this] at hf
      simp only [List.nil_append, Prod.mk.injEq, Except.ok.injEq] at hf
      exact ⟨rfl, hl, hf.1.symm, hf.2.symm⟩
    · exfalso
      have hno : findCRLF (bs.take P.B) = none := by
        apply findCRLF_prefix_none (bs.take P.B) (bs.drop P.B)
        rw [List.take_append_drop]; exact hc
      rw [feed_prefix_tooLong P hB L ph hph bs hno (by omega)] at hf
      simp at hf
  | some i =>
    have hb := findCRLF_some_bound bs i hc
    by_cases hi : i + 2 ≤ P.B
    · right
      have := feed_line P L ph hph bs i hc hi (bs.drop (i + 2))
      rw [List.take_append_drop] at this
      rw [this] at hf
      cases hp : processLine P L ph (bs.take i) with
      | error e => rw [hp] at hf; simp at hf
      | ok v =>
        obtain ⟨a', o⟩ := v
        rw [hp] at hf
        simp only at hf
        cases hr : feed P L a' (bs.drop (i + 2)) with
        | mk os r =>
          rw [hr] at hf
          simp only [Prod.mk.injEq] at hf
          obtain ⟨h1, h2⟩ := hf
          subst h2
          exact ⟨i, a', o, os, rfl, hi, hp, hr, h1.symm⟩
    · exfalso
      have hno : findCRLF (bs.take P.B) = none := findCRLF_take_le_none bs i P.B hc (by omega)
      rw [feed_prefix_tooLong P hB L ph hph bs hno (by omega)] at hf
      simp at hf

/-! ### a request in progress is only left through a delivery -/

def inReq : Phase RL H → Bool
  | .line => false
  | _ => true

theorem processLine_hdrs_leave (P : Params RL H) (L : Nat) (r : Req RL H) (l : List Byte)
    (a' : Abs RL H) (o : List (Out RL H))
    (h : processLine P L (.hdrs r) l = .ok (a', o)) (h2 : inReq a'.phase = false) :
    delivers o ≠ [] := by
  cases l with
  | nil =>
    simp only [processLine] at h
    split at h
    · simp only [Except.ok.injEq, Prod.mk.injEq] at h
      rw [← h.2]; simp [delivers]
    · split at h
      · cases h
      · simp only [Except.ok.injEq, Prod.mk.injEq] at h
        rw [← h.1] at h2; simp [inReq] at h2
  | cons x xs =>
    simp only [processLine] at h
    split at h
    · cases h
    · simp only [Except.ok.injEq, Prod.mk.injEq] at h
      rw [← h.1] at h2; simp [inReq] at h2

theorem feedByte_leave (P : Params RL H) (L : Nat) (a a' : Abs RL H) (b : Byte) (o : List (Out RL H))
    (h : feedByte P L a b = .ok (a', o)) (h1 : inReq a.phase = true) (h2 : inReq a'.phase = false) :
    delivers o ≠ [] := by
  obtain ⟨ph, acc⟩ := a
  cases ph with
  | line => simp [inReq] at h1
  | hdrs r =>
    simp only [feedByte] at h
    split at h
    · exact processLine_hdrs_leave P L r _ a' o h h2
    · split at h
      · cases h
      · simp only [Except.ok.injEq, Prod.mk.injEq] at h
        rw [← h.1] at h2; simp [inReq] at h2
  | body r g n =>
    simp only [feedByte] at h
    split at h
    · simp only [Except.ok.injEq, Prod.mk.injEq] at h
      rw [← h.2]; simp [delivers]
    · simp only [Except.ok.injEq, Prod.mk.injEq] at h
      rw [← h.1] at h2; simp [inReq] at h2

theorem leave_delivers (P : Params RL H) (L : Nat) (a a' : Abs RL H) (bs : List Byte) (outs : List (Out RL H))
    (h : feed P L a bs = (outs, .ok a')) (h1 : inReq a.phase = true) (h2 : inReq a'.phase = false) :
    delivers outs ≠ [] := by
  induction bs generalizing a outs with
  | nil =>
    simp only [feed, Prod.mk.injEq, Except.ok.injEq] at h
    rw [h.2, h2] at h1; cases h1
  | cons b bs ih =>
    simp only [feed] at h
    cases hb : feedByte P L a b with
    | error e => rw [hb] at h; simp at h
    | ok v =>
      obtain ⟨a1, o⟩ := v
      rw [hb] at h
      simp only at h
      cases hr : feed P L a1 bs with
      | mk os r =>
        rw [hr] at h
        simp only [Prod.mk.injEq] at h
        obtain ⟨e1, e2⟩ := h
        subst e1 e2
        rw [delivers_append]
        cases h3 : inReq a1.phase with
        | true =>
          have := ih a1 os hr h3
          intro hn
          exact this (List.append_eq_nil_iff.mp hn).2
        | false =>
          have := feedByte_leave P L a a1 b o hb h1 h3
          intro hn
          exact this (List.append_eq_nil_iff.mp hn).1

/-- from a fresh state, returning to a fresh state without a delivery means no input at all -/
theorem fresh_no_delivery (P : Params RL H) (hB : 0 < P.B) (L : Nat) (bs : List Byte) (outs : List (Out RL H))
    (h : feed P L Abs.fresh bs = (outs, .ok Abs.fresh)) (hd : delivers outs = []) : bs = [] := by
  rcases line_inv P hB L .line rfl bs outs Abs.fresh h with ⟨_, _, _, ha⟩ | ⟨i, a', o, outs', _, _, hp, hf, ho⟩
  · simp only [Abs.fresh, Abs.mk.injEq, true_and] at ha
    exact ha.symm
  · exfalso
    simp only [processLine] at hp
    split at hp
    · cases hp
    · cases hp
    · simp only [Except.ok.injEq, Prod.mk.injEq] at hp
      obtain ⟨e1, e2⟩ := hp
      subst e1 e2
      have := leave_delivers P L _ _ _ _ hf rfl rfl
      subst ho
      exact this hd

/-- a run through the body phase that ends fresh with exactly one delivery consumes exactly the body -/
theorem body_inv (P : Params RL H) (hB : 0 < P.B) (L : Nat) (r0 r : Req RL H) (got bs : List Byte) (need : Nat)
    (hneed : 0 < need) (outs : List (Out RL H))
    (h : feed P L ⟨.body r0 got need, []⟩ bs = (outs, .ok Abs.fresh)) (hd : delivers outs = [r]) :
    bs.length = need ∧ r = { r0 with body := some (got ++ bs) } := by
  by_cases hl : bs.length < need
  · rw [feed_body_partial P L r0 got bs need hl] at h
    simp [Abs.fresh] at h
  · have h1 := feed_body_complete P L r0 got (bs.take need) need (by simp; omega) hneed
    have h2 := feed_append_ok P L _ _ (bs.take need) (bs.drop need) _ h1
    rw [List.take_append_drop, h] at h2
    simp only [Prod.mk.injEq] at h2
    obtain ⟨e1, e2⟩ := h2
    cases hr : feed P L ⟨.line, []⟩ (bs.drop need) with
    | mk os res =>
      rw [hr] at e1 e2
      simp only at e1 e2
      subst e1
      simp only [List.singleton_append, delivers, List.cons.injEq] at hd
      have hnil := fresh_no_delivery P hB L (bs.drop need) os (by subst e2; exact hr) hd.2
      have hlen : bs.length ≤ need := by
        have := congrArg List.length hnil
        simp at this; omega
      refine ⟨by omega, ?_⟩
      rw [← hd.1, List.take_of_length_le hlen]

theorem delivers_conts_nil (P : Params RL H) (b : Bool) (rl : RL) :
    delivers (if b = true then [Out.cont (P.contOf rl)] else ([] : List (Out RL H))) = [] := by
  cases b <;> simp [delivers]

/-- a run from the header phase that ends fresh with exactly one delivery: header lines, a blank
    line and the body -/
theorem hdrs_inv (P : Params RL H) (hB : 0 < P.B) (L : Nat) (r : Req RL H) :
    ∀ (n : Nat) (bs : List Byte), bs.length < n → ∀ (r0 : Req RL H) (outs : List (Out RL H)),
      feed P L ⟨.hdrs r0, []⟩ bs = (outs, .ok Abs.fresh) → delivers outs = [r] →
      ∃ hdrLines body, bs = (hdrLines.map (· ++ CRLF)).flatten ++ CRLF ++ body ∧
        (∀ l ∈ hdrLines, l ≠ [] ∧ LineOK P l) ∧
        foldHL P r0.headers hdrLines = .ok r.headers ∧
        P.clen r.headers ≤ L ∧ body.length = P.clen r.headers ∧
        r.line = r0.line ∧ r.files = r0.files ∧
        r.body = (if P.clen r.headers = 0 then r0.body else some body) := by
  intro n
  induction n with
  | zero => intro bs h; omega
  | succ n ih =>
    intro bs hlen r0 outs hf hd
    rcases line_inv P hB L (.hdrs r0) rfl bs outs Abs.fresh hf with
      ⟨_, _, _, ha⟩ | ⟨i, a', o, outs', hc, hi, hp, hf', ho⟩
    · simp [Abs.fresh] at ha
    · have hsplit := findCRLF_split bs i hc
      have hb := findCRLF_some_bound bs i hc
      by_cases hl : bs.take i = []
      · -- the blank line
        rw [hl] at hp hsplit
        simp only [processLine] at hp
        split at hp
        · rename_i h0
          simp only [Except.ok.injEq, Prod.mk.injEq] at hp
          obtain ⟨e1, e2⟩ := hp
          subst e1 e2 ho
          simp only [List.singleton_append, delivers, List.cons.injEq] at hd
          obtain ⟨hr, hd'⟩ := hd
          subst hr
          have hnil := fresh_no_delivery P hB L _ outs' hf' hd'
          rw [hnil] at hsplit
          refine ⟨[], [], ?_, ?_, ?_, ?_, ?_, rfl, rfl, ?_⟩
          · simpa [CRLF] using hsplit
          · intro l hl; cases hl
          · rfl
          · omega
          · simp [h0]
          · simp [h0]
        · split at hp
          · cases hp
          · rename_i h0 hL
            simp only [Except.ok.injEq, Prod.mk.injEq] at hp
            obtain ⟨e1, e2⟩ := hp
            subst e1 e2 ho
            rw [delivers_append, delivers_conts_nil, List.nil_append] at hd
            obtain ⟨hlen', hr⟩ := body_inv P hB L _ r [] _ _ (by omega) outs' hf' hd
            subst hr
            refine ⟨[], bs.drop (i + 2), ?_, ?_, ?_, ?_, ?_, rfl, rfl, ?_⟩
            · simpa [CRLF] using hsplit
            · intro l hl; cases hl
            · rfl
            · simp only; omega
            · exact hlen'
            · simp [h0]
      · -- a header line
        rw [processLine_hdr_cons P L r0 _ hl] at hp
        cases hh : P.parseHL r0.headers (bs.take i) with
        | error e => rw [hh] at hp; cases hp
        | ok h1 =>
          rw [hh] at hp
          simp only [Except.ok.injEq, Prod.mk.injEq] at hp
          obtain ⟨e1, e2⟩ := hp
          subst e1 e2 ho
          obtain ⟨ls, body, hbs, hls, hfold, hcl, hbl, hline, hfiles, hbody⟩ :=
            ih (bs.drop (i + 2)) (by simp; omega) _ _ hf' hd
          refine ⟨bs.take i :: ls, body, ?_, ?_, ?_, hcl, hbl, hline, hfiles, hbody⟩
          · conv => lhs; rw [hsplit, hbs]
            simp [CRLF]
          · intro l hmem
            rcases List.mem_cons.mp hmem with rfl | hmem
            · refine ⟨hl, ?_, ?_⟩
              · rw [find_CRLF_eq]; exact findCRLF_take_none bs i hc
              · simp; omega
            · exact hls l hmem
          · simp only [foldHL, hh]
            exact hfold

theorem delivered_is_grammar (P : Params RL H) (hP : P.WF) (L : Nat) (bs : List Byte)
    (outs : List (Out RL H)) (r : Req RL H)
    (hf : feed P L Abs.fresh bs = (outs, .ok Abs.fresh)) (hd : delivers outs = [r]) :
    ∃ rlLine hdrLines body,
      bs = requestBytes rlLine hdrLines body ∧
      P.parseRL rlLine = .ok r.line ∧ LineOK P rlLine ∧
      (∀ l ∈ hdrLines, l ≠ [] ∧ LineOK P l) ∧
      foldHL P P.h0 hdrLines = .ok r.headers ∧
      P.clen r.headers ≤ L ∧ body.length = P.clen r.headers ∧
      r.body = (if P.clen r.headers = 0 then none else some body) ∧ r.files = [] := by
  have hB := hP.bpos
  rcases line_inv P hB L .line rfl bs outs Abs.fresh hf with
    ⟨_, _, ho, ha⟩ | ⟨i, a', o, outs', hc, hi, hp, hf', ho⟩
  · subst ho; simp [delivers] at hd
  · have hsplit := findCRLF_split bs i hc
    simp only [processLine] at hp
    split at hp
    · cases hp
    · cases hp
    · rename_i rl hrl
      simp only [Except.ok.injEq, Prod.mk.injEq] at hp
      obtain ⟨e1, e2⟩ := hp
      subst e1 e2 ho
      obtain ⟨ls, body, hbs, hls, hfold, hcl, hbl, hline, hfiles, hbody⟩ :=
        hdrs_inv P hB L r (bs.length + 1) (bs.drop (i + 2)) (by simp; omega) _ _ hf' hd
      refine ⟨bs.take i, ls, body, ?_, ?_, ⟨?_, ?_⟩, hls, hfold, hcl, hbl, hbody, hfiles⟩
      · conv => lhs; rw [hsplit, hbs]
        simp [requestBytes, CRLF]
      · rw [hrl, hline]
      · rw [find_CRLF_eq]; exact findCRLF_take_none bs i hc
      · simp; omega

end MicroHttp.Grammar
