/-
  Proofs.Limits — payload and line-length limits on the reference automaton and the server (C04).
-/
import MicroHttp.Proofs.Continue
import MicroHttp.Server
namespace MicroHttp
variable {RL H : Type}

theorem payload_iff' (P : Params RL H) (L : Nat) (r : Req RL H) :
    (∃ e, processLine P L (.hdrs r) [] = .error e) ↔ P.clen r.headers > L := by
  simp only [processLine]
  by_cases h0 : P.clen r.headers = 0
  · simp [h0]
  · by_cases hL : P.clen r.headers > L
    · simp [h0, hL]
    · simp [h0, hL]

theorem payload_error' (P : Params RL H) (L : Nat) (r : Req RL H) (h : P.clen r.headers > L) :
    processLine P L (.hdrs r) [] = .error (.sizeLimitExceeded L (P.clen r.headers)) := by
  simp only [processLine]
  rw [if_neg (by omega), if_pos h]

theorem payload_rejected_early' (P : Params RL H) (hB : 1 < P.B) (L : Nat) (r : Req RL H)
    (h : P.clen r.headers > L) (rest : List Byte) :
    feed P L ⟨.hdrs r, []⟩ (CRLF ++ rest) = ([], .error (.sizeLimitExceeded L (P.clen r.headers))) := by
  rw [feed_blank P hB L r rest, payload_error' P L r h]

/-! ### body bound -/

def PhaseOK' (P : Params RL H) (L : Nat) : Phase RL H → Prop
  | .body r got need => got.length + need = P.clen r.headers ∧ 0 < need ∧ P.clen r.headers ≤ L ∧ r.body.isSome
  | .hdrs r => r.body = none
  | .line => True

def BodyOK' (P : Params RL H) (L : Nat) (r : Req RL H) : Prop :=
  (P.clen r.headers = 0 ∧ r.body = none) ∨
  (∃ b, r.body = some b ∧ b.length = P.clen r.headers ∧ 0 < b.length ∧ b.length ≤ L)

theorem processLine_ok' (P : Params RL H) (L : Nat) (ph : Phase RL H) (l : List Byte)
    (hph : PhaseOK' P L ph) (a : Abs RL H) (o : List (Out RL H)) (h : processLine P L ph l = .ok (a, o)) :
    PhaseOK' P L a.phase ∧ ∀ r ∈ delivers o, BodyOK' P L r := by
  cases ph with
  | line =>
    simp only [processLine] at h
    split at h
    · cases h
    · cases h
    · cases h; simp [PhaseOK', delivers]
  | hdrs r =>
    cases l with
    | nil =>
      simp only [processLine] at h
      split at h
      · rename_i h0
        cases h
        refine ⟨trivial, ?_⟩
        intro x hx
        simp only [delivers, List.mem_singleton] at hx
        subst hx
        exact Or.inl ⟨h0, hph⟩
      · rename_i h0
        split at h
        · cases h
        · rename_i hL
          cases h
          refine ⟨⟨by simp, by omega, by show P.clen r.headers ≤ L; omega, by simp⟩, ?_⟩
          intro x hx
          split at hx <;> simp [delivers] at hx
    | cons y ys =>
      simp only [processLine] at h
      split at h
      · cases h
      · cases h; exact ⟨hph, by simp [delivers]⟩
  | body r g n =>
    simp only [processLine] at h
    cases h; exact ⟨hph, by simp [delivers]⟩

theorem feedByte_ok' (P : Params RL H) (L : Nat) (a : Abs RL H) (b : Byte)
    (ha : PhaseOK' P L a.phase) (a' : Abs RL H) (o : List (Out RL H)) (h : feedByte P L a b = .ok (a', o)) :
    PhaseOK' P L a'.phase ∧ ∀ r ∈ delivers o, BodyOK' P L r := by
  obtain ⟨ph, acc⟩ := a
  cases ph with
  | body r g n =>
    obtain ⟨h1, h2, h3, h4⟩ := ha
    simp only [feedByte] at h
    split at h
    · rename_i hn
      cases h
      refine ⟨trivial, ?_⟩
      intro x hx
      simp only [delivers, List.mem_singleton] at hx
      subst hx
      refine Or.inr ⟨g ++ [b], rfl, ?_, ?_, ?_⟩ <;> simp <;> omega
    · rename_i hn
      cases h
      refine ⟨⟨?_, by omega, h3, h4⟩, by simp [delivers]⟩
      simp; omega
  | line =>
    simp only [feedByte] at h
    split at h
    · exact processLine_ok' P L _ _ ha _ _ h
    · split at h
      · cases h
      · cases h; exact ⟨ha, by simp [delivers]⟩
  | hdrs r =>
    simp only [feedByte] at h
    split at h
    · exact processLine_ok' P L _ _ ha _ _ h
    · split at h
      · cases h
      · cases h; exact ⟨ha, by simp [delivers]⟩

theorem body_bound' (P : Params RL H) (L : Nat) (a : Abs RL H) (ha : PhaseOK' P L a.phase) (bs : List Byte)
    (outs : List (Out RL H)) (res : Except ReqErr (Abs RL H)) (hf : feed P L a bs = (outs, res)) :
    (∀ r ∈ delivers outs, BodyOK' P L r) ∧ (∀ a', res = .ok a' → PhaseOK' P L a'.phase) := by
  induction bs generalizing a outs res with
  | nil =>
    simp only [feed] at hf
    obtain ⟨rfl, rfl⟩ := Prod.mk.inj hf
    exact ⟨by simp [delivers], by intro a' h'; cases h'; exact ha⟩
  | cons b bs ih =>
    simp only [feed] at hf
    cases hb : feedByte P L a b with
    | error e =>
      rw [hb] at hf
      obtain ⟨rfl, rfl⟩ := Prod.mk.inj hf
      exact ⟨by simp [delivers], by intro a' h'; cases h'⟩
    | ok v =>
      obtain ⟨a1, o1⟩ := v
      rw [hb] at hf
      simp only at hf
      obtain ⟨rfl, rfl⟩ := Prod.mk.inj hf
      have h1 := feedByte_ok' P L a b ha a1 o1 hb
      have h2 := ih a1 h1.1 _ _ rfl
      refine ⟨?_, h2.2⟩
      intro r hr
      rw [delivers_append] at hr
      rcases List.mem_append.mp hr with hr | hr
      · exact h1.2 r hr
      · exact h2.1 r hr

/-! ### line length -/

theorem isLine_of_not_body (ph : Phase RL H) (hph : ∀ r g n, ph ≠ .body r g n) : ph.isLine = true := by
  cases ph with
  | body r g n => exact absurd rfl (hph r g n)
  | line => rfl
  | hdrs r => rfl

/-- the first CRLF of `l ++ CRLF ++ rest` is at `l.length` when `l` has none -/
theorem findCRLF_append_CRLF (l rest : List Byte) (h : findCRLF l = none) :
    findCRLF (l ++ CR :: LF :: rest) = some l.length := by
  fun_induction findCRLF l with
  | case1 a b t hab => simp at h
  | case2 a b t hab ih =>
    simp at h
    have := ih h
    simp only [List.cons_append] at this ⊢
    rw [findCRLF]
    simp [hab, this]
  | case3 l hl =>
    match l with
    | [] => simp [findCRLF]
    | [a] =>
      simp only [List.cons_append, List.nil_append]
      rw [findCRLF]
      have : ¬ (a = CR ∧ CR = LF) := by intro h; exact absurd h.2 (by decide)
      simp [this, findCRLF]
    | a :: b :: t => exact absurd rfl (hl a b t)

theorem line_within' (P : Params RL H) (L : Nat) (ph : Phase RL H) (hph : ∀ r g n, ph ≠ .body r g n)
    (l rest : List Byte) (hl : find CRLF l = none) (hlen : l.length + 2 ≤ P.B) :
    feed P L ⟨ph, []⟩ (l ++ CRLF ++ rest) =
      match processLine P L ph l with
      | .error e => ([], .error e)
      | .ok (a', o) => let (os, r) := feed P L a' rest; (o ++ os, r) := by
  rw [find_CRLF_eq] at hl
  have hf : findCRLF (l ++ CRLF) = some l.length := by
    have := findCRLF_append_CRLF l [] hl
    simpa [CRLF] using this
  have h := feed_line P L ph (isLine_of_not_body ph hph) (l ++ CRLF) l.length hf hlen rest
  have h1 : (l ++ CRLF).take (l.length + 2) = l ++ CRLF := by
    apply List.take_of_length_le; simp [CRLF]
  have h2 : (l ++ CRLF).take l.length = l := by simp
  rw [h1, h2] at h
  exact h

theorem line_too_long' (P : Params RL H) (hB : 0 < P.B) (L : Nat) (ph : Phase RL H)
    (hph : ∀ r g n, ph ≠ .body r g n)
    (l rest : List Byte) (hl : find CRLF l = none) (hlen : l.length + 2 > P.B) :
    feed P L ⟨ph, []⟩ (l ++ CRLF ++ rest) = ([], .error (tooLong P ph ((l ++ CRLF).take P.B))) := by
  rw [find_CRLF_eq] at hl
  have hf : findCRLF (l ++ CRLF) = some l.length := by
    have := findCRLF_append_CRLF l [] hl
    simpa [CRLF] using this
  have hnone := findCRLF_take_succ_none (l ++ CRLF) l.length hf
  have hpre : (l ++ CRLF).take (l.length + 1) =
      (l ++ CRLF).take P.B ++ ((l ++ CRLF).take (l.length + 1)).drop P.B := by
    have : (l ++ CRLF).take P.B = ((l ++ CRLF).take (l.length + 1)).take P.B := by
      rw [List.take_take]; congr 1; omega
    rw [this, List.take_append_drop]
  rw [hpre] at hnone
  have hno := findCRLF_prefix_none _ _ hnone
  have hlen' : ((l ++ CRLF).take P.B).length = P.B := by
    simp [CRLF]; omega
  have ht := feed_tooLong P L ph (isLine_of_not_body ph hph) _ hno hlen' hB
  have hsplit : l ++ CRLF ++ rest = (l ++ CRLF).take P.B ++ ((l ++ CRLF).drop P.B ++ rest) := by
    rw [← List.append_assoc, List.take_append_drop]
  rw [hsplit]
  exact feed_append_err P L _ _ _ _ _ ht

/-! ### server -/

theorem server_limit' (s : Srv) (newFd : Nat) (hcap : s.conns.length ≠ MAX_CONNECTIONS) :
    ∃ c, findClient (handleEv s (.listener newFd)).1.conns newFd = some c ∧ c.conn.limit = s.limit := by
  refine ⟨{ fd := newFd, inst := s.nextInst, conn := Conn.new s.limit }, ?_, rfl⟩
  simp only [handleEv, if_neg hcap, findClient]
  rw [List.find?_append]
  have : (s.conns.filter (·.fd ≠ newFd)).find? (fun x => decide (x.fd = newFd)) = none := by
    rw [List.find?_eq_none]
    intro x hx
    have := (List.mem_filter.mp hx).2
    simpa using this
  rw [this]
  simp

theorem bad_request_reports' (L n : Nat) :
    decimal n <:+: badRequestBody (.sizeLimitExceeded L n) ∧ decimal L <:+: badRequestBody (.sizeLimitExceeded L n) := by
  constructor
  · refine ⟨D_400_PRE ++ D_SIZE_1, D_SIZE_2 ++ decimal L ++ D_SIZE_3 ++ D_400_POST, ?_⟩
    simp only [badRequestBody, ReqErr.display, List.append_assoc]
  · refine ⟨D_400_PRE ++ D_SIZE_1 ++ decimal n ++ D_SIZE_2, D_SIZE_3 ++ D_400_POST, ?_⟩
    simp only [badRequestBody, ReqErr.display, List.append_assoc]

end MicroHttp
