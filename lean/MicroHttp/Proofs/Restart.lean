/-
  Proofs.Restart — the input side of a connection depends only on its parser part (C11).

  `rebase c p q b` replaces the output-side fields of `c` (prefixing `parsed` and `respQ`).
  Every parse function, the loop and `try_read` commute with `rebase`: they never look at
  `parsed`, `respQ`, `respBuf` except to append to the first two.  No invariant is needed.
-/
import MicroHttp.Proofs.Safe
import MicroHttp.Server
namespace MicroHttp
variable {RL H : Type}

def rebase (c : Conn RL H) (p : List (Req RL H)) (q : List Response) (b : Option (List Byte)) : Conn RL H :=
  { c with parsed := p ++ c.parsed, respQ := q ++ c.respQ, respBuf := b }

def liftR (p : List (Req RL H)) (q : List Response) (b : Option (List Byte)) :
    Conn RL H × Nat × Bool → Conn RL H × Nat × Bool := fun x => (rebase x.1 p q b, x.2)

theorem shiftLeft_rebase (P : Params RL H) (c : Conn RL H) (buf : List Byte) (start stop : Nat)
    (p : List (Req RL H)) (q : List Response) (b : Option (List Byte)) :
    shiftLeft P (rebase c p q b) buf start stop = (shiftLeft P c buf start stop).map (fun c' => rebase c' p q b) := by
  unfold shiftLeft
  split
  · rfl
  · split
    · rfl
    · simp only [bind, Except.bind]
      cases slice buf start stop <;> rfl

theorem parseRequestLine_rebase (P : Params RL H) (c : Conn RL H) (buf : List Byte) (start stop : Nat)
    (p : List (Req RL H)) (q : List Response) (b : Option (List Byte)) :
    parseRequestLine P (rebase c p q b) buf start stop =
      (parseRequestLine P c buf start stop).map (liftR p q b) := by
  unfold parseRequestLine
  split
  · rfl
  · split
    · rfl
    · simp only [bind, Except.bind]
      cases slice buf start stop with
      | error f => rfl
      | ok s =>
        simp only
        cases find CRLF s with
        | some i =>
          simp only
          cases slice buf start (start + i) with
          | error f => rfl
          | ok line =>
            simp only
            cases P.parseRL line <;> rfl
        | none =>
          simp only
          split
          · rfl
          · rw [shiftLeft_rebase]
            cases shiftLeft P c buf start stop <;> rfl

@[simp] theorem rebase_state (c : Conn RL H) p q b : (rebase c p q b).state = c.state := rfl
@[simp] theorem rebase_pending (c : Conn RL H) p q b : (rebase c p q b).pending = c.pending := rfl
@[simp] theorem rebase_win (c : Conn RL H) p q b : (rebase c p q b).win = c.win := rfl
@[simp] theorem rebase_bodyVec (c : Conn RL H) p q b : (rebase c p q b).bodyVec = c.bodyVec := rfl
@[simp] theorem rebase_toRead (c : Conn RL H) p q b : (rebase c p q b).toRead = c.toRead := rfl
@[simp] theorem rebase_files (c : Conn RL H) p q b : (rebase c p q b).files = c.files := rfl
@[simp] theorem rebase_limit (c : Conn RL H) p q b : (rebase c p q b).limit = c.limit := rfl
@[simp] theorem rebase_parsed (c : Conn RL H) p q b : (rebase c p q b).parsed = p ++ c.parsed := rfl
@[simp] theorem rebase_respQ (c : Conn RL H) p q b : (rebase c p q b).respQ = q ++ c.respQ := rfl
@[simp] theorem rebase_respBuf (c : Conn RL H) p q b : (rebase c p q b).respBuf = b := rfl

theorem parseHeaders_rebase (P : Params RL H) (c : Conn RL H) (buf : List Byte) (start stop : Nat)
    (p : List (Req RL H)) (q : List Response) (b : Option (List Byte)) :
    parseHeaders P (rebase c p q b) buf start stop =
      (parseHeaders P c buf start stop).map (liftR p q b) := by
  unfold parseHeaders
  simp only [rebase_pending, rebase_limit, rebase_respQ]
  split
  · rfl
  · split
    · rfl
    · simp only [bind, Except.bind]
      cases slice buf start stop with
      | error f => rfl
      | ok s =>
        simp only
        cases find CRLF s with
        | none =>
          simp only
          split
          · rfl
          · rw [shiftLeft_rebase]
            cases shiftLeft P c buf start stop <;> rfl
        | some i =>
          cases i with
          | zero =>
            simp only
            cases c.pending with
            | none => rfl
            | some r =>
              simp only
              by_cases h0 : P.clen r.headers = 0
              · simp only [h0, if_true]; rfl
              · simp only [h0, if_false]
                by_cases hL : P.clen r.headers > c.limit
                · simp only [hL, if_true]; rfl
                · simp only [hL, if_false]
                  by_cases he : P.expect r.headers = true
                  · simp [he, rebase, liftR, Except.map, pure, Except.pure, List.append_assoc]
                  · simp [he, rebase, liftR, Except.map, pure, Except.pure]
          | succ j =>
            simp only
            cases c.pending with
            | none => rfl
            | some r =>
              simp only
              cases slice buf start (j + 1 + start) with
              | error f => rfl
              | ok line =>
                simp only
                cases P.parseHL r.headers line <;> rfl

theorem parseBody_rebase (P : Params RL H) (c : Conn RL H) (buf : List Byte) (start stop : Nat)
    (p : List (Req RL H)) (q : List Response) (b : Option (List Byte)) :
    parseBody P (rebase c p q b) buf start stop =
      (parseBody P c buf start stop).map (liftR p q b) := by
  unfold parseBody
  simp only [rebase_pending, rebase_toRead, rebase_bodyVec]
  by_cases h1 : stop > P.B
  · simp only [h1, if_true]; rfl
  · simp only [h1, if_false]
    by_cases h2 : stop < start
    · simp only [h2, if_true]; rfl
    · simp only [h2, if_false, bind, Except.bind]
      by_cases h3 : c.toRead > stop - start
      · simp only [h3, if_true]
        cases slice buf start stop <;> rfl
      · simp only [h3, if_false]
        cases slice buf start (start + c.toRead) with
        | error f => rfl
        | ok s =>
          simp only
          cases c.pending with
          | none => rfl
          | some r =>
            simp only
            by_cases h4 : P.clen r.headers > (c.bodyVec ++ s).length
            · simp only [h4, if_true]; rfl
            · simp only [h4, if_false]
              by_cases h5 : List.drop (P.clen r.headers) (c.bodyVec ++ s) = []
              · simp only [h5, ne_eq, not_true_eq_false, if_false]; rfl
              · simp only [h5, ne_eq, not_false_eq_true, if_true]; rfl

theorem stepReady_rebase (c : Conn RL H)
    (p : List (Req RL H)) (q : List Response) (b : Option (List Byte)) :
    stepReady (rebase c p q b) = (stepReady c).map (fun c' => rebase c' p q b) := by
  unfold stepReady
  simp only [rebase_pending, rebase_files, rebase_parsed]
  cases c.pending with
  | none => rfl
  | some r => simp [rebase, Except.map, pure, Except.pure, List.append_assoc]

theorem loop_rebase (P : Params RL H) (fuel : Nat) (c : Conn RL H) (buf : List Byte) (start stop : Nat)
    (p : List (Req RL H)) (q : List Response) (b : Option (List Byte)) :
    loop P fuel (rebase c p q b) buf start stop =
      (rebase (loop P fuel c buf start stop).1 p q b, (loop P fuel c buf start stop).2) := by
  induction fuel generalizing c start with
  | zero => rfl
  | succ n ih =>
    rw [loop, loop]
    simp only [rebase_state]
    cases hs : c.state with
    | reqLine =>
      simp only [parseRequestLine_rebase]
      cases parseRequestLine P c buf start stop with
      | error f => rfl
      | ok v =>
        obtain ⟨c', s', more⟩ := v
        cases more
        · rfl
        · simp only [Except.map, liftR, if_true]; exact ih c' s'
    | headers =>
      simp only [parseHeaders_rebase]
      cases parseHeaders P c buf start stop with
      | error f => rfl
      | ok v =>
        obtain ⟨c', s', more⟩ := v
        cases more
        · rfl
        · simp only [Except.map, liftR, if_true]; exact ih c' s'
    | body =>
      simp only [parseBody_rebase]
      cases parseBody P c buf start stop with
      | error f => rfl
      | ok v =>
        obtain ⟨c', s', more⟩ := v
        cases more
        · rfl
        · simp only [Except.map, liftR, if_true]; exact ih c' s'
    | ready =>
      simp only [stepReady_rebase]
      cases stepReady c with
      | error f => rfl
      | ok c' => simp only [Except.map]; exact ih c' start

theorem resetParser_rebase (c : Conn RL H) (p : List (Req RL H)) (q : List Response) (b : Option (List Byte)) :
    resetParser (rebase c p q b) = rebase (resetParser c) p q b := rfl

/-- how `try_read` turns the result of its loop into its own result -/
def readTail (res : Conn RL H × Option Fault) : Conn RL H × ReadOut :=
  match res with
  | (c2, none) => (c2, .ok)
  | (c2, some (.parse e)) => (resetParser c2, .parseErr e)
  | (c2, some (.panic p)) => (c2, .panic p)

theorem tryRead_full (P : Params RL H) (c : Conn RL H) (inp : Recv) (hw : c.win.length ≥ P.B) :
    tryRead P c inp = (resetParser c, .parseErr .overflow) := by
  unfold tryRead
  simp only [hw, if_true]

theorem tryRead_err_eq (P : Params RL H) (c : Conn RL H) (e : Nat) (hw : ¬ c.win.length ≥ P.B) :
    tryRead P c (.err e) = (c, .streamErr e) := by
  unfold tryRead
  simp only [hw, if_false]

theorem tryRead_empty_eq (P : Params RL H) (c : Conn RL H) (chunk : List Byte) (fds : List Nat)
    (hw : ¬ c.win.length ≥ P.B) (he : (chunk.take (P.B - c.win.length)).isEmpty = true) :
    tryRead P c (.data chunk fds) = ({ c with files := c.files ++ fds }, .closed) := by
  unfold tryRead
  simp only [hw, if_false, he, if_true]

theorem tryRead_data_eq (P : Params RL H) (c : Conn RL H) (chunk : List Byte) (fds : List Nat)
    (hw : ¬ c.win.length ≥ P.B) (he : ¬ (chunk.take (P.B - c.win.length)).isEmpty = true) :
    tryRead P c (.data chunk fds) =
      readTail (loop P (fuelFor P) { c with files := c.files ++ fds } (c.win ++ chunk.take (P.B - c.win.length)) 0
        (c.win ++ chunk.take (P.B - c.win.length)).length) := by
  unfold tryRead readTail
  simp only [hw, if_false, he]
  generalize loop P (fuelFor P) { c with files := c.files ++ fds } (c.win ++ chunk.take (P.B - c.win.length)) 0
        (c.win ++ chunk.take (P.B - c.win.length)).length = res
  obtain ⟨c2, flt⟩ := res
  cases flt with
  | none => rfl
  | some f => cases f <;> rfl

theorem readTail_rebase (res : Conn RL H × Option Fault)
    (p : List (Req RL H)) (q : List Response) (b : Option (List Byte)) :
    readTail (rebase res.1 p q b, res.2) = (rebase (readTail res).1 p q b, (readTail res).2) := by
  obtain ⟨c2, flt⟩ := res
  cases flt with
  | none => rfl
  | some f => cases f <;> rfl

theorem tryRead_rebase (P : Params RL H) (c : Conn RL H) (inp : Recv)
    (p : List (Req RL H)) (q : List Response) (b : Option (List Byte)) :
    tryRead P (rebase c p q b) inp = (rebase (tryRead P c inp).1 p q b, (tryRead P c inp).2) := by
  by_cases hw : c.win.length ≥ P.B
  · rw [tryRead_full P c inp hw, tryRead_full P (rebase c p q b) inp hw]; rfl
  · cases inp with
    | err e => rw [tryRead_err_eq P c e hw, tryRead_err_eq P (rebase c p q b) e hw]
    | data chunk fds =>
      by_cases he : (chunk.take (P.B - c.win.length)).isEmpty = true
      · rw [tryRead_empty_eq P c chunk fds hw he, tryRead_empty_eq P (rebase c p q b) chunk fds hw he]; rfl
      · rw [tryRead_data_eq P c chunk fds hw he, tryRead_data_eq P (rebase c p q b) chunk fds hw he]
        have hl := loop_rebase P (fuelFor P) { c with files := c.files ++ fds }
          (c.win ++ chunk.take (P.B - c.win.length)) 0 (c.win ++ chunk.take (P.B - c.win.length)).length p q b
        have hc : ({ rebase c p q b with files := (rebase c p q b).files ++ fds } : Conn RL H) =
            rebase { c with files := c.files ++ fds } p q b := rfl
        rw [hc]
        simp only [rebase_win]
        rw [hl, readTail_rebase]

/-! ### `limit` is never changed by the input side -/

local macro "leaf" : tactic => `(tactic| (intro v h; first | (cases h; done) | (cases h; rfl)))

theorem shiftLeft_limit (P : Params RL H) (c : Conn RL H) (buf : List Byte) (start stop : Nat) :
    ∀ v, shiftLeft P c buf start stop = .ok v → v.limit = c.limit := by
  unfold shiftLeft
  split
  · leaf
  · split
    · leaf
    · simp only [bind, Except.bind]
      cases slice buf start stop <;> leaf

theorem parseRequestLine_limit (P : Params RL H) (c : Conn RL H) (buf : List Byte) (start stop : Nat) :
    ∀ v, parseRequestLine P c buf start stop = .ok v → v.1.limit = c.limit := by
  unfold parseRequestLine
  split
  · leaf
  · split
    · leaf
    · simp only [bind, Except.bind]
      cases slice buf start stop with
      | error f => leaf
      | ok s =>
        simp only
        cases find CRLF s with
        | some i =>
          simp only
          cases slice buf start (start + i) with
          | error f => leaf
          | ok line =>
            simp only
            cases P.parseRL line <;> leaf
        | none =>
          simp only
          split
          · leaf
          · cases hs : shiftLeft P c buf start stop with
            | error f => leaf
            | ok c' =>
              intro v h; cases h
              exact shiftLeft_limit P c buf start stop c' hs

theorem parseHeaders_limit (P : Params RL H) (c : Conn RL H) (buf : List Byte) (start stop : Nat) :
    ∀ v, parseHeaders P c buf start stop = .ok v → v.1.limit = c.limit := by
  unfold parseHeaders
  split
  · leaf
  · split
    · leaf
    · simp only [bind, Except.bind]
      cases slice buf start stop with
      | error f => leaf
      | ok s =>
        simp only
        cases find CRLF s with
        | none =>
          simp only
          split
          · leaf
          · cases hs : shiftLeft P c buf start stop with
            | error f => leaf
            | ok c' =>
              intro v h; cases h
              exact shiftLeft_limit P c buf start stop c' hs
        | some i =>
          cases i with
          | zero =>
            simp only
            cases c.pending with
            | none => leaf
            | some r =>
              simp only
              split
              · leaf
              · split
                · leaf
                · leaf
          | succ j =>
            simp only
            cases c.pending with
            | none => leaf
            | some r =>
              simp only
              cases slice buf start (j + 1 + start) with
              | error f => leaf
              | ok line =>
                simp only
                cases P.parseHL r.headers line <;> leaf

theorem parseBody_limit (P : Params RL H) (c : Conn RL H) (buf : List Byte) (start stop : Nat) :
    ∀ v, parseBody P c buf start stop = .ok v → v.1.limit = c.limit := by
  unfold parseBody
  split
  · leaf
  · split
    · leaf
    · simp only [bind, Except.bind]
      split
      · cases slice buf start stop <;> leaf
      · cases slice buf start (start + c.toRead) with
        | error f => leaf
        | ok s =>
          simp only
          cases c.pending with
          | none => leaf
          | some r =>
            simp only
            split
            · leaf
            · split
              · leaf
              · leaf

theorem stepReady_limit (c : Conn RL H) : ∀ v, stepReady c = .ok v → v.limit = c.limit := by
  unfold stepReady
  cases c.pending <;> leaf

theorem loop_limit (P : Params RL H) (fuel : Nat) (c : Conn RL H) (buf : List Byte) (start stop : Nat) :
    (loop P fuel c buf start stop).1.limit = c.limit := by
  induction fuel generalizing c start with
  | zero => rfl
  | succ n ih =>
    rw [loop]
    cases hs : c.state with
    | reqLine =>
      simp only
      cases hp : parseRequestLine P c buf start stop with
      | error f => rfl
      | ok v =>
        obtain ⟨c', s', more⟩ := v
        have := parseRequestLine_limit P c buf start stop _ hp
        cases more
        · exact this
        · simp only [if_true]; rw [ih c' s']; exact this
    | headers =>
      simp only
      cases hp : parseHeaders P c buf start stop with
      | error f => rfl
      | ok v =>
        obtain ⟨c', s', more⟩ := v
        have := parseHeaders_limit P c buf start stop _ hp
        cases more
        · exact this
        · simp only [if_true]; rw [ih c' s']; exact this
    | body =>
      simp only
      cases hp : parseBody P c buf start stop with
      | error f => rfl
      | ok v =>
        obtain ⟨c', s', more⟩ := v
        have := parseBody_limit P c buf start stop _ hp
        cases more
        · exact this
        · simp only [if_true]; rw [ih c' s']; exact this
    | ready =>
      simp only
      cases hp : stepReady c with
      | error f => rfl
      | ok c' =>
        simp only
        rw [ih c' start]; exact stepReady_limit c c' hp

/-! ### the C11 statements -/

/-- same as `C11.ParserEq` -/
def ParserEq' (c₁ c₂ : Conn RL H) : Prop :=
  c₁.state = c₂.state ∧ c₁.pending = c₂.pending ∧ c₁.win = c₂.win ∧ c₁.bodyVec = c₂.bodyVec ∧
  c₁.toRead = c₂.toRead ∧ c₁.files = c₂.files ∧ c₁.limit = c₂.limit

theorem reset_after_error' (P : Params RL H) (c : Conn RL H) (inp : Recv) (c' : Conn RL H) (e : ReqErr)
    (h : tryRead P c inp = (c', .parseErr e)) : ParserEq' c' (Conn.new c.limit) := by
  by_cases hw : c.win.length ≥ P.B
  · rw [tryRead_full P c inp hw] at h
    obtain ⟨rfl, _⟩ := Prod.mk.inj h
    exact ⟨rfl, rfl, rfl, rfl, rfl, rfl, rfl⟩
  · cases inp with
    | err n => rw [tryRead_err_eq P c n hw] at h; cases h
    | data chunk fds =>
      by_cases he : (chunk.take (P.B - c.win.length)).isEmpty = true
      · rw [tryRead_empty_eq P c chunk fds hw he] at h; cases h
      · rw [tryRead_data_eq P c chunk fds hw he] at h
        have hl := loop_limit P (fuelFor P) { c with files := c.files ++ fds }
          (c.win ++ chunk.take (P.B - c.win.length)) 0 (c.win ++ chunk.take (P.B - c.win.length)).length
        revert h hl
        generalize loop P (fuelFor P) { c with files := c.files ++ fds }
          (c.win ++ chunk.take (P.B - c.win.length)) 0 (c.win ++ chunk.take (P.B - c.win.length)).length = res
        obtain ⟨c2, flt⟩ := res
        intro h hl
        cases flt with
        | none => cases h
        | some f =>
          cases f with
          | panic p => cases h
          | parse e' =>
            simp only [readTail, Prod.mk.injEq] at h
            obtain ⟨rfl, _⟩ := h
            exact ⟨rfl, rfl, rfl, rfl, rfl, rfl, hl⟩

/-- the parser part alone -/
def strip (c : Conn RL H) : Conn RL H := { c with parsed := [], respQ := [], respBuf := none }

theorem rebase_strip (c : Conn RL H) : rebase (strip c) c.parsed c.respQ c.respBuf = c := by
  cases c; simp [rebase, strip]

theorem strip_eq_of_parserEq (c₁ c₂ : Conn RL H) (h : ParserEq' c₁ c₂) : strip c₁ = strip c₂ := by
  obtain ⟨h1, h2, h3, h4, h5, h6, h7⟩ := h
  cases c₁; cases c₂
  simp only [strip] at *
  simp_all

theorem parserEq_rebase (c : Conn RL H) (p₁ p₂ : List (Req RL H)) (q₁ q₂ : List Response)
    (b₁ b₂ : Option (List Byte)) : ParserEq' (rebase c p₁ q₁ b₁) (rebase c p₂ q₂ b₂) :=
  ⟨rfl, rfl, rfl, rfl, rfl, rfl, rfl⟩

theorem tryRead_of_strip (P : Params RL H) (c : Conn RL H) (inp : Recv) :
    tryRead P c inp = (rebase (tryRead P (strip c) inp).1 c.parsed c.respQ c.respBuf,
                       (tryRead P (strip c) inp).2) := by
  have := tryRead_rebase P (strip c) inp c.parsed c.respQ c.respBuf
  rwa [rebase_strip] at this

theorem read_depends_on_parser_only' (P : Params RL H) (c₁ c₂ : Conn RL H)
    (h : ParserEq' c₁ c₂) (inp : Recv) :
    (tryRead P c₁ inp).2 = (tryRead P c₂ inp).2 ∧
    ParserEq' (tryRead P c₁ inp).1 (tryRead P c₂ inp).1 ∧
    ∃ dp dq, (tryRead P c₁ inp).1.parsed = c₁.parsed ++ dp ∧ (tryRead P c₂ inp).1.parsed = c₂.parsed ++ dp ∧
             (tryRead P c₁ inp).1.respQ = c₁.respQ ++ dq ∧ (tryRead P c₂ inp).1.respQ = c₂.respQ ++ dq := by
  rw [tryRead_of_strip P c₁ inp, tryRead_of_strip P c₂ inp, strip_eq_of_parserEq c₁ c₂ h]
  exact ⟨rfl, parserEq_rebase _ _ _ _ _ _ _, _, _, rfl, rfl, rfl, rfl⟩

/-- same as `C11.runReads` -/
def runReads' (P : Params RL H) : Conn RL H → List Recv → Conn RL H × List ReadOut
  | c, [] => (c, [])
  | c, i :: is =>
    let (c', o) := tryRead P c i
    let (c'', os) := runReads' P c' is
    (c'', o :: os)

theorem runReads'_rebase (P : Params RL H) (inputs : List Recv) (c : Conn RL H)
    (p : List (Req RL H)) (q : List Response) (b : Option (List Byte)) :
    runReads' P (rebase c p q b) inputs =
      (rebase (runReads' P c inputs).1 p q b, (runReads' P c inputs).2) := by
  induction inputs generalizing c with
  | nil => rfl
  | cons i is ih =>
    simp only [runReads']
    rw [tryRead_rebase]
    simp only
    rw [ih]

theorem after_error_like_new' (P : Params RL H) (c : Conn RL H)
    (inp : Recv) (c' : Conn RL H) (e : ReqErr)
    (h : tryRead P c inp = (c', .parseErr e)) (inputs : List Recv) :
    (runReads' P c' inputs).2 = (runReads' P (Conn.new c.limit) inputs).2 ∧
    ∃ dp dq, (runReads' P c' inputs).1.parsed = c'.parsed ++ dp ∧
             (runReads' P (Conn.new c.limit : Conn RL H) inputs).1.parsed = dp ∧
             (runReads' P c' inputs).1.respQ = c'.respQ ++ dq ∧
             (runReads' P (Conn.new c.limit : Conn RL H) inputs).1.respQ = dq := by
  have hpe := reset_after_error' P c inp c' e h
  have hs : strip c' = Conn.new c.limit := by
    rw [strip_eq_of_parserEq _ _ hpe]; rfl
  have hc : c' = rebase (Conn.new c.limit) c'.parsed c'.respQ c'.respBuf := by
    rw [← hs, rebase_strip]
  have := runReads'_rebase P inputs (Conn.new c.limit) c'.parsed c'.respQ c'.respBuf
  rw [← hc] at this
  rw [this]
  exact ⟨rfl, _, _, rfl, rfl, rfl, rfl⟩

theorem rejected_request_dropped' (P : Params RL H) (c : Conn RL H) (inp : Recv) (c' : Conn RL H) (e : ReqErr)
    (h : tryRead P c inp = (c', .parseErr e)) : c'.pending = none ∧ c'.win = [] ∧ c'.bodyVec = [] := by
  obtain ⟨_, h2, h3, h4, _⟩ := reset_after_error' P c inp c' e h
  exact ⟨h2, h3, h4⟩

theorem server_yields_nothing_on_error' (c : Client) (rd : Recv) (t : List Byte) (e : ReqErr)
    (h : (tryRead P0 c.conn rd).2 = .parseErr e) :
    (c.read rd t).2.1 = [] ∧ (c.read rd t).1.conn.parsed = [] ∧ (c.read rd t).1.state = .awaitingOut ∧
    ParserEq' (c.read rd t).1.conn (Conn.new c.conn.limit) := by
  cases htr : tryRead P0 c.conn rd with
  | mk conn' out =>
    rw [htr] at h
    simp only at h
    subst h
    obtain ⟨h1, h2, h3, h4, h5, h6, h7⟩ := reset_after_error' P0 c.conn rd conn' e htr
    have hpw : ∀ (x : Conn0) (r : Response), pendingWrite (enqueue x r) = true := by
      intro x r; simp [pendingWrite, enqueue]
    unfold Client.read
    rw [htr]
    simp only [hpw, if_true]
    exact ⟨trivial, rfl, trivial, h1, h2, h3, h4, h5, h6, h7⟩

end MicroHttp
