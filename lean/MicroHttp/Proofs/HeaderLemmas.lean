/-
  Helper lemmas for C15 (header rules).  `mkLine`, `noColon`, … duplicate (verbatim) the
  definitions of `MicroHttp.Props.C15`, which imports this file.
-/
import MicroHttp.Headers
namespace MicroHttp.HeaderLemmas
open MicroHttp

def mkLine (k v : List Byte) : List Byte := k ++ [COLON] ++ v
def noColon (k : List Byte) : Bool := !k.contains COLON

theorem utf8Check_of_isUtf8 {bs : List Byte} (h : isUtf8 bs = true) : utf8Check bs = .ok () := by
  unfold isUtf8 at h
  cases hc : utf8Check bs with
  | ok u => rfl
  | error e => rw [hc] at h; cases h

theorem utf8Check_of_not_isUtf8 {bs : List Byte} (h : isUtf8 bs = false) :
    ∃ e, utf8Check bs = .error e := by
  unfold isUtf8 at h
  cases hc : utf8Check bs with
  | ok u => rw [hc] at h; cases h
  | error e => exact ⟨e, rfl⟩

theorem isUtf8_eq_false_iff (bs : List Byte) : isUtf8 bs = false ↔ ∃ e, utf8Check bs = .error e := by
  constructor
  · exact utf8Check_of_not_isUtf8
  · rintro ⟨e, he⟩; simp [isUtf8, he]

theorem splitOnce_mkLine (k v : List Byte) (hk : noColon k = true) :
    splitOnce COLON (mkLine k v) = (k, some v) := by
  induction k with
  | nil => simp [mkLine, splitOnce]
  | cons b k ih =>
    simp only [noColon, List.contains_cons, Bool.not_eq_true', Bool.or_eq_false_iff] at hk
    have hb : (b == COLON) = false := by
      have := hk.1; simp only [beq_eq_false_iff_ne, ne_eq] at this ⊢; exact fun e => this e.symm
    have ih' := ih (by simp only [noColon, hk.2, Bool.not_false])
    simp only [mkLine, List.cons_append, List.append_assoc] at ih' ⊢
    rw [splitOnce]
    simp only [hb, Bool.false_eq_true, if_false, ih']

theorem splitOnce_noColon (k : List Byte) (hk : noColon k = true) :
    splitOnce COLON k = (k, none) := by
  induction k with
  | nil => simp [splitOnce]
  | cons b k ih =>
    simp only [noColon, List.contains_cons, Bool.not_eq_true', Bool.or_eq_false_iff] at hk
    have hb : (b == COLON) = false := by
      have := hk.1; simp only [beq_eq_false_iff_ne, ne_eq] at this ⊢; exact fun e => this e.symm
    have ih' := ih (by simp only [noColon, hk.2, Bool.not_false])
    rw [splitOnce]
    simp only [hb, Bool.false_eq_true, if_false, ih']

theorem no_colon_fatal (h : Headers) (line : List Byte) (hu : isUtf8 line = true) (hc : noColon line = true) :
    h.applyLine line = .error (.headerError (.invalidFormat line)) := by
  simp only [Headers.applyLine, Headers.parseHeaderLine, utf8Check_of_isUtf8 hu,
    splitOnce_noColon line hc, isUnsupportedValue]
  rfl

theorem non_utf8_fatal (h : Headers) (line : List Byte) (hu : isUtf8 line = false) :
    ∃ e, h.applyLine line = .error (.headerError (.invalidUtf8 e)) := by
  obtain ⟨e, he⟩ := utf8Check_of_not_isUtf8 hu
  refine ⟨e, ?_⟩
  simp only [Headers.applyLine, Headers.parseHeaderLine, he, isUnsupportedValue]
  rfl

def IDENTITY_Q0 : List Byte := [0x69, 0x64, 0x65, 0x6E, 0x74, 0x69, 0x74, 0x79, 0x3B, 0x71, 0x3D, 0x30]
def STAR_Q0 : List Byte := [0x2A, 0x3B, 0x71, 0x3D, 0x30]
def IDENTITY : List Byte := [0x69, 0x64, 0x65, 0x6E, 0x74, 0x69, 0x74, 0x79]

theorem go_error_iff (hasId : Bool) (items : List (List Byte)) :
    (∃ e, Encoding.tryFrom.go hasId items = .error e) ↔
      ∃ item ∈ items, trim item = IDENTITY_Q0 ∨ (trim item = STAR_Q0 ∧ hasId = false) := by
  induction items with
  | nil => simp [Encoding.tryFrom.go]
  | cons it items ih =>
    rw [Encoding.tryFrom.go]
    by_cases h1 : trim it = IDENTITY_Q0
    · have h1' := h1; unfold IDENTITY_Q0 at h1'
      simp only [h1', if_true]
      exact ⟨fun _ => ⟨it, by simp, Or.inl h1⟩, fun _ => ⟨_, rfl⟩⟩
    · have h1' := h1; unfold IDENTITY_Q0 at h1'
      rw [if_neg h1']
      by_cases h2 : trim it = STAR_Q0 ∧ hasId = false
      · have h2' := h2; unfold STAR_Q0 at h2'
        have : (decide (trim it = [0x2A, 0x3B, 0x71, 0x3D, 0x30]) && !hasId) = true := by
          simp [h2'.1, h2'.2]
        rw [if_pos this]
        exact ⟨fun _ => ⟨it, by simp, Or.inr h2⟩, fun _ => ⟨_, rfl⟩⟩
      · have h2' := h2; unfold STAR_Q0 at h2'
        have : ¬ (decide (trim it = [0x2A, 0x3B, 0x71, 0x3D, 0x30]) && !hasId) = true := by
          simpa using h2'
        rw [if_neg this, ih]
        constructor
        · rintro ⟨item, hm, hp⟩; exact ⟨item, by simp [hm], hp⟩
        · rintro ⟨item, hm, hp⟩
          simp only [List.mem_cons] at hm
          rcases hm with rfl | hm
          · rcases hp with hp | hp
            · exact absurd hp h1
            · exact absurd hp h2
          · exact ⟨item, hm, hp⟩

theorem go_error_not_unsupported (hasId : Bool) (items : List (List Byte)) (e : ReqErr)
    (h : Encoding.tryFrom.go hasId items = .error e) : isUnsupportedValue e = false := by
  induction items with
  | nil => simp [Encoding.tryFrom.go] at h
  | cons it items ih =>
    rw [Encoding.tryFrom.go] at h
    split at h
    · cases h; rfl
    · split at h
      · cases h; rfl
      · exact ih h

theorem encoding_error_not_unsupported (bs : List Byte) (e : ReqErr)
    (h : Encoding.tryFrom bs = .error e) : isUnsupportedValue e = false := by
  unfold Encoding.tryFrom at h
  split at h
  · cases h; rfl
  · split at h
    · cases h; rfl
    · exact go_error_not_unsupported _ _ _ h

theorem content_length_rule (h : Headers) (line k v : List Byte) (hu : isUtf8 line = true)
    (hk : splitOnce COLON line = (k, some v)) (hn : Header.tryFrom k = some .contentLength) :
    h.applyLine line =
      match parseU32 (trim v) with
      | some n => .ok { h with contentLength := n }
      | none => .error (.headerError (.invalidValue k v)) := by
  simp only [Headers.applyLine, Headers.parseHeaderLine, utf8Check_of_isUtf8 hu,
    hk, hn]
  cases parseU32 (trim v) <;> rfl

theorem accept_rule (h : Headers) (line k v : List Byte) (hu : isUtf8 line = true)
    (hk : splitOnce COLON line = (k, some v)) (hn : Header.tryFrom k = some .accept) :
    h.applyLine line =
      match MediaType.tryFrom (trim v) with
      | some m => .ok { h with accept := m }
      | none => .ok h := by
  simp only [Headers.applyLine, Headers.parseHeaderLine, utf8Check_of_isUtf8 hu,
    hk, hn]
  cases MediaType.tryFrom (trim v) <;> rfl

theorem content_type_server_rule (h : Headers) (line k v : List Byte) (hu : isUtf8 line = true)
    (hk : splitOnce COLON line = (k, some v)) (hn : Header.tryFrom k = some .contentType ∨ Header.tryFrom k = some .server) :
    h.applyLine line = .ok h := by
  rcases hn with hn | hn
  · simp only [Headers.applyLine, Headers.parseHeaderLine, utf8Check_of_isUtf8 hu,
      hk, hn]
    cases MediaType.tryFrom (trim v) <;> rfl
  · simp only [Headers.applyLine, Headers.parseHeaderLine, utf8Check_of_isUtf8 hu,
      hk, hn]

theorem expect_rule (h : Headers) (line k v : List Byte) (hu : isUtf8 line = true)
    (hk : splitOnce COLON line = (k, some v)) (hn : Header.tryFrom k = some .expect) :
    h.applyLine line =
      .ok (if trim v = [0x31, 0x30, 0x30, 0x2D, 0x63, 0x6F, 0x6E, 0x74, 0x69, 0x6E, 0x75, 0x65]
           then { h with expect := true } else h) := by
  simp only [Headers.applyLine, Headers.parseHeaderLine, utf8Check_of_isUtf8 hu,
    hk, hn]
  by_cases ht : trim v = [0x31, 0x30, 0x30, 0x2D, 0x63, 0x6F, 0x6E, 0x74, 0x69, 0x6E, 0x75, 0x65]
  · simp only [ht, if_true]
  · simp only [ht, if_false, isUnsupportedValue, if_true]

theorem transfer_encoding_rule (h : Headers) (line k v : List Byte) (hu : isUtf8 line = true)
    (hk : splitOnce COLON line = (k, some v)) (hn : Header.tryFrom k = some .transferEncoding) :
    h.applyLine line =
      .ok (if trim v = [0x63, 0x68, 0x75, 0x6E, 0x6B, 0x65, 0x64] then { h with chunked := true } else h) := by
  simp only [Headers.applyLine, Headers.parseHeaderLine, utf8Check_of_isUtf8 hu,
    hk, hn]
  by_cases ht : trim v = [0x63, 0x68, 0x75, 0x6E, 0x6B, 0x65, 0x64]
  · simp only [ht, if_true]
  · by_cases ht2 : trim v = [0x69, 0x64, 0x65, 0x6E, 0x74, 0x69, 0x74, 0x79]
    · rw [if_neg ht, if_pos ht2, if_neg ht]
    · simp only [ht, ht2, if_false, isUnsupportedValue, if_true]

theorem custom_rule (h : Headers) (line k v : List Byte) (hu : isUtf8 line = true)
    (hk : splitOnce COLON line = (k, some v)) (hn : Header.tryFrom k = none) :
    h.applyLine line = .ok { h with custom := insertCustom h.custom (trim k) (trim v) } := by
  simp only [Headers.applyLine, Headers.parseHeaderLine, utf8Check_of_isUtf8 hu,
    hk, hn]

theorem accept_encoding_rule (h : Headers) (line k v : List Byte) (hu : isUtf8 line = true)
    (hk : splitOnce COLON line = (k, some v)) (hn : Header.tryFrom k = some .acceptEncoding) :
    h.applyLine line =
      match Encoding.tryFrom (trim v) with
      | .ok _ => .ok h
      | .error e => .error e := by
  simp only [Headers.applyLine, Headers.parseHeaderLine, utf8Check_of_isUtf8 hu,
    hk, hn]
  cases he : Encoding.tryFrom (trim v) with
  | ok u => rfl
  | error e =>
    simp only [encoding_error_not_unsupported _ _ he, Bool.false_eq_true, if_false]

theorem encoding_rejects_iff (bs : List Byte) :
    (∃ e, Encoding.tryFrom bs = .error e) ↔
      (bs = [] ∨ isUtf8 bs = false ∨
        ∃ item ∈ splitOn COMMA bs, trim item = IDENTITY_Q0 ∨
          (trim item = STAR_Q0 ∧ containsSub IDENTITY bs = false)) := by
  unfold Encoding.tryFrom
  by_cases h0 : bs = []
  · subst h0; simp
  · have h0' : bs.isEmpty = false := by cases bs <;> simp at h0 ⊢
    simp only [h0', Bool.false_eq_true, if_false, h0, false_or]
    cases hc : utf8Check bs with
    | error e =>
      have : isUtf8 bs = false := (isUtf8_eq_false_iff bs).2 ⟨e, hc⟩
      simp [this]
    | ok u =>
      have : isUtf8 bs = true := by simp [isUtf8, hc]
      simp only [this, Bool.true_eq_false, false_or]
      exact go_error_iff _ _

def lookupCustom (m : List (List Byte × List Byte)) (k : List Byte) : Option (List Byte) :=
  (m.find? (fun e => e.1 = k)).map (·.2)

theorem insertCustom_lookup (m : List (List Byte × List Byte)) (k v k' : List Byte) :
    lookupCustom (insertCustom m k v) k' = if k' = k then some v else lookupCustom m k' := by
  induction m with
  | nil =>
    by_cases hk : k' = k
    · simp [lookupCustom, insertCustom, hk]
    · simp [lookupCustom, insertCustom, hk, Ne.symm hk]
  | cons e m ih =>
    have hcons : insertCustom (e :: m) k v =
        if e.1 ≠ k then e :: insertCustom m k v else insertCustom m k v := by
      unfold insertCustom
      by_cases he : e.1 = k <;> simp [he]
    rw [hcons]
    by_cases he : e.1 = k
    · rw [if_neg (by simpa using he), ih]
      by_cases hk : k' = k
      · simp [hk]
      · have : ¬ e.1 = k' := fun h => hk (h.symm.trans he)
        simp [hk, lookupCustom, this]
    · rw [if_pos he]
      by_cases hek : e.1 = k'
      · have hk : ¬ k' = k := fun h => he (hek.trans h)
        simp [lookupCustom, hek, hk]
      · have e1 : lookupCustom (e :: insertCustom m k v) k' = lookupCustom (insertCustom m k v) k' := by
          simp [lookupCustom, hek]
        have e2 : lookupCustom (e :: m) k' = lookupCustom m k' := by
          simp [lookupCustom, hek]
        rw [e1, e2, ih]

theorem block_eq_lines (bs : List Byte) :
    Headers.tryFrom bs =
      if isUtf8 bs then Headers.foldLines Headers.default (splitCRLF bs) else .error .invalidRequest := rfl

theorem split_none_fatal (h : Headers) (line k : List Byte) (hu : isUtf8 line = true)
    (hs : splitOnce COLON line = (k, none)) :
    h.applyLine line = .error (.headerError (.invalidFormat k)) := by
  simp only [Headers.applyLine, Headers.parseHeaderLine, utf8Check_of_isUtf8 hu, hs, isUnsupportedValue]
  rfl

theorem fatal_iff (h : Headers) (line : List Byte) :
    (∃ e, h.applyLine line = .error e) ↔
      (isUtf8 line = false ∨ (splitOnce COLON line).2 = none ∨
        ∃ k v, splitOnce COLON line = (k, some v) ∧
          ((Header.tryFrom k = some .contentLength ∧ parseU32 (trim v) = none) ∨
           (Header.tryFrom k = some .acceptEncoding ∧ ∃ e, Encoding.tryFrom (trim v) = .error e))) := by
  cases hu : isUtf8 line with
  | false =>
    obtain ⟨e, he⟩ := non_utf8_fatal h line hu
    exact ⟨fun _ => Or.inl rfl, fun _ => ⟨_, he⟩⟩
  | true =>
    rcases hs : splitOnce COLON line with ⟨k, _ | v⟩
    · rw [split_none_fatal h line k hu hs]
      exact ⟨fun _ => Or.inr (Or.inl rfl), fun _ => ⟨_, rfl⟩⟩
    · simp only [Bool.true_eq_false, false_or, reduceCtorEq, Prod.mk.injEq, Option.some.injEq]
      cases hn : Header.tryFrom k with
      | none =>
        rw [custom_rule h line k v hu hs hn]
        constructor
        · rintro ⟨e, he⟩; cases he
        · rintro ⟨k', v', ⟨rfl, rfl⟩, h' | h'⟩ <;> simp [hn] at h'
      | some hd =>
        cases hd with
        | contentLength =>
          rw [content_length_rule h line k v hu hs hn]
          cases hp : parseU32 (trim v) with
          | some n =>
            constructor
            · rintro ⟨e, he⟩; cases he
            · rintro ⟨k', v', ⟨rfl, rfl⟩, h' | h'⟩ <;> simp [hn, hp] at h'
          | none =>
            exact ⟨fun _ => ⟨k, v, ⟨rfl, rfl⟩, Or.inl ⟨hn, hp⟩⟩, fun _ => ⟨_, rfl⟩⟩
        | acceptEncoding =>
          rw [accept_encoding_rule h line k v hu hs hn]
          cases hp : Encoding.tryFrom (trim v) with
          | ok u =>
            constructor
            · rintro ⟨e, he⟩; cases he
            · rintro ⟨k', v', ⟨rfl, rfl⟩, h' | h'⟩ <;> simp [hn, hp] at h'
          | error e =>
            exact ⟨fun _ => ⟨k, v, ⟨rfl, rfl⟩, Or.inr ⟨hn, e, hp⟩⟩, fun _ => ⟨_, rfl⟩⟩
        | contentType =>
          rw [content_type_server_rule h line k v hu hs (Or.inl hn)]
          constructor
          · rintro ⟨e, he⟩; cases he
          · rintro ⟨k', v', ⟨rfl, rfl⟩, h' | h'⟩ <;> simp [hn] at h'
        | server =>
          rw [content_type_server_rule h line k v hu hs (Or.inr hn)]
          constructor
          · rintro ⟨e, he⟩; cases he
          · rintro ⟨k', v', ⟨rfl, rfl⟩, h' | h'⟩ <;> simp [hn] at h'
        | expect =>
          rw [expect_rule h line k v hu hs hn]
          constructor
          · rintro ⟨e, he⟩; cases he
          · rintro ⟨k', v', ⟨rfl, rfl⟩, h' | h'⟩ <;> simp [hn] at h'
        | transferEncoding =>
          rw [transfer_encoding_rule h line k v hu hs hn]
          constructor
          · rintro ⟨e, he⟩; cases he
          · rintro ⟨k', v', ⟨rfl, rfl⟩, h' | h'⟩ <;> simp [hn] at h'
        | accept =>
          rw [accept_rule h line k v hu hs hn]
          constructor
          · rintro ⟨e, he⟩; cases hm : MediaType.tryFrom (trim v) <;> rw [hm] at he <;> cases he
          · rintro ⟨k', v', ⟨rfl, rfl⟩, h' | h'⟩ <;> simp [hn] at h'

def clOf (line : List Byte) : Option Nat :=
  match splitOnce COLON line with
  | (k, some v) => if Header.tryFrom k = some .contentLength then parseU32 (trim v) else none
  | _ => none

def isExpectLine (line : List Byte) : Bool :=
  match splitOnce COLON line with
  | (k, some v) => Header.tryFrom k = some .expect &&
      trim v = [0x31, 0x30, 0x30, 0x2D, 0x63, 0x6F, 0x6E, 0x74, 0x69, 0x6E, 0x75, 0x65]
  | _ => false

theorem applyLine_ok (h h' : Headers) (line : List Byte) (hok : h.applyLine line = .ok h') :
    h'.contentLength = (clOf line).getD h.contentLength ∧
    h'.expect = (h.expect || isExpectLine line) := by
  cases hu : isUtf8 line with
  | false =>
    obtain ⟨e, he⟩ := non_utf8_fatal h line hu
    rw [he] at hok; cases hok
  | true =>
    rcases hs : splitOnce COLON line with ⟨k, _ | v⟩
    · rw [split_none_fatal h line k hu hs] at hok; cases hok
    · cases hn : Header.tryFrom k with
      | none =>
        rw [custom_rule h line k v hu hs hn] at hok
        cases hok
        simp [clOf, isExpectLine, hs, hn]
      | some hd =>
        cases hd with
        | contentLength =>
          rw [content_length_rule h line k v hu hs hn] at hok
          cases hp : parseU32 (trim v) with
          | some n =>
            rw [hp] at hok; cases hok
            simp [clOf, isExpectLine, hs, hn, hp]
          | none => rw [hp] at hok; cases hok
        | acceptEncoding =>
          rw [accept_encoding_rule h line k v hu hs hn] at hok
          cases hp : Encoding.tryFrom (trim v) with
          | ok u =>
            rw [hp] at hok; cases hok
            simp [clOf, isExpectLine, hs, hn]
          | error e => rw [hp] at hok; cases hok
        | contentType =>
          rw [content_type_server_rule h line k v hu hs (Or.inl hn)] at hok
          cases hok
          simp [clOf, isExpectLine, hs, hn]
        | server =>
          rw [content_type_server_rule h line k v hu hs (Or.inr hn)] at hok
          cases hok
          simp [clOf, isExpectLine, hs, hn]
        | expect =>
          rw [expect_rule h line k v hu hs hn] at hok
          cases hok
          by_cases ht : trim v = [0x31, 0x30, 0x30, 0x2D, 0x63, 0x6F, 0x6E, 0x74, 0x69, 0x6E, 0x75, 0x65]
          · simp [clOf, isExpectLine, hs, hn, ht]
          · simp [clOf, isExpectLine, hs, hn, ht]
        | transferEncoding =>
          rw [transfer_encoding_rule h line k v hu hs hn] at hok
          cases hok
          by_cases ht : trim v = [0x63, 0x68, 0x75, 0x6E, 0x6B, 0x65, 0x64]
          · simp [clOf, isExpectLine, hs, hn, ht]
          · simp [clOf, isExpectLine, hs, hn, ht]
        | accept =>
          rw [accept_rule h line k v hu hs hn] at hok
          cases hm : MediaType.tryFrom (trim v) <;> rw [hm] at hok <;> cases hok <;>
            simp [clOf, isExpectLine, hs, hn]

theorem foldLines_cons (h0 h : Headers) (l : List Byte) (ls : List (List Byte)) (hl : l ≠ [])
    (hf : Headers.foldLines h0 (l :: ls) = .ok h) :
    ∃ h1, h0.applyLine l = .ok h1 ∧ Headers.foldLines h1 ls = .ok h := by
  rw [Headers.foldLines] at hf
  have : l.isEmpty = false := by cases l <;> simp at hl ⊢
  simp only [this, Bool.false_eq_true, if_false] at hf
  cases ha : h0.applyLine l with
  | ok h1 => rw [ha] at hf; exact ⟨h1, rfl, hf⟩
  | error e => rw [ha] at hf; cases hf

theorem content_length_last_wins (h0 h : Headers) (ls : List (List Byte))
    (hne : ∀ l ∈ ls, l ≠ []) (hf : Headers.foldLines h0 ls = .ok h) :
    h.contentLength = ((ls.reverse.findSome? clOf).getD h0.contentLength) := by
  induction ls generalizing h0 with
  | nil => simp [Headers.foldLines] at hf; simp [hf]
  | cons l ls ih =>
    obtain ⟨h1, ha, hf'⟩ := foldLines_cons h0 h l ls (hne l (by simp)) hf
    have := ih h1 (fun l' hl' => hne l' (by simp [hl'])) hf'
    rw [this, (applyLine_ok h0 h1 l ha).1, List.reverse_cons, List.findSome?_append]
    cases ls.reverse.findSome? clOf with
    | some x => simp
    | none => simp

theorem expect_any (h0 h : Headers) (ls : List (List Byte))
    (hne : ∀ l ∈ ls, l ≠ []) (hf : Headers.foldLines h0 ls = .ok h) :
    h.expect = (h0.expect || ls.any isExpectLine) := by
  induction ls generalizing h0 with
  | nil => simp [Headers.foldLines] at hf; simp [hf]
  | cons l ls ih =>
    obtain ⟨h1, ha, hf'⟩ := foldLines_cons h0 h l ls (hne l (by simp)) hf
    have := ih h1 (fun l' hl' => hne l' (by simp [hl'])) hf'
    rw [this, (applyLine_ok h0 h1 l ha).2, List.any_cons, Bool.or_assoc]

end MicroHttp.HeaderLemmas
