/-
  Proofs.Buffer — the concrete receive buffer of `Conn00.lean` against the window of `Conn.lean`:
  the two loops of `shift_buffer_left`, `writeAt`, slices of the array below `end_cursor`, the
  per-function simulation lemmas and the loop simulation used by `Props/C01Buffer.lean`.
-/
import MicroHttp.Conn00
import MicroHttp.Proofs.Norm
namespace MicroHttp
variable {RL H : Type}

/-! ### the zero-fill loop -/

theorem zeroLoop_length (l : List Nat) (buf : List Byte) : (zeroLoop l buf).length = buf.length := by
  induction l generalizing buf with
  | nil => rfl
  | cons c rest ih => simp [zeroLoop, ih]

theorem zeroLoop_getElem? (l : List Nat) (buf : List Byte) (i : Nat) :
    (zeroLoop l buf)[i]? = if i ∈ l then (if i < buf.length then some 0 else none) else buf[i]? := by
  induction l generalizing buf with
  | nil => simp [zeroLoop]
  | cons c rest ih =>
    rw [zeroLoop, ih]
    by_cases h1 : i ∈ rest
    · simp [h1]
    · by_cases h2 : c = i
      · subst h2; simp [h1, List.getElem?_set]
      · have h3 : ¬ i = c := fun h => h2 h.symm
        simp [h1, h2, h3]

theorem mem_rangeFrom (a b i : Nat) : i ∈ rangeFrom a b ↔ a ≤ i ∧ i < b := by
  simp only [rangeFrom, List.mem_map, List.mem_range]
  constructor
  · rintro ⟨j, hj, rfl⟩; omega
  · rintro ⟨h1, h2⟩; exact ⟨i - a, by omega, by omega⟩

theorem zeroLoop_rangeFrom_spec (buf : List Byte) (a b : Nat) (h : b ≤ buf.length) :
    (zeroLoop (rangeFrom a b) buf).take a = buf.take a ∧
    (zeroLoop (rangeFrom a b) buf).drop b = buf.drop b ∧
    (∀ i, a ≤ i → i < b → (zeroLoop (rangeFrom a b) buf)[i]? = some 0) ∧
    (zeroLoop (rangeFrom a b) buf).length = buf.length := by
  refine ⟨?_, ?_, ?_, zeroLoop_length _ _⟩
  · apply List.ext_getElem?
    intro i
    simp only [List.getElem?_take, zeroLoop_getElem?, mem_rangeFrom]
    by_cases hi : i < a
    · have : ¬ (a ≤ i ∧ i < b) := by omega
      simp [hi, this]
    · simp [hi]
  · apply List.ext_getElem?
    intro i
    simp only [List.getElem?_drop, zeroLoop_getElem?, mem_rangeFrom]
    have : ¬ (a ≤ b + i ∧ b + i < b) := by omega
    simp [this]
  · intro i h1 h2
    have h3 : i < buf.length := by omega
    simp [zeroLoop_getElem?, mem_rangeFrom, h1, h2, h3]

/-! ### the copy loop -/

theorem copyLoop_append (start : Nat) (l1 l2 : List Nat) (buf : List Byte) :
    copyLoop start (l1 ++ l2) buf = copyLoop start l2 (copyLoop start l1 buf) := by
  induction l1 generalizing buf with
  | nil => rfl
  | cons c rest ih =>
    simp only [List.cons_append, copyLoop]
    split <;> exact ih _

/-- after `k` iterations positions `< k` hold the old `buf[start + i]`, the others are unchanged -/
theorem copyLoop_range (buf : List Byte) (start k : Nat) (h : start + k ≤ buf.length) :
    (copyLoop start (List.range k) buf).length = buf.length ∧
    ∀ i, (copyLoop start (List.range k) buf)[i]? = if i < k then buf[start + i]? else buf[i]? := by
  induction k with
  | zero => simp [copyLoop]
  | succ k ih =>
    obtain ⟨ihl, ihg⟩ := ih (by omega)
    rw [List.range_succ, copyLoop_append]
    generalize copyLoop start (List.range k) buf = r at ihl ihg
    have hk : r[start + k]? = buf[start + k]? := by
      rw [ihg]; have : ¬ start + k < k := by omega
      simp [this]
    have hlt : start + k < buf.length := by omega
    have hsome : buf[start + k]? = some buf[start + k] := List.getElem?_eq_getElem hlt
    simp only [copyLoop, hk, hsome]
    refine ⟨by simp [ihl], ?_⟩
    intro i
    rw [List.getElem?_set, ihg]
    by_cases hik : k = i
    · subst hik
      have : k < r.length := by omega
      simp [this]
    · by_cases h1 : i < k
      · have : i < k + 1 := by omega
        simp [hik, h1, this]
      · have : ¬ i < k + 1 := by omega
        simp [hik, h1, this]

theorem copyLoop_range_spec (buf : List Byte) (start delta : Nat) (h : start + delta ≤ buf.length) :
    (copyLoop start (List.range delta) buf).take delta = (buf.drop start).take delta ∧
    (copyLoop start (List.range delta) buf).length = buf.length := by
  obtain ⟨hl, hg⟩ := copyLoop_range buf start delta h
  refine ⟨?_, hl⟩
  apply List.ext_getElem?
  intro i
  simp only [List.getElem?_take, hg, List.getElem?_drop]
  split <;> rfl

/-! ### slices of the array below `end_cursor`, `recv` into the array -/

theorem slice_take (buf : List Byte) (a b stop : Nat) (hb : b ≤ stop) (hs : stop ≤ buf.length) :
    slice (buf.take stop) a b = slice buf a b := by
  unfold slice
  have hl : (buf.take stop).length = stop := by simp; omega
  by_cases hab : a ≤ b
  · have h1 : a ≤ b ∧ b ≤ (buf.take stop).length := ⟨hab, by omega⟩
    have h2 : a ≤ b ∧ b ≤ buf.length := ⟨hab, by omega⟩
    simp only [h1, h2]
    congr 1
    rw [List.drop_take, List.take_take]
    have : min (b - a) (stop - a) = b - a := by omega
    rw [this]
  · have h1 : ¬ (a ≤ b ∧ b ≤ (buf.take stop).length) := fun h => hab h.1
    have h2 : ¬ (a ≤ b ∧ b ≤ buf.length) := fun h => hab h.1
    simp only [h1, h2, if_false]

theorem writeAt_length (buf : List Byte) (at_ : Nat) (bytes : List Byte)
    (h : at_ + bytes.length ≤ buf.length) : (writeAt buf at_ bytes).length = buf.length := by
  simp [writeAt]; omega

theorem writeAt_take (buf : List Byte) (at_ : Nat) (bytes : List Byte) (h : at_ ≤ buf.length) :
    (writeAt buf at_ bytes).take (at_ + bytes.length) = buf.take at_ ++ bytes := by
  unfold writeAt
  apply List.take_left'
  simp; omega

theorem writeAt_take_at (buf : List Byte) (at_ : Nat) (bytes : List Byte) (h : at_ ≤ buf.length) :
    (writeAt buf at_ bytes).take at_ = buf.take at_ := by
  unfold writeAt
  rw [List.append_assoc]
  apply List.take_left'
  simp; omega

/-! ### simulation relations -/

def RelE (P : Params RL H) : Except Fault (Conn00 RL H) → Except Fault (Conn RL H) → Prop
  | .error f, .error g => f = g
  | .ok c', .ok d' => c'.abs = d' ∧ c'.WF P
  | _, _ => False

/-- results of one parse step: same fault, or related connections with the same new start and flag;
    a step that asks for more parsing has not touched the array -/
def RelS (P : Params RL H) (b0 : List Byte) :
    Except Fault (Conn00 RL H × Nat × Bool) → Except Fault (Conn RL H × Nat × Bool) → Prop
  | .error f, .error g => f = g
  | .ok (c', s', m), .ok (d', t', m') =>
    c'.abs = d' ∧ s' = t' ∧ m = m' ∧ c'.WF P ∧ (m = true → c'.buffer = b0)
  | _, _ => False

theorem RelS_of_RelE (P : Params RL H) (b0 : List Byte) (start : Nat)
    (x : Except Fault (Conn00 RL H)) (y : Except Fault (Conn RL H)) (h : RelE P x y) :
    RelS P b0 (x >>= fun c' => pure (c', start, false)) (y >>= fun c' => pure (c', start, false)) := by
  cases x <;> cases y <;> simp only [RelE] at h
  · exact h
  · exact ⟨h.1, rfl, rfl, h.2, fun hm => by cases hm⟩

theorem shiftBuf_spec (buf : List Byte) (start stop : Nat) (h1 : start ≤ stop) (h2 : stop ≤ buf.length) :
    let buffer' := if start ≠ 0 then zeroLoop (rangeFrom (stop - start) stop) (copyLoop start (List.range (stop - start)) buf)
                   else buf
    buffer'.take (stop - start) = (buf.drop start).take (stop - start) ∧ buffer'.length = buf.length := by
  intro buffer'
  by_cases hs : start = 0
  · subst hs
    simp [buffer']
  · have hc := copyLoop_range_spec buf start (stop - start) (by omega)
    have hz := zeroLoop_rangeFrom_spec (copyLoop start (List.range (stop - start)) buf) (stop - start) stop
      (by rw [hc.2]; exact h2)
    simp only [buffer', hs, ne_eq, not_false_eq_true, if_true]
    exact ⟨by rw [hz.1, hc.1], by rw [hz.2.2.2, hc.2]⟩

theorem shiftLeft00_sim (P : Params RL H) (c : Conn00 RL H) (start stop : Nat) (hwf : c.WF P) :
    RelE P (shiftLeft00 P c start stop) (shiftLeft P c.abs (c.buffer.take stop) start stop) := by
  unfold shiftLeft00 shiftLeft
  by_cases h1 : stop > P.B
  · simp only [h1, if_true]; exact rfl
  by_cases h2 : stop < start
  · simp only [h1, h2, if_true, if_false]; exact rfl
  simp only [h1, h2, if_false]
  have hs : stop ≤ c.buffer.length := by have := hwf.1; omega
  rw [slice_take _ _ _ _ (Nat.le_refl _) hs, slice_ok c.buffer start stop (by omega) hs]
  obtain ⟨ht, hl⟩ := shiftBuf_spec c.buffer start stop (by omega) hs
  refine ⟨?_, ?_, ?_⟩
  · simp only [Conn00.abs]
    rw [ht]
  · show _ = P.B
    rw [hl]; exact hwf.1
  · show stop - start ≤ P.B
    omega

/-! ### the parse functions -/

theorem parseRequestLine00_sim (P : Params RL H) (c : Conn00 RL H) (start stop : Nat) (hwf : c.WF P) :
    RelS P c.buffer (parseRequestLine00 P c start stop)
      (parseRequestLine P c.abs (c.buffer.take stop) start stop) := by
  unfold parseRequestLine00 parseRequestLine
  by_cases h1 : stop < start
  · simp only [h1, if_true]; exact rfl
  by_cases h2 : stop > P.B
  · simp only [h1, h2, if_true, if_false]; exact rfl
  simp only [h1, h2, if_false]
  have hs : stop ≤ c.buffer.length := by have := hwf.1; omega
  rw [slice_take _ _ _ _ (Nat.le_refl _) hs, slice_ok c.buffer start stop (by omega) hs]
  simp only [bind, Except.bind, find_CRLF_eq]
  cases hf : findCRLF ((c.buffer.drop start).take (stop - start)) with
  | none =>
    simp only
    split
    · exact rfl
    · exact RelS_of_RelE P c.buffer start _ _ (shiftLeft00_sim P c start stop hwf)
  | some i =>
    have hb := findCRLF_some_bound _ _ hf
    simp only [List.length_take, List.length_drop] at hb
    have hle : start + i ≤ stop := by omega
    simp only
    rw [slice_take _ _ _ _ hle hs, slice_ok c.buffer start (start + i) (by omega) (by omega)]
    simp only
    cases P.parseRL ((c.buffer.drop start).take (start + i - start)) with
    | error e => exact rfl
    | ok rl => exact ⟨rfl, rfl, rfl, hwf, fun _ => rfl⟩

theorem parseHeaders00_sim (P : Params RL H) (c : Conn00 RL H) (start stop : Nat) (hwf : c.WF P) :
    RelS P c.buffer (parseHeaders00 P c start stop)
      (parseHeaders P c.abs (c.buffer.take stop) start stop) := by
  unfold parseHeaders00 parseHeaders
  by_cases h1 : stop > P.B
  · simp only [h1, if_true]; exact rfl
  by_cases h2 : stop < start
  · simp only [h1, h2, if_true, if_false]; exact rfl
  simp only [h1, h2, if_false]
  have hs : stop ≤ c.buffer.length := by have := hwf.1; omega
  rw [slice_take _ _ _ _ (Nat.le_refl _) hs, slice_ok c.buffer start stop (by omega) hs]
  simp only [bind, Except.bind, find_CRLF_eq]
  have hpend : c.abs.pending = c.pending := rfl
  have hlim : c.abs.limit = c.limit := rfl
  have hq : c.abs.respQ = c.respQ := rfl
  cases hf : findCRLF ((c.buffer.drop start).take (stop - start)) with
  | none =>
    simp only
    split
    · rename_i hh
      have : c.buffer.take stop = c.buffer := by
        apply List.take_of_length_le; have := hwf.1; omega
      rw [this]; exact rfl
    · exact RelS_of_RelE P c.buffer start _ _ (shiftLeft00_sim P c start stop hwf)
  | some i =>
    have hb := findCRLF_some_bound _ _ hf
    simp only [List.length_take, List.length_drop] at hb
    cases i with
    | zero =>
      simp only [hpend, hlim, hq]
      cases hp : c.pending with
      | none => exact rfl
      | some r =>
        simp only
        split
        · exact ⟨rfl, rfl, rfl, hwf, fun _ => rfl⟩
        · split
          · exact rfl
          · exact ⟨rfl, rfl, rfl, hwf, fun _ => rfl⟩
    | succ j =>
      simp only [hpend]
      cases hp : c.pending with
      | none => exact rfl
      | some r =>
        simp only
        have hle : j + 1 + start ≤ stop := by omega
        rw [slice_take _ _ _ _ hle hs, slice_ok c.buffer start (j + 1 + start) (by omega) (by omega)]
        simp only
        cases P.parseHL r.headers ((c.buffer.drop start).take (j + 1 + start - start)) with
        | error e => exact rfl
        | ok h' => exact ⟨rfl, rfl, rfl, hwf, fun _ => rfl⟩

theorem parseBody00_sim (P : Params RL H) (c : Conn00 RL H) (start stop : Nat) (hwf : c.WF P) :
    RelS P c.buffer (parseBody00 P c start stop)
      (parseBody P c.abs (c.buffer.take stop) start stop) := by
  unfold parseBody00 parseBody
  by_cases h1 : stop > P.B
  · simp only [h1, if_true]; exact rfl
  by_cases h2 : stop < start
  · simp only [h1, h2, if_true, if_false]; exact rfl
  simp only [h1, h2, if_false]
  have hs : stop ≤ c.buffer.length := by have := hwf.1; omega
  have hpend : c.abs.pending = c.pending := rfl
  have htr : c.abs.toRead = c.toRead := rfl
  have hbv : c.abs.bodyVec = c.bodyVec := rfl
  simp only [hpend, htr, hbv]
  by_cases h3 : c.toRead > stop - start
  · simp only [h3, if_true]
    rw [slice_take _ _ _ _ (Nat.le_refl _) hs, slice_ok c.buffer start stop (by omega) hs]
    simp only [bind, Except.bind, pure, Except.pure]
    refine ⟨?_, rfl, rfl, ⟨?_, ?_⟩, fun hm => by cases hm⟩
    · simp [Conn00.abs]
    · show (zeroLoop _ _).length = P.B
      rw [zeroLoop_length]; exact hwf.1
    · show 0 ≤ P.B
      omega
  · simp only [h3, if_false]
    have hle : start + c.toRead ≤ stop := by omega
    rw [slice_take _ _ _ _ hle hs, slice_ok c.buffer start (start + c.toRead) (by omega) (by omega)]
    simp only [bind, Except.bind, pure, Except.pure]
    cases hp : c.pending with
    | none => exact rfl
    | some r =>
      simp only
      split
      · exact rfl
      · split
        · exact rfl
        · exact ⟨rfl, rfl, rfl, hwf, fun _ => rfl⟩

theorem stepReady00_sim (P : Params RL H) (c : Conn00 RL H) (hwf : c.WF P) :
    match stepReady00 c, stepReady c.abs with
    | .error f, .error g => f = g
    | .ok c', .ok d' => c'.abs = d' ∧ c'.WF P ∧ c'.buffer = c.buffer
    | _, _ => False := by
  unfold stepReady00 stepReady
  have hpend : c.abs.pending = c.pending := rfl
  simp only [hpend]
  cases hp : c.pending with
  | none => exact rfl
  | some r => exact ⟨rfl, hwf, rfl⟩

/-! ### the loop -/

/-- the conclusion of the simulation for a pair of loop results -/
def RelL (P : Params RL H) (r00 : Conn00 RL H × Option Fault) (r : Conn RL H × Option Fault) : Prop :=
  r00.2 = r.2 ∧ r00.1.abs = r.1 ∧ r00.1.WF P

theorem loop_step_sim (P : Params RL H) (fuel stop : Nat) (c : Conn00 RL H) (hwf : c.WF P)
    (x : Except Fault (Conn00 RL H × Nat × Bool)) (y : Except Fault (Conn RL H × Nat × Bool))
    (h : RelS P c.buffer x y)
    (ih : ∀ (c' : Conn00 RL H) (s' : Nat), c'.WF P →
      RelL P (loop00 P fuel c' s' stop) (loop P fuel c'.abs (c'.buffer.take stop) s' stop)) :
    RelL P
      (match (generalizing := false) x with
        | .error f => (c, some f)
        | .ok (c', s', more) => if more then loop00 P fuel c' s' stop else (c', none))
      (match (generalizing := false) y with
        | .error f => (c.abs, some f)
        | .ok (c', s', more) => if more then loop P fuel c' (c.buffer.take stop) s' stop else (c', none)) := by
  cases x with
  | error f =>
    cases y with
    | error g =>
      have hfg : f = g := h
      subst hfg
      exact ⟨rfl, rfl, hwf⟩
    | ok v => exact h.elim
  | ok u =>
    cases y with
    | error g => exact h.elim
    | ok v =>
      obtain ⟨c', s', m⟩ := u
      obtain ⟨d', t', m'⟩ := v
      obtain ⟨h1, h2, h3, h4, h5⟩ := h
      subst h1; subst h2; subst h3
      cases m with
      | false => exact ⟨rfl, rfl, h4⟩
      | true =>
        simp only [if_true]
        rw [← h5 rfl]
        exact ih c' s' h4

theorem loop00_sim (P : Params RL H) (fuel : Nat) (c : Conn00 RL H) (start stop : Nat) (hwf : c.WF P) :
    RelL P (loop00 P fuel c start stop) (loop P fuel c.abs (c.buffer.take stop) start stop) := by
  induction fuel generalizing c start with
  | zero => exact ⟨rfl, rfl, hwf⟩
  | succ fuel ih =>
    rw [loop00, loop]
    have hst : c.abs.state = c.state := rfl
    rw [hst]
    cases hs : c.state with
    | reqLine =>
      simp only
      exact loop_step_sim P fuel stop c hwf _ _ (parseRequestLine00_sim P c start stop hwf)
        (fun c' s' h' => ih c' s' h')
    | headers =>
      simp only
      exact loop_step_sim P fuel stop c hwf _ _ (parseHeaders00_sim P c start stop hwf)
        (fun c' s' h' => ih c' s' h')
    | body =>
      simp only
      exact loop_step_sim P fuel stop c hwf _ _ (parseBody00_sim P c start stop hwf)
        (fun c' s' h' => ih c' s' h')
    | ready =>
      simp only
      have h := stepReady00_sim P c hwf
      generalize stepReady00 c = x at h
      generalize stepReady c.abs = y at h
      cases x with
      | error f =>
        cases y with
        | error g =>
          have hfg : f = g := h
          subst hfg
          exact ⟨rfl, rfl, hwf⟩
        | ok v => exact h.elim
      | ok c' =>
        cases y with
        | error g => exact h.elim
        | ok d' =>
          obtain ⟨h1, h2, h3⟩ := h
          subst h1
          simp only
          rw [← h3]
          exact ih c' start h2

/-! ### `try_read` -/

theorem resetParser00_abs (c : Conn00 RL H) : (resetParser00 c).abs = resetParser c.abs := by
  simp [resetParser00, resetParser, Conn00.abs]

theorem resetParser00_WF (P : Params RL H) (c : Conn00 RL H) (h : c.WF P) : (resetParser00 c).WF P :=
  ⟨h.1, Nat.zero_le _⟩

theorem abs_win_length (P : Params RL H) (c : Conn00 RL H) (h : c.WF P) :
    c.abs.win.length = c.readCursor := by
  have h1 := h.1
  have h2 := h.2
  simp [Conn00.abs]; omega

theorem tryRead00_sim (P : Params RL H) (c : Conn00 RL H) (hwf : c.WF P) (inp : Recv) :
    (tryRead00 P c inp).2 = (tryRead P c.abs inp).2 ∧
    (tryRead00 P c inp).1.abs = (tryRead P c.abs inp).1 ∧
    (tryRead00 P c inp).1.WF P := by
  unfold tryRead00 tryRead
  rw [abs_win_length P c hwf]
  by_cases h1 : c.readCursor ≥ P.B
  · rw [if_pos h1, if_pos h1]
    exact ⟨rfl, resetParser00_abs c, resetParser00_WF P c hwf⟩
  rw [if_neg h1, if_neg h1]
  cases inp with
  | err errno => exact ⟨rfl, rfl, hwf⟩
  | data chunk fds =>
    simp only
    have hlen := hwf.1
    have hrc : c.readCursor ≤ c.buffer.length := by omega
    have hcl : (chunk.take (P.B - c.readCursor)).length ≤ P.B - c.readCursor := by
      simp only [List.length_take]; omega
    generalize chunk.take (P.B - c.readCursor) = chunk' at hcl
    have hwl : (writeAt c.buffer c.readCursor chunk').length = P.B := by
      rw [writeAt_length _ _ _ (by omega)]; exact hlen
    -- the connection handed to the loop
    have hwf1 : ({ c with files := c.files ++ fds, buffer := writeAt c.buffer c.readCursor chunk' } :
        Conn00 RL H).WF P := ⟨hwl, hwf.2⟩
    have habs1 : ({ c with files := c.files ++ fds, buffer := writeAt c.buffer c.readCursor chunk' } :
        Conn00 RL H).abs = { c.abs with files := c.abs.files ++ fds } := by
      simp only [Conn00.abs]
      rw [writeAt_take_at _ _ _ hrc]
    by_cases he : chunk'.isEmpty
    · rw [if_pos he, if_pos he]
      exact ⟨rfl, habs1, hwf1⟩
    · rw [if_neg he, if_neg he]
      have hbuf : (writeAt c.buffer c.readCursor chunk').take (c.readCursor + chunk'.length)
          = c.abs.win ++ chunk' := writeAt_take _ _ _ hrc
      have hl : (c.abs.win ++ chunk').length = c.readCursor + chunk'.length := by
        rw [List.length_append, abs_win_length P c hwf]
      have hsim := loop00_sim P (fuelFor P)
        { c with files := c.files ++ fds, buffer := writeAt c.buffer c.readCursor chunk' }
        0 (c.readCursor + chunk'.length) hwf1
      rw [habs1] at hsim
      simp only [hbuf] at hsim
      rw [hl]
      generalize loop00 P (fuelFor P)
        { c with files := c.files ++ fds, buffer := writeAt c.buffer c.readCursor chunk' }
        0 (c.readCursor + chunk'.length) = r00 at hsim
      generalize loop P (fuelFor P) { c.abs with files := c.abs.files ++ fds } (c.abs.win ++ chunk') 0
        (c.readCursor + chunk'.length) = r at hsim
      obtain ⟨c2, o2⟩ := r00
      obtain ⟨d2, p2⟩ := r
      obtain ⟨h2, h3, h4⟩ := hsim
      simp only at h2 h3 h4
      subst h2; subst h3
      cases o2 with
      | none => exact ⟨rfl, rfl, h4⟩
      | some f =>
        cases f with
        | parse e => exact ⟨rfl, resetParser00_abs c2, resetParser00_WF P c2 h4⟩
        | panic p => exact ⟨rfl, rfl, h4⟩

end MicroHttp
