/-
  Proofs.SrvPoll — facts about a whole poll (`runEvents`, `requests`): unfolding equations, the
  kill switch registration is inert for batches without the kill event and is never consumed.
-/
import MicroHttp.Proofs.SrvInv
namespace MicroHttp

theorem runEvents_cons_abort (s : Srv) (ev : Ev) (evs : List Ev) (reqs : List (Token × Request))
    (effs : List Effect) (a : Abort) (h : (handleEv s ev).2.2.2 = some a) :
    runEvents s (ev :: evs) reqs effs = ((handleEv s ev).1, reqs, effs ++ (handleEv s ev).2.2.1, some a) := by
  rw [runEvents]
  revert h
  generalize handleEv s ev = p
  obtain ⟨s', r', e', a'⟩ := p
  intro h
  simp only at h
  subst h
  rfl

theorem runEvents_cons_ok (s : Srv) (ev : Ev) (evs : List Ev) (reqs : List (Token × Request))
    (effs : List Effect) (h : (handleEv s ev).2.2.2 = none) :
    runEvents s (ev :: evs) reqs effs =
      runEvents (handleEv s ev).1 evs (reqs ++ (handleEv s ev).2.1) (effs ++ (handleEv s ev).2.2.1) := by
  rw [runEvents]
  revert h
  generalize handleEv s ev = p
  obtain ⟨s', r', e', a'⟩ := p
  intro h
  simp only at h
  subst h
  rfl

/-! ### the kill switch is never consumed -/

theorem runEvents_hasKill (evs : List Ev) (s : Srv) (reqs : List (Token × Request)) (effs : List Effect) :
    (runEvents s evs reqs effs).1.hasKill = s.hasKill := by
  induction evs generalizing s reqs effs with
  | nil => rfl
  | cons ev evs ih =>
    cases ha : (handleEv s ev).2.2.2 with
    | some a => rw [runEvents_cons_abort s ev evs reqs effs a ha]; exact handleEv_hasKill s ev
    | none => rw [runEvents_cons_ok s ev evs reqs effs ha, ih]; exact handleEv_hasKill s ev

theorem requests_hasKill (s : Srv) (evs : List Ev) : (requests s evs).1.hasKill = s.hasKill := by
  cases ha : (runEvents s evs [] []).2.2.2 with
  | some a => rw [requests_eq_aborted s evs a ha]; exact runEvents_hasKill evs s [] []
  | none => rw [requests_eq_ok s evs ha]; exact runEvents_hasKill evs s [] []

/-! ### the kill switch registration does not influence other events -/

theorem handleEv_setKill (s : Srv) (b : Bool) (ev : Ev) (hne : ev ≠ .kill) :
    handleEv { s with hasKill := b } ev = ({ (handleEv s ev).1 with hasKill := b }, (handleEv s ev).2) := by
  cases ev with
  | kill => exact absurd rfl hne
  | listener newFd =>
    by_cases hlen : s.conns.length = MAX_CONNECTIONS
    · rw [handleEv_listener_full s newFd hlen, handleEv_listener_full { s with hasKill := b } newFd hlen]
    · rw [handleEv_listener_accept s newFd hlen, handleEv_listener_accept { s with hasKill := b } newFd hlen]
  | client fd fl rd t w =>
    cases hf : findClient s.conns fd with
    | none => rw [handleEv_unknown s fd fl rd t w hf, handleEv_unknown { s with hasKill := b } fd fl rd t w hf]
    | some c =>
      cases hh : fl.hup with
      | true =>
        rw [handleEv_hup s fd fl rd t w c hf hh, handleEv_hup { s with hasKill := b } fd fl rd t w c hf hh]
      | false =>
        cases hi : fl.inn with
        | true =>
          cases hp : (c.read rd t).2.2 with
          | none =>
            rw [handleEv_in s fd fl rd t w c hf hh hi hp,
              handleEv_in { s with hasKill := b } fd fl rd t w c hf hh hi hp]
          | some p =>
            rw [handleEv_in_panic s fd fl rd t w c hf hh hi p hp,
              handleEv_in_panic { s with hasKill := b } fd fl rd t w c hf hh hi p hp]
        | false =>
          cases ho : fl.out with
          | true =>
            rw [handleEv_out s fd fl rd t w c hf hh hi ho,
              handleEv_out { s with hasKill := b } fd fl rd t w c hf hh hi ho]
          | false =>
            rw [handleEv_noflags s fd fl rd t w c hf hh hi ho,
              handleEv_noflags { s with hasKill := b } fd fl rd t w c hf hh hi ho]

theorem runEvents_setKill (evs : List Ev) (hk : Ev.kill ∉ evs) (s : Srv) (b : Bool)
    (reqs : List (Token × Request)) (effs : List Effect) :
    runEvents { s with hasKill := b } evs reqs effs =
      ({ (runEvents s evs reqs effs).1 with hasKill := b }, (runEvents s evs reqs effs).2) := by
  induction evs generalizing s reqs effs with
  | nil => rfl
  | cons ev evs ih =>
    have hne : ev ≠ .kill := by intro e; apply hk; rw [e]; exact List.mem_cons_self
    have hk' : Ev.kill ∉ evs := fun hm => hk (List.mem_cons_of_mem _ hm)
    have hstep := handleEv_setKill s b ev hne
    cases ha : (handleEv s ev).2.2.2 with
    | some a =>
      have ha' : (handleEv { s with hasKill := b } ev).2.2.2 = some a := by rw [hstep]; exact ha
      rw [runEvents_cons_abort s ev evs reqs effs a ha, runEvents_cons_abort _ ev evs reqs effs a ha', hstep]
    | none =>
      have ha' : (handleEv { s with hasKill := b } ev).2.2.2 = none := by rw [hstep]; exact ha
      rw [runEvents_cons_ok s ev evs reqs effs ha, runEvents_cons_ok _ ev evs reqs effs ha', hstep]
      exact ih hk' _ _ _

theorem requests_setKill (s : Srv) (evs : List Ev) (hk : Ev.kill ∉ evs) (b : Bool) :
    requests { s with hasKill := b } evs = ({ (requests s evs).1 with hasKill := b }, (requests s evs).2) := by
  have hrun := runEvents_setKill evs hk s b [] []
  cases ha : (runEvents s evs [] []).2.2.2 with
  | some a =>
    have ha' : (runEvents { s with hasKill := b } evs [] []).2.2.2 = some a := by rw [hrun]; exact ha
    rw [requests_eq_aborted s evs a ha, requests_eq_aborted _ evs a ha', hrun]
  | none =>
    have ha' : (runEvents { s with hasKill := b } evs [] []).2.2.2 = none := by rw [hrun]; exact ha
    rw [requests_eq_ok s evs ha, requests_eq_ok _ evs ha', hrun]
    rfl

/-! ### outcome of a poll under the invariant -/

theorem requests_outcome (s : Srv) (h : SrvInv s) (evs : List Ev) (hev : EvsOK s evs) :
    (Ev.kill ∈ evs ∧ (requests s evs).2.1 = .aborted .shutdown) ∨
    (Ev.kill ∉ evs ∧ ∃ reqs, (requests s evs).2.1 = .ok reqs) := by
  rcases (runEvents_inv evs s h hev [] []).2 with ⟨k, g⟩ | ⟨k, g⟩
  · left; rw [requests_eq_aborted s evs _ g]; exact ⟨k, rfl⟩
  · right; rw [requests_eq_ok s evs g]; exact ⟨k, _, rfl⟩

end MicroHttp
