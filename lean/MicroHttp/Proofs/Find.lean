/-
  Proofs.Find — `find CRLF` as a structurally recursive search (`findCRLF`), position facts about the
  first CRLF, and the relation to `endsCRLF`.
-/
import MicroHttp.ConnSpec
namespace MicroHttp

/-- specialised CRLF search, convenient for induction -/
def findCRLF : List Byte → Option Nat
  | a :: b :: rest => if a = CR ∧ b = LF then some 0 else (findCRLF (b :: rest)).map (· + 1)
  | _ => none

theorem find_CRLF_eq (l : List Byte) : find CRLF l = findCRLF l := by
  fun_induction findCRLF l with
  | case1 a b rest h => simp [find, CRLF, List.isPrefixOf, h.1, h.2]
  | case2 a b rest h ih =>
    rw [find, ih]
    have : (CRLF.isPrefixOf (a :: b :: rest)) = false := by
      simp only [CRLF, List.isPrefixOf, Bool.and_true]
      rw [Bool.and_eq_false_iff]
      by_cases h1 : a = CR
      · right; simp only [beq_eq_false_iff_ne, ne_eq]; intro h2; exact h ⟨h1, h2.symm⟩
      · left; simp only [beq_eq_false_iff_ne, ne_eq]; intro h2; exact h1 h2.symm
    simp [this]
  | case3 l h =>
    match l with
    | [] => simp [find]
    | [a] => simp [find, CRLF, List.isPrefixOf]
    | a :: b :: rest => exact absurd rfl (h a b rest)

theorem endsCRLF_cons (a b c : Byte) (l : List Byte) :
    endsCRLF (a :: b :: c :: l) = endsCRLF (b :: c :: l) := by
  simp only [endsCRLF, List.reverse_cons, List.append_assoc]
  generalize l.reverse = r
  cases r with
  | nil => simp
  | cons x r' => cases r' <;> simp

theorem findCRLF_none_endsCRLF (l : List Byte) (h : findCRLF l = none) : endsCRLF l = false := by
  fun_induction findCRLF l with
  | case1 a b rest hab => simp at h
  | case2 a b rest hab ih =>
    simp at h
    have ih' := ih h
    match rest with
    | [] =>
      simp only [endsCRLF, List.reverse_cons, List.reverse_nil, List.nil_append, List.cons_append]
      simp only [not_and] at hab
      by_cases h1 : a = CR
      · simp [h1, hab h1]
      · simp [h1]
    | c :: rest' => rw [endsCRLF_cons]; exact ih'
  | case3 l hl =>
    match l with
    | [] => simp [endsCRLF]
    | [a] => simp [endsCRLF]
    | a :: b :: rest => exact absurd rfl (hl a b rest)

theorem findCRLF_prefix_none (l m : List Byte) (h : findCRLF (l ++ m) = none) : findCRLF l = none := by
  fun_induction findCRLF l with
  | case1 a b rest hab => simp [findCRLF, hab] at h
  | case2 a b rest hab ih =>
    simp [findCRLF, hab] at h
    simp [ih h]
  | case3 l hl => rfl

/-- position facts about the first CRLF -/
theorem findCRLF_some_bound (l : List Byte) (i : Nat) (h : findCRLF l = some i) : i + 2 ≤ l.length := by
  fun_induction findCRLF l generalizing i with
  | case1 a b rest hab => simp at h; subst h; simp
  | case2 a b rest hab ih =>
    simp at h
    obtain ⟨j, hj, rfl⟩ := h
    have := ih j hj
    simp at this ⊢; omega
  | case3 l hl => simp at h

theorem findCRLF_take_succ_none (l : List Byte) (i : Nat) (h : findCRLF l = some i) :
    findCRLF (l.take (i + 1)) = none := by
  fun_induction findCRLF l generalizing i with
  | case1 a b rest hab => simp at h; subst h; simp [findCRLF]
  | case2 a b rest hab ih =>
    simp at h
    obtain ⟨j, hj, rfl⟩ := h
    have hj' := ih j hj
    simp only [List.take_succ_cons] at hj' ⊢
    rw [findCRLF]
    simp [hab, hj']
  | case3 l hl => simp at h

theorem findCRLF_take_ends (l : List Byte) (i : Nat) (h : findCRLF l = some i) :
    endsCRLF (l.take (i + 2)) = true := by
  fun_induction findCRLF l generalizing i with
  | case1 a b rest hab => simp at h; subst h; simp [endsCRLF, hab.1, hab.2]
  | case2 a b rest hab ih =>
    simp at h
    obtain ⟨j, hj, rfl⟩ := h
    have := ih j hj
    have hb := findCRLF_some_bound _ _ hj
    simp only [List.take_succ_cons] at this ⊢
    match rest, hb, this with
    | [], hb, _ => simp at hb
    | c :: rest', hb, this =>
      simp only [List.take_succ_cons] at this ⊢
      rw [endsCRLF_cons]; exact this
  | case3 l hl => simp at h

end MicroHttp
