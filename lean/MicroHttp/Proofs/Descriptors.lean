/-
  Proofs.Descriptors — ownership of received descriptors (C12): one `try_read` conserves them.
-/
import MicroHttp.Proofs.Safe
namespace MicroHttp
variable {RL H : Type}

/-- same as `C12.filesOf` -/
def filesOf' (rs : List (Req RL H)) : List Nat := rs.flatMap (·.files)

theorem filesOf'_append (a b : List (Req RL H)) : filesOf' (a ++ b) = filesOf' a ++ filesOf' b := by
  simp [filesOf', List.flatMap_append]

theorem filesOf'_clear (rs : List (Req RL H)) :
    filesOf' (rs.map (fun r => { r with files := [] })) = [] := by
  induction rs with
  | nil => rfl
  | cons r rs ih =>
    simp only [filesOf', List.map_cons, List.flatMap_cons, List.nil_append] at ih ⊢
    exact ih

theorem filesOf'_attach (fs : List Nat) (ds : List (Req RL H)) :
    filesOf' (attach fs ds) = if ds = [] then [] else fs := by
  cases ds with
  | nil => rfl
  | cons d ds =>
    have := filesOf'_clear ds
    simp only [filesOf'] at this
    simp [attach, filesOf', this]

/-- a read that ends `ok`, from the refinement theorem -/
theorem tryRead_ok_files (P : Params RL H) (hP : P.WF) (c : Conn RL H) (hI : Inv P c)
    (chunk : List Byte) (fds : List Nat) (hne : chunk ≠ [])
    (c' : Conn RL H) (out : ReadOut) (h : tryRead P c (.data chunk fds) = (c', out))
    (hnp : ∀ e, out ≠ .parseErr e) :
    ∃ ds : List (Req RL H), out = .ok ∧ c'.parsed = c.parsed ++ attach (c.files ++ fds) ds ∧
      c'.files = (if ds = [] then c.files ++ fds else []) := by
  cases hfd : feed P c.limit (absOf c) (chunk.take (P.B - c.win.length)) with
  | mk outs r =>
    obtain ⟨p1, _, _, _, _, p6⟩ := tryRead_refines' P hP c hI chunk fds hne c' out h outs r hfd
    cases r with
    | error e => exact absurd p6.1 (hnp e)
    | ok a => exact ⟨delivers outs, p6.1, p1, p6.2.2⟩

theorem first_completer' (P : Params RL H) (hP : P.WF) (c : Conn RL H) (hI : Inv P c)
    (chunk : List Byte) (fds : List Nat) (hne : chunk ≠ [])
    (c' : Conn RL H) (h : tryRead P c (.data chunk fds) = (c', .ok)) :
    ∃ new : List (Req RL H), c'.parsed = c.parsed ++ new ∧
      (new = [] → c'.files = c.files ++ fds) ∧
      (∀ r rs, new = r :: rs → r.files = c.files ++ fds ∧ (∀ x ∈ rs, x.files = []) ∧ c'.files = []) := by
  obtain ⟨ds, _, h1, h2⟩ := tryRead_ok_files P hP c hI chunk fds hne c' .ok h (by intro e h'; cases h')
  refine ⟨attach (c.files ++ fds) ds, h1, ?_, ?_⟩
  · intro hn
    cases ds with
    | nil => simpa using h2
    | cons d ds => simp [attach] at hn
  · intro r rs hn
    cases ds with
    | nil => simp [attach] at hn
    | cons d ds =>
      simp only [attach, List.cons.injEq] at hn
      obtain ⟨rfl, rfl⟩ := hn
      refine ⟨rfl, ?_, by simpa using h2⟩
      intro x hx
      obtain ⟨y, _, rfl⟩ := List.mem_map.mp hx
      rfl

theorem eof_keeps' (P : Params RL H) (c : Conn RL H) (hI : Inv P c) (fds : List Nat) :
    (tryRead P c (.data [] fds)).1.files = c.files ++ fds ∧ (tryRead P c (.data [] fds)).1.parsed = c.parsed := by
  rw [tryRead_eof' P c hI fds]; exact ⟨rfl, rfl⟩

theorem failed_read_keeps' (P : Params RL H) (c : Conn RL H) (hI : Inv P c) (e : Nat) :
    (tryRead P c (.err e)).1.files = c.files ∧ (tryRead P c (.err e)).1.parsed = c.parsed := by
  rw [tryRead_err' P c hI e]; exact ⟨rfl, rfl⟩

/-- the descriptors one read receives -/
def fdsOf : Recv → List Nat
  | .data _ fds => fds
  | .err _ => []

/-- One read that does not report a parse error conserves descriptors and keeps the invariant. -/
theorem step_conserve (P : Params RL H) (hP : P.WF) (c : Conn RL H) (hI : Inv P c) (i : Recv)
    (c' : Conn RL H) (out : ReadOut) (h : tryRead P c i = (c', out)) (hnp : ∀ e, out ≠ .parseErr e) :
    Inv P c' ∧ filesOf' c'.parsed ++ c'.files = filesOf' c.parsed ++ c.files ++ fdsOf i := by
  have hs := (tryRead_safe' P hP c hI i).1
  rw [h] at hs
  refine ⟨hs, ?_⟩
  cases i with
  | err e =>
    have := failed_read_keeps' P c hI e
    rw [h] at this
    simp only at this
    rw [this.1, this.2]; simp [fdsOf]
  | data chunk fds =>
    by_cases hne : chunk = []
    · subst hne
      have := eof_keeps' P c hI fds
      rw [h] at this
      simp only at this
      rw [this.1, this.2]; simp [fdsOf]
    · obtain ⟨ds, _, h1, h2⟩ := tryRead_ok_files P hP c hI chunk fds hne c' out h hnp
      rw [h1, h2, filesOf'_append, filesOf'_attach]
      by_cases hd : ds = []
      · simp [hd, fdsOf]
      · simp [hd, fdsOf]

theorem pop_moves' (c : Conn RL H) (r : Req RL H) (c' : Conn RL H) (h : popParsed c = (c', some r)) :
    filesOf' c.parsed = r.files ++ filesOf' c'.parsed ∧ c'.files = c.files := by
  unfold popParsed at h
  cases hp : c.parsed with
  | nil => rw [hp] at h; simp at h
  | cons x xs =>
    rw [hp] at h
    simp only [Prod.mk.injEq, Option.some.injEq] at h
    obtain ⟨rfl, rfl⟩ := h
    exact ⟨by simp [filesOf'], rfl⟩

end MicroHttp
